#!/usr/bin/env python3
"""keep_seed.py <seed id> <property> <needs> <detected_by> [note]  — copies a confirmed seeded change from /tmp/seed_out/<id> to /verif/seeded/<id>/"""
import sys, os, shutil, json, re
sid, prop, needs, detected = sys.argv[1:5]
note = sys.argv[5] if len(sys.argv) > 5 else ""
src = "/tmp/seed_out/" + sid
dst = "/verif/seeded/" + sid
os.makedirs(dst, exist_ok=True)
shutil.copy(src + "/patch.diff", dst)
if os.path.exists(src + "/patch_current.diff"):
    shutil.copy(src + "/patch_current.diff", dst)
if os.path.isdir(dst + "/demo"):
    shutil.rmtree(dst + "/demo")
shutil.copytree(src + "/demo", dst + "/demo")
if os.path.exists(src + "/NOTES.md"):
    shutil.copy(src + "/NOTES.md", dst + "/NOTES.md")
res = ""
log = "/tmp/seedlogs/%s.log" % sid
if os.path.exists(log):
    for l in open(log, errors="replace"):
        if l.startswith("RESULT"):
            res = l.strip()
meta = {
    "seed": sid, "property": prop, "base_commit": os.environ.get("SEED_BASE", "4c29a34") + " (4c29a34 = pinned snapshot, 7c5b5f0 = pinned snapshot plus the fix commits; patch_current.diff, when present, is the same change rebased onto the current tree)",
    "what_it_breaks": open(src + "/NOTES.md").read().split("\n\n")[1][:600] if os.path.exists(src + "/NOTES.md") else "",
    "needs_to_manifest": needs,
    "produced_by": "independent sub-agent given only the property text and a scratch worktree",
    "confirmed_by": "verify_seed.sh in a fresh scratch worktree of the base commit (removed afterwards): patch applies and builds; demo passes without the patch and fails with it; existing suite passes with the patch (src/node in a private network namespace where TestWebRTCGossip cannot run; src/net outside it; known flaky tests ignored)",
    "verify_result": res,
    "detected_by": detected,
    "note": note,
}
json.dump(meta, open(dst + "/meta.json", "w"), indent=1)
print("kept", dst)
