package main

import (
	"fmt"
	"go/constant"
	"go/types"
	"sort"
	"strings"

	"golang.org/x/tools/go/ssa"
)

func init() {
	register(&propDef{
		ID: "C03", NeedCG: true,
		Meta: propMeta{Level: "other", Assumptions: commonAssumptions,
			Explanation: "Decides: C03.local (the consensus functions — round, witness, Lamport timestamp, ancestry, strongly-see, fame, round-received, frame/root/block construction, thresholds, median — and everything they call inside the module, stopping at the Store boundary, read none of the process-local fields (topological indexes, consensus-event counter, pending-loaded counter), call no clock / randomness / OS function and none of the view-dependent store getters), " +
				"C03.order (no ordered output — Frame.Events, Root.Events, Frame.Peers, block transactions — is filled from a map iteration, from a map-ordered helper result or from a local-arrival-ordered queue without a dominating content-keyed sort), " +
				"C03.memo (each memo cache is filled only by its wrapper with the wrapped function's result for the same arguments, keyed by ALL parameters, and by InsertFrameEvent / Reset), " +
				"C03.mappick (no consensus function lets a value of one iteration of a map range escape through an early exit: counting and order-independent predicates only), C03.timestamp (the frame timestamp is computed from the famous witnesses of the decided round, not from whatever witnesses are registered at the time; shared with C18.prov), C03.passstate (non-interference: nothing reachable from InsertEvent reads what the consensus passes write — recorded rounds, RoundInfo, memoised round/witness —, since whatever insertion writes into the DAG summary would then depend on how many passes ran between insertions; on the current tree updateAncestorFirstDescendant does: known finding F-C03-2, differential reproduction in /verif/findings/F-C03-2), " +
				"C03.memotime (a necessary condition of batching-independence: the memoised round / witness predicates — whose value depends on which witnesses DivideRounds has registered so far — are never evaluated on the insertion path, only by the consensus passes), C03.canon (frame and round encoders are canonical). " +
				"C03.recency (the one structural fact behind cache-size independence: a read refreshes an LRU entry — LRU.Get moves every hit to the front and nobody takes a cached value out through Peek — so values that are only read, like the last consensus events of a quiet validator, are not evicted by newer writes). " +
				"NOT decided: independence from cache size, store type and batching of consensus passes (a quantification over configurations of a dynamic process; LRU-eviction dependence of GetRound is a runtime question)."},
		Rules: []ruleFunc{c03local, c03order, c03memo, c03memotime, c03passstate, func(p *Prog, r *Report) { timestampRule(p, r, "C03.timestamp") }, func(p *Prog, r *Report) { mapPickRule(p, r, "C03.mappick", consensusFuncs) }, func(p *Prog, r *Report) { r.Rule("C03.canon", 2, "canonical encoders"); canonRule(p, r, "C03.canon") }, func(p *Prog, r *Report) { recencyRule(p, r, "C03.recency") }},
	})
	register(&propDef{
		ID: "C13", NeedCG: true,
		Meta: propMeta{Level: "other", Assumptions: commonAssumptions,
			Explanation: "STRUCTURAL CLAUSES ONLY. Decided: C13.frames (frames are view-independent: the frame-building slice of C03.local / C03.order / C03.canon; roots of silent creators come from LastConsensusEventFrom, never LastEventFrom; ROOT_DEPTH is a constant bounding createRoot's loop), " +
				"C13.reset (Hashgraph.Reset inserts every frame.SortedFrameEvents() element through InsertFrameEvent — which seeds round / witness / Lamport caches from the frame's values — before storing the block; Node.fastForward re-derives the anchor block's pending membership changes after a successful core reset), " +
				"C13.resetfields (InmemStore.Reset and Hashgraph.Reset re-initialise every listed piece of state: nothing of the pre-reset chain survives), C13.latest (validators after the reset are the latest recorded set), C13.anchorreceipts (the accepted receipts of the anchor block are applied after the reset: processAcceptedInternalTransactions has no early success exit that depends on state the reset just wrote; shared with C10.everyreceipt), C13.resetorder (Store.Reset replays frame.PeerSets — a map — in arbitrary order, so PeerSetCache.Set must be insensitive to the order of calls: a peer's first round is lowered when an earlier round arrives later, the round list is re-sorted). " +
				"C13.framedecided (Hashgraph.GetFrame stores what it computes, so it is called only for final rounds; shared with C04.framedecided). " +
				"NOT decided — and said so: that a reset node DELIVERS THE SAME BLOCKS afterwards; that depends on which events arrive after the reset (an event whose other-parent lies below the frame cannot be inserted; the documentation concedes the protocol is not watertight)."},
		Rules: []ruleFunc{c13frames, c13reset, c13resetfields, func(p *Prog, r *Report) { latestRule(p, r, "C13.latest") }, func(p *Prog, r *Report) { firstRoundRule(p, r, "C13.resetorder") }, func(p *Prog, r *Report) { everyReceiptRule(p, r, "C13.anchorreceipts") }, func(p *Prog, r *Report) { sharedSliceRule(p, r, "C13.shared") }, func(p *Prog, r *Report) { frameDecidedRule(p, r, "C13.framedecided") }},
	})
}

var consensusFuncs = [][3]string{
	{HG, "Hashgraph", "round"}, {HG, "Hashgraph", "_round"}, {HG, "Hashgraph", "witness"}, {HG, "Hashgraph", "_witness"},
	{HG, "Hashgraph", "lamportTimestamp"}, {HG, "Hashgraph", "_lamportTimestamp"}, {HG, "Hashgraph", "ancestor"}, {HG, "Hashgraph", "_ancestor"},
	{HG, "Hashgraph", "selfAncestor"}, {HG, "Hashgraph", "_selfAncestor"}, {HG, "Hashgraph", "see"}, {HG, "Hashgraph", "stronglySee"}, {HG, "Hashgraph", "_stronglySee"},
	{HG, "Hashgraph", "roundDiff"}, {HG, "Hashgraph", "DecideFame"}, {HG, "Hashgraph", "DecideRoundReceived"},
	{HG, "Hashgraph", "createFrameEvent"}, {HG, "Hashgraph", "createRoot"}, {HG, "Hashgraph", "GetFrame"},
	{HG, "", "NewBlockFromFrame"}, {HG, "", "NewBlock"}, {HG, "Frame", "Marshal"}, {HG, "Frame", "Hash"},
	{HG, "SortedFrameEvents", "Less"}, {HG, "SortedFrameEvents", "Len"}, {HG, "SortedFrameEvents", "Swap"}, {HG, "", "middleBit"},
	{COMM, "", "Median"}, {PEER, "PeerSet", "SuperMajority"}, {PEER, "PeerSet", "TrustCount"}, {PEER, "PeerSet", "Hash"},
	{HG, "RoundInfo", "Witnesses"}, {HG, "RoundInfo", "FamousWitnesses"}, {HG, "RoundInfo", "WitnessesDecided"}, {HG, "RoundInfo", "IsDecided"}, {HG, "RoundInfo", "SetFame"},
	{HG, "BlockBody", "Hash"}, {HG, "BlockBody", "Marshal"}, {HG, "EventBody", "Hash"}, {HG, "Event", "Hash"}, {HG, "Event", "Hex"},
}

var frameFuncs = [][3]string{
	{HG, "Hashgraph", "createFrameEvent"}, {HG, "Hashgraph", "createRoot"}, {HG, "Hashgraph", "GetFrame"}, {HG, "Frame", "Marshal"}, {HG, "Frame", "Hash"},
	{HG, "SortedFrameEvents", "Less"}, {HG, "Hashgraph", "round"}, {HG, "Hashgraph", "_round"}, {HG, "Hashgraph", "lamportTimestamp"}, {HG, "Hashgraph", "_lamportTimestamp"},
	{HG, "Hashgraph", "stronglySee"}, {HG, "Hashgraph", "_stronglySee"}, {COMM, "", "Median"},
}

func isStoreImpl(f *ssa.Function) bool {
	r := recvNamedSig(f)
	return r == "InmemStore" || r == "BadgerStore"
}

// localStateRule: closure of roots over module calls, stopping at the Store boundary.
func localStateRule(p *Prog, r *Report, rule string, roots [][3]string, min int) {
	r.Rule(rule, min, "consensus functions read no process-local state")
	var rs []*ssa.Function
	for _, n := range roots {
		f := p.Func(n[0], n[1], n[2])
		if f == nil {
			r.Anchor(rule, n[1]+"."+n[2])
			continue
		}
		rs = append(rs, f)
	}
	set := p.reach(rs, func(f *ssa.Function) bool { return !inModule(f) || isStoreImpl(f) })
	local := map[*types.Var]string{}
	for _, l := range [][3]string{{HG, "Event", "topologicalIndex"}, {HG, "Hashgraph", "topologicalIndex"}, {HG, "InmemStore", "totConsensusEvents"}, {HG, "Hashgraph", "PendingLoadedEvents"}, {HG, "Hashgraph", "ConsensusTransactions"}, {HG, "Hashgraph", "LastCommitedRoundEvents"}} {
		if fv := p.Field(l[0], l[1], l[2]); fv != nil {
			local[fv] = l[1] + "." + l[2]
		} else {
			r.Anchor(rule, l[1]+"."+l[2])
		}
	}
	// store getters whose answer depends on which events this node happens to hold (RoundWitnesses /
	// RoundEvents: everything registered so far in a round, undecided and late witnesses included)
	viewDep := map[string]bool{"LastEventFrom": true, "KnownEvents": true, "ConsensusEvents": true, "ConsensusEventsCount": true, "RoundWitnesses": true, "RoundEvents": true}
	impure := map[string]bool{"time": true, "math/rand": true, "crypto/rand": true, "os": true, "runtime": true}
	var fs []*ssa.Function
	for f := range set {
		if inModule(f) && f.Synthetic == "" {
			fs = append(fs, f)
		}
	}
	sort.Slice(fs, func(i, j int) bool { return fs[i].String() < fs[j].String() })
	nMod := 0
	for _, f := range fs {
		if isStoreImpl(f) {
			// boundary: only the method identity matters
			r.Check(!viewDep[f.Name()], rule, "store-boundary:"+f.Name(), p.pos(f.Pos()), fnName(f), "consensus-determined store getter", "a consensus function reaches the view-dependent store method "+f.Name()+" (its answer depends on which events this node happens to hold)")
			continue
		}
		nMod++
		var bad []string
		for fv, name := range local {
			if in, ok := readsField(f, fv); ok {
				bad = append(bad, "reads "+name+" at "+p.ipos(in))
			}
		}
		for _, c := range libCalls(f, impure) {
			cf := calleeFunc(c.Common())
			bad = append(bad, "calls "+shortName(cf)+" at "+p.ipos(c))
		}
		// interface calls on Store to view-dependent methods
		for _, b := range f.Blocks {
			for _, in := range b.Instrs {
				if ci, ok := in.(ssa.CallInstruction); ok && ci.Common().IsInvoke() {
					if m := ci.Common().Method; m != nil && viewDep[m.Name()] && recvNamed(m) == "Store" {
						bad = append(bad, "calls Store."+m.Name()+" at "+p.ipos(in))
					}
				}
			}
		}
		sort.Strings(bad)
		r.Check(len(bad) == 0, rule, "fn:"+fnName(f), p.pos(f.Pos()), fnName(f), "no process-local read, no clock/randomness, no view-dependent getter", "consensus code depends on process-local state: "+strings.Join(bad, "; "))
	}
	r.Note("%s: closure has %d module functions below %d roots (Store implementations are a boundary)", rule, nMod, len(rs))
}

func c03local(p *Prog, r *Report) { localStateRule(p, r, "C03.local", consensusFuncs, 40) }

/* ---------- C03.order ---------- */

// mapOrderedProducers: module functions returning a slice appended to / indexed inside a loop over a map without a later sort.
func mapOrderedProducers(p *Prog) map[*ssa.Function]bool {
	res := map[*ssa.Function]bool{}
	for _, fn := range p.Mod {
		if fn.Signature.Results().Len() == 0 {
			continue
		}
		if _, isSlice := fn.Signature.Results().At(0).Type().Underlying().(*types.Slice); !isSlice {
			continue
		}
		loops := naturalLoops(fn)
		tainted := false
		for _, b := range fn.Blocks {
			ret, ok := b.Instrs[len(b.Instrs)-1].(*ssa.Return)
			if !ok {
				continue
			}
			if sliceBuiltFromMapRange(fn, ret.Results[0], loops) && !sortedBefore(fn, ret.Results[0], ret) {
				tainted = true
			}
		}
		if tainted {
			res[fn] = true
		}
	}
	return res
}

func isMapRangeLoop(fn *ssa.Function, lp *loopInfo) bool {
	src, ok := loopSourceOf(fn, lp)
	if !ok || src == nil {
		return false
	}
	_, isMap := src.Type().Underlying().(*types.Map)
	return isMap
}

// sliceBuiltFromMapRange: some append feeding v (or an element store into v) sits in a loop over a map.
func sliceBuiltFromMapRange(fn *ssa.Function, v ssa.Value, loops []*loopInfo) bool {
	found := false
	dependsOn(v, func(y ssa.Value) bool {
		if ac, ok := y.(*ssa.Call); ok {
			if bi, isB := ac.Call.Value.(*ssa.Builtin); isB && bi.Name() == "append" {
				if lp := innermostLoop(loops, ac.Block()); lp != nil && isMapRangeLoop(fn, lp) {
					found = true
					return true
				}
			}
		}
		return false
	})
	if found {
		return true
	}
	// element stores res[i] = ... inside a map loop
	base := unwrap(v)
	for _, b := range fn.Blocks {
		for _, in := range b.Instrs {
			if st, ok := in.(*ssa.Store); ok {
				if ia, ok := st.Addr.(*ssa.IndexAddr); ok && (unwrap(ia.X) == base || sameOrigin(ia.X, base)) {
					if lp := innermostLoop(loops, b); lp != nil && isMapRangeLoop(fn, lp) {
						return true
					}
				}
			}
		}
	}
	return false
}

// sortedBefore: a sort call over v (or its variable) dominates instruction at.
func sortedBefore(fn *ssa.Function, v ssa.Value, at ssa.Instruction) bool {
	for _, c := range callsIn(fn, named("sort.Sort", "sort.Stable", "sort.Slice", "sort.SliceStable", "sort.Strings", "sort.Ints")) {
		a := c.Common().Args[0]
		if !dominates(c, at) {
			continue
		}
		sorted := unwrap(a)
		if mi, ok := a.(*ssa.MakeInterface); ok {
			sorted = unwrap(mi.X)
		}
		same := func(x ssa.Value) bool {
			return unwrap(x) == unwrap(sorted) || sameOrigin(sorted, x) || sameRoot(sorted, x)
		}
		if same(v) || flowsFrom(sorted, func(x ssa.Value) bool { return x == unwrap(v) }) || flowsFromLocal(v, same) {
			return true
		}
	}
	return false
}

func c03order(p *Prog, r *Report) {
	const rule = "C03.order"
	r.Rule(rule, 4, "ordered outputs are not filled in map / arrival order without a sort")
	prods := mapOrderedProducers(p)
	var pn []string
	for f := range prods {
		pn = append(pn, fnName(f))
	}
	sort.Strings(pn)
	r.Note("C03.order: map-ordered producers detected: %s", strings.Join(pn, ", "))
	arrival := map[string]bool{"ReceivedEvents": true, "UndeterminedEvents": true}
	sinks := [][3]string{{HG, "Frame", "Events"}, {HG, "Root", "Events"}, {HG, "Frame", "Peers"}, {HG, "BlockBody", "Transactions"}, {HG, "BlockBody", "InternalTransactions"}, {NET, "SyncResponse", "Events"}}
	n := 0
	for _, s := range sinks {
		fv := p.Field(s[0], s[1], s[2])
		if fv == nil {
			r.Anchor(rule, s[1]+"."+s[2])
			continue
		}
		for _, w := range p.writersOf(fv) {
			if w.Val == nil || w.Kind != "store" {
				continue
			}
			fn := w.Fn
			if !inModule(fn) || strings.HasSuffix(fn.Name(), "Unmarshal") {
				continue
			}
			n++
			loops := naturalLoops(fn)
			why := ""
			// provenance of the stored slice
			dependsOn(w.Val, func(y ssa.Value) bool {
				ac, ok := y.(*ssa.Call)
				if !ok {
					return false
				}
				bi, isB := ac.Call.Value.(*ssa.Builtin)
				if !isB || bi.Name() != "append" {
					return false
				}
				lp := innermostLoop(loops, ac.Block())
				if lp == nil {
					return false
				}
				src, _ := loopSourceOf(fn, lp)
				if src == nil {
					return false
				}
				if _, isMap := src.Type().Underlying().(*types.Map); isMap {
					why = "appended while ranging over a map at " + p.ipos(ac)
				}
				if c, _ := callOf(src); c != nil {
					if sf := c.Call.StaticCallee(); sf != nil && prods[sf] {
						why = "appended while ranging over the map-ordered result of " + sf.Name() + " at " + p.ipos(ac)
					}
				}
				if f2, _ := fieldOf(src); f2 != nil && arrival[f2.Name()] {
					why = "appended in local arrival order (" + f2.Name() + ") at " + p.ipos(ac)
				}
				return false
			})
			// direct use of a producer's result
			if c, _ := callOf(w.Val); c != nil {
				if sf := c.Call.StaticCallee(); sf != nil && prods[sf] {
					why = "is the map-ordered result of " + sf.Name()
				}
			}
			ok := why == "" || sortedBefore(fn, w.Val, w.Instr)
			r.Check(ok, rule, fn.Name()+":"+s[1]+"."+s[2], p.ipos(w.Instr), fnName(fn), map[bool]string{true: "order is content-determined", false: ""}[ok]+map[bool]string{true: " (sorted after being " + why + ")", false: ""}[why != "" && ok],
				s[1]+"."+s[2]+" "+why+" and is stored without a dominating sort: its order depends on this process's map iteration / event arrival order, so frames and blocks differ between nodes")
		}
	}
	if n == 0 {
		r.Fail(rule, "ordered-sinks", "-", "", "no store to an ordered output found")
	}
	// returned slices of frame helpers: Frame.SortedFrameEvents ranges over the Roots map
	sfe := p.Func(HG, "Frame", "SortedFrameEvents")
	if sfe == nil {
		r.Anchor(rule, "Frame.SortedFrameEvents")
	} else {
		for _, b := range sfe.Blocks {
			if ret, ok := b.Instrs[len(b.Instrs)-1].(*ssa.Return); ok && (b.Index == 0 || len(b.Preds) > 0) {
				built := sliceBuiltFromMapRange(sfe, ret.Results[0], naturalLoops(sfe))
				ok := !built || sortedBefore(sfe, ret.Results[0], ret)
				r.Check(ok, rule, "Frame.SortedFrameEvents:sorted", p.ipos(ret), fnName(sfe), "roots are collected from a map, then sorted", "the events collected from the Roots map are returned unsorted: Reset would insert them in map order")
			}
		}
	}
	// every use of a map-ordered producer in consensus code is order-insensitive: result only ranged over / len / passed to Median or a sort
	for _, n3 := range [][3]string{{HG, "Hashgraph", "_round"}, {HG, "Hashgraph", "DecideFame"}, {HG, "Hashgraph", "DecideRoundReceived"}, {HG, "Hashgraph", "GetFrame"}} {
		fn := p.Func(n3[0], n3[1], n3[2])
		if fn == nil {
			continue
		}
		for _, b := range fn.Blocks {
			for _, in := range b.Instrs {
				c, ok := in.(*ssa.Call)
				if !ok {
					continue
				}
				sf := c.Call.StaticCallee()
				if sf == nil || !prods[sf] {
					continue
				}
				bad := ""
				if refs := c.Referrers(); refs != nil {
					for _, u := range *refs {
						switch x := u.(type) {
						case *ssa.IndexAddr:
							// indexed by the range loop variable only
							if _, isC := intConst(x.Index); isC {
								bad = "element picked by constant index at " + p.ipos(x)
							}
						case *ssa.Slice:
							bad = "sub-slice taken at " + p.ipos(x)
						case *ssa.Store:
							if fv, _ := fieldOf(x.Addr); fv != nil {
								bad = "stored into field " + refName(fv) + " at " + p.ipos(x)
							}
						}
					}
				}
				r.Check(bad == "", rule, fn.Name()+":use-of-"+sf.Name(), p.ipos(c), fnName(fn), "map-ordered list only iterated / measured", "the map-ordered result of "+sf.Name()+" is used order-sensitively: "+bad)
			}
		}
	}
}

/* ---------- C03.memo ---------- */

func c03memo(p *Prog, r *Report) {
	const rule = "C03.memo"
	r.Rule(rule, 6, "memo caches: filled by the wrapper with the wrapped function's result, keyed by all parameters")
	specs := []struct{ wrapper, inner, cache string }{
		{"ancestor", "_ancestor", "ancestorCache"}, {"selfAncestor", "_selfAncestor", "selfAncestorCache"}, {"stronglySee", "_stronglySee", "stronglySeeCache"},
		{"round", "_round", "roundCache"}, {"witness", "_witness", "witnessCache"}, {"lamportTimestamp", "_lamportTimestamp", "timestampCache"},
	}
	for _, s := range specs {
		fn := p.Func(HG, "Hashgraph", s.wrapper)
		fc := p.Field(HG, "Hashgraph", s.cache)
		if fn == nil || fc == nil {
			r.Anchor(rule, "Hashgraph."+s.wrapper+" / "+s.cache)
			continue
		}
		adds := callsIn(fn, named(COMM+".LRU.Add"))
		gets := callsIn(fn, named(COMM+".LRU.Get"))
		inner := callsIn(fn, named(HG+".Hashgraph."+s.inner))
		ok := len(adds) == 1 && len(gets) == 1 && len(inner) == 1
		detail := fmt.Sprintf("adds=%d gets=%d inner=%d", len(adds), len(gets), len(inner))
		if len(inner) == 0 && p.Func(HG, "Hashgraph", s.inner) == fn && len(adds) == 1 && len(gets) == 1 {
			// the compute function was merged into the wrapper: the wrapper computes in place
			ok = true
			add, get := adds[0], gets[0]
			if fv, _ := fieldOf(recvOf(add)); fv != fc {
				ok, detail = false, "the wrapper fills a different cache"
			}
			if fv, _ := fieldOf(recvOf(get)); fv != fc {
				ok, detail = false, "the wrapper reads a different cache"
			}
			for i := 1; i < len(fn.Params); i++ {
				par := ssa.Value(fn.Params[i])
				for _, k := range []ssa.Value{argN(add, 0), argN(get, 0)} {
					if !depOnValue(k, par) {
						ok, detail = false, "the cache key does not include parameter "+fn.Params[i].Name()
					}
				}
			}
			// the value cached is the value returned
			for _, rp := range p.succRets(fn, errNil, 1) {
				v := rp.ret.Results[0]
				if flowsFromCall(v, named(COMM+".LRU.Get"), 0) || dependsOn(v, func(x ssa.Value) bool { _, _, isGet := isCallTo(x, named(COMM+".LRU.Get")); return isGet }) {
					continue
				}
				if !dominates(add, rp.ret) || !(unwrap(argN(add, 1)) == unwrap(v) || sameOrigin(argN(add, 1), v) || flowsFromLocal(argN(add, 1), func(x ssa.Value) bool { return x == unwrap(v) })) {
					ok, detail = false, "a computed result is returned without being cached as such"
				}
			}
			r.Note("%s: %s computes in place (its compute function %s was merged into it)", rule, s.wrapper, s.inner)
		} else if ok {
			add, get, in := adds[0], gets[0], inner[0].(*ssa.Call)
			if fv, _ := fieldOf(recvOf(add)); fv != fc {
				ok = false
				detail = "the wrapper fills a different cache"
			}
			if fv, _ := fieldOf(recvOf(get)); fv != fc {
				ok = false
				detail = "the wrapper reads a different cache"
			}
			// value added = result #0 of the inner call
			if c, idx := callOf(argN(add, 1)); c != in || idx != 0 {
				ok = false
				detail = "the cached value is not the wrapped function's result"
			}
			// inner called with the wrapper's own parameters, in order
			for i := 1; i < len(fn.Params); i++ {
				if i >= len(in.Call.Args) || unwrap(in.Call.Args[i]) != ssa.Value(fn.Params[i]) {
					ok = false
					detail = "the wrapped function is not called with the wrapper's parameters"
				}
			}
			// key depends on every parameter; Get and Add use structurally the same key
			for i := 1; i < len(fn.Params); i++ {
				par := ssa.Value(fn.Params[i])
				for _, k := range []ssa.Value{argN(add, 0), argN(get, 0)} {
					if !depOnValue(k, par) {
						ok = false
						detail = "the cache key does not include parameter " + fn.Params[i].Name() + ": results computed for one argument would be served for another (e.g. strongly-see under a different validator set)"
					}
				}
			}
		}
		r.Check(ok, rule, s.wrapper+":memo", p.pos(fn.Pos()), fnName(fn), "pure memoisation keyed by all parameters", detail)
		// who else writes the cache (LRU.Add on this field)
		var bad []string
		for _, c := range p.callsAnywhere(named(COMM + ".LRU.Add")) {
			if fv, _ := fieldOf(recvOf(c)); fv == fc {
				n := c.Parent().Name()
				if n != s.wrapper && n != "InsertFrameEvent" {
					bad = append(bad, fnName(c.Parent())+"@"+p.ipos(c))
				}
			}
		}
		r.Check(len(bad) == 0, rule, s.cache+":writers", "-", "", "filled only by "+s.wrapper+" and InsertFrameEvent", "other functions fill "+s.cache+": "+strings.Join(bad, ", "))
	}
}

/* ---------- C13 ---------- */

func c13frames(p *Prog, r *Report) {
	localStateRule(p, r, "C13.frames", frameFuncs, 10)
	const rule = "C13.frames"
	gf := p.Func(HG, "Hashgraph", "GetFrame")
	cr := p.Func(HG, "Hashgraph", "createRoot")
	if gf == nil || cr == nil {
		r.Anchor(rule, "GetFrame / createRoot")
		return
	}
	// silent creators: root head from LastConsensusEventFrom
	n := 0
	for _, c := range callsIn(gf, named(HG+".Hashgraph.createRoot")) {
		head := argN(c, 1)
		okHead := flowsFromCall(head, named(HG+".Event.SelfParent"), 0) || flowsFromCall(head, storeM("LastConsensusEventFrom"), 0)
		n++
		r.Check(okHead, rule, fmt.Sprintf("GetFrame:createRoot#%d:head", n), p.ipos(c), fnName(gf), "root head is the frame event's self-parent or the creator's last CONSENSUS event", "a root is built from something else than the self-parent / LastConsensusEventFrom (e.g. the last event this node happens to know)")
	}
	// createRoot loop bound is the constant ROOT_DEPTH
	okBound := false
	for _, lp := range naturalLoops(cr) {
		if n := len(lp.head.Instrs); n > 0 {
			if iff, ok := lp.head.Instrs[n-1].(*ssa.If); ok {
				if bo, ok := iff.Cond.(*ssa.BinOp); ok {
					if _, isC := bo.Y.(*ssa.Const); isC {
						okBound = true
					}
				}
			}
		}
	}
	pk := p.ByPkg[modPath+"/"+HG]
	_, isConst := pk.Types.Scope().Lookup("ROOT_DEPTH").(*types.Const)
	r.Check(okBound && isConst, rule, "createRoot:constant-depth", p.pos(cr.Pos()), fnName(cr), "root depth is a compile-time constant", "the root depth is not a constant loop bound (nodes configured differently would build different frames)")
	// createRoot walks the creator's own chain by index through the store
	okWalk := len(callsIn(cr, storeM("ParticipantEvent"))) > 0
	r.Check(okWalk, rule, "createRoot:walks-participant-chain", p.pos(cr.Pos()), fnName(cr), "root events are the creator's previous events by index", "createRoot no longer walks the creator's chain by index")
	canonRule(p, r, rule)
	// sorted frame events
	sub := newReport(r.Prop)
	sub.Config = r.Config
	c01order(p, sub)
	for _, o := range sub.Obs {
		r.add(rule, o.Construct, o.Site, o.Fn, o.OK, o.Detail)
	}
}

func c13reset(p *Prog, r *Report) {
	const rule = "C13.reset"
	r.Rule(rule, 4, "Reset rebuilds the hashgraph from the frame; the node re-derives pending membership changes")
	reset := p.Func(HG, "Hashgraph", "Reset")
	ife := p.Func(HG, "Hashgraph", "InsertFrameEvent")
	if reset == nil || ife == nil {
		r.Anchor(rule, "Hashgraph.Reset / InsertFrameEvent")
		return
	}
	ins := callsIn(reset, named(HG+".Hashgraph.InsertFrameEvent"))
	ok := len(ins) > 0
	detail := ""
	for _, c := range ins {
		src, _ := loopSource(reset, c.Block())
		if src == nil || !flowsFromCall(src, named(HG+".Frame.SortedFrameEvents"), 0) {
			ok = false
			detail = "InsertFrameEvent is not applied to every element of frame.SortedFrameEvents()"
		}
		for _, sb := range callsIn(reset, storeM("SetBlock")) {
			if !canFollow(c, sb) || canFollow(sb, c) {
				ok = false
				detail = "the block is stored before the frame events are inserted"
			}
		}
	}
	// Store.Reset(frame) precedes the inserts
	for _, sr := range callsIn(reset, storeM("Reset")) {
		for _, c := range ins {
			if !dominates(sr, c) {
				ok = false
				detail = "the store is not reset from the frame before the frame events are inserted"
			}
		}
	}
	if len(callsIn(reset, storeM("Reset"))) == 0 {
		ok = false
		detail = "Store.Reset(frame) is not called"
	}
	r.Check(ok, rule, "Reset:store-reset,insert-all-frame-events,then-block", p.pos(reset.Pos()), fnName(reset), "store reset, every frame event (roots included) inserted, then the block stored", detail)
	// must-pass-through: every success return of Reset has stored the anchor block itself and reset the store from
	// the frame — unconditionally (a condition on what the store still holds makes the outcome depend on the node's
	// previous life: a Badger store serves pre-reset blocks from the database)
	succ := p.succRets(reset, errNil, 0)
	for _, spec := range []struct{ m, param, what string }{
		{"SetBlock", "Block", "the anchor block is stored (this also re-establishes the last block index the next block is numbered from)"},
		{"Reset", "Frame", "the store is reset from the frame"},
	} {
		okM, why := len(succ) > 0, ""
		var sites []ssa.CallInstruction
		for _, c := range callsIn(reset, storeM(spec.m)) {
			if a := lastArg(c); a != nil && flowsFrom(a, func(v ssa.Value) bool { return isParamOfType(v, spec.param) }) {
				sites = append(sites, c)
			}
		}
		if len(sites) == 0 {
			okM, why = false, "Reset does not pass its "+spec.param+" parameter to Store."+spec.m
		}
		for _, rp := range succ {
			dom := false
			for _, c := range sites {
				if dominates(c, rp.ret) {
					dom = true
				}
			}
			if !dom && len(sites) > 0 {
				okM, why = false, "a success return of Reset ("+p.ipos(rp.ret)+") can be reached without Store."+spec.m+"("+strings.ToLower(spec.param)+"): the call is conditional"
			}
		}
		r.Check(okM, rule, "Reset:always-Store."+spec.m+"("+strings.ToLower(spec.param)+")", p.pos(reset.Pos()), fnName(reset), spec.what+" on every successful reset", why)
	}
	// the lower bound and last consensus round are set from the block's round
	for _, m := range []string{"setLastConsensusRound", "setRoundLowerBound"} {
		cs := callsIn(reset, named(HG+".Hashgraph."+m))
		okM := len(cs) > 0
		for _, c := range cs {
			if !(flowsFromCall(argN(c, 0), named(HG+".Block.RoundReceived"), 0)) {
				okM = false
			}
		}
		if len(cs) == 0 {
			// the setter written in place: a store into / through the field with the block's round
			fld := map[string]string{"setLastConsensusRound": "LastConsensusRound", "setRoundLowerBound": "roundLowerBound"}[m]
			if fv := p.Field(HG, "Hashgraph", fld); fv != nil {
				for _, st := range storesIntoField(reset, fv) {
					if flowsFromCall(st.Val, named(HG+".Block.RoundReceived"), 0) {
						okM = true
					}
				}
			}
		}
		r.Check(okM, rule, "Reset:"+m+"(block.RoundReceived())", p.pos(reset.Pos()), fnName(reset), "consensus resumes above the anchor round", "Reset does not call "+m+" with the anchor block's round")
	}
	// InsertFrameEvent seeds the caches from the frame values
	for _, s := range []struct{ cache, field string }{{"roundCache", "Round"}, {"witnessCache", "Witness"}, {"timestampCache", "LamportTimestamp"}} {
		fc := p.Field(HG, "Hashgraph", s.cache)
		okS := false
		for _, c := range callsIn(ife, named(COMM+".LRU.Add")) {
			if fv, _ := fieldOf(recvOf(c)); fv == fc {
				if flowsFromField(argN(c, 1), s.field) && depOnParamType(argN(c, 1), "FrameEvent") && depOnCall(argN(c, 0), named(HG+".Event.Hex")) {
					okS = true
				}
			}
		}
		r.Check(okS, rule, "InsertFrameEvent:"+s.cache+"<-frameEvent."+s.field, p.pos(ife.Pos()), fnName(ife), "precomputed "+s.field+" seeds the cache under the event's hash", "InsertFrameEvent does not seed "+s.cache+" with frameEvent."+s.field+" (the value cannot be recomputed below the frame)")
	}
	// events inserted are recorded as consensus events (GetFrame/createRoot rely on it)
	r.Check(len(callsIn(ife, storeM("AddConsensusEvent"))) > 0, rule, "InsertFrameEvent:AddConsensusEvent", p.pos(ife.Pos()), fnName(ife), "frame events count as consensus events", "InsertFrameEvent no longer records frame events as consensus events: later frames would lack roots for silent creators")
	// Node.fastForward re-derives the pending changes of the anchor block after a successful reset
	nf := p.Func(NODE, "Node", "fastForward")
	if nf == nil {
		r.Anchor(rule, "node.(*Node).fastForward")
		return
	}
	cs := callsIn(nf, named(NODE+".core.processAcceptedInternalTransactions"))
	okP := len(cs) > 0
	q := p.lift(func(l Lit) bool { _, ok := errNilLit(l, named(NODE+".core.fastForward")); return ok }, 1)
	for _, c := range cs {
		if g, _ := p.allPaths(c, []Pred{q}, all(1)); !g {
			okP = false
		}
		if !flowsFromCall(argN(c, 0), named(HG+".Block.RoundReceived"), 0) || !(depOnCall(argN(c, 1), named(HG+".Block.InternalTransactionReceipts")) || depOnField(argN(c, 1), "InternalTransactionReceipts")) {
			okP = false
		}
	}
	r.Check(okP, rule, "Node.fastForward:re-derive-pending-membership-changes", p.pos(nf.Pos()), fnName(nf), "the anchor block's accepted receipts are applied after the reset", "after a successful core reset the anchor block's receipts are not processed: a join/leave pending in the six-round window is lost")
	// and every path to Babbling after a successful reset passes it
	for _, c := range callsIn(nf, named(NODE+".Node.transition")) {
		if g, _ := p.allPaths(c, []Pred{q}, all(1)); g {
			dom := false
			for _, pc := range cs {
				if dominates(pc, c) {
					dom = true
				}
			}
			r.Check(dom, rule, "Node.fastForward:receipts-before-babbling", p.ipos(c), fnName(nf), "pending changes re-derived before gossip resumes", "the node resumes babbling after a reset without processing the anchor block's receipts")
		}
	}
}

func c13resetfields(p *Prog, r *Report) {
	const rule = "C13.resetfields"
	r.Rule(rule, 2, "Reset re-initialises every listed field (nothing of the pre-reset chain survives)")
	for _, spec := range []struct {
		pkg, typ, method string
		fields           []string
		viaHelpers       map[string]string // field -> helper method that writes it
	}{
		{HG, "InmemStore", "Reset", []string{"peerSetCache", "eventCache", "roundCache", "blockCache", "frameCache", "participantEventsCache", "roots", "lastRound", "lastBlock", "consensusCache", "lastConsensusEvents"}, nil},
		{HG, "Hashgraph", "Reset", []string{"LastConsensusRound", "FirstConsensusRound", "AnchorBlock", "UndeterminedEvents", "PendingRounds", "PendingLoadedEvents", "topologicalIndex", "ancestorCache", "selfAncestorCache", "stronglySeeCache", "roundCache", "witnessCache", "roundLowerBound"}, map[string]string{"roundLowerBound": "setRoundLowerBound", "LastConsensusRound": "setLastConsensusRound"}},
	} {
		fn := p.Func(spec.pkg, spec.typ, spec.method)
		if fn == nil {
			r.Anchor(rule, spec.typ+"."+spec.method)
			continue
		}
		for _, f := range spec.fields {
			fv := p.Field(spec.pkg, spec.typ, f)
			if fv == nil {
				r.Anchor(rule, spec.typ+"."+f)
				continue
			}
			written := false
			for _, w := range p.writersOf(fv) {
				if w.Fn == fn && w.Kind == "store" {
					// must be on every path to the success return: dominates some success return
					for _, rp := range p.succRets(fn, errNil, 0) {
						if dominates(w.Instr, rp.ret) {
							written = true
						}
					}
				}
			}
			if !written {
				// a pointer field assigned through the pointer: *x.f = v
				for _, st := range storesIntoField(fn, fv) {
					for _, rp := range p.succRets(fn, errNil, 0) {
						if dominates(st, rp.ret) {
							written = true
						}
					}
				}
			}
			if !written && spec.viaHelpers[f] != "" {
				for _, c := range callsIn(fn, named(spec.pkg+"."+spec.typ+"."+spec.viaHelpers[f])) {
					for _, rp := range p.succRets(fn, errNil, 0) {
						if dominates(c, rp.ret) {
							written = true
						}
					}
				}
			}
			r.Check(written, rule, spec.typ+"."+spec.method+":"+f, p.pos(fn.Pos()), fnName(fn), f+" is re-initialised", spec.typ+"."+spec.method+" does not re-initialise "+f+": state of the pre-reset chain (e.g. the last block index of a node that held blocks above the anchor) leaks into the reset hashgraph")
		}
	}
}

// C03.memotime: round(x) counts the witnesses of the parent round REGISTERED SO FAR (RoundInfo is
// filled by DivideRounds) and is memoised. Evaluating it while inserting events — before the
// consensus pass has registered the witnesses of earlier rounds — caches a value that depends on
// how insertions and passes are interleaved.
func c03memotime(p *Prog, r *Report) {
	const rule = "C03.memotime"
	r.Rule(rule, 1, "the memoising wrappers round / witness are not reachable from InsertEvent (only from the consensus passes and frame construction)")
	ie := p.Func(HG, "Hashgraph", "InsertEvent")
	if ie == nil {
		r.Anchor(rule, "Hashgraph.InsertEvent")
		return
	}
	for _, w := range []string{"round", "witness"} {
		t := p.Func(HG, "Hashgraph", w)
		if t == nil {
			r.Anchor(rule, "Hashgraph."+w)
			continue
		}
		path := p.pathAvoiding([]*ssa.Function{ie}, t, func(f *ssa.Function) bool { return !inModule(f) || isStoreImpl(f) })
		r.Check(path == nil, rule, "InsertEvent-/->"+w, p.pos(ie.Pos()), fnName(ie), "insertion never evaluates (and memoises) "+w+"()",
			"the memoised "+w+"() is evaluated while inserting an event: "+strings.Join(path, " -> ")+"; its value depends on the witnesses registered by the consensus passes run so far, so rounds, witnesses, fame, round-received and blocks depend on how insertions are batched between passes")
	}
}

// firstRoundRule: InmemStore.Reset ranges over frame.PeerSets (a Go map): the peer sets of a
// frame reach PeerSetCache.Set in arbitrary order. firstRounds[id] must therefore end up as the
// MINIMUM round, whatever the order: the entry is written when absent or when the stored value is
// strictly greater than the round being set.
func firstRoundRule(p *Prog, r *Report, rule string) {
	r.Rule(rule, 1, "PeerSetCache.Set keeps firstRounds[id] = min over rounds, independently of the order of calls")
	fn := p.Func(HG, "PeerSetCache", "Set")
	fFR := p.Field(HG, "PeerSetCache", "firstRounds")
	if fn == nil || fFR == nil {
		r.Anchor(rule, "PeerSetCache.Set / firstRounds")
		return
	}
	round := ssa.Value(fn.Params[1])
	qAbsent := func(l Lit) bool {
		lk, present, ok := lookupLit(l)
		if !ok || present {
			return false
		}
		fv, _ := fieldOf(lk.X)
		return fv == fFR
	}
	qGreater := func(l Lit) bool {
		a, b, strict, ok := cmpLit(l) // a > b
		if !ok || !strict || unwrap(b) != round {
			return false
		}
		return dependsOn(a, func(x ssa.Value) bool {
			lk, ok := x.(*ssa.Lookup)
			if !ok {
				return false
			}
			fv, _ := fieldOf(lk.X)
			return fv == fFR
		})
	}
	n := 0
	for _, w := range p.writersOf(fFR) {
		if w.Fn != fn || w.Kind != "mapupdate" {
			continue
		}
		mu, ok := w.Instr.(*ssa.MapUpdate)
		if !ok {
			continue
		}
		n++
		g, _ := p.allPaths(mu, []Pred{qAbsent, qGreater}, func(m uint32) bool { return m != 0 })
		// the "later call with an earlier round" case must actually reach the update
		pi := p.pathMasks(fn, []Pred{qGreater})
		lowers := false
		for m := range pi.in[mu.Block().Index] {
			if pi.predMask(m)&1 != 0 {
				lowers = true
			}
		}
		okVal := unwrap(mu.Value) == round
		// each case alone reaches the update: a peer seen for the first time (absent), and a peer whose recorded first
		// round is greater (absent-AND-greater would never record anybody)
		pi2 := p.pathMasks(fn, []Pred{qAbsent, qGreater})
		aloneA, aloneG := false, false
		for _, w2 := range p.writersOf(fFR) { // over ALL updates of the function (the two cases may be written as two branches)
			mu2, isMU := w2.Instr.(*ssa.MapUpdate)
			if w2.Fn != fn || !isMU || unwrap(mu2.Value) != round {
				continue
			}
			for m := range pi2.in[mu2.Block().Index] {
				switch pi2.predMask(m) & 3 {
				case 1:
					aloneA = true
				case 2:
					aloneG = true
				}
			}
		}
		r.Check(aloneA && aloneG, rule, "PeerSetCache.Set:firstRounds:each-case-alone", p.ipos(mu), fnName(fn), "a first sighting alone, and a greater recorded round alone, each lead to the update",
			fmt.Sprintf("the update of firstRounds is not reached by a first sighting alone (%v) or by a greater recorded round alone (%v): peers would never get a first round (no roots for them in frames), or never have it lowered", aloneA, aloneG))
		r.Check(g && lowers && okVal, rule, "PeerSetCache.Set:firstRounds=min", p.ipos(mu), fnName(fn), "written when absent or when the recorded first round is greater: the minimum whatever the order of calls",
			fmt.Sprintf("firstRounds is not maintained as a minimum (guarded by absent-or-greater: %v, lowered when an earlier round arrives later: %v, value is the round: %v): Store.Reset replays frame.PeerSets in map order, so a peer's first round — and with it whether GetFrame builds a root for it — depends on iteration order", g, lowers, okVal))
	}
	if n == 0 {
		r.Fail(rule, "PeerSetCache.Set:firstRounds=min", p.pos(fn.Pos()), fnName(fn), "PeerSetCache.Set does not record first rounds")
	}
	// the getter reports what is recorded: (recorded round, true) when present, (_, false) when absent
	if gfn := p.Func(HG, "PeerSetCache", "FirstRound"); gfn != nil && gfn.Signature.Results().Len() == 2 {
		qPresent := func(l Lit) bool {
			lk, present, ok := lookupLit(l)
			if !ok || !present {
				return false
			}
			fv, _ := fieldOf(lk.X)
			return fv == fFR
		}
		fromLookup := func(v ssa.Value) bool {
			return flowsFrom(v, func(x ssa.Value) bool {
				e, ok := x.(*ssa.Extract)
				if !ok {
					return false
				}
				lk, ok := e.Tuple.(*ssa.Lookup)
				if !ok {
					return false
				}
				fv, _ := fieldOf(lk.X)
				return fv == fFR
			})
		}
		okG, why := true, ""
		nRet := 0
		for _, b := range gfn.Blocks {
			ret, isRet := b.Instrs[len(b.Instrs)-1].(*ssa.Return)
			if !isRet || (b.Index != 0 && len(b.Preds) == 0) {
				continue
			}
			for _, rp := range retPointsOf(ret, 1) {
				nRet++
				c, isC := unwrap(rp.val).(*ssa.Const)
				if !isC {
					if !fromLookup(rp.val) {
						okG, why = false, "the presence flag returned at "+p.ipos(ret)+" is not the lookup's own"
					}
					continue
				}
				isTrue := c.Value != nil && c.Value.String() == "true"
				var g bool
				if rp.pred != nil {
					g, _ = p.allPathsEdge(rp.pred, ret.Block(), []Pred{qPresent, qAbsent}, func(m uint32) bool { return (isTrue && m&1 != 0) || (!isTrue && m&2 != 0) })
				} else {
					g, _ = p.allPaths(ret, []Pred{qPresent, qAbsent}, func(m uint32) bool { return (isTrue && m&1 != 0) || (!isTrue && m&2 != 0) })
				}
				if !g {
					okG, why = false, fmt.Sprintf("FirstRound returns %v at %s on a path where the peer is %s", isTrue, p.ipos(ret), map[bool]string{true: "not recorded", false: "recorded"}[isTrue])
				}
				if isTrue {
					for _, r0 := range retPointsOf(ret, 0) {
						if (rp.pred == nil || r0.pred == rp.pred) && !fromLookup(r0.val) {
							okG, why = false, "the round returned with true at "+p.ipos(ret)+" is not the recorded one"
						}
					}
				}
			}
		}
		r.Check(okG && nRet > 0, rule, "PeerSetCache.FirstRound:reports-what-is-recorded", p.pos(gfn.Pos()), fnName(gfn), "(recorded round, true) when present, false when absent", why)
	} else {
		r.Anchor(rule, "hashgraph.(*PeerSetCache).FirstRound")
	}
	// Reset really ranges over the map (documented reason for the rule) and rounds are re-sorted
	rs := p.Func(HG, "InmemStore", "Reset")
	if rs != nil {
		for _, c := range callsIn(rs, named(HG+".InmemStore.SetPeerSet")) {
			src, _ := loopSource(rs, c.Block())
			if src != nil {
				_, isMap := src.Type().Underlying().(*types.Map)
				r.Note("%s: InmemStore.Reset replays peer sets from a %s (order %s)", rule, src.Type().String(), map[bool]string{true: "arbitrary", false: "fixed"}[isMap])
			}
		}
	}
}

// storesIntoField: the stores in fn whose address is field fv itself or the pointer loaded from it.
func storesIntoField(fn *ssa.Function, fv *types.Var) []*ssa.Store {
	var res []*ssa.Store
	for _, b := range fn.Blocks {
		for _, in := range b.Instrs {
			if st, ok := in.(*ssa.Store); ok {
				if f, _ := fieldOf(st.Addr); f == fv {
					res = append(res, st)
				} else if fa, isFA := st.Addr.(*ssa.FieldAddr); isFA && fieldVar(fa.X.Type(), fa.Field) == fv {
					res = append(res, st)
				}
			}
		}
	}
	return res
}

// C03.passstate: non-interference between the consensus passes and insertion. What InsertEvent
// writes into the DAG summary (the ancestors' firstDescendants, the event's coordinates) feeds
// strongly-see; if that code READS what the passes wrote (an event's recorded round, the RoundInfo
// of a round, the round / witness memo), the summary depends on how many passes ran between two
// insertions, and so may every consensus result. The functions reachable from InsertEvent (up to
// the Store boundary) must not read Event.round / Event.lamportTimestamp / Event.roundReceived,
// nor call Store.GetRound or the memoising predicates.
func c03passstate(p *Prog, r *Report) {
	const rule = "C03.passstate"
	r.Rule(rule, 3, "code reachable from InsertEvent reads nothing that the consensus passes write (recorded rounds, RoundInfo, memoised round/witness)")
	ie := p.Func(HG, "Hashgraph", "InsertEvent")
	if ie == nil {
		r.Anchor(rule, "Hashgraph.InsertEvent")
		return
	}
	set := p.reach([]*ssa.Function{ie}, func(f *ssa.Function) bool { return !inModule(f) || isStoreImpl(f) })
	var passFields []*types.Var
	for _, n := range []string{"round", "lamportTimestamp", "roundReceived"} {
		if fv := p.Field(HG, "Event", n); fv != nil {
			passFields = append(passFields, fv)
		} else {
			r.Anchor(rule, "Event."+n)
		}
	}
	var fs []*ssa.Function
	for f := range set {
		if inModule(f) && f.Synthetic == "" && !isStoreImpl(f) {
			fs = append(fs, f)
		}
	}
	sort.Slice(fs, func(i, j int) bool { return fs[i].String() < fs[j].String() })
	for _, f := range fs {
		var bad []string
		for _, fv := range passFields {
			if in, ok := readsField(f, fv); ok {
				bad = append(bad, "reads Event."+fv.Name()+" at "+p.ipos(in))
			}
		}
		for _, b := range f.Blocks {
			for _, in := range b.Instrs {
				ci, ok := in.(ssa.CallInstruction)
				if !ok {
					continue
				}
				cf := calleeFunc(ci.Common())
				if cf == nil {
					continue
				}
				sn := shortName(cf)
				switch {
				case storeM("GetRound", "RoundWitnesses", "RoundEvents", "LastRound")(cf):
					bad = append(bad, "calls Store."+cf.Name()+" at "+p.ipos(in))
				case sn == HG+".Hashgraph.round" || sn == HG+".Hashgraph.witness" || sn == HG+".Hashgraph.roundReceived" || sn == HG+".Hashgraph.lamportTimestamp":
					bad = append(bad, "calls the memoised "+cf.Name()+"() at "+p.ipos(in))
				}
			}
		}
		// the node's PROGRESS (how far consensus has got locally) is pass state too: a separate obligation, so that the
		// known finding about the recorded witness flags does not cover it
		var badP []string
		for _, n := range []string{"LastConsensusRound", "FirstConsensusRound", "PendingRounds", "AnchorBlock", "LastCommitedRoundEvents"} {
			if fv := p.Field(HG, "Hashgraph", n); fv != nil {
				if in, ok := readsField(f, fv); ok {
					badP = append(badP, "reads Hashgraph."+n+" at "+p.ipos(in))
				}
			}
		}
		r.Check(len(badP) == 0, rule, f.Name()+":reads-consensus-progress", p.pos(f.Pos()), fnName(f), "insertion-time code independent of how far consensus has got on this node",
			"insertion-time code reads the node's consensus progress ("+strings.Join(badP, "; ")+"): what it writes into the DAG summary (coordinates, first descendants) then depends on WHEN the node received the event relative to its own progress — two nodes holding the same DAG compute different rounds, witnesses and blocks")
		short := f.Name()
		r.Check(len(bad) == 0, rule, short+":reads-pass-state", p.pos(f.Pos()), fnName(f), "insertion-time code independent of the consensus passes",
			"insertion-time code reads state written by the consensus passes ("+strings.Join(bad, "; ")+"): what it writes into the DAG summary depends on how many passes ran between insertions — consensus results can differ between per-event and batched passes")
	}
}

// mapPickRule: Go's map iteration order is random. A consensus function may range over a map to
// COUNT or to test an order-independent predicate, but it must not let a value of one particular
// iteration leave the loop through an early exit (`for k, v := range m { if … { return f(k) } }`,
// or break after assigning): which element is met first differs from run to run and node to node.
func mapPickRule(p *Prog, r *Report, rule string, roots [][3]string) {
	r.Rule(rule, 1, "no consensus function lets a value of one iteration of a map range escape through an early exit")
	var rs []*ssa.Function
	for _, n := range roots {
		if f := p.Func(n[0], n[1], n[2]); f != nil {
			rs = append(rs, f)
		}
	}
	set := p.reach(rs, func(f *ssa.Function) bool { return !inModule(f) || isStoreImpl(f) })
	var fs []*ssa.Function
	for f := range set {
		if inModule(f) && f.Synthetic == "" && !isStoreImpl(f) {
			fs = append(fs, f)
		}
	}
	sort.Slice(fs, func(i, j int) bool { return fs[i].String() < fs[j].String() })
	nLoops := 0
	for _, f := range fs {
		for _, lp := range naturalLoops(f) {
			if !isMapRangeLoop(f, lp) {
				continue
			}
			nLoops++
			// the iteration's key / value
			var next *ssa.Next
			for b := range lp.body {
				for _, in := range b.Instrs {
					if nx, ok := in.(*ssa.Next); ok {
						if il := innermostLoop(naturalLoops(f), b); il != nil && il.head == lp.head {
							next = nx
						}
					}
				}
			}
			if next == nil {
				continue
			}
			fromIter := func(v ssa.Value) bool {
				if _, isErr := v.Type().Underlying().(*types.Interface); isErr && isErrorType(v.Type()) {
					return false
				}
				return dependsOn(v, func(x ssa.Value) bool {
					e, ok := x.(*ssa.Extract)
					return ok && e.Tuple == ssa.Value(next) && e.Index > 0
				})
			}
			bad := ""
			for b := range lp.body {
				if b == lp.head {
					continue // leaving through the head is exhaustion
				}
				for _, s := range b.Succs {
					if lp.body[s] {
						continue
					}
					// early exit b -> s: values defined in the loop and used outside
					for lb := range lp.body {
						for _, in := range lb.Instrs {
							v, isVal := in.(ssa.Value)
							if !isVal || v.Referrers() == nil || !fromIter(v) {
								continue
							}
							for _, u := range *v.Referrers() {
								if u.Block() != nil && !lp.body[u.Block()] {
									if _, isDbg := u.(*ssa.DebugRef); !isDbg {
										bad = p.ipos(u)
									}
								}
							}
						}
					}
					// a return inside the exit block carrying iteration data is covered by the scan above
					// only if the return block is outside the loop body (it is: it has no path back)
				}
			}
			r.Check(bad == "", rule, f.Name()+":map-range@"+p.ipos(next), p.ipos(next), fnName(f), "map range used for an order-independent result",
				"a value of one iteration of a map range leaves the loop through an early exit and is used at "+bad+": which element is met first depends on Go's random map order, so the result (a vote, a fame decision, a block) differs between runs and between nodes")
		}
	}
	r.Note("%s: %d map-range loops examined in %d consensus functions", rule, nLoops, len(fs))
}

/* ---------- C03.recency ---------- */

// recencyRule: the in-memory store is an LRU over what is READ as well as over what is written.
// Consensus reads very old values for as long as they matter (the last consensus event of a quiet
// validator is read at every GetFrame); they stay cached only because a read refreshes them.
//  - LRU.Get moves the entry to the front whenever it reports a hit;
//  - no caller takes a cached VALUE out through Peek (which does not refresh).
func recencyRule(p *Prog, r *Report, rule string) {
	r.Rule(rule, 2, "LRU.Get refreshes the entry on every hit; no module code obtains a cached value through LRU.Peek")
	get := p.Func(COMM, "LRU", "Get")
	if get == nil || get.Signature.Results().Len() != 2 {
		r.Anchor(rule, "common.(*LRU).Get")
		return
	}
	var mtf []ssa.Instruction
	for _, b := range get.Blocks {
		for _, in := range b.Instrs {
			if c, ok := in.(*ssa.Call); ok {
				if f := calleeFunc(c.Common()); f != nil && f.Pkg() != nil && f.Pkg().Path() == "container/list" && (f.Name() == "MoveToFront") {
					mtf = append(mtf, in)
				}
			}
		}
	}
	okGet, where, n := true, p.pos(get.Pos()), 0
	for _, b := range get.Blocks {
		if len(b.Instrs) == 0 || (b.Index != 0 && len(b.Preds) == 0) {
			continue
		}
		ret, isRet := b.Instrs[len(b.Instrs)-1].(*ssa.Return)
		if !isRet {
			continue
		}
		for _, rp := range retPointsOf(ret, 1) {
			if c, isC := unwrap(rp.val).(*ssa.Const); isC && c.Value != nil && c.Value.Kind() == constant.Bool && !constant.BoolVal(c.Value) {
				continue // a miss
			}
			n++
			refreshed := false
			for _, m := range mtf {
				if rp.pred != nil {
					if m.Block() == rp.pred || dominatesBlock(m.Block(), rp.pred) {
						refreshed = true
					}
				} else if dominates(m, ret) {
					refreshed = true
				}
			}
			if !refreshed {
				// a hit flag that is the lookup's own: false on this path?
				qMiss := func(l Lit) bool {
					_, present, ok := lookupLit(l)
					return ok && !present
				}
				if g, _ := p.holdsAtRet(rp, []Pred{qMiss}, all(1)); g {
					continue
				}
				okGet = false
				where = p.ipos(ret)
			}
		}
	}
	r.Check(okGet && n > 0, rule, "LRU.Get:hit-refreshes", where, fnName(get), "every hit moves the entry to the front",
		"LRU.Get can report a hit without moving the entry to the front: values that are only read (the last consensus events of a quiet validator, needed for the Roots of every frame) are evicted after cacheSize newer writes and an in-memory node stalls where a node with a larger cache or a database goes on")
	okPeek, whereP := true, "-"
	for _, fn := range p.Mod {
		for _, b := range fn.Blocks {
			for _, in := range b.Instrs {
				c, ok := in.(*ssa.Call)
				if !ok {
					continue
				}
				f := calleeFunc(c.Common())
				if f == nil || f.Name() != "Peek" || recvNamed(f) != "LRU" {
					continue
				}
				if refs := c.Referrers(); refs != nil {
					for _, rf := range *refs {
						if ex, isEx := rf.(*ssa.Extract); isEx && ex.Index == 0 && ex.Referrers() != nil && len(*ex.Referrers()) > 0 {
							okPeek = false
							whereP = p.ipos(c)
						}
					}
				}
			}
		}
	}
	r.Check(okPeek, rule, "LRU.Peek:no-value-taken", whereP, "", "no cached value is taken out through Peek", "a cached value is handed out through LRU.Peek, which does not refresh the entry: what is read stops counting as recently used (see LRU.Get:hit-refreshes)")
}
