package main

import (
	"go/constant"
	"bytes"
	"fmt"
	"go/ast"
	"go/parser"
	"go/printer"
	"go/token"
	"go/types"
	"os"
	"path/filepath"
	"regexp"
	"strings"

	"golang.org/x/tools/go/ssa"
)

func init() {
	register(&propDef{
		ID: "C11", NeedCG: true,
		Meta: propMeta{Level: "other", Assumptions: commonAssumptions,
			Explanation: "Decides: C11.atomic (in every dbSet* function all Set calls go to ONE badger transaction value with a single Commit that follows them, defer Discard present; dbSetEvents writes the event record, the topological key and the participant key on that one transaction), " +
				"C11.first (InsertEvent's success returns and the append to UndeterminedEvents are reached only after Store.SetEvent returned nil; BadgerStore.SetEvent returns the DB write's error when not in maintenance mode, and writes the DB only after the cache accepted the event), " +
				"C11.replay (Bootstrap sets maintenance mode before the first insert and restores it by defer; feeds events of dbTopologicalEvents(index*batch, batch) in slice order to InsertEventAndRunConsensus — the live insert path; dbTopologicalEvents reads keys built by the writer's key function, ascending), " +
				"C11.topo (the replay source has no holes: a topological index is consumed only by an event that was stored — Bootstrap reads consecutive keys and stops at the first missing one), C11.head (every transition to Babbling is preceded in the same function by core.setHeadAndSeq or a successful core.fastForward), C11.sibling (thorough: badger_store_mobile.go equals badger_store.go modulo the badger import path). " +
				"C11.open (the database is opened with Truncate enabled: a kill in the middle of a value-log write leaves a partial last entry, which badger refuses to open unless it may truncate it — without the option the node cannot restart at all). " +
				"C11.config (the engine derives bootstrap from maintenance-mode and store from bootstrap in dependency order, before it chooses the store: otherwise a restart with --maintenance-mode alone silently runs on an empty in-memory store), C11.commit (a database writer reports success only after Txn.Commit()==nil; shared with C16.commit / C09.commit). " +
				"NOT decided: equality of re-delivered blocks (needs determinism behaviourally), durability with SyncWrites=false under power loss, arbitrary kill instants inside badger."},
		Rules:    []ruleFunc{c11atomic, c11first, c11replay, c11head, func(p *Prog, r *Report) { topoRule(p, r, "C11.topo") }, c11open, func(p *Prog, r *Report) { commitRule(p, r, "C11.commit") }, func(p *Prog, r *Report) { configRule(p, r, "C11.config") }},
		Thorough: []ruleFunc{siblingRule("C11.sibling")},
	})
}

func isBadgerTxnMethod(f *types.Func, name string) bool {
	if f == nil || f.Name() != name || f.Pkg() == nil {
		return false
	}
	return strings.HasSuffix(f.Pkg().Path(), "/badger") && recvNamed(f) == "Txn"
}

func c11atomic(p *Prog, r *Report) {
	const rule = "C11.atomic"
	r.Rule(rule, 7, "every dbSet* function of BadgerStore: all Txn.Set calls use the single transaction created by db.NewTransaction(true); exactly one Commit, after every Set, none before; defer Discard; dbSetEvents sets three records (event, topological key, participant key)")
	n := 0
	for _, fn := range p.Mod {
		if fn.Signature.Recv() == nil || recvNamedSig(fn) != "BadgerStore" || !strings.HasPrefix(fn.Name(), "dbSet") {
			continue
		}
		n++
		var txns []ssa.Value
		for _, b := range fn.Blocks {
			for _, in := range b.Instrs {
				if c, ok := in.(*ssa.Call); ok {
					if f := calleeFunc(c.Common()); f != nil && f.Name() == "NewTransaction" && recvNamed(f) == "DB" {
						txns = append(txns, c)
					}
				}
			}
		}
		var sets, commits []ssa.CallInstruction
		discard := false
		for _, b := range fn.Blocks {
			for _, in := range b.Instrs {
				ci, ok := in.(ssa.CallInstruction)
				if !ok {
					continue
				}
				f := calleeFunc(ci.Common())
				switch {
				case isBadgerTxnMethod(f, "Set"), isBadgerTxnMethod(f, "SetEntry"), isBadgerTxnMethod(f, "Delete"):
					sets = append(sets, ci)
				case isBadgerTxnMethod(f, "Commit"):
					commits = append(commits, ci)
				case isBadgerTxnMethod(f, "Discard"):
					if _, isDefer := in.(*ssa.Defer); isDefer {
						discard = true
					}
				}
			}
		}
		ok := len(txns) == 1 && len(commits) == 1 && len(sets) >= 1 && discard
		detail := fmt.Sprintf("transactions=%d sets=%d commits=%d deferDiscard=%v", len(txns), len(sets), len(commits), discard)
		if ok {
			for _, s := range sets {
				if unwrap(recvOf(s)) != txns[0] {
					ok = false
					detail = "a Set goes to a different transaction value"
				}
				if canFollow(commits[0], s) {
					ok = false
					detail = "a Set can execute after Commit (record written in a second transaction / after the commit point)"
				}
				if !canFollow(s, commits[0]) {
					ok = false
					detail = "Commit cannot follow a Set"
				}
			}
			if unwrap(recvOf(commits[0])) != txns[0] {
				ok = false
				detail = "Commit on a different transaction value"
			}
			// Commit's error is returned
			cv, _ := commits[0].(*ssa.Call)
			retOK := false
			if cv != nil {
				for _, b := range fn.Blocks {
					if ret, isRet := b.Instrs[len(b.Instrs)-1].(*ssa.Return); isRet && len(ret.Results) == 1 {
						if depOnValue(ret.Results[0], cv) {
							retOK = true
						}
					}
				}
			}
			if !retOK {
				ok = false
				detail = "Commit's error is not returned"
			}
		}
		if fn.Name() == "dbSetEvents" && ok {
			// three records: event, topo key, participant key
			keys := map[string]bool{}
			for _, s := range sets {
				k := argN(s, 0)
				switch {
				case depOnCall(k, named(HG+".topologicalEventKey")):
					keys["topo"] = true
				case depOnCall(k, named(HG+".participantEventKey")):
					keys["participant"] = true
				case depOnCall(k, named(HG+".Event.Hex")):
					keys["event"] = true
				}
			}
			if len(keys) != 3 {
				ok = false
				detail = fmt.Sprintf("dbSetEvents writes %d of the 3 records (event, topological key, participant key) on the transaction", len(keys))
			}
		}
		r.Check(ok, rule, fn.Name()+":one-transaction", p.pos(fn.Pos()), fnName(fn), detail, "not a single atomic transaction: "+detail)
	}
	if n == 0 {
		r.Anchor(rule, "BadgerStore.dbSet*")
	}
}

func recvNamedSig(fn *ssa.Function) string {
	if fn.Signature.Recv() == nil {
		return ""
	}
	if n := namedOf(fn.Signature.Recv().Type()); n != nil {
		return n.Obj().Name()
	}
	return ""
}

func c11first(p *Prog, r *Report) {
	const rule = "C11.first"
	r.Rule(rule, 3, "written before used: InsertEvent returns nil only after Store.SetEvent==nil; BadgerStore.SetEvent returns the db writer's error outside maintenance mode and writes the db only after the in-memory store accepted the event")
	ie := p.Func(HG, "Hashgraph", "InsertEvent")
	if ie == nil {
		r.Anchor(rule, "hashgraph.(*Hashgraph).InsertEvent")
	} else {
		q := p.lift(func(l Lit) bool { _, ok := errNilLit(l, storeM("SetEvent")); return ok }, 1)
		for i, rp := range p.succRets(ie, errNil, 0) {
			ok, _ := p.holdsAtRet(rp, []Pred{q}, all(1))
			r.Check(ok, rule, fmt.Sprintf("InsertEvent:return-nil#%d:after-SetEvent", i), p.ipos(rp.ret), fnName(ie), "success only after the event was stored", "InsertEvent can return nil without a successful Store.SetEvent")
		}
	}
	se := p.Func(HG, "BadgerStore", "SetEvent")
	if se == nil {
		r.Anchor(rule, "hashgraph.(*BadgerStore).SetEvent")
		return
	}
	dbM := named(HG + ".BadgerStore.dbSetEvents")
	cs := callsIn(se, dbM)
	if len(cs) == 0 {
		r.Fail(rule, "BadgerStore.SetEvent:dbSetEvents", p.pos(se.Pos()), fnName(se), "SetEvent does not write the database")
	}
	qMem := p.lift(func(l Lit) bool { _, ok := errNilLit(l, named(HG+".InmemStore.SetEvent")); return ok }, 1)
	for _, c := range cs {
		ok, _ := p.allPaths(c, []Pred{qMem}, all(1))
		r.Check(ok, rule, "BadgerStore.SetEvent:db-after-cache-accepted", p.ipos(c), fnName(se), "the DB is written only after the in-memory store (which polices per-creator indexes) accepted the event", "the event is persisted before (or without) the in-memory store accepting it: a refused event leaves records in the database")
	}
}

func c11replay(p *Prog, r *Report) { replayRule(p, r, "C11.replay") }

func replayRule(p *Prog, r *Report, rule string) {
	r.Rule(rule, 4, "Bootstrap: maintenance mode on before the first insert, restored by defer; events from dbTopologicalEvents(index*batch, batch) fed in slice order to InsertEventAndRunConsensus; loop ends on a short batch; dbTopologicalEvents reads topologicalEventKey(t) for t ascending by 1")
	fn := p.Func(HG, "Hashgraph", "Bootstrap")
	if fn == nil {
		r.Anchor(rule, "hashgraph.(*Hashgraph).Bootstrap")
		return
	}
	ins := callsIn(fn, named(HG+".Hashgraph.InsertEventAndRunConsensus"))
	if len(ins) == 0 {
		r.Fail(rule, "Bootstrap:insert-path", p.pos(fn.Pos()), fnName(fn), "Bootstrap does not replay through InsertEventAndRunConsensus (the live insert+consensus path)")
		return
	}
	var setTrue ssa.CallInstruction
	deferFalse := false
	for _, c := range callsIn(fn, named(HG+".BadgerStore.SetMaintenanceMode")) {
		a := argN(c, 0)
		if k, ok := a.(*ssa.Const); ok {
			if k.Value != nil && k.Value.String() == "true" {
				if _, isDefer := c.(*ssa.Defer); !isDefer {
					setTrue = c
				}
			} else if _, isDefer := c.(*ssa.Defer); isDefer {
				deferFalse = true
			}
		}
	}
	for _, c := range ins {
		ok := setTrue != nil && dominates(setTrue, c)
		r.Check(ok, rule, "Bootstrap:maintenance-on-before-insert", p.ipos(c), fnName(fn), "replay does not re-write the database", "events are re-inserted without maintenance mode set first (replay would re-write / duplicate database records)")
		src, _ := loopSource(fn, c.Block())
		ok2 := src != nil && flowsFromCall(src, named(HG+".BadgerStore.dbTopologicalEvents"), 0)
		r.Check(ok2, rule, "Bootstrap:events-from-topological-listing-in-order", p.ipos(c), fnName(fn), "events replayed in original insertion order", "the replay loop does not iterate the result of dbTopologicalEvents in slice order")
		// same event value is inserted
		r.Check(depOnValue(argN(c, 0), src) || ok2, rule, "Bootstrap:insert-same-event", p.ipos(c), fnName(fn), "", "")
	}
	r.Check(deferFalse, rule, "Bootstrap:maintenance-restored", p.pos(fn.Pos()), fnName(fn), "maintenance mode restored by defer when it was off", "maintenance mode is not restored by a deferred SetMaintenanceMode(false): the node would never persist again")
	for _, c := range callsIn(fn, named(HG+".BadgerStore.dbTopologicalEvents")) {
		a0, a1 := argN(c, 0), argN(c, 1)
		// start = index*batch where index advances by 1 per iteration; count = batch
		okStart := false
		if m, ok := unwrap(a0).(*ssa.BinOp); ok && m.Op == token.MUL {
			for _, pair := range [][2]ssa.Value{{m.X, m.Y}, {m.Y, m.X}} {
				if sameConstOrValue(pair[1], a1) {
					if len(incrementsOf(pair[0])) > 0 {
						okStart = true
					}
				}
			}
		}
		r.Check(okStart, rule, "Bootstrap:batches-contiguous", p.ipos(c), fnName(fn), "batches start at index*batchSize with index advancing by one: no event skipped", "batch start is not (index advancing by 1) * (batch size passed as count): events could be skipped or replayed twice")
	}
	// dbTopologicalEvents
	dt := p.Func(HG, "BadgerStore", "dbTopologicalEvents")
	if dt == nil {
		r.Anchor(rule, "hashgraph.(*BadgerStore).dbTopologicalEvents")
		return
	}
	// closure bodies
	okKey, okAsc := false, false
	for _, f := range withAnon(dt) {
		for _, c := range callsIn(f, named(HG+".topologicalEventKey")) {
			okKey = true
			a := argN(c, 0)
			if len(incrementsOf(a)) > 0 || isFreeVarIncremented(f, a) {
				okAsc = true
			}
		}
	}
	r.Check(okKey && okAsc, rule, "dbTopologicalEvents:ascending-keys", p.pos(dt.Pos()), fnName(dt), "reads topologicalEventKey(t) with t advancing by one", "dbTopologicalEvents does not read the writer's topological keys in ascending order")
}

func sameConstOrValue(a, b ssa.Value) bool {
	a, b = unwrap(a), unwrap(b)
	if a == b {
		return true
	}
	ka, oka := intConst(a)
	kb, okb := intConst(b)
	return oka && okb && ka == kb
}

// isFreeVarIncremented: v is a load of a captured variable that is incremented by 1 inside f.
func isFreeVarIncremented(f *ssa.Function, v ssa.Value) bool {
	u, ok := unwrap(v).(*ssa.UnOp)
	if !ok {
		return false
	}
	for _, b := range f.Blocks {
		for _, in := range b.Instrs {
			if st, ok := in.(*ssa.Store); ok && st.Addr == u.X {
				if bo, ok := st.Val.(*ssa.BinOp); ok && bo.Op == token.ADD {
					if k, okc := intConst(bo.Y); okc && k == 1 {
						return true
					}
				}
			}
		}
	}
	return false
}

func c11head(p *Prog, r *Report) {
	const rule = "C11.head"
	r.Rule(rule, 3, "every call transition(Babbling) is preceded on all paths of its function by core.setHeadAndSeq() or by core.fastForward(...)==nil (which restores the head after Reset)")
	st := p.ByPkg[modPath+"/src/node/state"]
	if st == nil {
		r.Anchor(rule, "node/state")
		return
	}
	bc, ok := st.Types.Scope().Lookup("Babbling").(*types.Const)
	if !ok {
		r.Anchor(rule, "state.Babbling")
		return
	}
	bval, _ := intConstVal(bc)
	sites := p.callsAnywhere(named(NODE + ".Node.transition"))
	n := 0
	ord := map[*ssa.Function]int{}
	for _, c := range sites {
		k, okc := intConst(argN(c, 0))
		if !okc || k != bval {
			if !okc {
				// dynamic state argument: conservatively treat as possibly Babbling
				r.Note("C11.head: transition called with a dynamic state at %s", p.ipos(c))
			} else {
				continue
			}
		}
		n++
		fn := c.Parent()
		ord[fn]++
		// setHeadAndSeq call dominating, or fastForward success literal
		okHead := false
		for _, hc := range callsIn(fn, named(NODE+".core.setHeadAndSeq")) {
			if dominates(hc, c) {
				okHead = true
			}
		}
		if !okHead {
			q := p.lift(func(l Lit) bool { _, ok := errNilLit(l, named(NODE+".core.fastForward")); return ok }, 1)
			okHead, _ = p.allPaths(c, []Pred{q}, all(1))
			if okHead {
				// core.fastForward must itself restore the head on success
				ff := p.Func(NODE, "core", "fastForward")
				okHead = false
				if ff != nil {
					qs := p.lift(func(l Lit) bool { _, ok := errNilLit(l, named(NODE+".core.setHeadAndSeq")); return ok }, 1)
					okHead = true
					for _, rp := range p.succRets(ff, errNil, 0) {
						if g, _ := p.holdsAtRet(rp, []Pred{qs}, all(1)); !g {
							okHead = false
						}
					}
				}
			}
		}
		r.Check(okHead, rule, fmt.Sprintf("%s:transition(Babbling)#%d:head-restored", fn.Name(), ord[fn]), p.ipos(c), fnName(fn), "head and seq recomputed from the store before babbling",
			"the node enters Babbling without core.setHeadAndSeq() (or a successful fast-forward): after a bootstrap its head stays \"\"/-1, every self-event is rejected as 'self-parent not last known' and it can never create an event (or would fork itself)")
	}
	if n == 0 {
		r.Fail(rule, "transition(Babbling)", "-", "", "no transition to Babbling found")
	}
}

/* ---------- sibling files (E9) ---------- */

func siblingRule(rule string) ruleFunc {
	return func(p *Prog, r *Report) {
		if p.Tags != "" {
			return // evaluated once
		}
		r.Rule(rule, 1, "badger_store_mobile.go is structurally equal to badger_store.go modulo the badger import path (comments ignored)")
		a := filepath.Join(p.Dir, "src/hashgraph/badger_store.go")
		b := filepath.Join(p.Dir, "src/hashgraph/badger_store_mobile.go")
		na, ea := normalisedSource(a)
		nb, eb := normalisedSource(b)
		if ea != nil || eb != nil {
			r.Fail(rule, "badger_store~badger_store_mobile", "src/hashgraph/badger_store_mobile.go", "", fmt.Sprintf("cannot parse: %v %v", ea, eb))
			return
		}
		if na == nb {
			r.Ok(rule, "badger_store~badger_store_mobile", "src/hashgraph/badger_store_mobile.go", "", "structurally identical")
			return
		}
		la, lb := strings.Split(na, "\n"), strings.Split(nb, "\n")
		diff := ""
		for i := 0; i < len(la) && i < len(lb); i++ {
			if la[i] != lb[i] {
				diff = fmt.Sprintf("first difference at normalised line %d: %q vs %q", i+1, la[i], lb[i])
				break
			}
		}
		if diff == "" {
			diff = fmt.Sprintf("lengths differ: %d vs %d lines", len(la), len(lb))
		}
		r.Fail(rule, "badger_store~badger_store_mobile", "src/hashgraph/badger_store_mobile.go", "", "the mobile store has diverged from badger_store.go: "+diff)
	}
}

var badgerImport = regexp.MustCompile(`github\.com/(dgraph-io|jonknight73)/badger`)

func normalisedSource(path string) (string, error) {
	src, err := os.ReadFile(path)
	if err != nil {
		return "", err
	}
	fset := token.NewFileSet()
	f, err := parser.ParseFile(fset, path, src, 0) // comments dropped
	if err != nil {
		return "", err
	}
	for _, im := range f.Imports {
		im.Path.Value = badgerImport.ReplaceAllString(im.Path.Value, "github.com/X/badger")
	}
	var buf bytes.Buffer
	cfg := printer.Config{Mode: printer.RawFormat}
	if err := cfg.Fprint(&buf, token.NewFileSet(), stripPos(f)); err != nil {
		return "", err
	}
	return buf.String(), nil
}

func stripPos(f *ast.File) *ast.File {
	f.Doc = nil
	f.Comments = nil
	return f
}

// C11.open: a process killed while badger appends to its value log leaves a torn last entry.
// badger.Open fails on such a file ("Value log truncate required") unless Options.Truncate is set:
// every badger.Open in the store is given options that went through WithTruncate(true).
func c11open(p *Prog, r *Report) {
	const rule = "C11.open"
	r.Rule(rule, 1, "badger is opened with Truncate=true (a torn value-log tail after a kill is dropped instead of refusing to start)")
	n := 0
	for _, fn := range p.Mod {
		if !strings.HasSuffix(fnPkgPath(fn), "/"+HG) {
			continue
		}
		for _, b := range fn.Blocks {
			for _, in := range b.Instrs {
				c, ok := in.(*ssa.Call)
				if !ok {
					continue
				}
				f := calleeFunc(c.Common())
				if f == nil || f.Pkg() == nil || !strings.HasSuffix(f.Pkg().Path(), "/badger") || f.Name() != "Open" || len(c.Call.Args) != 1 {
					continue
				}
				n++
				okT := dependsOn(c.Call.Args[0], func(x ssa.Value) bool {
					wc, isCall := x.(*ssa.Call)
					if !isCall {
						return false
					}
					wf := calleeFunc(wc.Common())
					if wf == nil || wf.Name() != "WithTruncate" {
						return false
					}
					a := wc.Call.Args[len(wc.Call.Args)-1]
					k, isC := a.(*ssa.Const)
					return isC && k.Value != nil && k.Value.Kind() == constant.Bool && constant.BoolVal(k.Value)
				})
				r.Check(okT, rule, fn.Name()+":badger.Open:truncate", p.ipos(c), fnName(fn), "options carry WithTruncate(true)",
					"badger.Open is given options without WithTruncate(true): after a kill in the middle of a value-log write the database refuses to open (\"Value log truncate required\") and the node cannot bootstrap")
			}
		}
	}
	if n == 0 {
		r.Fail(rule, "badger.Open", "-", "", "no badger.Open call found in the store")
	}
}

/* ---------- C11.commit / C16.commit / C09.commit ---------- */

// commitRule: a database writer of BadgerStore reports success only after its transaction was
// committed. The only success without a commit that is accepted is "nothing to write": a path on
// which a slice or map argument is known to be empty.
func commitRule(p *Prog, r *Report, rule string) {
	r.Rule(rule, 7, "every success return of a dbSet* function of BadgerStore is reached after Txn.Commit()==nil (or returns Commit's own result); a return without a commit is accepted only where an argument is known to be empty")
	n := 0
	for _, fn := range p.Mod {
		if fn.Signature.Recv() == nil || recvNamedSig(fn) != "BadgerStore" || !strings.HasPrefix(fn.Name(), "dbSet") || fn.Signature.Results().Len() == 0 {
			continue
		}
		eidx := fn.Signature.Results().Len() - 1
		if !isErrorType(fn.Signature.Results().At(eidx).Type()) {
			continue
		}
		n++
		isCommit := func(v ssa.Value) bool {
			c, _ := callOf(v)
			return c != nil && isBadgerTxnMethod(calleeFunc(c.Common()), "Commit")
		}
		qCommitted := func(l Lit) bool {
			v, isNil, ok := nilTest(l)
			return ok && isNil && flowsFromLocal(v, isCommit)
		}
		qEmpty := func(l Lit) bool {
			x, y, ok := eqLit(l)
			if !ok {
				return false
			}
			for _, pr := range [][2]ssa.Value{{x, y}, {y, x}} {
				lx, isLen := isLenOf(pr[0])
				c, isC := pr[1].(*ssa.Const)
				if isLen && isC && c.Value != nil && c.Value.Kind() == constant.Int && c.Value.String() == "0" {
					if _, isPar := unwrap(lx).(*ssa.Parameter); isPar {
						return true
					}
				}
			}
			return false
		}
		ok, where := true, p.pos(fn.Pos())
		for _, b := range fn.Blocks {
			if len(b.Instrs) == 0 || (b.Index != 0 && len(b.Preds) == 0) {
				continue
			}
			ret, isRet := b.Instrs[len(b.Instrs)-1].(*ssa.Return)
			if !isRet {
				continue
			}
			for _, rp := range retPointsOf(ret, eidx) {
				if neverNilErr(rp.val, 0) || flowsFromLocal(rp.val, isCommit) {
					continue
				}
				v := rp.val
				qErr := func(l Lit) bool {
					x, isNil, ok := nilTest(l)
					return ok && !isNil && (x == v || sameErrVar(x, v))
				}
				if g, _ := p.holdsAtRet(rp, []Pred{qCommitted, qEmpty, qErr}, func(m uint32) bool { return m != 0 }); !g {
					ok = false
					where = p.ipos(ret)
				}
			}
		}
		r.Check(ok, rule, fn.Name()+":success-means-committed", where, fnName(fn), "success is returned only after the commit succeeded",
			"the database writer can report success without having committed anything: the record on disk stays at an older version (for a block: without the signatures and state hash added since) and is what the node serves or replays once the cached copy is gone")
	}
	if n == 0 {
		r.Anchor(rule, "BadgerStore.dbSet*")
	}
}

/* ---------- C11.config ---------- */

// configRule: the engine derives flags from flags before it chooses the store
// (maintenance-mode => bootstrap, bootstrap => store). Each derivation `if Config.A { Config.B = true }`
// must see the final value of A: no statement of validateConfig may write A after that test. Both
// named derivations must exist, and validateConfig runs before the store is chosen.
func configRule(p *Prog, r *Report, rule string) {
	r.Rule(rule, 3, "validateConfig: every derivation `if Config.A { Config.B = true }` tests A after its last write (maintenance-mode => bootstrap => store hold together on exit); Init runs validateConfig before it chooses the store")
	const BAB = "src/babble"
	vc := p.Func(BAB, "Babble", "validateConfig")
	initF := p.Func(BAB, "Babble", "Init")
	initStore := p.Func(BAB, "Babble", "initStore")
	if vc == nil || initF == nil || initStore == nil {
		r.Anchor(rule, "babble.(*Babble).validateConfig / Init / initStore")
		return
	}
	isConfigField := func(fv *types.Var) bool {
		if fv == nil || fv.Pkg() == nil {
			return false
		}
		return strings.HasSuffix(fv.Pkg().Path(), "/src/config")
	}
	type deriv struct {
		a, b string
		ok   bool
		at   ssa.Instruction
	}
	var ds []deriv
	writes := map[*types.Var][]ssa.Instruction{}
	for _, b := range vc.Blocks {
		for _, in := range b.Instrs {
			if st, ok := in.(*ssa.Store); ok {
				if fv, _ := fieldOf(st.Addr); isConfigField(fv) {
					writes[fv] = append(writes[fv], st)
				}
			}
		}
	}
	for _, b := range vc.Blocks {
		for _, in := range b.Instrs {
			st, ok := in.(*ssa.Store)
			if !ok {
				continue
			}
			fb, _ := fieldOf(st.Addr)
			c, isC := st.Val.(*ssa.Const)
			if !isConfigField(fb) || !isC || c.Value == nil || c.Value.Kind() != constant.Bool || !constant.BoolVal(c.Value) {
				continue
			}
			for _, l := range p.Facts(vc).At(b) {
				if !l.Pos || l.Nil {
					continue
				}
				fa, _ := fieldOf(l.V)
				ld, isIn := unwrap(l.V).(ssa.Instruction)
				if !isConfigField(fa) || !isIn || fa == fb {
					continue
				}
				d := deriv{a: fa.Name(), b: fb.Name(), ok: true, at: st}
				for _, w := range writes[fa] {
					if canFollow(ld, w) {
						d.ok = false
					}
				}
				ds = append(ds, d)
			}
		}
	}
	have := map[string]bool{}
	for _, d := range ds {
		have[d.a+"=>"+d.b] = true
		r.Check(d.ok, rule, "validateConfig:"+d.a+"=>"+d.b+":tested-after-last-write", p.ipos(d.at), fnName(vc), d.a+" is final when "+d.b+" is derived from it",
			"Config."+d.a+" is written after the test that derives Config."+d.b+" from it: the implication does not hold on exit (a node restarted with --maintenance-mode alone gets Bootstrap without Store, an in-memory store, and silently reloads nothing from its database)")
	}
	for _, want := range []string{"MaintenanceMode=>Bootstrap", "Bootstrap=>Store"} {
		if !have[want] {
			r.Fail(rule, "validateConfig:"+want+":tested-after-last-write", p.pos(vc.Pos()), fnName(vc), "derivation "+want+" not found in validateConfig")
		}
	}
	// Init: validateConfig runs before initStore on every path
	okOrder := false
	vcs := callsIn(initF, func(f *types.Func) bool { return f.Name() == "validateConfig" && recvNamed(f) == "Babble" })
	for _, c := range callsIn(initF, func(f *types.Func) bool { return f.Name() == "initStore" && recvNamed(f) == "Babble" }) {
		okOrder = false
		for _, v := range vcs {
			if dominates(v, c) {
				okOrder = true
			}
		}
		if !okOrder {
			break
		}
	}
	r.Check(okOrder, rule, "Init:validate-before-store", p.pos(initF.Pos()), fnName(initF), "the store is chosen after the configuration was validated", "Init chooses the store on a path on which validateConfig() has not run")
}
