package main

import (
	"fmt"
	"go/token"
	"go/types"
	"math/big"
	"strings"

	"golang.org/x/tools/go/ssa"
)

func init() {
	register(&propDef{
		ID: "C18", NeedCG: true,
		Meta: propMeta{Level: "other", Assumptions: append([]string{"no int64 overflow in the even-length mean (extreme honest values are outside this rule)"}, commonAssumptions...),
			Explanation: "Decides: C18.prov (BlockBody.Timestamp <- frame.Timestamp <- common.Median(ts), ts appended only from Store.GetEvent(fw).Timestamp() for fw ranging over FamousWitnesses() of GetRound(roundReceived) — the frame's own round), " +
				"C18.rank (Median sorts a private copy of its input ascending with comparator s[i] < s[j] and returns, for EVERY length l: 0 if l==0, s[l/2] for odd l, the mean of s[l/2-1] and s[l/2] for even l — the index expressions are proved equal to the median ranks for all l by parity-class analysis of their SSA; the input slice is not mutated). " +
				"NOT decided: the Byzantine-tolerance inequality itself (needs 'a decided round has a supermajority of decided witnesses', a fact about rounds; covered structurally by C01.fame/C19), overflow of the even-length mean."},
		Rules: []ruleFunc{c18prov, c18rank},
	})
}

func c18prov(p *Prog, r *Report) { timestampRule(p, r, "C18.prov") }

func timestampRule(p *Prog, r *Report, rule string) {
	r.Rule(rule, 3, "timestamp provenance: NewBlockFromFrame passes frame.Timestamp; GetFrame stores Median(timestamps) with timestamps <- GetEvent(fw).Timestamp() for fw in GetRound(roundReceived).FamousWitnesses()")
	gf := p.Func(HG, "Hashgraph", "GetFrame")
	if gf == nil {
		r.Anchor(rule, "hashgraph.(*Hashgraph).GetFrame")
		return
	}
	rr := ssa.Value(gf.Params[1])
	fTs := p.Field(HG, "Frame", "Timestamp")
	n := 0
	for _, w := range p.writersOf(fTs) {
		if w.Fn != gf {
			continue
		}
		n++
		ok := flowsFromCall(w.Val, named(COMM+".Median"), 0)
		r.Check(ok, rule, "GetFrame:Frame.Timestamp<-Median", p.ipos(w.Instr), fnName(gf), "frame timestamp is the median", "Frame.Timestamp is not the result of common.Median")
	}
	if n == 0 {
		r.Fail(rule, "GetFrame:Frame.Timestamp<-Median", p.pos(gf.Pos()), fnName(gf), "GetFrame does not set Frame.Timestamp")
	}
	for _, c := range callsIn(gf, named(COMM+".Median")) {
		ts := argN(c, 0)
		// every append into ts: element from GetEvent(fw).Timestamp(), fw from FamousWitnesses of GetRound(roundReceived)
		okElems, nApp := true, 0
		dependsOn(ts, func(x ssa.Value) bool {
			ac, ok := x.(*ssa.Call)
			if !ok {
				return false
			}
			if bi, isB := ac.Call.Value.(*ssa.Builtin); !isB || bi.Name() != "append" || len(ac.Call.Args) != 2 {
				return false
			}
			nApp++
			// plain accumulation only: appending into a truncated view of the list (`append(ts[:pos], v)`)
			// overwrites ts[pos] before the tail is re-appended — a value is duplicated, another lost
			if sl, isSl := unwrap(ac.Call.Args[0]).(*ssa.Slice); isSl && sl.High != nil {
				if _, isConst := sl.High.(*ssa.Const); !isConst || true {
					okElems = false
				}
			}
			el := ac.Call.Args[1]
			// the element IS the witness's own claimed time on every path: each source of the value
			// (through locals and phis) is a Timestamp() call on the event fetched for the loop's witness
			srcLoop, _ := loopSource(gf, ac.Block())
			isLoopElem := func(w ssa.Value) bool {
				if srcLoop == nil {
					return false
				}
				if u, isU := w.(*ssa.UnOp); isU && u.Op == token.MUL {
					if ia, isIA := u.X.(*ssa.IndexAddr); isIA {
						return sameOrigin(ia.X, srcLoop) || unwrap(ia.X) == unwrap(srcLoop)
					}
				}
				if e, isE := w.(*ssa.Extract); isE {
					if nx, isN := e.Tuple.(*ssa.Next); isN {
						if rg, isR := nx.Iter.(*ssa.Range); isR {
							return sameOrigin(rg.X, srcLoop) || unwrap(rg.X) == unwrap(srcLoop)
						}
					}
				}
				return false
			}
			okExact := allSources(el, func(y ssa.Value) bool {
				tc, _, ok := isCallTo(y, named(HG+".Event.Timestamp"))
				if !ok {
					return false
				}
				// called on the event fetched for the loop's own witness
				return flowsFromLocal(recvOf(tc), func(z ssa.Value) bool {
					gc, idx, ok := isCallTo(z, storeM("GetEvent"))
					return ok && idx == 0 && flowsFromLocal(lastArg(gc), isLoopElem)
				})
			})
			if !okExact {
				okElems = false
			}
			okTs := dependsOn(el, func(y ssa.Value) bool {
				tc, _, ok := isCallTo(y, named(HG+".Event.Timestamp"))
				if !ok {
					return false
				}
				return dependsOn(recvOf(tc), func(z ssa.Value) bool {
					gc, idx, ok := isCallTo(z, storeM("GetEvent"))
					return ok && idx == 0 && gc != nil
				})
			})
			src, _ := loopSource(gf, ac.Block())
			okSrc := src != nil && flowsFromCall(src, named(HG+".RoundInfo.FamousWitnesses"), 0) && dependsOn(src, func(y ssa.Value) bool {
				gc, _, ok := isCallTo(y, storeM("GetRound"))
				return ok && unwrap(lastArg(gc)) == rr
			})
			if !okTs || !okSrc {
				okElems = false
			}
			return false
		})
		r.Check(okElems && nApp > 0, rule, "GetFrame:timestamps<-famous-witnesses-of-roundReceived", p.ipos(c), fnName(gf), "the median is taken over the claimed creation times of the famous witnesses of the frame's round", "the values fed to Median are not exactly the Timestamp() of the FamousWitnesses() of GetRound(roundReceived)")
	}
	nbf := p.Func(HG, "", "NewBlockFromFrame")
	nb := p.Func(HG, "", "NewBlock")
	if nbf == nil || nb == nil {
		r.Anchor(rule, "hashgraph.NewBlockFromFrame / NewBlock")
		return
	}
	for _, c := range callsIn(nbf, named(HG+".NewBlock")) {
		a := argN(c, 6)
		r.Check(a != nil && flowsFromField(a, "Timestamp") && depOnParamType(a, "Frame"), rule, "NewBlockFromFrame:timestamp<-frame.Timestamp", p.ipos(c), fnName(nbf), "block timestamp is the frame's", "NewBlock is not given frame.Timestamp")
	}
	fBT := p.Field(HG, "BlockBody", "Timestamp")
	var strangers []string
	for _, w := range p.writersOf(fBT) {
		if w.Fn == nb {
			r.Check(isParam(w.Val, nb, 6), rule, "NewBlock:Body.Timestamp<-param", p.ipos(w.Instr), fnName(nb), "body timestamp is the parameter", "BlockBody.Timestamp is not NewBlock's timestamp parameter")
		} else {
			strangers = append(strangers, fnName(w.Fn)+"@"+p.ipos(w.Instr))
		}
	}
	// closed world: the median is the ONLY source of a block timestamp
	r.Check(len(strangers) == 0, rule, "BlockBody.Timestamp:writers", p.pos(nb.Pos()), "", "BlockBody.Timestamp is written by NewBlock only", "BlockBody.Timestamp is also written outside NewBlock (the block no longer carries the median of its round's famous witnesses): "+strings.Join(strangers, ", "))
	strangers = nil
	for _, w := range p.writersOf(fTs) {
		if w.Fn != gf {
			strangers = append(strangers, fnName(w.Fn)+"@"+p.ipos(w.Instr))
		}
	}
	r.Check(len(strangers) == 0, rule, "Frame.Timestamp:writers", p.pos(gf.Pos()), "", "Frame.Timestamp is written by GetFrame only", "Frame.Timestamp is also written outside GetFrame: "+strings.Join(strangers, ", "))
}

func c18rank(p *Prog, r *Report) {
	const rule = "C18.rank"
	r.Rule(rule, 4, "Median: copy, ascending sort with <, and middle ranks for every length (parity-class proof of the index expressions)")
	fn := p.Func(COMM, "", "Median")
	if fn == nil {
		r.Anchor(rule, "common.Median")
		return
	}
	input := ssa.Value(fn.Params[0])
	site := p.pos(fn.Pos())
	// the working slice: made in the function, filled by copy(s, input)
	var work ssa.Value // the Alloc or MakeSlice holding the copy
	for _, b := range fn.Blocks {
		for _, in := range b.Instrs {
			if c, ok := in.(*ssa.Call); ok {
				if bi, isB := c.Call.Value.(*ssa.Builtin); isB && bi.Name() == "copy" && len(c.Call.Args) == 2 && unwrap(c.Call.Args[1]) == input {
					work = c.Call.Args[0]
				}
			}
		}
	}
	// or the append idiom: append(input[:0:0], input...) / append([]T(nil), input...)
	appendCopy := false
	if work == nil {
		for _, b := range fn.Blocks {
			for _, in := range b.Instrs {
				c, ok := in.(*ssa.Call)
				if !ok {
					continue
				}
				bi, isB := c.Call.Value.(*ssa.Builtin)
				if !isB || bi.Name() != "append" || len(c.Call.Args) != 2 || unwrap(c.Call.Args[1]) != input {
					continue
				}
				zeroCap := false
				switch d := unwrap(c.Call.Args[0]).(type) {
				case *ssa.Const:
					zeroCap = d.IsNil()
				case *ssa.Slice:
					if d.Max != nil {
						if k, okc := intConst(d.Max); okc && k == 0 {
							zeroCap = true
						}
					}
				case *ssa.MakeSlice:
					if k, okc := intConst(d.Cap); okc && k == 0 {
						zeroCap = true
					}
				}
				if zeroCap {
					work = c
					appendCopy = true
				}
			}
		}
	}
	isWork := func(v ssa.Value) bool {
		if work == nil {
			return false
		}
		return sameOrigin(v, work) || flowsFrom(v, func(x ssa.Value) bool { return x == unwrap(work) }) || sameSliceVar(v, work)
	}
	fresh := work != nil && (appendCopy || flowsFrom(work, func(x ssa.Value) bool { _, ok := x.(*ssa.MakeSlice); return ok }))
	r.Check(fresh, rule, "Median:works-on-a-copy", site, fnName(fn), "the input is copied into a fresh slice", "Median does not copy its input into a fresh slice (it would reorder the caller's data, or read an unsorted one)")
	// no write to / sort of the input itself
	mut := false
	for _, b := range fn.Blocks {
		for _, in := range b.Instrs {
			if st, ok := in.(*ssa.Store); ok {
				if ia, ok := st.Addr.(*ssa.IndexAddr); ok && unwrap(ia.X) == input {
					mut = true
				}
			}
			if ci, ok := in.(ssa.CallInstruction); ok {
				if f := calleeFunc(ci.Common()); f != nil && f.Pkg() != nil && f.Pkg().Path() == "sort" {
					for _, a := range ci.Common().Args {
						if flowsFrom(a, func(x ssa.Value) bool { return x == input }) {
							mut = true
						}
					}
				}
			}
		}
	}
	r.Check(!mut, rule, "Median:input-not-mutated", site, fnName(fn), "the caller's slice is left untouched", "Median writes to or sorts its input slice")
	// sorted ascending
	okSort := false
	var sortCall ssa.CallInstruction
	for _, c := range callsIn(fn, named("sort.Slice", "sort.SliceStable", "sort.Sort", "sort.Stable")) {
		a := c.Common().Args[0]
		if !isWork(a) && !depOnValue(a, unwrap(work)) {
			continue
		}
		sortCall = c
		if len(c.Common().Args) == 2 {
			if mc, ok := c.Common().Args[1].(*ssa.MakeClosure); ok {
				if less, ok := mc.Fn.(*ssa.Function); ok {
					okSort = lessIsAscending(less)
				}
			}
		} else {
			// sort.Sort(T(s)): T.Less must be ascending
			if n := namedOf(a.Type()); n != nil {
				if less := p.Func(COMM, n.Obj().Name(), "Less"); less != nil {
					okSort = lessIsAscending(less)
				}
			}
			if mi, ok := a.(*ssa.MakeInterface); ok {
				if n := namedOf(mi.X.Type()); n != nil {
					if n.Obj().Pkg() != nil && n.Obj().Pkg().Path() == "sort" && (n.Obj().Name() == "IntSlice" || n.Obj().Name() == "Float64Slice") {
						okSort = true
					}
					if less := p.Func(COMM, n.Obj().Name(), "Less"); less != nil {
						okSort = lessIsAscending(less)
					}
				}
			}
		}
	}
	for _, c := range callsIn(fn, named("sort.Ints", "sort.Float64s")) {
		if isWork(c.Common().Args[0]) {
			okSort = true
			sortCall = c
		}
	}
	r.Check(okSort, rule, "Median:sorted-ascending", site, fnName(fn), "the copy is sorted ascending (comparator s[i] < s[j])", "the working copy is not sorted ascending before the ranks are read")
	// index analysis: every element read that reaches a return, under its parity conditions
	e := &qaEval{p: p, nFields: map[*types.Var]bool{}, nValues: map[ssa.Value]bool{}}
	for _, b := range fn.Blocks {
		for _, in := range b.Instrs {
			if c, ok := in.(*ssa.Call); ok {
				if bi, isB := c.Call.Value.(*ssa.Builtin); isB && bi.Name() == "len" {
					if unwrap(c.Call.Args[0]) == input || isWork(c.Call.Args[0]) {
						e.nValues[c] = true
					}
				}
			}
		}
	}
	// reads of the working slice after the sort
	type read struct {
		load *ssa.UnOp
		idx  ssa.Value
	}
	var reads []read
	for _, b := range fn.Blocks {
		for _, in := range b.Instrs {
			if u, ok := in.(*ssa.UnOp); ok && u.Op == token.MUL {
				if ia, ok := u.X.(*ssa.IndexAddr); ok && isWork(ia.X) {
					reads = append(reads, read{u, ia.Index})
				}
			}
		}
	}
	if len(reads) == 0 {
		r.Fail(rule, "Median:ranks", site, fnName(fn), "no element of the sorted copy is read")
		return
	}
	two := qaConst(rat(2))
	_ = two
	n := qaIdent()
	half, _ := qaRound(qaScale(n, big.NewRat(1, 2)), "floor") // floor(l/2)
	parity := qaSub(n, qaScale(half, rat(2)))                 // l mod 2
	isEven, _ := qaCmp(parity, qaConst(rat(0)), token.EQL)
	isOdd, _ := qaCmp(parity, qaConst(rat(1)), token.EQL)
	// path condition of each read: conjunction of literals on the path (must-facts), evaluated in the domain
	evenReads, oddReads := map[string]bool{}, 0
	for i, rd := range reads {
		if sortCall != nil && !canFollow(sortCall, rd.load) {
			r.Fail(rule, fmt.Sprintf("Median:read#%d:after-sort", i), p.ipos(rd.load), fnName(fn), "an element is read before the slice is sorted")
			continue
		}
		idx, err := e.eval(rd.idx)
		if err != nil {
			r.Fail(rule, fmt.Sprintf("Median:read#%d:index", i), p.ipos(rd.load), fnName(fn), "rule=arith-undecided: "+err.Error())
			continue
		}
		// path condition
		cond := qaConst(rat(1))
		undec := ""
		for _, l := range p.Facts(fn).At(rd.load.Block()) {
			c, err := e.eval(l.V)
			if err != nil {
				undec = err.Error()
				continue
			}
			if !l.Pos {
				c = qaSub(qaConst(rat(1)), c)
			}
			cond = qaITE(c, cond, qaConst(rat(0)))
		}
		_ = undec
		// on every n where cond holds, idx must be a median rank: even -> half-1 or half; odd -> half
		lower := qaSub(half, qaConst(rat(1)))
		eqLower, _ := qaCmp(idx, lower, token.EQL)
		eqHalf, _ := qaCmp(idx, half, token.EQL)
		// obligation: cond => (isEven && (eqLower||eqHalf)) || (isOdd && eqHalf)
		okEven := qaITE(isEven, qaITE(eqLower, qaConst(rat(1)), eqHalf), qaConst(rat(0)))
		okOdd := qaITE(isOdd, eqHalf, qaConst(rat(0)))
		good := qaITE(okEven, qaConst(rat(1)), okOdd)
		obl := qaITE(cond, good, qaConst(rat(1)))
		ok, w := qaHolds(obl, 1)
		// classification for the completeness obligation below
		if g, _ := qaHolds(qaITE(cond, isEven, qaConst(rat(1))), 1); g {
			if g2, _ := qaHolds(qaITE(cond, eqLower, qaConst(rat(1))), 1); g2 {
				evenReads["lower"] = true
			}
			if g2, _ := qaHolds(qaITE(cond, eqHalf, qaConst(rat(1))), 1); g2 {
				evenReads["upper"] = true
			}
		}
		if g, _ := qaHolds(qaITE(cond, isOdd, qaConst(rat(1))), 1); g {
			oddReads++
		}
		// in-bounds: 0 <= idx < l under cond
		ge0, _ := qaCmp(idx, qaConst(rat(0)), token.GEQ)
		ltN, _ := qaCmp(idx, n, token.LSS)
		inb := qaITE(cond, qaITE(ge0, ltN, qaConst(rat(0))), qaConst(rat(1)))
		okB, wB := qaHolds(inb, 0)
		if ok && okB {
			r.Ok(rule, fmt.Sprintf("Median:read#%d:median-rank", i), p.ipos(rd.load), fnName(fn), "index "+idx.String()+" is a median rank and in bounds for every length on its path")
		} else if !ok {
			r.Fail(rule, fmt.Sprintf("Median:read#%d:median-rank", i), p.ipos(rd.load), fnName(fn), fmt.Sprintf("the element read is not a median rank of the sorted slice for length l=%d (index form: %s)", w, idx))
		} else {
			r.Fail(rule, fmt.Sprintf("Median:read#%d:in-bounds", i), p.ipos(rd.load), fnName(fn), fmt.Sprintf("index out of range for length l=%d", wB))
		}
	}
	r.Check(evenReads["lower"] && evenReads["upper"] && oddReads > 0, rule, "Median:all-ranks-read", site, fnName(fn), "even lengths read both middle elements, odd lengths the middle one",
		fmt.Sprintf("not every parity reads its median rank(s): even-lower=%v even-upper=%v odd=%d", evenReads["lower"], evenReads["upper"], oddReads))
	// l == 0 returns 0; returned value provenance
	for _, b := range fn.Blocks {
		if b.Index != 0 && len(b.Preds) == 0 {
			continue
		}
		ret, ok := b.Instrs[len(b.Instrs)-1].(*ssa.Return)
		if !ok {
			continue
		}
		v := ret.Results[0]
		if k, isC := intConst(v); isC {
			// constant return only under l == 0
			q := func(l Lit) bool {
				x, y, ok := eqLit(l)
				if !ok {
					return false
				}
				kx, okx := intConst(y)
				return okx && kx == 0 && e.nValues[unwrap(x)]
			}
			g, _ := p.allPaths(ret, []Pred{q}, all(1))
			r.Check(g && k == 0, rule, "Median:empty->0", p.ipos(ret), fnName(fn), "constant result only for the empty input", "a constant is returned for a non-empty input")
			continue
		}
		// otherwise the result derives only from reads of the sorted copy (mean of two or one)
		okProv := dependsOn(v, func(x ssa.Value) bool {
			for _, rd := range reads {
				if x == ssa.Value(rd.load) {
					return true
				}
			}
			return false
		})
		// even branch: (a+b)/2
		r.Check(okProv, rule, "Median:result<-ranks", p.ipos(ret), fnName(fn), "the result is built from the median rank elements", "the returned value does not come from the sorted copy")
	}
	// mean shape for two-element combination
	for _, b := range fn.Blocks {
		for _, in := range b.Instrs {
			bo, ok := in.(*ssa.BinOp)
			if !ok || bo.Op != token.ADD {
				continue
			}
			isRead := func(v ssa.Value) bool {
				for _, rd := range reads {
					if v == ssa.Value(rd.load) {
						return true
					}
				}
				return false
			}
			if isRead(bo.X) && isRead(bo.Y) {
				okMean := false
				if refs := bo.Referrers(); refs != nil {
					for _, u := range *refs {
						if q, ok := u.(*ssa.BinOp); ok && q.Op == token.QUO && q.X == ssa.Value(bo) {
							if k, okc := intConst(q.Y); okc && k == 2 {
								okMean = true
							}
						}
					}
				}
				r.Check(okMean, rule, "Median:even-mean", p.ipos(bo), fnName(fn), "even length: mean of the two middle elements", "the two middle elements are not averaged ((a+b)/2)")
			}
		}
	}
}

// sameSliceVar: both values are loads of the same local slice variable.
func sameSliceVar(a, b ssa.Value) bool {
	la, oka := unwrap(a).(*ssa.UnOp)
	lb, okb := unwrap(b).(*ssa.UnOp)
	return oka && okb && la.Op == token.MUL && lb.Op == token.MUL && la.X == lb.X
}

// lessIsAscending: the comparator returns x[i] < x[j] (or x[j] > x[i]) on elements indexed by its first and second parameter.
func lessIsAscending(less *ssa.Function) bool {
	np := len(less.Params)
	if np < 2 {
		return false
	}
	pi, pj := ssa.Value(less.Params[np-2]), ssa.Value(less.Params[np-1])
	for _, b := range less.Blocks {
		ret, ok := b.Instrs[len(b.Instrs)-1].(*ssa.Return)
		if !ok {
			continue
		}
		bo, ok := ret.Results[0].(*ssa.BinOp)
		if !ok {
			return false
		}
		lo, hi := bo.X, bo.Y
		switch bo.Op {
		case token.LSS:
		case token.GTR:
			lo, hi = hi, lo
		default:
			return false
		}
		idxOf := func(v ssa.Value) ssa.Value {
			u, ok := unwrap(v).(*ssa.UnOp)
			if !ok {
				return nil
			}
			ia, ok := u.X.(*ssa.IndexAddr)
			if !ok {
				return nil
			}
			return unwrap(ia.Index)
		}
		if idxOf(lo) != pi || idxOf(hi) != pj {
			return false
		}
	}
	return true
}
