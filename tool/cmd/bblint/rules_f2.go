package main

// Rules added in the sixth round from the second coverage probe (notes/probes2.py).

import (
	"fmt"
	"go/token"
	"go/types"

	"golang.org/x/tools/go/ssa"
)

func init() {
	add := func(id string, expl string, rules ...ruleFunc) {
		d := registry[id]
		if d == nil {
			panic("rules_f2: unknown property " + id)
		}
		d.Rules = append(d.Rules, rules...)
		if i := lastIndexOf(d.Meta.Explanation, "NOT decided"); i >= 0 {
			d.Meta.Explanation = d.Meta.Explanation[:i] + expl + " " + d.Meta.Explanation[i:]
		} else {
			d.Meta.Explanation += " " + expl
		}
	}
	as := func(f func(*Prog, *Report, string), rule string) ruleFunc {
		return func(p *Prog, r *Report) { f(p, r, rule) }
	}
	add("C02", "C02.blockfields (NewBlockFromFrame hands NewBlock the frame's own round, peers, timestamp and hash and its own index argument; NewBlock stores each parameter in the body field of the same meaning; shared with C12.blockfields / C13.blockfields).", as(blockFieldsRule, "C02.blockfields"))
	add("C12", "C12.blockfields (see C02.blockfields: the block a responder serves is tied to the frame of ITS round).", as(blockFieldsRule, "C12.blockfields"))
	add("C13", "C13.blockfields (see C02.blockfields), C13.framestored (a frame computed by GetFrame is stored before it is returned: a later request for the same round gets the very frame the block was built from, not one recomputed from later state), C13.anchorframe (GetAnchorBlockWithFrame pairs the anchor block with the frame of that block's round-received).", as(blockFieldsRule, "C13.blockfields"), as(frameStoredRule, "C13.framestored"), as(anchorFrameRule, "C13.anchorframe"))
	add("C09", "C09.sigkey (a signature is recorded under the canonical hex spelling of the signer's key, the spelling membership tests and GetSignatures use).", as(sigKeyRule, "C09.sigkey"))
	add("C16", "C16.sameargs (a read-through getter hands the database reader the same arguments it handed the cache; dbParticipantEvents lists from skip+1 in steps of one; dbTopologicalEvents returns at most count events; shared with C11.sameargs / C17.sameargs).", as(sameArgsRule, "C16.sameargs"))
	add("C11", "C11.sameargs (see C16.sameargs: a replay batch never overlaps the next one).", as(sameArgsRule, "C11.sameargs"))
	add("C17", "C17.sameargs (see C16.sameargs: the difference served to a peer has no duplicate and no hole when it comes from the database), C17.known (the known-events map reports each creator's last index).", as(sameArgsRule, "C17.sameargs"), as(knownRule, "C17.known"))
	add("C15", "C15.nilpreserve (the two conversions between block signatures and their wire form return nil for nil and a made slice only for non-nil: nil and empty encode differently — null vs [] — in the hashed JSON).", as(nilPreserveRule, "C15.nilpreserve"))
	add("C19", "C19.signers (the signatures compared with the trust threshold are those of DISTINCT MEMBERS: membership by full public key and once-per-validator counting in CheckBlock, membership before a signature is recorded in ProcessSigPool; shared with C12.check / C12.distinct / C09.record).", sharedAs(c12check, map[string]string{"C12.check": "C19.signers", "C12.distinct": "C19.distinct"}), sharedAs(c09record, map[string]string{"C09.record": "C19.recorded"}))
	add("C15", "C15.wireinfo (the wire coordinates given to a new event come from the store — the parents' Index() and the repertoire ID of their creators' keys — never from the unexported coordinate fields of another event, which JSON drops: an event that reached the store through a frame has them zeroed).", as(wireInfoRule, "C15.wireinfo"))
	add("C11", "C11.sigahead (ProcessSigPool touches only blocks this run has produced — bs.Index <= LastBlockIndex(): during the bootstrap replay a persistent store still serves the blocks of the previous run through its database fall-back, and re-saving one of them moves the last-block index ahead of the blocks being re-created; shared with C02.sigahead).", as(sigAheadRule, "C11.sigahead"))
	add("C02", "C02.sigahead (see C11.sigahead: no index is skipped when blocks are re-delivered).", as(sigAheadRule, "C02.sigahead"))
	add("C20", "C20.srverr (every method of the application-side RPC server returns the handler's own error: a failed handler is never answered as an empty success).", as(serverErrRule, "C20.srverr"))
	add("C17", "C17.transporterr (the transport carries a handler's refusal to the requester: handleCommand sends Error() whenever the response has an error, decodeResponse turns a non-empty error string into a non-nil error).", as(transportErrRule, "C17.transporterr"))
	add("C13", "C13.restored (a fast-forwarding node starts babbling only after the application accepted the snapshot), C13.snapshot (a responder ships the snapshot taken at the anchor block it ships).", as(restoredRule, "C13.restored"), as(snapshotRule, "C13.snapshot"))
	add("C13", "C13.undecided (after a reset the round-received search steps over undecided rounds at or below the lower bound and stops at the first one above it; shared with C01.undecided).", as(undecidedSkipRule, "C13.undecided"))
	add("C11", "C11.dbkept (the engine moves an existing database aside only when it was NOT asked to bootstrap from it), C11.genesis (the hashgraph is initialised with the genesis peer set read from peers.genesis.json — the current peers file only when that cannot be read: a replay from another genesis set computes other rounds; shared with C10.genesis).", as(dbKeptRule, "C11.dbkept"), as(genesisRule, "C11.genesis"))
	add("C10", "C10.genesis (see C11.genesis), C10.canonkey (Peer.PubKeyString is the upper-cased PubKeyHex: the one spelling every by-key map of the module is indexed with).", as(genesisRule, "C10.genesis"), as(canonKeyRule, "C10.canonkey"))
	add("C17", "C17.maintenance (Node.Init in maintenance mode makes exactly one transition, to Suspended).", as(maintenanceRule, "C17.maintenance"))
	add("C03", "C03.recorded (what DivideRounds records for an event IS what the consensus functions computed: SetRound <- round(x), AddCreatedEvent(x, w) with w <- witness(x), SetLamportTimestamp <- lamportTimestamp(x), the round record keyed by that round — nothing adjusts them by process-local state such as the last consensus round at the moment the event arrived; shared with C01.recorded / C13.recorded).", as(recordedRule, "C03.recorded"))
	add("C01", "C01.recorded (see C03.recorded: the recorded witness flag is hashed into every frame).", as(recordedRule, "C01.recorded"))
	add("C13", "C13.recorded (see C03.recorded).", as(recordedRule, "C13.recorded"))
	add("C16", "C16.window (the rolling index addresses its window exactly: as linear forms over (argument, lastIndex, len(items)), Get slices from skip - lastIndex + len(items), GetItem and the in-place Set index at index - lastIndex + len(items) - 1 — the item of index i sits at position i - oldest with oldest = lastIndex - len + 1; shared with C17.window).", as(windowRule, "C16.window"))
	add("C17", "C17.window (see C16.window: a peer is served the events with index > its known index, none twice, none skipped).", as(windowRule, "C17.window"))
	add("C08", "C08.heads (core.sync records as a peer's head — the other-parent of the next self-event — only an event whose insertion returned nil: a refused event, e.g. a signed fork, kept as head makes every later self-event fail with 'other-parent not known' and the node stops answering valid syncs; shared with C07.heads).", as(headsRule, "C08.heads"))
	add("C07", "C07.heads (see C08.heads: a rejected event leaves no trace in the state the node builds events from).", as(headsRule, "C07.heads"))
	add("C05", "C05.accept (every transaction received on the submit channel is added to the pool, whatever the state of the node).", as(acceptRule, "C05.accept"))
}

// sharedAs runs a rule of another property and records the obligations of the listed rule ids under
// new ids (a construct that serves two properties is reported for both).
func sharedAs(fn ruleFunc, rename map[string]string) ruleFunc {
	return func(p *Prog, r *Report) {
		tmp := newReport(r.Prop)
		tmp.Config = r.Config
		fn(p, tmp)
		for old, nw := range rename {
			if d, ok := tmp.descr[old]; ok {
				r.Rule(nw, tmp.mins[old], d+" (shared: "+old+")")
			}
		}
		for _, o := range tmp.Obs {
			if nw, ok := rename[o.Rule]; ok {
				r.add(nw, o.Construct, o.Site, o.Fn, o.OK, o.Detail)
			}
		}
	}
}

func lastIndexOf(s, sub string) int {
	for i := len(s) - len(sub); i >= 0; i-- {
		if s[i:i+len(sub)] == sub {
			return i
		}
	}
	return -1
}

/* ---------- C02.blockfields ---------- */

func blockFieldsRule(p *Prog, r *Report, rule string) {
	r.Rule(rule, 9, "NewBlockFromFrame -> NewBlock(index param, frame.Round, frame.Hash(), frame.Peers, …, frame.Timestamp); NewBlock: Body.Index/RoundReceived/FrameHash/Timestamp/Transactions/InternalTransactions each from the parameter of that meaning, PeersHash from the hash of the set built from the peers parameter")
	nbf := p.Func(HG, "", "NewBlockFromFrame")
	nb := p.Func(HG, "", "NewBlock")
	if nbf == nil || nb == nil {
		r.Anchor(rule, "hashgraph.NewBlockFromFrame / NewBlock")
		return
	}
	frame := paramByType(nbf, 1, "Frame")
	cs := callsIn(nbf, named(HG+".NewBlock"))
	if len(cs) == 0 {
		r.Fail(rule, "NewBlockFromFrame:NewBlock", p.pos(nbf.Pos()), fnName(nbf), "NewBlockFromFrame does not build the block with NewBlock")
	}
	fromFrameField := func(v ssa.Value, field string) bool {
		return flowsFromLocal(v, func(x ssa.Value) bool {
			fv, base := fieldOf(x)
			return fv != nil && fv.Name() == field && base != nil && flowsFromLocal(base, func(y ssa.Value) bool { return y == frame })
		})
	}
	for _, c := range cs {
		args := c.Common().Args
		if len(args) < 7 {
			r.Fail(rule, "NewBlockFromFrame:NewBlock:arity", p.ipos(c), fnName(nbf), "unexpected number of arguments")
			continue
		}
		checks := []struct {
			what string
			ok   bool
		}{
			{"index==blockIndex parameter", flowsFromLocal(args[0], func(x ssa.Value) bool { return len(nbf.Params) > 0 && x == ssa.Value(nbf.Params[0]) })},
			{"roundReceived==frame.Round", fromFrameField(args[1], "Round")},
			{"frameHash==frame.Hash()", flowsFromLocal(args[2], func(x ssa.Value) bool {
				cc, idx, ok := isCallTo(x, named(HG+".Frame.Hash"))
				return ok && idx == 0 && flowsFromLocal(recvOf(cc), func(y ssa.Value) bool { return y == frame })
			})},
			{"peers==frame.Peers", fromFrameField(args[3], "Peers")},
			{"timestamp==frame.Timestamp", fromFrameField(args[6], "Timestamp")},
		}
		for _, ck := range checks {
			r.Check(ck.ok, rule, "NewBlockFromFrame:NewBlock:"+ck.what, p.ipos(c), fnName(nbf), "", "the block is not built with "+ck.what+": its body would describe another round / set / frame than the one whose events it carries, and a node that fast-forwards to it is handed a frame that does not hash to the block")
		}
	}
	// NewBlock: parameter -> field table
	table := map[string]int{"Index": 0, "RoundReceived": 1, "FrameHash": 2, "Transactions": 4, "InternalTransactions": 5, "Timestamp": 6}
	bb := p.Type(HG, "BlockBody")
	if bb == nil {
		r.Anchor(rule, "hashgraph.BlockBody")
		return
	}
	seen := map[string]bool{}
	for _, b := range nb.Blocks {
		for _, in := range b.Instrs {
			st, ok := in.(*ssa.Store)
			if !ok {
				continue
			}
			fa, ok := st.Addr.(*ssa.FieldAddr)
			if !ok {
				continue
			}
			if n := namedOf(fa.X.Type()); n == nil || n.Obj() != bb.Obj() {
				if pt, isP := fa.X.Type().Underlying().(*types.Pointer); !isP || namedOf(pt.Elem()) == nil || namedOf(pt.Elem()).Obj() != bb.Obj() {
					continue
				}
			}
			fv := fieldVar(fa.X.Type(), fa.Field)
			if fv == nil {
				continue
			}
			name := refName(fv)
			if idx, inTable := table[name]; inTable {
				seen[name] = true
				okp := idx < len(nb.Params) && flowsFromLocal(st.Val, func(x ssa.Value) bool { return x == ssa.Value(nb.Params[idx]) })
				r.Check(okp, rule, "NewBlock:Body."+name, p.ipos(st), fnName(nb), "", "BlockBody."+name+" is not the NewBlock parameter of that meaning")
			}
			if name == "PeersHash" {
				seen[name] = true
				okp := dependsOn(st.Val, func(x ssa.Value) bool {
					cc, _, ok := isCallTo(x, named(PEER+".PeerSet.Hash"))
					return ok && dependsOn(recvOf(cc), func(y ssa.Value) bool { return len(nb.Params) > 3 && y == ssa.Value(nb.Params[3]) })
				})
				r.Check(okp, rule, "NewBlock:Body.PeersHash", p.ipos(st), fnName(nb), "", "BlockBody.PeersHash is not the hash of the peer set built from the peers parameter")
			}
		}
	}
	for name := range table {
		if !seen[name] {
			r.Fail(rule, "NewBlock:Body."+name, p.pos(nb.Pos()), fnName(nb), "NewBlock does not set BlockBody."+name)
		}
	}
}

/* ---------- C13.framestored / C13.anchorframe ---------- */

func frameStoredRule(p *Prog, r *Report, rule string) {
	r.Rule(rule, 1, "Hashgraph.GetFrame returns a frame it computed only after Store.SetFrame accepted it")
	fn := p.Func(HG, "Hashgraph", "GetFrame")
	if fn == nil {
		r.Anchor(rule, "hashgraph.(*Hashgraph).GetFrame")
		return
	}
	qSet := p.lift(func(l Lit) bool { _, ok := errNilLit(l, storeM("SetFrame")); return ok }, 1)
	n := 0
	for _, rp := range p.succRets(fn, errNil, 1) {
		// a frame read from the store is returned as it is
		if flowsFromLocal(rp.ret.Results[0], func(x ssa.Value) bool { _, _, ok := isCallTo(x, storeM("GetFrame")); return ok }) {
			if !dependsOn(rp.ret.Results[0], func(x ssa.Value) bool { _, isAl := x.(*ssa.Alloc); return isAl }) {
				continue
			}
		}
		n++
		g, _ := p.holdsAtRet(rp, []Pred{qSet}, all(1))
		r.Check(g, rule, fmt.Sprintf("GetFrame:return#%d:stored", n), p.ipos(rp.ret), fnName(fn), "the computed frame is stored before it is handed out",
			"GetFrame can return a frame it computed without storing it: the next call for the same round (a fast-forward request, the /graph service) recomputes it from the state of THAT moment — other roots for silent creators, a longer peer-set history — and the result no longer hashes to the frame hash in the block")
	}
	if n == 0 {
		r.Fail(rule, "GetFrame:computed-return", p.pos(fn.Pos()), fnName(fn), "no return of a computed frame found")
	}
}

func anchorFrameRule(p *Prog, r *Report, rule string) {
	r.Rule(rule, 1, "GetAnchorBlockWithFrame: the frame is GetFrame(block.RoundReceived()) of the block it returns, and that block is Store.GetBlock(*AnchorBlock)")
	fn := p.Func(HG, "Hashgraph", "GetAnchorBlockWithFrame")
	if fn == nil {
		r.Anchor(rule, "hashgraph.(*Hashgraph).GetAnchorBlockWithFrame")
		return
	}
	n := 0
	for _, rp := range p.succRets(fn, errNil, 2) {
		n++
		blk, frm := rp.ret.Results[0], rp.ret.Results[1]
		okBlk := flowsFromLocal(blk, func(x ssa.Value) bool {
			c, idx, ok := isCallTo(x, storeM("GetBlock"))
			return ok && idx == 0 && depOnField(argN(c, 0), "AnchorBlock")
		})
		okFrm := flowsFromLocal(frm, func(x ssa.Value) bool {
			c, idx, ok := isCallTo(x, named(HG+".Hashgraph.GetFrame"))
			if !ok || idx != 0 {
				return false
			}
			return flowsFromLocal(argN(c, 0), func(y ssa.Value) bool {
				cc, _, ok := isCallTo(y, named(HG+".Block.RoundReceived"))
				if ok {
					return commonOrigin(recvOf(cc), blk) || sameOrigin(recvOf(cc), blk)
				}
				fv, base := fieldOf(y)
				return fv != nil && fv.Name() == "RoundReceived" && dependsOn(base, func(z ssa.Value) bool { return z == unwrap(blk) })
			})
		})
		r.Check(okBlk && okFrm, rule, fmt.Sprintf("GetAnchorBlockWithFrame:return#%d", n), p.ipos(rp.ret), fnName(fn), "anchor block and the frame of its own round",
			fmt.Sprintf("the pair handed to a catching-up node is not (GetBlock(*AnchorBlock) [%v], GetFrame(that block's RoundReceived()) [%v]): the frame would not hash to the block's frame hash and nobody could fast-forward from this node", okBlk, okFrm))
	}
	if n == 0 {
		r.Fail(rule, "GetAnchorBlockWithFrame:return", p.pos(fn.Pos()), fnName(fn), "no success return found")
	}
}

/* ---------- C09.sigkey ---------- */

func sigKeyRule(p *Prog, r *Report, rule string) {
	r.Rule(rule, 1, "Block.SetSignature records the signature under BlockSignature.ValidatorHex()")
	fn := p.Func(HG, "Block", "SetSignature")
	if fn == nil {
		r.Anchor(rule, "hashgraph.(*Block).SetSignature")
		return
	}
	n := 0
	for _, b := range fn.Blocks {
		for _, in := range b.Instrs {
			mu, ok := in.(*ssa.MapUpdate)
			if !ok || !flowsFromField(mu.Map, "Signatures") {
				continue
			}
			n++
			okKey := flowsFromLocal(mu.Key, func(x ssa.Value) bool { _, _, ok := isCallTo(x, named(HG+".BlockSignature.ValidatorHex")); return ok })
			okVal := flowsFromField(mu.Value, "Signature")
			r.Check(okKey && okVal, rule, fmt.Sprintf("SetSignature:entry#%d", n), p.ipos(in), fnName(fn), "Signatures[ValidatorHex()] = Signature",
				"a signature is recorded under a key that is not the canonical ValidatorHex() (or with a value that is not the signature string): the membership test, the once-per-validator count and GetSignatures — which decodes the key back into the validator's bytes — no longer agree on who signed")
		}
	}
	if n == 0 {
		r.Fail(rule, "SetSignature:entry", p.pos(fn.Pos()), fnName(fn), "SetSignature does not write Block.Signatures")
	}
}

/* ---------- C16.sameargs ---------- */

func sameArgsRule(p *Prog, r *Report, rule string) {
	r.Rule(rule, 7, "BadgerStore read-through getters pass their own parameters, unchanged, to the cache reader and to the db reader; dbParticipantEvents reads keys skip+1, skip+2, …; dbTopologicalEvents appends only while t < start+count")
	n := 0
	for _, fn := range p.Mod {
		if recvNamedSig(fn) != "BadgerStore" || fn.Synthetic != "" || len(fn.Params) < 2 {
			continue
		}
		var inmem, db []ssa.CallInstruction
		for _, b := range fn.Blocks {
			for _, in := range b.Instrs {
				ci, ok := in.(ssa.CallInstruction)
				if !ok {
					continue
				}
				f := calleeFunc(ci.Common())
				if f == nil {
					continue
				}
				sn := shortName(f)
				switch {
				case recvNamed(f) == "InmemStore" && f.Name() == fn.Name():
					inmem = append(inmem, ci)
				case recvNamed(f) == "BadgerStore" && len(f.Name()) > 2 && f.Name()[:2] == "db" && (f.Name()[2:] == fn.Name() || "Get"+f.Name()[2:] == fn.Name()):
					db = append(db, ci)
				}
				_ = sn
			}
		}
		if len(inmem) == 0 || len(db) == 0 || fn.Name()[:3] == "Set" {
			continue
		}
		for _, group := range [][]ssa.CallInstruction{inmem, db} {
			for _, c := range group {
				args := c.Common().Args
				if !c.Common().IsInvoke() && len(args) > 0 {
					args = args[1:] // receiver
				}
				for i, a := range args {
					if i+1 >= len(fn.Params) {
						break
					}
					n++
					ok := flowsFromLocal(a, func(x ssa.Value) bool { return x == ssa.Value(fn.Params[i+1]) })
					r.Check(ok, rule, fmt.Sprintf("%s:%s:arg%d", fn.Name(), calleeFunc(c.Common()).Name(), i), p.ipos(c), fnName(fn), "the reader gets the caller's own argument",
						"the read-through getter does not pass its parameter #"+fmt.Sprint(i)+" unchanged to "+calleeFunc(c.Common()).Name()+": cache and database would answer different questions (an index shifted by one duplicates or drops an event in a listing)")
				}
			}
		}
	}
	if n == 0 {
		r.Fail(rule, "BadgerStore:read-through-getters", "-", "", "no read-through getter with parameters found")
	}
	// dbParticipantEvents: first key skip+1, then +1
	dpe := p.Func(HG, "BadgerStore", "dbParticipantEvents")
	if dpe == nil {
		r.Anchor(rule, "hashgraph.(*BadgerStore).dbParticipantEvents")
	} else {
		skip := ssa.Value(dpe.Params[len(dpe.Params)-1])
		okStart, okStep, okAllKeys, nKeys := false, false, true, 0
		for _, f := range withAnon(dpe) {
			for _, c := range callsIn(f, named(HG+".participantEventKey")) {
				nKeys++
				idx := argN(c, 1)
				// skip+1 (directly, or as the initial value of a counter)
				isSkipPlus1 := func(v ssa.Value) bool {
					bo, ok := unwrap(v).(*ssa.BinOp)
					if !ok || bo.Op != token.ADD {
						return false
					}
					k, okc := intConst(bo.Y)
					x := bo.X
					if !okc {
						k, okc = intConst(bo.X)
						x = bo.Y
					}
					return okc && k == 1 && flowsFrom(x, func(y ssa.Value) bool {
						if y == skip {
							return true
						}
						if fv, isFV := y.(*ssa.FreeVar); isFV {
							return unwrap(freeVarBinding(fv)) == skip
						}
						return false
					})
				}
				direct := isSkipPlus1(idx)
				stepped := len(incrementsOf(idx)) > 0 || isFreeVarIncremented(f, idx)
				if direct {
					okStart = true
				}
				if stepped {
					okStep = true
				}
				if !direct && !stepped {
					okAllKeys = false
				}
				// a loop-carried index: its value on entry to the loop is skip+1 too
				if ph, isPhi := unwrap(idx).(*ssa.Phi); isPhi {
					for _, e := range ph.Edges {
						if dependsOn(e, func(y ssa.Value) bool { return y == ssa.Value(ph) }) {
							continue
						}
						if !isSkipPlus1(e) {
							okAllKeys = false
						} else {
							okStart = true
						}
					}
				}
			}
		}
		r.Check(nKeys > 0 && okStart && okStep && okAllKeys, rule, "dbParticipantEvents:keys-from-skip+1", p.pos(dpe.Pos()), fnName(dpe), "lists indexes skip+1, skip+2, … like the in-memory listing",
			"dbParticipantEvents does not read participantEventKey(p, skip+1) and then indexes advancing by one: the database listing starts at another index than the cache listing (Get returns the items with index > skip), so a peer served from the database gets an event twice or not at all")
	}
	// dbTopologicalEvents: at most count
	dte := p.Func(HG, "BadgerStore", "dbTopologicalEvents")
	if dte == nil {
		r.Anchor(rule, "hashgraph.(*BadgerStore).dbTopologicalEvents")
		return
	}
	okBound, nApp := true, 0
	for _, f := range withAnon(dte) {
		for _, b := range f.Blocks {
			for _, in := range b.Instrs {
				c, ok := in.(*ssa.Call)
				if !ok {
					continue
				}
				if bi, isB := c.Call.Value.(*ssa.Builtin); !isB || bi.Name() != "append" {
					continue
				}
				nApp++
				qLess := func(l Lit) bool {
					a, bb, strict, ok := cmpLit(l)
					if !ok || !strict {
						return false
					}
					// a > b : start+count > t
					sum, isSum := unwrap(a).(*ssa.BinOp)
					return isSum && sum.Op == token.ADD && !isConstLike(bb)
				}
				g, _ := p.allPaths(c, []Pred{qLess}, all(1))
				if !g {
					okBound = false
				}
			}
		}
	}
	r.Check(nApp > 0 && okBound, rule, "dbTopologicalEvents:at-most-count", p.pos(dte.Pos()), fnName(dte), "an event is appended only while t < start+count",
		"dbTopologicalEvents can return more than count events (append not guarded by t < start+count): consecutive replay batches overlap, the overlapping event is inserted twice and the bootstrap stops with an error")
}

func isConstLike(v ssa.Value) bool { _, ok := v.(*ssa.Const); return ok }

// allOrSome: v, or some source of v through phis / captured locals, satisfies pred.
func allOrSome(v ssa.Value, pred func(ssa.Value) bool) bool {
	if pred(v) {
		return true
	}
	return flowsFrom(v, pred)
}

/* ---------- C17.known ---------- */

func knownRule(p *Prog, r *Report, rule string) {
	r.Rule(rule, 1, "RollingIndexMap.Known reports, per key, the lastIndex of that key's RollingIndex")
	fn := p.Func("src/common", "RollingIndexMap", "Known")
	if fn == nil {
		r.Anchor(rule, "common.(*RollingIndexMap).Known")
		return
	}
	n := 0
	for _, b := range fn.Blocks {
		for _, in := range b.Instrs {
			mu, ok := in.(*ssa.MapUpdate)
			if !ok {
				continue
			}
			n++
			okv := flowsFromLocal(mu.Value, func(x ssa.Value) bool {
				if c, idx, ok := isCallTo(x, named("src/common.RollingIndex.GetLastWindow")); ok && c != nil && idx == 1 {
					return true
				}
				return flowsFromField(x, "lastIndex")
			})
			r.Check(okv, rule, fmt.Sprintf("Known:entry#%d", n), p.ipos(in), fnName(fn), "known[k] = last index of k", "the known-events map does not report the creator's last index (lastIndex of its RollingIndex): once the window has rolled the node advertises a wrong height, and peers send it events it has (rejected) or withhold events it lacks")
		}
	}
	if n == 0 {
		r.Fail(rule, "Known:entry", p.pos(fn.Pos()), fnName(fn), "Known does not fill a map")
	}
}

/* ---------- C15.nilpreserve ---------- */

func nilPreserveRule(p *Prog, r *Report, rule string) {
	r.Rule(rule, 2, "Event.WireBlockSignatures / WireEvent.BlockSignatures: a made slice is returned only when the source slice is non-nil; nil otherwise")
	for _, spec := range []struct{ recv, name string }{{"Event", "WireBlockSignatures"}, {"WireEvent", "BlockSignatures"}} {
		fn := p.Func(HG, spec.recv, spec.name)
		if fn == nil {
			r.Anchor(rule, "hashgraph."+spec.recv+"."+spec.name)
			continue
		}
		qNonNil := func(l Lit) bool {
			v, isNil, ok := nilTest(l)
			return ok && !isNil && flowsFromField(v, "BlockSignatures")
		}
		okAll, retNil := true, false
		for _, b := range fn.Blocks {
			ret, isRet := b.Instrs[len(b.Instrs)-1].(*ssa.Return)
			if !isRet || len(ret.Results) != 1 {
				continue
			}
			v := ret.Results[0]
			if isNilConst(v) {
				retNil = true
				continue
			}
			if dependsOn(v, func(x ssa.Value) bool { _, isMk := x.(*ssa.MakeSlice); return isMk }) {
				if g, _ := p.allPaths(ret, []Pred{qNonNil}, all(1)); !g {
					okAll = false
				}
			} else if !flowsFromField(v, "BlockSignatures") {
				// a phi of nil and a made slice etc.: every made operand must come from a guarded block
				if ph, isPhi := v.(*ssa.Phi); isPhi {
					for i, e := range ph.Edges {
						if isNilConst(e) {
							retNil = true
							continue
						}
						if g, _ := p.allPathsEdge(b.Preds[i], b, []Pred{qNonNil}, all(1)); !g {
							okAll = false
						}
					}
				} else {
					okAll = false
				}
			}
		}
		r.Check(okAll && retNil, rule, spec.recv+"."+spec.name+":nil-stays-nil", p.pos(fn.Pos()), fnName(fn), "nil in, nil out",
			"the conversion can return an empty (non-nil) slice for a nil source, or never returns nil: the event body is hashed as JSON, where nil is null and empty is [] — the receiver would rebuild a body with another hash and refuse the creator's signature")
	}
}

/* ---------- C05.accept ---------- */

func acceptRule(p *Prog, r *Report, rule string) {
	r.Rule(rule, 1, "Node.doBackgroundWork: after a receive from submitCh every path of that iteration calls addTransaction with the received value (no state test, no filter)")
	fn := p.Func(NODE, "Node", "doBackgroundWork")
	if fn == nil {
		r.Anchor(rule, "node.(*Node).doBackgroundWork")
		return
	}
	addM := named(NODE + ".Node.addTransaction")
	var sel *ssa.Select
	caseIdx := -1
	for _, b := range fn.Blocks {
		for _, in := range b.Instrs {
			s, ok := in.(*ssa.Select)
			if !ok {
				continue
			}
			for i, st := range s.States {
				if st.Dir == types.RecvOnly && flowsFromField(st.Chan, "submitCh") {
					sel, caseIdx = s, i
				}
			}
		}
	}
	if sel == nil {
		// a plain receive
		r.Fail(rule, "doBackgroundWork:submitCh", p.pos(fn.Pos()), fnName(fn), "no select case receiving from submitCh found")
		return
	}
	loops := naturalLoops(fn)
	lp := innermostLoop(loops, sel.Block())
	n := 0
	for _, b := range fn.Blocks {
		for _, s := range b.Succs {
			l, ok := edgeLit(b, s)
			if !ok {
				continue
			}
			x, y, okq := eqLit(l)
			if !okq {
				continue
			}
			k, okc := intConst(y)
			if !okc {
				k, okc = intConst(x)
				x = y
			}
			e, isE := unwrap(x).(*ssa.Extract)
			if !okc || !isE || e.Tuple != ssa.Value(sel) || e.Index != 0 || int(k) != caseIdx {
				continue
			}
			n++
			pr, at := avoidSearch(b, s,
				func(z *ssa.BasicBlock) bool { return blockHasCall(z, addM) },
				func(pred, z *ssa.BasicBlock) bool {
					if lp != nil {
						return z == lp.head || !lp.body[z]
					}
					_, isRet := z.Instrs[len(z.Instrs)-1].(*ssa.Return)
					return isRet
				}, nil, 0)
			where := ""
			if at != nil {
				where = p.ipos(pr.Instrs[len(pr.Instrs)-1])
			}
			r.Check(at == nil, rule, "doBackgroundWork:submitCh-case:always-added", p.ipos(b.Instrs[len(b.Instrs)-1]), fnName(fn), "a received transaction always reaches the pool",
				"a transaction received from the application can be discarded (path through "+where+" skips addTransaction): the application was told it was accepted — SubmitTx returned — but it will never be in an event")
		}
	}
	if n == 0 {
		r.Fail(rule, "doBackgroundWork:submitCh-case", p.pos(fn.Pos()), fnName(fn), "the branch taken for the submitCh case was not found")
	}
	// the value added is the value received
	for _, c := range callsIn(fn, addM) {
		ok := flowsFromLocal(lastArg(c), func(x ssa.Value) bool {
			e, isE := x.(*ssa.Extract)
			return isE && e.Tuple == ssa.Value(sel) && e.Index >= 2
		})
		r.Check(ok, rule, "doBackgroundWork:addTransaction:received-value", p.ipos(c), fnName(fn), "the pool receives the very slice that was submitted", "addTransaction is not given the value received from submitCh")
	}
}

/* ---------- C15.wireinfo ---------- */

func wireInfoRule(p *Prog, r *Report, rule string) {
	r.Rule(rule, 4, "Hashgraph.SetWireInfo: every argument of Event.SetWireInfo is a constant default, the Index() of a parent read from the store, or Peer.ID() of a repertoire entry")
	fn := p.Func(HG, "Hashgraph", "SetWireInfo")
	if fn == nil {
		r.Anchor(rule, "hashgraph.(*Hashgraph).SetWireInfo")
		return
	}
	cs := callsIn(fn, named(HG+".Event.SetWireInfo"))
	if len(cs) == 0 {
		r.Fail(rule, "SetWireInfo:Event.SetWireInfo", p.pos(fn.Pos()), fnName(fn), "the coordinates are never set")
	}
	names := []string{"selfParentIndex", "otherParentCreatorID", "otherParentIndex", "creatorID"}
	for _, c := range cs {
		args := c.Common().Args
		if !c.Common().IsInvoke() && len(args) > 0 {
			args = args[1:]
		}
		for i, a := range args {
			wantID := i == 1 || i == 3
			ok := allSources(a, func(x ssa.Value) bool {
				if _, isC := x.(*ssa.Const); isC {
					return true
				}
				if wantID {
					cc, _, okc := isCallTo(x, named(PEER+".Peer.ID"))
					return okc && dependsOn(recvOf(cc), func(y ssa.Value) bool {
						_, _, isRep := isCallTo(y, storeM("RepertoireByPubKey", "RepertoireByID"))
						return isRep
					})
				}
				cc, _, okc := isCallTo(x, named(HG+".Event.Index"))
				return okc && dependsOn(recvOf(cc), func(y ssa.Value) bool {
					_, _, isGet := isCallTo(y, storeM("GetEvent"))
					return isGet
				})
			})
			nm := fmt.Sprint(i)
			if i < len(names) {
				nm = names[i]
			}
			r.Check(ok, rule, "SetWireInfo:"+nm, p.ipos(c), fnName(fn), "derived from the store",
				"the wire coordinate "+nm+" is not derived from the store (parent.Index() / repertoire ID of the creator's key): the unexported coordinate fields of a stored event are not a source of truth — JSON drops them, so an event that came in through a frame (fast-forward) has them zeroed, and an event built on it would go on the wire with coordinates no receiver can resolve")
		}
	}
}

/* ---------- C11.sigahead ---------- */

func sigAheadRule(p *Prog, r *Report, rule string) {
	r.Rule(rule, 2, "Hashgraph.ProcessSigPool: Block.SetSignature and Store.SetBlock are reached only under bs.Index <= Store.LastBlockIndex()")
	fn := p.Func(HG, "Hashgraph", "ProcessSigPool")
	if fn == nil {
		r.Anchor(rule, "hashgraph.(*Hashgraph).ProcessSigPool")
		return
	}
	q := func(l Lit) bool {
		a, b, _, ok := cmpLit(l) // a > b or a >= b
		if !ok {
			return false
		}
		_, _, isLast := isCallTo(a, storeM("LastBlockIndex"))
		if !isLast && !flowsFromCall(a, storeM("LastBlockIndex"), -1) {
			return false
		}
		// b is the signature's block index; strictness: last >= idx, or last > idx-?: accept >= only,
		// and > when written as last+1 > idx is not recognised (conservative)
		_, _, strict, _ := cmpLit(l)
		return !strict && (flowsFromField(b, "Index") || flowsFromCall(b, named(HG+".Block.Index"), -1))
	}
	n := 0
	for _, c := range callsIn(fn, func(f *types.Func) bool {
		sn := shortName(f)
		return sn == HG+".Block.SetSignature" || storeM("SetBlock")(f)
	}) {
		n++
		g, _ := p.allPaths(c, []Pred{q}, all(1))
		r.Check(g, rule, "ProcessSigPool:"+calleeFunc(c.Common()).Name()+":block-produced-in-this-run", p.ipos(c), fnName(fn), "only blocks at or below the last block index are touched",
			"ProcessSigPool can attach a signature to, and re-save, a block above Store.LastBlockIndex(): a signature that arrived before its block was decided is matched, during the bootstrap replay, with the block of the PREVIOUS run that the persistent store still serves from its database; saving it raises the last-block index, and every block re-created from then on is delivered with its index shifted by one")
	}
	if n == 0 {
		r.Fail(rule, "ProcessSigPool:actions", p.pos(fn.Pos()), fnName(fn), "ProcessSigPool records no signature")
	}
}

/* ---------- C20.srverr ---------- */

func serverErrRule(p *Prog, r *Report, rule string) {
	r.Rule(rule, 4, "SocketBabbleProxyServer.{CommitBlock, GetSnapshot, Restore, OnStateChanged}: the error returned is, on every path, the error the ProxyHandler method returned")
	n := 0
	for _, fn := range p.Mod {
		if recvNamedSig(fn) != "SocketBabbleProxyServer" || fn.Synthetic != "" || fn.Signature.Results().Len() != 1 || !isErrorType(fn.Signature.Results().At(0).Type()) {
			continue
		}
		var hcalls []*ssa.Call
		for _, b := range fn.Blocks {
			for _, in := range b.Instrs {
				if c, ok := in.(*ssa.Call); ok && c.Common().IsInvoke() && flowsFromField(c.Common().Value, "handler") {
					hcalls = append(hcalls, c)
				}
			}
		}
		if len(hcalls) == 0 {
			continue
		}
		n++
		ok := true
		for _, b := range fn.Blocks {
			ret, isRet := b.Instrs[len(b.Instrs)-1].(*ssa.Return)
			if !isRet {
				continue
			}
			v := spilledResult(ret, 0)
			if !allSources(v, func(x ssa.Value) bool {
				c, _ := callOf(x)
				for _, h := range hcalls {
					if c == h {
						return true
					}
				}
				return false
			}) {
				ok = false
			}
		}
		r.Check(ok, rule, "SocketBabbleProxyServer."+fn.Name()+":returns-handler-error", p.pos(fn.Pos()), fnName(fn), "the handler's error travels back to Babble",
			"the RPC method can return an error value that is not the handler's (e.g. nil after logging): Babble would take an application failure for a success with an empty state hash / no receipts / no snapshot")
	}
	if n == 0 {
		r.Fail(rule, "SocketBabbleProxyServer:methods", "-", "", "no RPC method calling the ProxyHandler found")
	}
}

/* ---------- C17.transporterr ---------- */

func transportErrRule(p *Prog, r *Report, rule string) {
	r.Rule(rule, 2, "NetworkTransport.handleCommand: after resp.Error != nil every path to the first Encode passes resp.Error.Error(); decodeResponse: after rpcError != \"\" every return carries a non-nil error")
	hc := p.Func("src/net", "NetworkTransport", "handleCommand")
	dr := p.Func("src/net", "", "decodeResponse")
	if hc == nil || dr == nil {
		r.Anchor(rule, "net.(*NetworkTransport).handleCommand / net.decodeResponse")
		return
	}
	errM := func(f *types.Func) bool { return f.Name() == "Error" }
	n := 0
	for _, b := range hc.Blocks {
		for _, s := range b.Succs {
			l, ok := edgeLit(b, s)
			if !ok {
				continue
			}
			v, isNil, okn := nilTest(l)
			if !okn || isNil || !flowsFromField(v, "Error") {
				continue
			}
			n++
			pr, at := avoidSearch(b, s,
				func(x *ssa.BasicBlock) bool {
					for _, in := range x.Instrs {
						if c, ok := in.(*ssa.Call); ok && c.Common().IsInvoke() && errM(c.Common().Method) && flowsFromField(c.Common().Value, "Error") {
							return true
						}
					}
					return false
				},
				func(pred, x *ssa.BasicBlock) bool {
					return blockHasCall(x, func(f *types.Func) bool { return f.Name() == "Encode" })
				}, nil, 0)
			where := ""
			if at != nil {
				where = p.ipos(pr.Instrs[len(pr.Instrs)-1])
			}
			r.Check(at == nil, rule, "handleCommand:error-sent", p.ipos(b.Instrs[len(b.Instrs)-1]), fnName(hc), "a handler error is always put on the wire",
				"a response that carries an error can be encoded without it (path through "+where+"): the requester takes the refusal of a suspended / joining / catching-up node for an empty success")
		}
	}
	if n == 0 {
		r.Fail(rule, "handleCommand:error-test", p.pos(hc.Pos()), fnName(hc), "no test of the response's Error found")
	}
	m := 0
	for _, b := range dr.Blocks {
		for _, s := range b.Succs {
			l, ok := edgeLit(b, s)
			if !ok {
				continue
			}
			x, y, okq := eqLit(Lit{V: l.V, Pos: !l.Pos})
			if !okq {
				continue
			}
			sx, okx := strConst(x)
			sy, oky := strConst(y)
			if !((okx && sx == "") || (oky && sy == "")) {
				continue
			}
			m++
			bad := ""
			// path state: the value most recently stored into a spilled (named) error result
			type pst struct {
				b    *ssa.BasicBlock
				last ssa.Value
			}
			seen := map[pst]bool{}
			stack := []pst{{s, nil}}
			for len(stack) > 0 {
				z := stack[len(stack)-1]
				stack = stack[:len(stack)-1]
				if seen[z] {
					continue
				}
				seen[z] = true
				last := z.last
				for _, in := range z.b.Instrs {
					if st, isSt := in.(*ssa.Store); isSt {
						if al, isAl := st.Addr.(*ssa.Alloc); isAl && isErrorType(al.Type().(*types.Pointer).Elem()) {
							last = st.Val
						}
					}
				}
				if ret, isRet := z.b.Instrs[len(z.b.Instrs)-1].(*ssa.Return); isRet {
					e := ret.Results[len(ret.Results)-1]
					if u, isLoad := e.(*ssa.UnOp); isLoad && u.Op == token.MUL && last != nil {
						if _, fromAlloc := u.X.(*ssa.Alloc); fromAlloc {
							e = last
						}
					}
					if isNilConst(e) || !neverNilErr(e, 2) {
						bad = p.ipos(ret)
					}
					continue
				}
				for _, nx := range z.b.Succs {
					stack = append(stack, pst{nx, last})
				}
			}
			r.Check(bad == "", rule, "decodeResponse:remote-error-returned", p.ipos(b.Instrs[len(b.Instrs)-1]), fnName(dr), "a remote error becomes a local error", "decodeResponse can return a nil error at "+bad+" although the remote side sent an error string")
		}
	}
	if m == 0 {
		r.Fail(rule, "decodeResponse:error-string-test", p.pos(dr.Pos()), fnName(dr), "no test of the decoded error string found")
	}
}

/* ---------- C13.restored / C13.snapshot ---------- */

func restoredRule(p *Prog, r *Report, rule string) {
	r.Rule(rule, 1, "Node.fastForward: after a response was adopted (core.fastForward==nil), transition(Babbling) is reached only if proxy.Restore returned nil")
	fn := p.Func(NODE, "Node", "fastForward")
	if fn == nil {
		r.Anchor(rule, "node.(*Node).fastForward")
		return
	}
	states, _ := stateConsts(p)
	qFF := p.lift(func(l Lit) bool { _, ok := errNilLit(l, named(NODE+".core.fastForward")); return ok }, 1)
	qRestore := func(l Lit) bool {
		v, isNil, ok := nilTest(l)
		if !ok || !isNil {
			return false
		}
		c, _ := callOf(v)
		return c != nil && c.Common().IsInvoke() && c.Common().Method.Name() == "Restore"
	}
	n := 0
	for _, c := range callsIn(fn, named(NODE+".Node.transition")) {
		if k, ok := intConst(argN(c, 0)); !ok || k != states["Babbling"] {
			continue
		}
		// only the transition that follows an adopted response
		if g, _ := p.allPaths(c, []Pred{qFF}, all(1)); !g {
			continue
		}
		n++
		g, _ := p.allPaths(c, []Pred{qRestore}, all(1))
		r.Check(g, rule, "fastForward:babbling-after-restore", p.ipos(c), fnName(fn), "the application took the snapshot before the node babbles",
			"the node can start babbling on the adopted chain although proxy.Restore did not return nil: its application still holds the old state, every state hash it returns from then on differs from the other nodes', and its block signatures are worthless")
	}
	if n == 0 {
		r.Fail(rule, "fastForward:transition", p.pos(fn.Pos()), fnName(fn), "no transition to Babbling after an adopted response found")
	}
}

func snapshotRule(p *Prog, r *Report, rule string) {
	r.Rule(rule, 1, "Node.processFastForwardRequest: the snapshot requested from the application is the one at Index() of the anchor block put in the response")
	fn := p.Func(NODE, "Node", "processFastForwardRequest")
	if fn == nil {
		r.Anchor(rule, "node.(*Node).processFastForwardRequest")
		return
	}
	n := 0
	for _, b := range fn.Blocks {
		for _, in := range b.Instrs {
			c, ok := in.(*ssa.Call)
			if !ok || !c.Common().IsInvoke() || c.Common().Method.Name() != "GetSnapshot" {
				continue
			}
			n++
			a := c.Common().Args[0]
			okA := flowsFromLocal(a, func(x ssa.Value) bool {
				cc, _, ok := isCallTo(x, named(HG+".Block.Index"))
				if !ok {
					return false
				}
				return dependsOn(recvOf(cc), func(y ssa.Value) bool {
					_, idx, isA := isCallTo(y, named(NODE+".core.getAnchorBlockWithFrame", HG+".Hashgraph.GetAnchorBlockWithFrame"))
					return isA && idx == 0
				})
			})
			r.Check(okA, rule, "processFastForwardRequest:GetSnapshot(anchor.Index())", p.ipos(c), fnName(fn), "snapshot of the anchor block", "the snapshot shipped with the anchor block is not taken at that block's index: the joiner would restore an application state that does not correspond to the chain position it resets to")
		}
	}
	if n == 0 {
		r.Fail(rule, "processFastForwardRequest:GetSnapshot", p.pos(fn.Pos()), fnName(fn), "no snapshot requested")
	}
}

/* ---------- C11.dbkept / C11.genesis / C10.canonkey / C17.maintenance ---------- */

func dbKeptRule(p *Prog, r *Report, rule string) {
	r.Rule(rule, 1, "Babble.initStore: os.Rename / os.RemoveAll of the database directory is reached only under Config.Bootstrap == false")
	fn := p.Func("src/babble", "Babble", "initStore")
	if fn == nil {
		r.Anchor(rule, "babble.(*Babble).initStore")
		return
	}
	qNoBoot := func(l Lit) bool { return !l.Pos && flowsFromField(l.V, "Bootstrap") }
	n := 0
	for _, c := range callsIn(fn, named("os.Rename", "os.RemoveAll", "os.Remove")) {
		n++
		g, _ := p.allPaths(c, []Pred{qNoBoot}, all(1))
		r.Check(g, rule, "initStore:"+calleeFunc(c.Common()).Name()+":only-without-bootstrap", p.ipos(c), fnName(fn), "the database is set aside only for a fresh start",
			"the existing database can be moved / removed although Config.Bootstrap is set: the node restarts on an empty store, re-delivers nothing and forks its own chain at height 0")
	}
	if n == 0 {
		r.Ok(rule, "initStore:no-removal", p.pos(fn.Pos()), fnName(fn), "initStore never moves or removes the database")
	}
	// the store opened is a BadgerStore on Config.DatabaseDir
	opened := false
	for _, c := range callsIn(fn, named(HG+".NewBadgerStore")) {
		if flowsFromField(argN(c, 1), "DatabaseDir") {
			opened = true
		}
	}
	r.Check(opened, rule, "initStore:opens-DatabaseDir", p.pos(fn.Pos()), fnName(fn), "the persistent store is opened on Config.DatabaseDir", "initStore does not open the BadgerStore on Config.DatabaseDir")
}

func genesisRule(p *Prog, r *Report, rule string) {
	r.Rule(rule, 3, "Babble.initPeers: GenesisPeers is the set read through NewJSONPeerSet(dir, false) when that succeeded, the current set only on its error path; Babble.initNode hands GenesisPeers to NewNode as genesis set; newCore initialises the hashgraph with its genesisPeers parameter")
	ip := p.Func("src/babble", "Babble", "initPeers")
	nc := p.Func(NODE, "", "newCore")
	if ip == nil || nc == nil {
		r.Anchor(rule, "babble.(*Babble).initPeers / node.newCore")
		return
	}
	fG := p.Field("src/babble", "Babble", "GenesisPeers")
	if fG == nil {
		r.Anchor(rule, "babble.Babble.GenesisPeers")
		return
	}
	// which PeerSet() call reads the genesis file: receiver from NewJSONPeerSet(_, false)
	isGenesisRead := func(x ssa.Value) bool {
		c, idx, ok := isCallTo(x, named(PEER+".JSONPeerSet.PeerSet"))
		if !ok || idx != 0 {
			return false
		}
		return dependsOn(recvOf(c), func(y ssa.Value) bool {
			cc, _, okc := isCallTo(y, named(PEER+".NewJSONPeerSet"))
			if !okc {
				return false
			}
			k, isC := argN(cc, 1).(*ssa.Const)
			return isC && k.Value != nil && k.Value.String() == "false"
		})
	}
	qGenOK := func(l Lit) bool {
		v, isNil, ok := nilTest(l)
		if !ok || !isNil {
			return false
		}
		c, idx := callOf(v)
		if c == nil || idx != 1 {
			return false
		}
		for _, ref := range *c.Referrers() {
			if e, isE := ref.(*ssa.Extract); isE && e.Index == 0 && isGenesisRead(e) {
				return true
			}
		}
		return false
	}
	sts := storesToField(ip, fG)
	some := false
	for i, st := range sts {
		if flowsFromLocal(st.Val, isGenesisRead) {
			some = true
			r.Ok(rule, fmt.Sprintf("initPeers:GenesisPeers#%d", i), p.ipos(st), fnName(ip), "the set read from the genesis file")
			continue
		}
		// any other value only where reading the genesis file failed
		g, _ := p.allPaths(st, []Pred{qGenOK}, func(m uint32) bool { return m == 0 })
		nf := true
		for _, l := range p.Facts(ip).At(st.Block()) {
			if qGenOK(Lit{V: l.V, Pos: !l.Pos, Nil: l.Nil}) {
				nf = false
			}
		}
		r.Check(g && !nf, rule, fmt.Sprintf("initPeers:GenesisPeers#%d", i), p.ipos(st), fnName(ip), "fallback only when the genesis file cannot be read",
			"GenesisPeers receives a set that was not read from peers.genesis.json on a path on which that file was read successfully: after a membership change the node would initialise (and, on restart, replay) its hashgraph from another round-0 set than the rest of the network")
	}
	if len(sts) == 0 || !some {
		r.Fail(rule, "initPeers:GenesisPeers", p.pos(ip.Pos()), fnName(ip), "GenesisPeers never receives the set read from the genesis file")
	}
	// newCore: Init(genesisPeers)
	var gp ssa.Value
	for _, pv := range nc.Params {
		if pv.Name() == "genesisPeers" {
			gp = pv
		}
	}
	if gp == nil && len(nc.Params) > 2 {
		gp = nc.Params[2]
	}
	n := 0
	for _, c := range callsIn(nc, named(HG+".Hashgraph.Init")) {
		n++
		r.Check(flowsFromLocal(argN(c, 0), func(x ssa.Value) bool { return x == gp }), rule, "newCore:Init(genesisPeers)", p.ipos(c), fnName(nc), "round 0 is the genesis set", "newCore initialises the hashgraph with another set than its genesisPeers parameter")
	}
	if n == 0 {
		r.Fail(rule, "newCore:Init", p.pos(nc.Pos()), fnName(nc), "newCore does not initialise the hashgraph")
	}
	// initNode: NewNode(..., b.Peers, b.GenesisPeers, ...)
	in := p.Func("src/babble", "Babble", "initNode")
	if in == nil {
		r.Anchor(rule, "babble.(*Babble).initNode")
		return
	}
	for _, c := range callsIn(in, named(NODE+".NewNode")) {
		args := c.Common().Args
		ok := len(args) > 3 && flowsFromField(args[2], "Peers") && flowsFromField(args[3], "GenesisPeers")
		r.Check(ok, rule, "initNode:NewNode(peers, genesisPeers)", p.ipos(c), fnName(in), "current and genesis sets handed over in that order", "NewNode does not receive (Babble.Peers, Babble.GenesisPeers) as its current / genesis peer sets")
	}
}

func canonKeyRule(p *Prog, r *Report, rule string) {
	r.Rule(rule, 1, "Peer.PubKeyString returns strings.ToUpper(p.PubKeyHex)")
	fn := p.Func(PEER, "Peer", "PubKeyString")
	if fn == nil {
		r.Anchor(rule, "peers.(*Peer).PubKeyString")
		return
	}
	ok, n := true, 0
	for _, b := range fn.Blocks {
		ret, isRet := b.Instrs[len(b.Instrs)-1].(*ssa.Return)
		if !isRet {
			continue
		}
		n++
		if !allSources(ret.Results[0], func(x ssa.Value) bool {
			c, _, okc := isCallTo(x, named("strings.ToUpper"))
			return okc && flowsFromField(c.Call.Args[0], "PubKeyHex")
		}) {
			ok = false
		}
	}
	r.Check(ok && n > 0, rule, "Peer.PubKeyString:upper-case", p.pos(fn.Pos()), fnName(fn), "one canonical spelling of a key", "PubKeyString is not strings.ToUpper(PubKeyHex): ByPubKey, the repertoire and the participant caches are indexed with it while Event.Creator() / ValidatorHex() produce upper-case hex — a peers file written in lower case would make every membership test fail")
}

func maintenanceRule(p *Prog, r *Report, rule string) {
	r.Rule(rule, 1, "Node.Init: every state change other than transition(Suspended) requires Config.MaintenanceMode == false; in maintenance mode transition(Suspended) is reached")
	fn := p.Func(NODE, "Node", "Init")
	if fn == nil {
		r.Anchor(rule, "node.(*Node).Init")
		return
	}
	states, _ := stateConsts(p)
	qNotMaint := func(l Lit) bool { return !l.Pos && flowsFromField(l.V, "MaintenanceMode") }
	qMaint := func(l Lit) bool { return l.Pos && flowsFromField(l.V, "MaintenanceMode") }
	n, susp := 0, false
	for _, c := range callsIn(fn, named(NODE+".Node.transition", NODE+".Node.setBabblingOrCatchingUpState", NODE+".Node.SetState")) {
		n++
		if k, ok := intConst(argN(c, 0)); ok && calleeFunc(c.Common()).Name() != "setBabblingOrCatchingUpState" && k == states["Suspended"] {
			if g, _ := p.allPaths(c, []Pred{qMaint}, all(1)); g {
				susp = true
			}
			continue
		}
		g, _ := p.allPaths(c, []Pred{qNotMaint}, all(1))
		r.Check(g, rule, "Init:"+calleeFunc(c.Common()).Name()+":not-in-maintenance-mode", p.ipos(c), fnName(fn), "only outside maintenance mode", "Node.Init can leave a node that was started in maintenance mode in a state other than Suspended: it would gossip / create events on a store that is not being written")
	}
	r.Check(susp && n > 0, rule, "Init:maintenance-mode-suspends", p.pos(fn.Pos()), fnName(fn), "maintenance mode => Suspended", "Node.Init does not transition to Suspended under Config.MaintenanceMode")
	// go n.trans.Listen() only outside maintenance mode (the transport is nil there)
	for _, b := range fn.Blocks {
		for _, in := range b.Instrs {
			if g, ok := in.(*ssa.Go); ok {
				ok2, _ := p.allPaths(g, []Pred{qNotMaint}, all(1))
				r.Check(ok2, rule, "Init:go-Listen:not-in-maintenance-mode", p.ipos(g), fnName(fn), "", "a goroutine is started by Init in maintenance mode")
			}
		}
	}
}

/* ---------- C03.recorded ---------- */

func recordedRule(p *Prog, r *Report, rule string) {
	r.Rule(rule, 4, "DivideRounds: Event.SetRound(round(x)), RoundInfo.AddCreatedEvent(x, witness(x)), Event.SetLamportTimestamp(lamportTimestamp(x)), Store.SetRound(round(x), …) — each recorded value has the consensus function's result as its only source")
	fn := p.Func(HG, "Hashgraph", "DivideRounds")
	if fn == nil {
		r.Anchor(rule, "hashgraph.(*Hashgraph).DivideRounds")
		return
	}
	from := func(name string) func(ssa.Value) bool {
		m := named(HG + ".Hashgraph." + name)
		return func(x ssa.Value) bool { _, idx, ok := isCallTo(x, m); return ok && idx == 0 }
	}
	specs := []struct {
		callee fnMatch
		what   string
		arg    int
		src    string
	}{
		{named(HG + ".Event.SetRound"), "Event.SetRound", 0, "round"},
		{named(HG + ".RoundInfo.AddCreatedEvent"), "RoundInfo.AddCreatedEvent(witness)", 1, "witness"},
		{named(HG + ".Event.SetLamportTimestamp"), "Event.SetLamportTimestamp", 0, "lamportTimestamp"},
		{storeM("SetRound"), "Store.SetRound(round)", 0, "round"},
	}
	for _, sp := range specs {
		cs := callsIn(fn, sp.callee)
		if len(cs) == 0 {
			r.Fail(rule, "DivideRounds:"+sp.what, p.pos(fn.Pos()), fnName(fn), "DivideRounds no longer records this value")
			continue
		}
		for i, c := range cs {
			a := argN(c, sp.arg)
			ok := a != nil && allSources(a, from(sp.src))
			r.Check(ok, rule, fmt.Sprintf("DivideRounds:%s#%d", sp.what, i), p.ipos(c), fnName(fn), "<- "+sp.src+"(x)",
				"the value recorded by "+sp.what+" is not (on every path) the result of h."+sp.src+"(x): it can be changed by something else — e.g. by how far this node's consensus had advanced when the event arrived — so two nodes holding the same DAG record different rounds / witness flags / timestamps, and the recorded values are hashed into every frame")
		}
	}
}

/* ---------- C16.window ---------- */

// windowRule decides the index arithmetic of common.RollingIndex as an identity between linear forms
// (the prover of C08.range shows that the accesses stay in bounds; this rule shows they hit the RIGHT
// element). Roles: arg = the method's int parameter, last = r.lastIndex, n = len(r.items).
func windowRule(p *Prog, r *Report, rule string) {
	r.Rule(rule, 3, "RollingIndex.Get: items[arg - last + n :]; GetItem: items[arg - last + n - 1]; Set (replace): items[arg - last + n - 1] = item")
	type want struct {
		fn    string
		what  string
		konst int64
	}
	for _, w := range []want{{"Get", "slice-low", 0}, {"GetItem", "index", -1}, {"Set", "index", -1}} {
		fn := p.Func("src/common", "RollingIndex", w.fn)
		if fn == nil {
			r.Anchor(rule, "common.(*RollingIndex)."+w.fn)
			continue
		}
		var argName string
		for _, pv := range fn.Params[1:] {
			if b, ok := pv.Type().Underlying().(*types.Basic); ok && b.Info()&types.IsInteger != 0 {
				argName = pv.Name()
			}
		}
		n := 0
		for _, b := range fn.Blocks {
			for _, in := range b.Instrs {
				var idx ssa.Value
				switch x := in.(type) {
				case *ssa.Slice:
					if w.what == "slice-low" && flowsFromField(x.X, "items") && x.Low != nil {
						idx = x.Low
					}
				case *ssa.IndexAddr:
					if w.what == "index" && flowsFromField(x.X, "items") {
						idx = x.Index
					}
				}
				if idx == nil {
					continue
				}
				n++
				e := newLinEnv()
				lf := e.toLin(idx, 0)
				ok := true
				got := map[string]int64{}
				for name, c := range lf.c {
					if c.Sign() == 0 {
						continue
					}
					if !c.IsInt() {
						ok = false
						continue
					}
					k := c.Num().Int64()
					switch {
					case name == argName:
						got["arg"] += k
					case len(name) > 11 && name[:11] == ".lastIndex@":
						got["last"] += k
					case len(name) > 11 && name[:11] == "len(.items@":
						got["n"] += k
					default:
						ok = false
					}
				}
				if !lf.k.IsInt() || lf.k.Num().Int64() != w.konst {
					ok = false
				}
				if got["arg"] != 1 || got["last"] != -1 || got["n"] != 1 {
					ok = false
				}
				expect := "arg - last + n"
				if w.konst != 0 {
					expect += fmt.Sprintf(" %+d", w.konst)
				}
				r.Check(ok, rule, fmt.Sprintf("RollingIndex.%s:%s#%d", w.fn, w.what, n), p.ipos(in), fnName(fn), "position = "+expect,
					"the position computed is "+lf.String()+", not "+expect+" (arg = the index argument, last = lastIndex, n = len(items)): the window is addressed one off — Get would serve the peer an event it already has or skip one it lacks, GetItem / Set would read or overwrite a neighbour's slot")
			}
		}
		if n == 0 {
			r.Fail(rule, "RollingIndex."+w.fn+":"+w.what, p.pos(fn.Pos()), fnName(fn), "no access to r.items found")
		}
	}
}

/* ---------- C08.heads ---------- */

func headsRule(p *Prog, r *Report, rule string) {
	r.Rule(rule, 1, "core.sync: every non-nil value that can reach core.heads[...] is an event for which insertEventAndRunConsensus returned nil on the path that selected it")
	fn := p.Func(NODE, "core", "sync")
	if fn == nil {
		r.Anchor(rule, "node.(*core).sync")
		return
	}
	insM := named(NODE+".core.insertEventAndRunConsensus", HG+".Hashgraph.InsertEventAndRunConsensus", HG+".Hashgraph.InsertEvent")
	qIns := p.lift(func(l Lit) bool { _, ok := errNilLit(l, insM); return ok }, 1)
	n := 0
	for _, b := range fn.Blocks {
		for _, in := range b.Instrs {
			mu, ok := in.(*ssa.MapUpdate)
			if !ok || !flowsFromField(mu.Map, "heads") {
				continue
			}
			n++
			bad := ""
			seen := map[ssa.Value]bool{}
			var walk func(v ssa.Value, at ssa.Instruction, pred, blk *ssa.BasicBlock)
			walk = func(v ssa.Value, at ssa.Instruction, pred, blk *ssa.BasicBlock) {
				v = unwrap(v)
				if isNilConst(v) || bad != "" {
					return
				}
				if ph, isPhi := v.(*ssa.Phi); isPhi {
					if seen[ph] {
						return
					}
					seen[ph] = true
					for i, e := range ph.Edges {
						walk(e, nil, ph.Block().Preds[i], ph.Block())
					}
					return
				}
				// a concrete event: inserted successfully on every path that brings it here
				var g bool
				if pred != nil {
					g, _ = p.allPathsEdge(pred, blk, []Pred{qIns}, all(1))
				} else {
					g, _ = p.allPaths(at, []Pred{qIns}, all(1))
				}
				if !g {
					bad = v.Name()
					if vi, isIn := v.(ssa.Instruction); isIn {
						bad = p.ipos(vi)
					}
				}
			}
			walk(mu.Value, mu, nil, nil)
			r.Check(bad == "", rule, fmt.Sprintf("sync:heads-entry#%d", n), p.ipos(mu), fnName(fn), "only inserted events become heads",
				"an event (from "+bad+") can be recorded in core.heads although its insertion did not return nil: the next self-event names it as other-parent, is refused ('Other-parent not known'), the head is never cleared, and from then on every sync that makes the node record its heads fails — one signed fork from a Byzantine validator stops the node")
		}
	}
	if n == 0 {
		r.Fail(rule, "sync:heads", p.pos(fn.Pos()), fnName(fn), "core.sync does not record heads")
	}
}
