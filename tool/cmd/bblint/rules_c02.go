package main

import (
	"fmt"
	"go/token"
	"go/types"
	"strings"

	"golang.org/x/tools/go/ssa"
)

func init() {
	register(&propDef{
		ID: "C02", NeedCG: true,
		Meta: propMeta{Level: "other", Assumptions: commonAssumptions,
			Explanation: "Decides: C02.single (the commit callback is invoked, and NewBlockFromFrame called, only in ProcessDecidedRounds), C02.index (block index = Store.LastBlockIndex()+1; Store.SetBlock(block) precedes the callback; InmemStore.lastBlock only grows), " +
				"C02.order (pending rounds iterated in the order of a list every writer of which sorts it ascending by Index with <; processing requires Decided and an undecided round leaves the loop), " +
				"C02.once (after the callback for round r, every path to the next iteration or to a return appends r to the processed list, and the deferred Clean runs on every exit: a committed round is never processed again), " +
				"C02.copy (the bytes that end up in a delivered block are the node's own copy of what the application submitted — an in-process application that reuses its buffer cannot change a stored block; shared with C05.copy), C02.shared (the payload slices of stored and delivered records — block body, frame, event body, root — are never sorted, copied into or element-assigned in place, by anybody: the argument is traced through calls back to the field of an existing record), C02.frozen (writers of BlockBody fields and Block.Signatures; who may reach Store.SetBlock), C02.persist (in core.commit the block is stored again after the application's state hash and receipts were written into it, on every success path). " +
				"C02.pass (the socket proxy hands back a freshly decoded reply for every block: a reply buffer kept between calls would let a later block overwrite the receipts stored for an earlier one; shared with C20.pass). " +
				"NOT decided: what the store returns after LRU eviction in general (C16), behaviour when the application's commit fails, late-arriving witnesses."},
		Rules: []ruleFunc{c02single, c02index, c02order, c02once, c02frozen, c02persist, func(p *Prog, r *Report) { sharedSliceRule(p, r, "C02.shared") }, func(p *Prog, r *Report) { submitCopyRule(p, r, "C02.copy") }, func(p *Prog, r *Report) { passRule(p, r, "C02.pass") }},
	})
}

func c02single(p *Prog, r *Report) {
	const rule = "C02.single"
	r.Rule(rule, 2, "one producer of blocks: the function stored in Hashgraph.commitCallback is invoked only in ProcessDecidedRounds; NewBlockFromFrame is called only there")
	fCb := p.Field(HG, "Hashgraph", "commitCallback")
	pdr := p.Func(HG, "Hashgraph", "ProcessDecidedRounds")
	if fCb == nil || pdr == nil {
		r.Anchor(rule, "Hashgraph.commitCallback / ProcessDecidedRounds")
		return
	}
	n := 0
	var bad []string
	for _, fn := range p.Mod {
		for _, b := range fn.Blocks {
			for _, in := range b.Instrs {
				if ci, ok := in.(ssa.CallInstruction); ok && dynCallThroughField(ci, fCb) {
					n++
					if fn != pdr {
						bad = append(bad, fnName(fn)+"@"+p.ipos(in))
					}
				}
			}
		}
	}
	r.Check(n > 0 && len(bad) == 0, rule, "commitCallback:invocations", p.pos(pdr.Pos()), fnName(pdr), fmt.Sprintf("%d invocation(s), all in ProcessDecidedRounds", n), "commit callback invoked elsewhere: "+strings.Join(bad, ", "))
	bad = nil
	sites := p.callsAnywhere(named(HG + ".NewBlockFromFrame"))
	for _, c := range sites {
		if c.Parent() != pdr {
			bad = append(bad, fnName(c.Parent())+"@"+p.ipos(c))
		}
	}
	r.Check(len(sites) > 0 && len(bad) == 0, rule, "NewBlockFromFrame:callers", p.pos(pdr.Pos()), fnName(pdr), "blocks are assembled only in ProcessDecidedRounds", "NewBlockFromFrame called elsewhere: "+strings.Join(bad, ", "))
}

func c02index(p *Prog, r *Report) {
	const rule = "C02.index"
	r.Rule(rule, 3, "block index = Store.LastBlockIndex()+1; Store.SetBlock(block) dominates the commit callback on the same block; InmemStore.lastBlock is raised only under index > lastBlock")
	pdr := p.Func(HG, "Hashgraph", "ProcessDecidedRounds")
	if pdr == nil {
		r.Anchor(rule, "hashgraph.(*Hashgraph).ProcessDecidedRounds")
		return
	}
	fCb := p.Field(HG, "Hashgraph", "commitCallback")
	for _, c := range callsIn(pdr, named(HG+".NewBlockFromFrame")) {
		a := argN(c, 0)
		loopsP := naturalLoops(pdr)
		cLoop := innermostLoop(loopsP, c.Block())
		// EVERY source of the index is LastBlockIndex()+1, with the store asked in the same iteration as the block is
		// built (a counter kept across the iterations of the loop over rounds drifts away from the store as soon as
		// an iteration consumes an index without storing a block)
		isNext := func(x ssa.Value) bool {
			b, ok := x.(*ssa.BinOp)
			if !ok || b.Op != token.ADD {
				return false
			}
			fresh := func(v ssa.Value) bool {
				return flowsFromLocal(v, func(y ssa.Value) bool {
					lc, _, isL := isCallTo(y, storeM("LastBlockIndex"))
					if !isL {
						return false
					}
					return cLoop == nil || cLoop.body[lc.Block()]
				})
			}
			if k, okc := intConst(b.Y); okc && k == 1 && fresh(b.X) {
				return true
			}
			if k, okc := intConst(b.X); okc && k == 1 && fresh(b.Y) {
				return true
			}
			return false
		}
		ok := allSources(a, isNext)
		r.Check(ok, rule, "ProcessDecidedRounds:index==LastBlockIndex()+1", p.ipos(c), fnName(pdr), "consecutive block indexes", "the index given to NewBlockFromFrame is not Store.LastBlockIndex()+1")
		// frame of the same round
		fr := argN(c, 1)
		r.Check(flowsFromCall(fr, named(HG+".Hashgraph.GetFrame"), 0), rule, "ProcessDecidedRounds:block-from-GetFrame(r.Index)", p.ipos(c), fnName(pdr), "block built from the frame of the round being processed", "block not built from GetFrame's result")
	}
	for _, b := range pdr.Blocks {
		for _, in := range b.Instrs {
			ci, ok := in.(ssa.CallInstruction)
			if !ok || !dynCallThroughField(ci, fCb) {
				continue
			}
			blk := ci.Common().Args[0]
			okSet := false
			for _, sc := range callsIn(pdr, storeM("SetBlock")) {
				if dominates(sc, ci) && sameOrigin(lastArg(sc), blk) {
					// and its error leaves before the callback
					q := func(l Lit) bool {
						v, isNil, ok := nilTest(l)
						if !ok || !isNil {
							return false
						}
						c2, _ := callOf(v)
						return c2 == sc.Value()
					}
					if g, _ := p.allPaths(ci, []Pred{q}, all(1)); g {
						okSet = true
					}
				}
			}
			r.Check(okSet, rule, "ProcessDecidedRounds:SetBlock-before-callback", p.ipos(in), fnName(pdr), "the block is stored (and the store succeeded) before it is delivered, so the next index is fresh", "the commit callback can run on a block that was not stored first")
			r.Check(flowsFromCall(blk, named(HG+".NewBlockFromFrame"), 0), rule, "ProcessDecidedRounds:callback(block)", p.ipos(in), fnName(pdr), "the delivered block is the one just assembled", "the callback receives a block that is not NewBlockFromFrame's result")
		}
	}
	// monotone lastBlock
	fLB := p.Field(HG, "InmemStore", "lastBlock")
	sb := p.Func(HG, "InmemStore", "SetBlock")
	if fLB == nil || sb == nil {
		r.Anchor(rule, "InmemStore.lastBlock / SetBlock")
		return
	}
	for _, w := range p.writersOf(fLB) {
		switch {
		case w.Fresh:
		case w.Fn == sb:
			q := func(l Lit) bool {
				a, b, strict, ok := cmpLit(l)
				return ok && strict && unwrap(a) == unwrap(w.Val) && depOnFieldVar(b, fLB)
			}
			ok, _ := p.allPaths(w.Instr, []Pred{q}, all(1))
			r.Check(ok, rule, "InmemStore.SetBlock:lastBlock-monotone", p.ipos(w.Instr), fnName(sb), "lastBlock only grows", "lastBlock can be lowered (store not guarded by index > lastBlock)")
		case w.Fn.Name() == "Reset":
			r.Ok(rule, "InmemStore.Reset:lastBlock", p.ipos(w.Instr), fnName(w.Fn), "reset re-initialises the store")
		default:
			r.Fail(rule, "InmemStore.lastBlock:writer:"+w.Fn.Name(), p.ipos(w.Instr), fnName(w.Fn), "unexpected writer of InmemStore.lastBlock")
		}
	}
}

func c02order(p *Prog, r *Report) {
	const rule = "C02.order"
	r.Rule(rule, 4, "ascending, stop at first undecided: ProcessDecidedRounds ranges over GetOrderedPendingRounds(); every writer of PendingRoundsCache.sortedItems sorts it; Less is a[i].Index < a[j].Index; processing requires r.Decided and its negation leaves the loop")
	pdr := p.Func(HG, "Hashgraph", "ProcessDecidedRounds")
	if pdr == nil {
		r.Anchor(rule, "hashgraph.(*Hashgraph).ProcessDecidedRounds")
		return
	}
	fCb := p.Field(HG, "Hashgraph", "commitCallback")
	var actions []ssa.Instruction
	for _, c := range callsIn(pdr, named(HG+".Hashgraph.GetFrame")) {
		actions = append(actions, c)
	}
	for _, b := range pdr.Blocks {
		for _, in := range b.Instrs {
			if ci, ok := in.(ssa.CallInstruction); ok && dynCallThroughField(ci, fCb) {
				actions = append(actions, in)
			}
		}
	}
	qDecided := func(l Lit) bool { return l.Pos && flowsFromField(l.V, "Decided") }
	for i, a := range actions {
		src, lp := loopSource(pdr, a.Block())
		okSrc := src != nil && flowsFromCall(src, named(HG+".PendingRoundsCache.GetOrderedPendingRounds"), 0)
		r.Check(okSrc, rule, fmt.Sprintf("ProcessDecidedRounds:action#%d:loop-over-ordered-pending-rounds", i), p.ipos(a), fnName(pdr), "rounds are taken from the ordered pending list", "the processing loop does not range over GetOrderedPendingRounds()")
		ok, _ := p.allPaths(a, []Pred{qDecided}, all(1))
		r.Check(ok, rule, fmt.Sprintf("ProcessDecidedRounds:action#%d:requires-Decided", i), p.ipos(a), fnName(pdr), "only decided rounds are processed", "a round can be processed without r.Decided being true")
		if lp != nil {
			// the undecided edge leaves the loop (break, not continue)
			okBreak := false
			found := false
			for b := range lp.body {
				if n := len(b.Instrs); n > 0 {
					if iff, isIf := b.Instrs[n-1].(*ssa.If); isIf {
						v, pos := stripNot(iff.Cond, true)
						if flowsFromField(v, "Decided") {
							found = true
							// successor taken when Decided is false
							falseSucc := b.Succs[1]
							if !pos {
								falseSucc = b.Succs[0]
							}
							if !lp.body[falseSucc] || leavesLoop(falseSucc, lp) {
								okBreak = true
							}
						}
					}
				}
			}
			r.Check(found && okBreak, rule, fmt.Sprintf("ProcessDecidedRounds:action#%d:undecided-breaks", i), p.ipos(a), fnName(pdr), "an undecided round stops the walk (later decided rounds wait)", "an undecided round does not stop the loop: a later decided round would be processed before an earlier one")
		}
	}
	// writers of sortedItems sort it
	fSI := p.Field(HG, "PendingRoundsCache", "sortedItems")
	if fSI == nil {
		r.Anchor(rule, "PendingRoundsCache.sortedItems")
		return
	}
	for _, w := range p.writersOf(fSI) {
		if w.Fresh {
			continue
		}
		fn := w.Fn
		sorted := false
		for _, c := range callsIn(fn, named("sort.Sort", "sort.Slice", "sort.Stable", "sort.SliceStable")) {
			a := c.Common().Args[0]
			if sameOrigin(a, w.Val) || unwrap(a) == unwrap(w.Val) || depOnValue(a, w.Val) {
				// sort before store of the sorted value
				if dominates(c, w.Instr) {
					sorted = true
				}
			}
			if depOnFieldVar(a, fSI) && canFollow(w.Instr, c) {
				// sort of the field after the store; must be on every path to exit
				if postDominatesReturns(fn, c.Block(), w.Instr.Block()) {
					sorted = true
				}
			}
		}
		r.Check(sorted, rule, fn.Name()+":sortedItems-sorted", p.ipos(w.Instr), fnName(fn), "the list is sorted whenever it is written", "PendingRoundsCache.sortedItems is written without being sorted: rounds could be processed out of order")
	}
	less := p.Func(HG, "OrderedPendingRounds", "Less")
	if less == nil {
		r.Anchor(rule, "hashgraph.OrderedPendingRounds.Less")
		return
	}
	okLess := false
	for _, b := range less.Blocks {
		if ret, ok := b.Instrs[len(b.Instrs)-1].(*ssa.Return); ok {
			if bo, ok := ret.Results[0].(*ssa.BinOp); ok && (bo.Op == token.LSS || bo.Op == token.GTR) {
				lo, hi := bo.X, bo.Y
				if bo.Op == token.GTR {
					lo, hi = bo.Y, bo.X
				}
				if flowsFromField(lo, "Index") && flowsFromField(hi, "Index") && depOnValue(lo, less.Params[1]) && depOnValue(hi, less.Params[2]) && !depOnValue(lo, less.Params[2]) {
					okLess = true
				}
			}
		}
	}
	r.Check(okLess, rule, "OrderedPendingRounds.Less:a[i].Index<a[j].Index", p.pos(less.Pos()), fnName(less), "ascending by round index", "the comparator is not a[i].Index < a[j].Index")
}

// leavesLoop: every path from b exits the loop without reaching its head again.
func leavesLoop(b *ssa.BasicBlock, lp *loopInfo) bool {
	seen := map[*ssa.BasicBlock]bool{}
	var walk func(*ssa.BasicBlock) bool
	walk = func(x *ssa.BasicBlock) bool {
		if x == lp.head {
			return false
		}
		if !lp.body[x] || seen[x] {
			return true
		}
		seen[x] = true
		for _, s := range x.Succs {
			if !walk(s) {
				return false
			}
		}
		return true
	}
	return walk(b)
}

// postDominatesReturns: every path from 'from' to a Return passes block 'via'.
func postDominatesReturns(fn *ssa.Function, via, from *ssa.BasicBlock) bool {
	if via == from {
		return true
	}
	seen := map[*ssa.BasicBlock]bool{}
	stack := []*ssa.BasicBlock{from}
	for len(stack) > 0 {
		b := stack[len(stack)-1]
		stack = stack[:len(stack)-1]
		if seen[b] || b == via {
			continue
		}
		seen[b] = true
		if len(b.Succs) == 0 {
			if _, isRet := b.Instrs[len(b.Instrs)-1].(*ssa.Return); isRet {
				return false
			}
		}
		stack = append(stack, b.Succs...)
	}
	return true
}

func c02once(p *Prog, r *Report) { onceRule(p, r, "C02.once") }

func onceRule(p *Prog, r *Report, rule string) {
	r.Rule(rule, 2, "a committed round is never processed again: from the commit callback every path to the next iteration or to a return appends the round to the processed list; Clean(processed) is deferred at function entry and removes exactly those rounds")
	pdr := p.Func(HG, "Hashgraph", "ProcessDecidedRounds")
	if pdr == nil {
		r.Anchor(rule, "hashgraph.(*Hashgraph).ProcessDecidedRounds")
		return
	}
	fCb := p.Field(HG, "Hashgraph", "commitCallback")
	// the processed list: the slice passed to PendingRoundsCache.Clean in the deferred closure
	var procAlloc ssa.Value
	var deferIn ssa.Instruction
	for _, b := range pdr.Blocks {
		for _, in := range b.Instrs {
			d, ok := in.(*ssa.Defer)
			if !ok {
				continue
			}
			var body *ssa.Function
			var bindings []ssa.Value
			if mc, ok := d.Call.Value.(*ssa.MakeClosure); ok {
				body, _ = mc.Fn.(*ssa.Function)
				bindings = mc.Bindings
			} else if sf := d.Call.StaticCallee(); sf != nil {
				body = sf
			}
			if body == nil {
				continue
			}
			for _, c := range callsIn(body, named(HG+".PendingRoundsCache.Clean")) {
				a := argN(c, 0)
				// a = load of free var #k
				if u, ok := unwrap(a).(*ssa.UnOp); ok {
					if fv, ok := u.X.(*ssa.FreeVar); ok {
						for k, f := range body.FreeVars {
							if f == fv && k < len(bindings) {
								procAlloc = bindings[k]
								deferIn = in
							}
						}
					}
				}
			}
			// direct defer h.PendingRounds.Clean(x)
			if f := calleeFunc(&d.Call); f != nil && shortName(f) == HG+".PendingRoundsCache.Clean" {
				deferIn = in
			}
		}
	}
	okDefer := deferIn != nil
	if okDefer {
		for _, b := range pdr.Blocks {
			if b.Index != 0 && len(b.Preds) == 0 {
				continue // the synthetic recover block
			}
			if ret, ok := b.Instrs[len(b.Instrs)-1].(*ssa.Return); ok && !dominates(deferIn, ret) {
				okDefer = false
			}
		}
	}
	r.Check(okDefer, rule, "ProcessDecidedRounds:deferred-Clean", p.pos(pdr.Pos()), fnName(pdr), "Clean(processedRounds) runs on every exit, error returns included", "PendingRounds.Clean is not deferred before every return: processed rounds could stay queued after an error")
	if procAlloc == nil {
		r.Fail(rule, "ProcessDecidedRounds:processed-list", p.pos(pdr.Pos()), fnName(pdr), "cannot identify the processed-rounds list handed to Clean")
		return
	}
	// append stores into the processed list
	var appendBlocks = map[*ssa.BasicBlock]ssa.Instruction{}
	for _, st := range storedThrough(procAlloc) {
		if st.Addr != procAlloc {
			continue
		}
		if c, ok := unwrap(st.Val).(*ssa.Call); ok {
			if bi, ok := c.Call.Value.(*ssa.Builtin); ok && bi.Name() == "append" {
				// appended value is the round index of the loop element
				if len(c.Call.Args) == 2 && depOnField(c.Call.Args[1], "Index") {
					appendBlocks[st.Block()] = st
				}
			}
		}
	}
	if len(appendBlocks) == 0 {
		r.Fail(rule, "ProcessDecidedRounds:processed-append", p.pos(pdr.Pos()), fnName(pdr), "the round index is never appended to the processed list")
		return
	}
	n := 0
	for _, b := range pdr.Blocks {
		for _, in := range b.Instrs {
			ci, ok := in.(ssa.CallInstruction)
			if !ok || !dynCallThroughField(ci, fCb) {
				continue
			}
			n++
			_, lp := loopSource(pdr, b)
			// forward search from the callback avoiding append blocks
			bad := ""
			if _, here := appendBlocks[b]; !here {
				forwardFrom(b, func(x *ssa.BasicBlock) bool {
					if bad != "" {
						return false
					}
					if _, isApp := appendBlocks[x]; isApp {
						return false
					}
					if lp != nil && x == lp.head {
						bad = "the next iteration"
						return false
					}
					if len(x.Succs) == 0 {
						if ret, isRet := x.Instrs[len(x.Instrs)-1].(*ssa.Return); isRet {
							bad = "a return at " + p.ipos(ret)
							return false
						}
					}
					return true
				})
			}
			r.Check(bad == "", rule, "ProcessDecidedRounds:callback->processed-append", p.ipos(in), fnName(pdr), "after delivering a block the round is always marked processed",
				"after the commit callback ran, "+bad+" can be reached without appending the round to the processed list: the round stays pending, is processed again on the next pass and its transactions are committed a second time in a new block")
		}
	}
	if n == 0 {
		r.Fail(rule, "ProcessDecidedRounds:callback", p.pos(pdr.Pos()), fnName(pdr), "no commit callback invocation")
	}
	// Clean deletes exactly the processed rounds and rebuilds the sorted list from what remains
	cl := p.Func(HG, "PendingRoundsCache", "Clean")
	if cl != nil {
		fItems := p.Field(HG, "PendingRoundsCache", "items")
		okDel := false
		for _, w := range p.writersOf(fItems) {
			if w.Fn == cl && w.Kind == "mapupdate" {
				if c, ok := w.Instr.(*ssa.Call); ok {
					src, _ := loopSource(cl, c.Block())
					if src != nil && unwrap(src) == ssa.Value(cl.Params[1]) {
						okDel = true
					}
				}
			}
		}
		r.Check(okDel, rule, "PendingRoundsCache.Clean:deletes-processed", p.pos(cl.Pos()), fnName(cl), "every processed round is deleted from the pending map", "Clean does not delete each processed round from items")
	}
}

// sharedSliceRule: the payload slices of stored / delivered records (block body, frame, event body)
// are shared by reference between the store, the application callback, the HTTP service and the
// gossip encoder. Nobody reorders or overwrites them in place: no sort.* call, element store or
// copy() whose destination IS — through any chain of calls — one of those slices of an existing
// record.
func sharedSliceRule(p *Prog, r *Report, rule string) {
	r.Rule(rule, 1, "payload slices of stored records (block body, frame, event body, root) are never sorted / overwritten in place")
	var fields []*types.Var
	for _, f := range [][3]string{
		{HG, "BlockBody", "Transactions"}, {HG, "BlockBody", "InternalTransactions"}, {HG, "BlockBody", "InternalTransactionReceipts"},
		{HG, "Frame", "Events"}, {HG, "Frame", "Peers"}, {HG, "Root", "Events"},
		{HG, "EventBody", "Transactions"}, {HG, "EventBody", "InternalTransactions"}, {HG, "EventBody", "BlockSignatures"}, {HG, "EventBody", "Parents"},
	} {
		if fv := p.Field(f[0], f[1], f[2]); fv != nil {
			fields = append(fields, fv)
		} else {
			r.Anchor(rule, f[1]+"."+f[2])
		}
	}
	isShared := func(x ssa.Value) (string, bool) {
		fv, base := fieldOf(x)
		if fv == nil || isFreshBase(base) {
			return "", false
		}
		for _, f := range fields {
			if f == fv {
				if xi, ok := x.(ssa.Instruction); ok {
					return fv.Name() + " loaded in " + fnName(xi.Parent()) + "@" + p.ipos(xi), true
				}
				return fv.Name(), true
			}
		}
		return "", false
	}
	n := 0
	check := func(fn *ssa.Function, at ssa.Instruction, dst ssa.Value, what string) {
		n++
		hit := ""
		flowsFrom(dst, func(x ssa.Value) bool {
			if h, ok := isShared(x); ok {
				hit = h
				return true
			}
			return false
		})
		r.Check(hit == "", rule, fn.Name()+":"+what, p.ipos(at), fnName(fn), "works on its own slice",
			what+" on a payload slice of an existing record ("+hit+"): the record held by the store / already delivered to the application changes under its holders, and its hash no longer matches its content")
	}
	for _, fn := range p.Mod {
		if strings.HasSuffix(fn.Name(), "Unmarshal") {
			continue
		}
		for _, b := range fn.Blocks {
			for _, in := range b.Instrs {
				switch x := in.(type) {
				case ssa.CallInstruction:
					if f := calleeFunc(x.Common()); f != nil && f.Pkg() != nil && f.Pkg().Path() == "sort" && len(x.Common().Args) > 0 {
						switch f.Name() {
						case "Sort", "Stable", "Slice", "SliceStable", "Strings", "Ints":
							check(fn, in, x.Common().Args[0], "sort")
						}
					}
					if bi, isB := x.Common().Value.(*ssa.Builtin); isB && bi.Name() == "copy" && len(x.Common().Args) == 2 {
						check(fn, in, x.Common().Args[0], "copy-into")
					}
				case *ssa.Store:
					if ia, ok := x.Addr.(*ssa.IndexAddr); ok {
						if _, isSlice := ia.X.Type().Underlying().(*types.Slice); isSlice {
							check(fn, in, ia.X, "element-store")
						}
					}
				}
			}
		}
	}
	if n == 0 {
		r.Fail(rule, "sites", "-", "", "no sort / copy / element store found at all")
	}
}

func c02frozen(p *Prog, r *Report) {
	const rule = "C02.frozen"
	r.Rule(rule, 11, "a delivered body is never rewritten: BlockBody fields are written only by NewBlock (construction) and core.commit (StateHash, receipts); Block.AppendTransactions has no caller; Store.SetBlock reachable only through ProcessDecidedRounds, core.commit/signBlock, ProcessSigPool, Hashgraph.Reset")
	bb := p.Type(HG, "BlockBody")
	if bb == nil {
		r.Anchor(rule, "hashgraph.BlockBody")
		return
	}
	st := bb.Underlying().(*types.Struct)
	commitOK := map[string]bool{"StateHash": true, "InternalTransactionReceipts": true}
	for i := 0; i < st.NumFields(); i++ {
		f := st.Field(i)
		var bad []string
		n := 0
		for _, w := range p.writersOf(f) {
			n++
			name := w.Fn.Name()
			switch {
			case w.Fresh && (name == "NewBlock"):
			case name == "commit" && recvNamedSig(w.Fn) == "core" && commitOK[f.Name()]:
			case name == "AppendTransactions" && f.Name() == "Transactions":
			default:
				bad = append(bad, fnName(w.Fn)+"@"+p.ipos(w.Instr))
			}
		}
		r.Check(len(bad) == 0, rule, "BlockBody."+f.Name()+":writers", "-", "", fmt.Sprintf("%d write(s), all allowed", n), "unexpected writer of BlockBody."+f.Name()+": "+strings.Join(bad, ", "))
	}
	// whole-body overwrite: stores to Block.Body
	fBody := p.Field(HG, "Block", "Body")
	var bad []string
	for _, w := range p.writersOf(fBody) {
		if !(w.Fresh && w.Fn.Name() == "NewBlock") {
			bad = append(bad, fnName(w.Fn)+"@"+p.ipos(w.Instr))
		}
	}
	r.Check(len(bad) == 0, rule, "Block.Body:writers", "-", "", "Block.Body assigned only at construction", "Block.Body overwritten: "+strings.Join(bad, ", "))
	at := p.Func(HG, "Block", "AppendTransactions")
	if at != nil {
		var callers []string
		for _, e := range cgCallers(p, at) {
			if inModule(e.Caller.Func) && e.Caller.Func.Synthetic == "" {
				callers = append(callers, fnName(e.Caller.Func))
			}
		}
		r.Check(len(callers) == 0, rule, "Block.AppendTransactions:no-callers", p.pos(at.Pos()), fnName(at), "never called outside tests", "AppendTransactions is called from "+strings.Join(callers, ", "))
	}
	gates := map[*ssa.Function]bool{}
	for _, g := range [][3]string{{HG, "Hashgraph", "ProcessDecidedRounds"}, {NODE, "core", "commit"}, {NODE, "core", "signBlock"}, {HG, "Hashgraph", "ProcessSigPool"}, {HG, "Hashgraph", "Reset"}} {
		if f := p.Func(g[0], g[1], g[2]); f != nil {
			gates[f] = true
		} else {
			r.Anchor(rule, g[1]+"."+g[2])
			return
		}
	}
	roots := p.roots()
	for _, t := range []string{"InmemStore", "BadgerStore"} {
		f := p.Func(HG, t, "SetBlock")
		if f == nil {
			r.Anchor(rule, t+".SetBlock")
			continue
		}
		path := p.pathAvoiding(roots, f, func(x *ssa.Function) bool { return gates[x] })
		r.Check(path == nil, rule, t+".SetBlock:callers", p.pos(f.Pos()), fnName(f), "blocks are stored only by the commit path, signature processing and reset", "SetBlock reachable otherwise: "+strings.Join(path, " -> "))
	}
}

// mustCallBeforeSuccess: every success return of h is dominated by a call matching m.
func (p *Prog) mustCallBeforeSuccess(h *ssa.Function, m fnMatch, errIdx int) bool {
	rets := p.succRets(h, errNil, errIdx)
	if len(rets) == 0 {
		return false
	}
	cs := callsIn(h, m)
	for _, rp := range rets {
		ok := false
		for _, c := range cs {
			if dominates(c, rp.ret) {
				ok = true
			}
		}
		if !ok {
			return false
		}
	}
	return true
}

func c02persist(p *Prog, r *Report) {
	const rule = "C02.persist"
	r.Rule(rule, 1, "what is reported later includes what the application answered: in core.commit every path from the store of Body.StateHash to a success return passes Store.SetBlock(block) (directly or inside a helper that always stores before succeeding)")
	commit := p.Func(NODE, "core", "commit")
	if commit == nil {
		r.Anchor(rule, "node.(*core).commit")
		return
	}
	fSH := p.Field(HG, "BlockBody", "StateHash")
	var stores []ssa.Instruction
	for _, w := range p.writersOf(fSH) {
		if w.Fn == commit {
			stores = append(stores, w.Instr)
		}
	}
	if len(stores) == 0 {
		r.Fail(rule, "commit:StateHash-store", p.pos(commit.Pos()), fnName(commit), "commit does not write the state hash into the block")
		return
	}
	setM := storeM("SetBlock")
	isStoring := func(in ssa.Instruction) bool {
		ci, ok := in.(ssa.CallInstruction)
		if !ok {
			return false
		}
		f := calleeFunc(ci.Common())
		if f != nil && setM(f) {
			return true
		}
		if sf := ci.Common().StaticCallee(); sf != nil && inModule(sf) && len(sf.Blocks) > 0 {
			res := sf.Signature.Results()
			for i := 0; i < res.Len(); i++ {
				if isErrorType(res.At(i).Type()) {
					return p.mustCallBeforeSuccess(sf, setM, i)
				}
			}
		}
		return false
	}
	succ := map[*ssa.Return]bool{}
	for _, rp := range p.succRets(commit, errNil, 0) {
		succ[rp.ret] = true
	}
	for _, s := range stores {
		// scan rest of the block, then BFS
		bad := ""
		b := s.Block()
		after := false
		stored := false
		for _, in := range b.Instrs {
			if in == s {
				after = true
				continue
			}
			if after && isStoring(in) {
				stored = true
			}
		}
		if !stored {
			forwardFrom(b, func(x *ssa.BasicBlock) bool {
				if bad != "" {
					return false
				}
				for _, in := range x.Instrs {
					if isStoring(in) {
						return false
					}
					if ret, ok := in.(*ssa.Return); ok && succ[ret] {
						bad = p.ipos(ret)
					}
				}
				return true
			})
		}
		r.Check(bad == "", rule, "commit:SetBlock-after-StateHash", p.ipos(s), fnName(commit), "the block is stored again after the application's answer was written into it",
			"core.commit can succeed (return at "+bad+") without storing the block after StateHash/receipts were set: the copy persisted by ProcessDecidedRounds before the callback lacks them; the only re-store is inside signBlock, reached only if the node belongs to the block's validator set (late joiner replaying history, removed validator)")
	}
}
