package main

// Renamed anchors. The rules name functions and struct fields of the reference tree. A consistent
// rename (a better name for an unexported method or field) must not be reported as a missing
// anchor: a function of the reference tree that no longer exists is identified with the one new
// function of the same package and receiver that has the identical signature (if exactly one
// such pairing exists), a struct field with the field that took its position with the same type.
// The rules keep using the reference names (shortName / refName / Prog.Func / Prog.Field resolve
// through the alias tables); the evidence lists every alias applied.

import (
	_ "embed"
	"fmt"
	"go/ast"
	"go/types"
	"sort"
	"strings"

	"golang.org/x/tools/go/packages"
)

//go:embed reference_fields.txt
var referenceFieldsTxt string

var (
	referenceSigs = map[string]string{} // function key -> signature (parameters and results)
	fnAlias       = map[string]string{} // current key -> reference key
	fnAliasRev    = map[string]string{} // reference key -> current key
	fieldAlias    = map[*types.Var]string{}
	fieldAliasRev = map[string]string{} // "pkg.Type.refname" -> current name
	aliasNotes    []string
)

func refName(v *types.Var) string {
	if v == nil {
		return ""
	}
	if a, ok := fieldAlias[v]; ok {
		return a
	}
	return v.Name()
}

func sigString(f *types.Func) string {
	sig := f.Type().(*types.Signature)
	q := func(p *types.Package) string { return p.Path() }
	return types.TypeString(sig.Params(), q) + " " + types.TypeString(sig.Results(), q)
}

func recvKeyPrefix(key string) string {
	i := strings.LastIndex(key, ".")
	if i < 0 {
		return key
	}
	return key[:i]
}

// dumpFields prints "pkg.Type<TAB>index<TAB>name<TAB>type" for every struct field of the module.
func dumpFields(pkgs []*packages.Package) []string {
	var res []string
	for _, pk := range pkgs {
		if !strings.HasPrefix(pk.PkgPath, modPath) || pk.Types == nil {
			continue
		}
		sc := pk.Types.Scope()
		for _, n := range sc.Names() {
			tn, ok := sc.Lookup(n).(*types.TypeName)
			if !ok {
				continue
			}
			st, ok := tn.Type().Underlying().(*types.Struct)
			if !ok {
				continue
			}
			for i := 0; i < st.NumFields(); i++ {
				f := st.Field(i)
				res = append(res, fmt.Sprintf("%s.%s\t%d\t%s\t%s", pk.PkgPath, n, i, f.Name(), types.TypeString(f.Type(), func(p *types.Package) string { return p.Path() })))
			}
		}
	}
	sort.Strings(res)
	return res
}

// computeAliases fills the alias tables for the loaded packages.
func computeAliases(pkgs []*packages.Package) {
	fnAlias, fnAliasRev = map[string]string{}, map[string]string{}
	fieldAlias, fieldAliasRev = map[*types.Var]string{}, map[string]string{}
	aliasNotes = nil
	cur := map[string]*types.Func{}
	for _, pk := range pkgs {
		if !strings.HasPrefix(pk.PkgPath, modPath) || pk.TypesInfo == nil {
			continue
		}
		for _, f := range pk.Syntax {
			for _, d := range f.Decls {
				if fd, ok := d.(*ast.FuncDecl); ok {
					if o, ok := pk.TypesInfo.Defs[fd.Name].(*types.Func); ok {
						cur[funcKey(o)] = o
					}
				}
			}
		}
	}
	// functions
	missing := map[string][]string{} // (prefix|sig) -> missing reference keys
	for k, sig := range referenceSigs {
		if _, ok := cur[k]; !ok && strings.HasPrefix(k, modPath) {
			g := recvKeyPrefix(k) + "|" + sig
			missing[g] = append(missing[g], k)
		}
	}
	fresh := map[string][]string{}
	for k, o := range cur {
		if !referenceFuncs[k] {
			g := recvKeyPrefix(k) + "|" + sigString(o)
			fresh[g] = append(fresh[g], k)
		}
	}
	for g, ms := range missing {
		ns := fresh[g]
		if len(ms) == 1 && len(ns) == 1 {
			fnAlias[ns[0]] = ms[0]
			fnAliasRev[ms[0]] = ns[0]
			aliasNotes = append(aliasNotes, fmt.Sprintf("function %s is taken for the renamed %s (same receiver, identical signature, the only such pair)", ns[0], ms[0]))
		}
	}
	// struct fields: by position and type
	type fref struct {
		name, typ string
	}
	ref := map[string]map[int]fref{}
	for _, l := range strings.Split(referenceFieldsTxt, "\n") {
		parts := strings.Split(l, "\t")
		if len(parts) != 4 {
			continue
		}
		var idx int
		fmt.Sscan(parts[1], &idx)
		if ref[parts[0]] == nil {
			ref[parts[0]] = map[int]fref{}
		}
		ref[parts[0]][idx] = fref{parts[2], parts[3]}
	}
	for _, pk := range pkgs {
		if !strings.HasPrefix(pk.PkgPath, modPath) || pk.Types == nil {
			continue
		}
		sc := pk.Types.Scope()
		for _, n := range sc.Names() {
			tn, ok := sc.Lookup(n).(*types.TypeName)
			if !ok {
				continue
			}
			st, ok := tn.Type().Underlying().(*types.Struct)
			if !ok {
				continue
			}
			rf := ref[pk.PkgPath+"."+n]
			if rf == nil || len(rf) != st.NumFields() {
				continue
			}
			names := map[string]bool{}
			for i := 0; i < st.NumFields(); i++ {
				names[st.Field(i).Name()] = true
			}
			for i := 0; i < st.NumFields(); i++ {
				f := st.Field(i)
				r := rf[i]
				ts := types.TypeString(f.Type(), func(p *types.Package) string { return p.Path() })
				if r.name != f.Name() && r.typ == ts && !names[r.name] {
					fieldAlias[f] = r.name
					fieldAliasRev[pk.PkgPath+"."+n+"."+r.name] = f.Name()
					aliasNotes = append(aliasNotes, fmt.Sprintf("field %s.%s.%s is taken for the renamed %s (same position, same type)", pk.PkgPath, n, f.Name(), r.name))
				}
			}
		}
	}
	sort.Strings(aliasNotes)
}
