package main

import (
	"go/constant"
	"fmt"
	"go/token"
	"go/types"
	"strings"

	"golang.org/x/tools/go/ssa"
)

const (
	HG   = "src/hashgraph"
	NODE = "src/node"
	PEER = "src/peers"
	COMM = "src/common"
	KEYS = "src/crypto/keys"
	NET  = "src/net"
)

// storeM matches a Store method by name on the interface or either implementation.
func storeM(methods ...string) fnMatch {
	set := map[string]bool{}
	for _, m := range methods {
		set[HG+".Store."+m] = true
		set[HG+".InmemStore."+m] = true
		set[HG+".BadgerStore."+m] = true
	}
	return func(f *types.Func) bool { return set[shortName(f)] }
}

func isParam(v ssa.Value, fn *ssa.Function, idx int) bool {
	return idx < len(fn.Params) && unwrap(v) == ssa.Value(fn.Params[idx])
}

// callOnValue: l.V is result #idx of a call matching m whose receiver/first
// argument is (or derives from) recv (nil = any).
func resultLit(l Lit, m fnMatch, idx int, pos bool, recv ssa.Value) bool {
	if l.Pos != pos {
		return false
	}
	c, i, ok := isCallTo(l.V, m)
	if !ok {
		return false
	}
	if i != idx && !(i == -1 && idx == 0) {
		return false
	}
	if recv != nil {
		args := c.Call.Args
		var rv ssa.Value
		if c.Call.IsInvoke() {
			rv = c.Call.Value
		} else if len(args) > 0 {
			rv = args[0]
		}
		if rv == nil || !dependsOn(rv, func(x ssa.Value) bool {
			if x == recv {
				return true
			}
			// inside a helper: a parameter of the same type stands for the value
			if n := namedOf(recv.Type()); n != nil && isParamOfType(x, n.Obj().Name()) {
				return true
			}
			return false
		}) {
			return false
		}
	}
	return true
}

// errNilLit: literal asserts that the error result of a call matching m is nil.
func errNilLit(l Lit, m fnMatch) (*ssa.Call, bool) {
	v, isNil, ok := nilTest(l)
	if !ok || !isNil {
		return nil, false
	}
	c, _, ok := isCallTo(v, m)
	if !ok {
		return nil, false
	}
	return c, true
}

func init() {
	register(&propDef{
		ID:     "C07",
		NeedCG: true,
		Meta: propMeta{
			Level: "other",
			Explanation: "Decides structural necessary conditions of event admission on every path of Hashgraph.InsertEvent and its checks: " +
				"C07.guard (SetEvent and the append to UndeterminedEvents are reached only after Event.Verify returned true, checkSelfParent and checkOtherParent returned nil; the shapes of those three checks), " +
				"C07.index (an index comparison event.Index == selfParent.Index+1, or == 0 for a first event, guards every path to SetEvent), " +
				"C07.after (consensus-visible state is written only after SetEvent succeeded), C07.wire (ReadWireInfo resolves creator and parents through the repertoire and store with every lookup checked), " +
				"C07.roots (who may reach InsertEvent / InsertFrameEvent), C07.store (a refused event leaves no trace in the store: the in-memory store caches a new event only after its per-creator index slot was accepted, the persistent store writes the database only after the in-memory store accepted it). NOT decided: soundness of ECDSA itself, state after a rejection beyond the listed fields, behaviour for concrete event sequences.",
			Assumptions: commonAssumptions,
		},
		Rules: []ruleFunc{c07guard, c07index, c07after, c07wire, c07roots, c07verifyShape, c07store, func(p *Prog, r *Report) { digestRule(p, r, "C07.digest", []string{"EventBody", "InternalTransactionBody"}) }},
	})
}

func c07guard(p *Prog, r *Report) {
	const rule = "C07.guard"
	r.Rule(rule, 6, "admission guards: every path to Store.SetEvent / append(UndeterminedEvents) in InsertEvent passed Verify()==true, checkSelfParent==nil, checkOtherParent==nil; shapes of checkSelfParent and checkOtherParent")
	fn := p.Func(HG, "Hashgraph", "InsertEvent")
	if fn == nil {
		r.Anchor(rule, "hashgraph.(*Hashgraph).InsertEvent")
		return
	}
	event := paramByType(fn, 1, "Event")
	verifyM := named(HG + ".Event.Verify")
	cspM := named(HG + ".Hashgraph.checkSelfParent")
	copM := named(HG + ".Hashgraph.checkOtherParent")
	qVerify := p.lift(func(l Lit) bool { return resultLit(l, verifyM, 0, true, event) }, 1)
	qSelf := p.lift(func(l Lit) bool {
		c, ok := errNilLit(l, cspM)
		return ok && len(c.Call.Args) > 1 && depOnParamType(c.Call.Args[1], "Event")
	}, 1)
	qOther := p.lift(func(l Lit) bool {
		c, ok := errNilLit(l, copM)
		return ok && len(c.Call.Args) > 1 && depOnParamType(c.Call.Args[1], "Event")
	}, 1)
	names := []string{"Event.Verify()#0==true", "checkSelfParent(event)==nil", "checkOtherParent(event)==nil"}
	preds := []Pred{qVerify, qSelf, qOther}

	var actions []ssa.Instruction
	var labels []string
	for _, c := range callsIn(fn, storeM("SetEvent")) {
		actions = append(actions, c)
		labels = append(labels, "Store.SetEvent")
	}
	fUE := p.Field(HG, "Hashgraph", "UndeterminedEvents")
	for _, w := range p.writersOf(fUE) {
		if w.Fn == fn {
			actions = append(actions, w.Instr)
			labels = append(labels, "store UndeterminedEvents")
		}
	}
	if len(actions) < 2 {
		r.Fail(rule, "InsertEvent:actions", p.pos(fn.Pos()), fnName(fn), "expected a Store.SetEvent call and a store to UndeterminedEvents in InsertEvent")
	}
	cspFn := p.Func(HG, "Hashgraph", "checkSelfParent")
	copFn := p.Func(HG, "Hashgraph", "checkOtherParent")
	for i, a := range actions {
		for k, q := range preds {
			if (k == 1 && cspFn == nil) || (k == 2 && copFn == nil) {
				continue // the helper was merged into InsertEvent: decided by the composite obligation below
			}
			ok, _ := p.allPaths(a, []Pred{q}, all(1))
			r.Check(ok, rule, "InsertEvent:"+labels[i]+":"+names[k], p.ipos(a), fnName(fn),
				"every path to the action passes "+names[k],
				"some path reaches "+labels[i]+" without "+names[k])
		}
	}
	// the same obligation stated on the underlying conditions, wherever they are written (in the
	// helpers — the path engine looks into them — or directly in InsertEvent):
	//   other-parent: otherParent == "" or Store.GetEvent(otherParent) succeeded
	{
		isOP := func(x ssa.Value) bool {
			if _, _, ok := isCallTo(x, named(HG+".Event.OtherParent")); ok {
				return true
			}
			fv, _ := fieldOf(x)
			return fv != nil && refName(fv) == "Parents"
		}
		qNone := func(l Lit) bool {
			b, ok := l.V.(*ssa.BinOp)
			if !ok || l.Nil || !((b.Op == token.EQL && l.Pos) || (b.Op == token.NEQ && !l.Pos)) {
				return false
			}
			sx, okx := strConst(b.X)
			sy, oky := strConst(b.Y)
			return (oky && sy == "" && dependsOn(b.X, isOP)) || (okx && sx == "" && dependsOn(b.Y, isOP))
		}
		qKnown := func(l Lit) bool {
			c, ok := errNilLit(l, storeM("GetEvent"))
			if !ok {
				return false
			}
			args := c.Call.Args
			return len(args) > 0 && dependsOn(args[len(args)-1], isOP)
		}
		for i, a := range actions {
			ok, _ := p.allPaths(a, []Pred{qNone, qKnown}, func(m uint32) bool { return m != 0 })
			r.Check(ok, rule, "InsertEvent:"+labels[i]+":other-parent-empty-or-known", p.ipos(a), fnName(fn),
				"every path to the action established otherParent == \"\" or Store.GetEvent(otherParent) ok",
				"some path reaches "+labels[i]+" although the other-parent is neither empty nor found in the store")
		}
	}

	// checkSelfParent: every nil return is justified
	csp := p.Func(HG, "Hashgraph", "checkSelfParent")
	if csp == nil {
		r.Anchor(rule, "hashgraph.(*Hashgraph).checkSelfParent")
	} else {
		ev := paramByType(csp, 1, "Event")
		lastM := storeM("LastEventFrom")
		isSelfParentVal := func(x ssa.Value) bool {
			if c, _, ok := isCallTo(x, named(HG+".Event.SelfParent")); ok {
				_ = c
				return true
			}
			if fv, _ := fieldOf(x); fv != nil && refName(fv) == "Parents" {
				return true
			}
			return false
		}
		isLastVal := func(x ssa.Value) bool {
			_, idx, ok := isCallTo(x, lastM)
			return ok && idx == 0
		}
		// A: selfParent == LastEventFrom(creator)
		qEq := func(l Lit) bool {
			b, ok := l.V.(*ssa.BinOp)
			if !ok || !((b.Op == token.EQL && l.Pos) || (b.Op == token.NEQ && !l.Pos)) {
				return false
			}
			return (dependsOn(b.X, isSelfParentVal) && dependsOn(b.Y, isLastVal)) ||
				(dependsOn(b.Y, isSelfParentVal) && dependsOn(b.X, isLastVal))
		}
		qLastOK := func(l Lit) bool {
			v, isNil, ok := nilTest(l)
			if !ok || !isNil {
				return false
			}
			_, idx, ok := isCallTo(v, lastM)
			return ok && idx == 1
		}
		// B: IsStore(err, Empty) && selfParent == ""
		qEmpty := func(l Lit) bool {
			if !l.Pos {
				return false
			}
			c, _, ok := isCallTo(l.V, named(COMM+".IsStore"))
			if !ok || len(c.Call.Args) != 2 {
				return false
			}
			k, okc := intConst(c.Call.Args[1])
			if !okc || k != storeErrConst(p, "Empty") {
				return false
			}
			return dependsOn(c.Call.Args[0], func(x ssa.Value) bool { _, idx, ok := isCallTo(x, lastM); return ok && idx == 1 })
		}
		qNoParent := func(l Lit) bool {
			b, ok := l.V.(*ssa.BinOp)
			if !ok || !((b.Op == token.EQL && l.Pos) || (b.Op == token.NEQ && !l.Pos)) {
				return false
			}
			sx, okx := strConst(b.X)
			sy, oky := strConst(b.Y)
			if oky && sy == "" {
				return dependsOn(b.X, isSelfParentVal)
			}
			if okx && sx == "" {
				return dependsOn(b.Y, isSelfParentVal)
			}
			return false
		}
		preds := []Pred{p.lift(qEq, 1), p.lift(qLastOK, 1), p.lift(qEmpty, 1), p.lift(qNoParent, 1)}
		formula := func(m uint32) bool { return m&3 == 3 || m&12 == 12 }
		rets := p.succRets(csp, errNil, 0)
		if len(rets) == 0 {
			r.Fail(rule, "checkSelfParent:returns", p.pos(csp.Pos()), fnName(csp), "no success return found")
		}
		for i, rp := range rets {
			var ok bool
			var m uint32
			if rp.pred != nil {
				ok, m = p.allPathsEdge(rp.pred, rp.ret.Block(), preds, formula)
			} else {
				ok, m = p.allPaths(rp.ret, preds, formula)
			}
			r.Check(ok, rule, fmt.Sprintf("checkSelfParent:return-nil#%d", i), p.ipos(rp.ret), fnName(csp),
				"nil is returned only when selfParent == LastEventFrom(creator), or the creator has no event yet (Empty) and selfParent == \"\"",
				fmt.Sprintf("a path returns nil with neither (selfParent==LastEventFrom(creator) && no store error) nor (IsStore(err,Empty) && selfParent==\"\"): passed-literal mask=%04b", m))
		}
		// the value compared really is the creator's last event: LastEventFrom argument depends on event.Creator()
		for _, c := range callsIn(csp, lastM) {
			args := c.Common().Args
			a := args[len(args)-1]
			ok := dependsOn(a, func(x ssa.Value) bool {
				if _, _, ok := isCallTo(x, named(HG+".Event.Creator")); ok {
					return true
				}
				fv, _ := fieldOf(x)
				return fv != nil && refName(fv) == "Creator"
			}) && dependsOn(a, func(x ssa.Value) bool { return x == ev })
			r.Check(ok, rule, "checkSelfParent:LastEventFrom(creator)", p.ipos(c), fnName(csp), "LastEventFrom is asked for the event's own creator", "LastEventFrom argument does not derive from event.Creator()")
		}
	}

	// checkOtherParent
	cop := p.Func(HG, "Hashgraph", "checkOtherParent")
	if cop == nil {
		r.Note("%s: checkOtherParent does not exist any more (merged into its caller): its obligation is decided on InsertEvent directly", rule)
	} else {
		isOP := func(x ssa.Value) bool {
			if _, _, ok := isCallTo(x, named(HG+".Event.OtherParent")); ok {
				return true
			}
			fv, _ := fieldOf(x)
			return fv != nil && refName(fv) == "Parents"
		}
		qNone := func(l Lit) bool {
			b, ok := l.V.(*ssa.BinOp)
			if !ok || !((b.Op == token.EQL && l.Pos) || (b.Op == token.NEQ && !l.Pos)) {
				return false
			}
			sx, okx := strConst(b.X)
			sy, oky := strConst(b.Y)
			return (oky && sy == "" && dependsOn(b.X, isOP)) || (okx && sx == "" && dependsOn(b.Y, isOP))
		}
		qKnown := func(l Lit) bool {
			c, ok := errNilLit(l, storeM("GetEvent"))
			if !ok {
				return false
			}
			args := c.Call.Args
			return len(args) > 0 && dependsOn(args[len(args)-1], isOP)
		}
		preds := []Pred{p.lift(qNone, 1), p.lift(qKnown, 1)}
		formula := func(m uint32) bool { return m != 0 }
		rets := p.succRets(cop, errNil, 0)
		if len(rets) == 0 {
			r.Fail(rule, "checkOtherParent:returns", p.pos(cop.Pos()), fnName(cop), "no success return found")
		}
		for i, rp := range rets {
			var ok bool
			if rp.pred != nil {
				ok, _ = p.allPathsEdge(rp.pred, rp.ret.Block(), preds, formula)
			} else {
				ok, _ = p.allPaths(rp.ret, preds, formula)
			}
			r.Check(ok, rule, fmt.Sprintf("checkOtherParent:return-nil#%d", i), p.ipos(rp.ret), fnName(cop),
				"nil is returned only when otherParent == \"\" or Store.GetEvent(otherParent) succeeded",
				"a path returns nil although the other-parent is neither empty nor found in the store")
		}
	}
}

func storeErrConst(p *Prog, name string) int64 {
	pk := p.ByPkg[modPath+"/"+COMM]
	if pk == nil {
		return -1
	}
	c, ok := pk.Types.Scope().Lookup(name).(*types.Const)
	if !ok {
		return -1
	}
	v, _ := intConstVal(c)
	return v
}

func intConstVal(c *types.Const) (int64, bool) {
	s := c.Val().ExactString()
	var v int64
	_, err := fmt.Sscan(s, &v)
	return v, err == nil
}

// C07.index: on every path to SetEvent in InsertEvent there is an index
// comparison: event.Index == parent.Index + 1, or (first event) == 0.
func c07index(p *Prog, r *Report) {
	const rule = "C07.index"
	r.Rule(rule, 1, "chain extended by exactly one: an equality between the event's Index and selfParent.Index+1 (or 0 for a first event) guards every path to Store.SetEvent in InsertEvent (directly or inside a helper whose success is required)")
	fn := p.Func(HG, "Hashgraph", "InsertEvent")
	if fn == nil {
		r.Anchor(rule, "hashgraph.(*Hashgraph).InsertEvent")
		return
	}
	isIndexVal := func(x ssa.Value) bool {
		if _, _, ok := isCallTo(x, named(HG+".Event.Index")); ok {
			return true
		}
		fv, _ := fieldOf(x)
		return fv != nil && refName(fv) == "Index" && fv.Pkg() != nil && strings.HasSuffix(fv.Pkg().Path(), "/hashgraph")
	}
	// literal: equality (asserted true) between two Index-derived values where one side adds 1, or between an Index value and constant 0
	qIdx := func(l Lit) bool {
		b, ok := l.V.(*ssa.BinOp)
		if !ok || !((b.Op == token.EQL && l.Pos) || (b.Op == token.NEQ && !l.Pos)) {
			return false
		}
		plusOne := func(v ssa.Value) bool {
			return dependsOn(v, func(x ssa.Value) bool {
				a, ok := x.(*ssa.BinOp)
				if !ok || (a.Op != token.ADD && a.Op != token.SUB) {
					return false
				}
				if k, ok := intConst(a.Y); ok && k == 1 {
					return dependsOn(a.X, isIndexVal)
				}
				if k, ok := intConst(a.X); ok && k == 1 && a.Op == token.ADD {
					return dependsOn(a.Y, isIndexVal)
				}
				return false
			})
		}
		if dependsOn(b.X, isIndexVal) && dependsOn(b.Y, isIndexVal) && (plusOne(b.X) || plusOne(b.Y)) {
			return true
		}
		if k, ok := intConst(b.Y); ok && k == 0 && dependsOn(b.X, isIndexVal) {
			return true
		}
		if k, ok := intConst(b.X); ok && k == 0 && dependsOn(b.Y, isIndexVal) {
			return true
		}
		return false
	}
	q := p.lift(qIdx, 2)
	n := 0
	for _, c := range callsIn(fn, storeM("SetEvent")) {
		n++
		ok, _ := p.allPaths(c, []Pred{q}, all(1))
		r.Check(ok, rule, "InsertEvent->SetEvent:index==selfParent.index+1", p.ipos(c), fnName(fn),
			"every path to SetEvent passed an index test (== selfParent.Index+1, or == 0 for a first event)",
			"no comparison of event.Index with the self-parent's index + 1 (or 0 for a first event) guards Store.SetEvent; RollingIndex.Set replaces in place for index <= last and accepts any first index")
	}
	if n == 0 {
		r.Fail(rule, "InsertEvent:SetEvent", p.pos(fn.Pos()), fnName(fn), "no Store.SetEvent call in InsertEvent")
	}
}

// C07.after: consensus-visible state is written only after SetEvent succeeded.
func c07after(p *Prog, r *Report) {
	const rule = "C07.after"
	r.Rule(rule, 3, "in InsertEvent the writes to UndeterminedEvents, PendingLoadedEvents and PendingSignatures are reached only after Store.SetEvent(event) returned nil")
	fn := p.Func(HG, "Hashgraph", "InsertEvent")
	if fn == nil {
		r.Anchor(rule, "hashgraph.(*Hashgraph).InsertEvent")
		return
	}
	q := p.lift(func(l Lit) bool { _, ok := errNilLit(l, storeM("SetEvent")); return ok }, 1)
	check := func(in ssa.Instruction, what string) {
		ok, _ := p.allPaths(in, []Pred{q}, all(1))
		r.Check(ok, rule, "InsertEvent:"+what, p.ipos(in), fnName(fn), what+" only after SetEvent==nil", what+" reachable without a successful SetEvent")
	}
	for _, name := range []string{"UndeterminedEvents", "PendingLoadedEvents"} {
		f := p.Field(HG, "Hashgraph", name)
		if f == nil {
			r.Anchor(rule, "Hashgraph."+name)
			continue
		}
		for _, w := range p.writersOf(f) {
			if w.Fn == fn {
				check(w.Instr, "write "+name)
			}
		}
	}
	for _, c := range callsIn(fn, named(HG+".SigPool.Add")) {
		check(c, "PendingSignatures.Add")
	}
}

// C07.wire: ReadWireInfo resolves creator and parents with checked lookups.
func c07wire(p *Prog, r *Report) {
	const rule = "C07.wire"
	r.Rule(rule, 3, "ReadWireInfo: the success return is reached only with the creator found in RepertoireByID (comma-ok), and each parent index >= 0 resolved by Store.ParticipantEvent with its error checked (other-parent creator also by comma-ok)")
	fn := p.Func(HG, "Hashgraph", "ReadWireInfo")
	if fn == nil {
		r.Anchor(rule, "hashgraph.(*Hashgraph).ReadWireInfo")
		return
	}
	// all comma-ok lookups on RepertoireByID results must be tested true before the success return
	var lookups []*ssa.Lookup
	for _, b := range fn.Blocks {
		for _, in := range b.Instrs {
			if lk, ok := in.(*ssa.Lookup); ok && lk.CommaOk {
				if _, _, ok := isCallTo(lk.X, storeM("RepertoireByID")); ok {
					lookups = append(lookups, lk)
				}
			}
		}
	}
	rets := p.succRets(fn, errNil, 1)
	if len(rets) == 0 {
		r.Fail(rule, "ReadWireInfo:returns", p.pos(fn.Pos()), fnName(fn), "no success return")
		return
	}
	if len(lookups) == 0 {
		r.Fail(rule, "ReadWireInfo:repertoire-lookup", p.pos(fn.Pos()), fnName(fn), "creator is not looked up in RepertoireByID with comma-ok")
	}
	for i, lk := range lookups {
		lk := lk
		// okTrue on every path that executed the lookup and reaches the success return:
		// formulated as: no path passes the lookup's false edge and reaches success.
		qFalse := func(l Lit) bool {
			e, ok := l.V.(*ssa.Extract)
			return ok && e.Tuple == lk && e.Index == 1 && !l.Pos
		}
		// the ok must be branched on at all
		tested := false
		if refs := lk.Referrers(); refs != nil {
			for _, rf := range *refs {
				if e, ok := rf.(*ssa.Extract); ok && e.Index == 1 {
					if er := e.Referrers(); er != nil {
						for _, u := range *er {
							if _, ok := u.(*ssa.If); ok {
								tested = true
							}
							if un, ok := u.(*ssa.UnOp); ok && un.Op == token.NOT {
								if ur := un.Referrers(); ur != nil {
									for _, uu := range *ur {
										if _, ok := uu.(*ssa.If); ok {
											tested = true
										}
									}
								}
							}
						}
					}
				}
			}
		}
		okAll := tested
		for _, rp := range rets {
			var ok bool
			if rp.pred != nil {
				ok, _ = p.allPathsEdge(rp.pred, rp.ret.Block(), []Pred{qFalse}, func(m uint32) bool { return m == 0 })
			} else {
				ok, _ = p.allPaths(rp.ret, []Pred{qFalse}, func(m uint32) bool { return m == 0 })
			}
			okAll = okAll && ok
		}
		r.Check(okAll, rule, fmt.Sprintf("ReadWireInfo:RepertoireByID-lookup#%d", i), p.ipos(lk), fnName(fn),
			"lookup result tested; a failed lookup never reaches the success return", "repertoire lookup not tested, or a failed lookup reaches the success return")
	}
	// each ParticipantEvent call: error checked before success
	pes := callsIn(fn, storeM("ParticipantEvent"))
	if len(pes) < 2 {
		r.Fail(rule, "ReadWireInfo:ParticipantEvent", p.pos(fn.Pos()), fnName(fn), fmt.Sprintf("expected 2 Store.ParticipantEvent resolutions (self-parent, other-parent), found %d", len(pes)))
	}
	for i, c := range pes {
		c := c
		cv, _ := c.(*ssa.Call)
		qErr := func(l Lit) bool {
			v, isNil, ok := nilTest(l)
			if !ok || isNil {
				return false
			}
			cc, idx := callOf(v)
			if cc == cv && idx == 1 {
				return true
			}
			// err variable merged by phi
			return dependsOn(v, func(x ssa.Value) bool { c2, idx := callOf(x); return c2 == cv && idx == 1 })
		}
		okAll := true
		for _, rp := range rets {
			var ok bool
			if rp.pred != nil {
				ok, _ = p.allPathsEdge(rp.pred, rp.ret.Block(), []Pred{qErr}, func(m uint32) bool { return m == 0 })
			} else {
				ok, _ = p.allPaths(rp.ret, []Pred{qErr}, func(m uint32) bool { return m == 0 })
			}
			okAll = okAll && ok
		}
		// and the error must be tested at all: some If depends on it
		tested := false
		for _, b := range fn.Blocks {
			if n := len(b.Instrs); n > 0 {
				if iff, ok := b.Instrs[n-1].(*ssa.If); ok {
					if dependsOn(iff.Cond, func(x ssa.Value) bool { c2, idx := callOf(x); return c2 == cv && idx == 1 }) {
						tested = true
					}
				}
			}
		}
		r.Check(okAll && tested, rule, fmt.Sprintf("ReadWireInfo:ParticipantEvent#%d:err-checked", i), p.ipos(c), fnName(fn),
			"error of ParticipantEvent is tested and a failure never reaches the success return", "ParticipantEvent error unchecked or a failed resolution reaches the success return")
		// the call is guarded by index >= 0
		qNonNeg := func(l Lit) bool {
			b, ok := l.V.(*ssa.BinOp)
			if !ok {
				return false
			}
			k, okc := intConst(b.Y)
			if !okc {
				return false
			}
			isIdx := dependsOn(b.X, func(x ssa.Value) bool {
				fv, _ := fieldOf(x)
				return fv != nil && strings.HasSuffix(refName(fv), "ParentIndex")
			})
			if !isIdx {
				return false
			}
			switch {
			case b.Op == token.GEQ && k == 0 && l.Pos, b.Op == token.LSS && k == 0 && !l.Pos,
				b.Op == token.GTR && k == -1 && l.Pos, b.Op == token.LEQ && k == -1 && !l.Pos:
				return true
			}
			return false
		}
		ok, _ := p.allPaths(c, []Pred{qNonNeg}, all(1))
		r.Check(ok, rule, fmt.Sprintf("ReadWireInfo:ParticipantEvent#%d:index>=0", i), p.ipos(c), fnName(fn),
			"resolution only for non-negative wire indexes (negative => no parent)", "ParticipantEvent called without an index >= 0 guard")
	}
}

// C07.roots: who may reach InsertEvent / InsertFrameEvent.
func c07roots(p *Prog, r *Report) {
	const rule = "C07.roots"
	r.Rule(rule, 2, "every call path from outside package hashgraph to InsertEvent passes core.sync, core.addSelfEvent or Hashgraph.Bootstrap; the unchecked InsertFrameEvent is reachable only through Hashgraph.Reset")
	type inst struct {
		target *ssa.Function
		name   string
		gates  []*ssa.Function
		gnames string
	}
	ie := p.Func(HG, "Hashgraph", "InsertEvent")
	ife := p.Func(HG, "Hashgraph", "InsertFrameEvent")
	gs := []*ssa.Function{p.Func(NODE, "core", "sync"), p.Func(NODE, "core", "addSelfEvent"), p.Func(HG, "Hashgraph", "Bootstrap")}
	reset := p.Func(HG, "Hashgraph", "Reset")
	for i, g := range gs {
		if g == nil {
			r.Anchor(rule, []string{"node.(*core).sync", "node.(*core).addSelfEvent", "hashgraph.(*Hashgraph).Bootstrap"}[i])
			return
		}
	}
	if ie == nil || ife == nil || reset == nil {
		r.Anchor(rule, "InsertEvent/InsertFrameEvent/Reset")
		return
	}
	for _, in := range []inst{
		{ie, "InsertEvent", gs, "core.sync, core.addSelfEvent, Hashgraph.Bootstrap"},
		{ife, "InsertFrameEvent", []*ssa.Function{reset}, "Hashgraph.Reset"},
	} {
		gate := map[*ssa.Function]bool{}
		for _, g := range in.gates {
			gate[g] = true
		}
		roots := p.roots()
		path := p.pathAvoiding(roots, in.target, func(f *ssa.Function) bool { return gate[f] })
		r.Check(path == nil, rule, in.name+":callers", p.pos(in.target.Pos()), fnName(in.target),
			fmt.Sprintf("every call path from the %d module roots passes {%s}", len(roots), in.gnames),
			fmt.Sprintf("%s reachable without passing {%s}: %s", in.name, in.gnames, strings.Join(path, " -> ")))
	}
}

// C07.verify: shape of Event.Verify and InternalTransaction.Verify
func c07verifyShape(p *Prog, r *Report) {
	const rule = "C07.verify"
	r.Rule(rule, 3, "Event.Verify: every internal transaction is verified in a loop whose only early exits return false; the true result comes from keys.Verify over Body.Hash() with the key from Body.Creator; InternalTransaction.Verify verifies over Body.Hash() with the key of Body.Peer")
	ev := p.Func(HG, "Event", "Verify")
	if ev == nil {
		r.Anchor(rule, "hashgraph.(*Event).Verify")
		return
	}
	itxV := named(HG + ".InternalTransaction.Verify")
	calls := callsIn(ev, itxV)
	if len(calls) == 0 {
		r.Fail(rule, "Event.Verify:itx-loop", p.pos(ev.Pos()), fnName(ev), "Event.Verify does not call InternalTransaction.Verify")
	}
	loops := naturalLoops(ev)
	for i, c := range calls {
		cv := c.(*ssa.Call)
		lp := innermostLoop(loops, cv.Block())
		okLoop := lp != nil
		detail := ""
		if okLoop {
			// receiver derives from Body.InternalTransactions
			recv := cv.Call.Args[0]
			if !dependsOn(recv, func(x ssa.Value) bool { fv, _ := fieldOf(x); return fv != nil && refName(fv) == "InternalTransactions" }) {
				okLoop = false
				detail = "verified value does not come from Body.InternalTransactions"
			}
			// the range covers the whole slice: loop bound is len of the slice (range) — head's condition depends on a len or range next
			// exits: from head, or into blocks that only return false
			for b := range lp.body {
				for _, s := range b.Succs {
					if lp.body[s] || b == lp.head {
						continue
					}
					if !onlyReturnsConstBool(s, 0, false, map[*ssa.BasicBlock]bool{}) {
						// the same on feasible paths: every return reachable through this exit yields false
						bad := false
						forwardFromEdge(b, s, func(x *ssa.BasicBlock) bool {
							if bad {
								return false
							}
							if lp.body[x] {
								return false // back inside the loop: not an exit path
							}
							if ret, isRet := x.Instrs[len(x.Instrs)-1].(*ssa.Return); isRet {
								c, isC := ret.Results[0].(*ssa.Const)
								if !isC || c.Value == nil || c.Value.Kind() != constant.Bool || constant.BoolVal(c.Value) {
									bad = true
								}
								return false
							}
							return true
						})
						if bad {
							okLoop = false
							detail = "the verification loop has an exit at " + p.ipos(b.Instrs[len(b.Instrs)-1]) + " that does not return false"
						}
					}
				}
			}
			// result #0 false and err != nil must leave the loop
			qBad := func(l Lit) bool {
				e, ok := l.V.(*ssa.Extract)
				return ok && e.Tuple == cv && e.Index == 0 && !l.Pos
			}
			qErr := func(l Lit) bool {
				v, isNil, ok := nilTest(l)
				if !ok || isNil {
					return false
				}
				c2, idx := callOf(v)
				return c2 == cv && idx == 1
			}
			for _, rp := range p.succRets(ev, boolTrue, 0) {
				var ok bool
				f := func(m uint32) bool { return m == 0 }
				if rp.pred != nil {
					ok, _ = p.allPathsEdge(rp.pred, rp.ret.Block(), []Pred{qBad, qErr}, f)
				} else {
					ok, _ = p.allPaths(rp.ret, []Pred{qBad, qErr}, f)
				}
				if !ok {
					okLoop = false
					detail = "a failed internal-transaction verification can reach a return that may yield true"
				}
				// and the loop head dominates the return (loop is always traversed)
				if !lp.head.Dominates(rp.ret.Block()) {
					okLoop = false
					detail = "a possibly-true return is not dominated by the verification loop"
				}
			}
			// both results must be tested
			if !extractTested(cv, 0) {
				okLoop = false
				detail = "result of InternalTransaction.Verify is not branched on"
			}
		} else {
			detail = "call not inside a loop"
		}
		r.Check(okLoop, rule, fmt.Sprintf("Event.Verify:itx-loop#%d", i), p.ipos(c), fnName(ev), "all internal transactions verified; only false-returning early exits", detail)
	}
	verifyProvenance(p, r, rule, []string{"Event", "InternalTransaction", "Block"})
}

// verifyProvenance: X.Verify returns true only through keys.Verify over the body hash, with the
// key and the signature taken from the value being verified (no shortcut that skips the ECDSA check).
func verifyProvenance(p *Prog, r *Report, rule string, which []string) {
	ev := p.Func(HG, "Event", "Verify")
	want := map[string]bool{}
	for _, w := range which {
		want[w] = true
	}
	for _, spec := range []struct {
		fn              *ssa.Function
		name, keyField  string
		hashRecvField   string
		sigField        string
		hashM           fnMatch
		keyVia          fnMatch
		keyViaFieldName string
	}{
		{ev, "Event.Verify", "Creator", "Body", "Signature", named(HG + ".EventBody.Hash"), nil, ""},
		{p.Func(HG, "InternalTransaction", "Verify"), "InternalTransaction.Verify", "Peer", "Body", "Signature", named(HG + ".InternalTransactionBody.Hash"), named(PEER + ".Peer.PubKeyBytes"), "Peer"},
		{p.Func(HG, "Block", "Verify"), "Block.Verify", "Validator", "Body", "Signature", named(HG + ".BlockBody.Hash"), nil, ""},
	} {
		if !want[strings.Split(spec.name, ".")[0]] {
			continue
		}
		if spec.fn == nil {
			r.Anchor(rule, spec.name)
			continue
		}
		vs := callsIn(spec.fn, named(KEYS+".Verify"))
		if len(vs) == 0 {
			r.Fail(rule, spec.name+":keys.Verify", p.pos(spec.fn.Pos()), fnName(spec.fn), "no call to keys.Verify")
			continue
		}
		for _, c := range vs {
			a := c.Common().Args
			okKey := dependsOn(a[0], func(x ssa.Value) bool { fv, _ := fieldOf(x); return fv != nil && refName(fv) == spec.keyField })
			// the digest IS the body hash (value-preserving flow): ECDSA truncates a longer buffer to
			// its leftmost 32 bytes, so "prefix || hash" would verify the prefix only
			okHash := flowsFromCall(a[1], spec.hashM, 0)
			okSig := dependsOn(a[2], func(x ssa.Value) bool { fv, _ := fieldOf(x); return fv != nil && refName(fv) == spec.sigField }) &&
				dependsOn(a[3], func(x ssa.Value) bool { fv, _ := fieldOf(x); return fv != nil && refName(fv) == spec.sigField })
			// every possibly-true return derives from this keys.Verify
			okRet := true
			qVerified := func(l Lit) bool {
				return l.Pos && !l.Nil && unwrap(l.V) == c.Value()
			}
			for _, rp := range p.succRets(spec.fn, boolTrue, 0) {
				v := rp.val
				if v == nil {
					v = rp.ret.Results[0]
				}
				// the value returned IS the ECDSA verdict on every path (not merely one of the values
				// a variable may hold), or the return is reached only after that verdict was true
				if mustBeValue(v, c.Value(), 0) {
					continue
				}
				if g, _ := p.holdsAtRet(rp, []Pred{qVerified}, all(1)); g {
					continue
				}
				okRet = false
			}
			r.Check(okKey && okHash && okSig && okRet, rule, spec.name+":keys.Verify-provenance", p.ipos(c), fnName(spec.fn),
				"key from "+spec.keyField+", digest from Body.Hash(), r,s from Signature; true only via keys.Verify",
				fmt.Sprintf("provenance broken: key<-%s:%v digest<-Body.Hash():%v r,s<-Signature:%v true-only-via-keys.Verify:%v", spec.keyField, okKey, okHash, okSig, okRet))
		}
	}
}

func extractTested(c *ssa.Call, idx int) bool {
	refs := c.Referrers()
	if refs == nil {
		return false
	}
	for _, rf := range *refs {
		if e, ok := rf.(*ssa.Extract); ok && e.Index == idx {
			if er := e.Referrers(); er != nil && len(*er) > 0 {
				for _, u := range *er {
					if usedInBranch(u, 0) {
						return true
					}
				}
			}
		}
	}
	return false
}

func usedInBranch(in ssa.Instruction, depth int) bool {
	if depth > 4 {
		return false
	}
	switch x := in.(type) {
	case *ssa.If:
		return true
	case *ssa.UnOp, *ssa.BinOp, *ssa.Phi:
		v := x.(ssa.Value)
		if rs := v.Referrers(); rs != nil {
			for _, u := range *rs {
				if usedInBranch(u, depth+1) {
					return true
				}
			}
		}
	}
	return false
}

// onlyReturnsConstBool: every path from b ends in a Return whose result idx is the constant val,
// without passing through a block outside (no loops back).
func onlyReturnsConstBool(b *ssa.BasicBlock, idx int, val bool, seen map[*ssa.BasicBlock]bool) bool {
	if seen[b] {
		return true
	}
	seen[b] = true
	if len(b.Instrs) == 0 {
		return false
	}
	last := b.Instrs[len(b.Instrs)-1]
	if ret, ok := last.(*ssa.Return); ok {
		if idx >= len(ret.Results) {
			return false
		}
		if val {
			return mayBeSuccess(ret.Results[idx], boolTrue) && !mayBeSuccess(ret.Results[idx], boolFalse)
		}
		return mayBeSuccess(ret.Results[idx], boolFalse) && !mayBeSuccess(ret.Results[idx], boolTrue)
	}
	if len(b.Succs) == 0 {
		return true // panic
	}
	for _, s := range b.Succs {
		if !onlyReturnsConstBool(s, idx, val, seen) {
			return false
		}
	}
	return true
}

func sortStrings(s []string) {
	for i := 1; i < len(s); i++ {
		for j := i; j > 0 && s[j] < s[j-1]; j-- {
			s[j], s[j-1] = s[j-1], s[j]
		}
	}
}

// C07.store: the last gate of admission is the per-creator index slot in the in-memory store
// (ParticipantEventsCache.Set -> RollingIndex.Set). Nothing may be cached or persisted for an
// event that this gate refuses, otherwise the refused event stays retrievable (GetEvent,
// ParticipantEvent) and later events can name it as a parent.
func c07store(p *Prog, r *Report) {
	const rule = "C07.store"
	r.Rule(rule, 2, "a refused event leaves no trace: cache after the index slot, database after the cache")
	fn := p.Func(HG, "InmemStore", "SetEvent")
	if fn == nil {
		r.Anchor(rule, "hashgraph.(*InmemStore).SetEvent")
	} else {
		fCache := p.Field(HG, "InmemStore", "eventCache")
		qSlot := p.lift(func(l Lit) bool { _, ok := errNilLit(l, named(HG+".ParticipantEventsCache.Set")); return ok }, 1)
		// an event already known (update of an admitted event): the lookup succeeded / is not KeyNotFound
		qKnown := func(l Lit) bool {
			if c, _, ok := isCallTo(l.V, named(COMM+".IsStore")); ok && !l.Pos && len(c.Call.Args) == 2 {
				if k, okc := intConst(c.Call.Args[1]); okc && k == storeErrConst(p, "KeyNotFound") {
					return true
				}
			}
			// or: comma-ok of a cache lookup is true
			if e, ok := l.V.(*ssa.Extract); ok && l.Pos && e.Index == 1 {
				if c, ok := e.Tuple.(*ssa.Call); ok {
					if f := calleeFunc(c.Common()); f != nil && (shortName(f) == COMM+".LRU.Get" || shortName(f) == COMM+".LRU.Peek") {
						return true
					}
				}
			}
			if v, isNil, ok := nilTest(l); ok && isNil {
				if _, idx, ok := isCallTo(v, named(HG+".InmemStore.GetEvent")); ok && idx == 1 {
					return true
				}
			}
			return false
		}
		n := 0
		for _, c := range callsIn(fn, named(COMM+".LRU.Add")) {
			if fv, _ := fieldOf(recvOf(c)); fv != fCache {
				continue
			}
			n++
			g, _ := p.allPaths(c, []Pred{qSlot, qKnown}, func(m uint32) bool { return m != 0 })
			r.Check(g, rule, "InmemStore.SetEvent:cache-after-index-slot", p.ipos(c), fnName(fn), "a new event is cached only after ParticipantEventsCache.Set accepted its index (an update of a known event needs no slot)",
				"the event is put in the event cache before (or without) its per-creator index slot being accepted: an event refused for a skipped/duplicate index stays retrievable, can be named as a parent and is admitted when replayed")
		}
		if n == 0 {
			r.Fail(rule, "InmemStore.SetEvent:cache-after-index-slot", p.pos(fn.Pos()), fnName(fn), "InmemStore.SetEvent does not fill the event cache")
		}
		// the success return also requires the slot (or a known event)
		for i, rp := range p.succRets(fn, errNil, 0) {
			if c, _ := callOf(rp.val); c != nil {
				if f := calleeFunc(c.Common()); f != nil && shortName(f) == HG+".ParticipantEventsCache.Set" {
					continue
				}
			}
			g, _ := p.holdsAtRet(rp, []Pred{qSlot, qKnown}, func(m uint32) bool { return m != 0 })
			r.Check(g, rule, fmt.Sprintf("InmemStore.SetEvent:return-nil#%d", i), p.ipos(rp.ret), fnName(fn), "success only for an accepted slot or a known event", "SetEvent can report success for a new event whose index slot was not accepted")
		}
	}
	bs := p.Func(HG, "BadgerStore", "SetEvent")
	if bs == nil {
		r.Anchor(rule, "hashgraph.(*BadgerStore).SetEvent")
		return
	}
	qMem := p.lift(func(l Lit) bool { _, ok := errNilLit(l, named(HG+".InmemStore.SetEvent")); return ok }, 1)
	cs := callsIn(bs, named(HG+".BadgerStore.dbSetEvents"))
	if len(cs) == 0 {
		r.Fail(rule, "BadgerStore.SetEvent:db-after-cache-accepted", p.pos(bs.Pos()), fnName(bs), "no database write")
	}
	for _, c := range cs {
		g, _ := p.allPaths(c, []Pred{qMem}, all(1))
		r.Check(g, rule, "BadgerStore.SetEvent:db-after-cache-accepted", p.ipos(c), fnName(bs), "persisted only after the in-memory store accepted the event", "the event is persisted before the in-memory store (which polices per-creator indexes) accepted it")
	}
}
