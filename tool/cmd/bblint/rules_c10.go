package main

import (
	"fmt"
	"go/token"
	"go/types"
	"strings"

	"golang.org/x/tools/go/ssa"
)

func init() {
	register(&propDef{
		ID: "C10", NeedCG: true,
		Meta: propMeta{Level: "other", Assumptions: commonAssumptions,
			Explanation: "Decides: C10.writers (every call path to Store.SetPeerSet / PeerSetCache.Set passes Hashgraph.Init, Hashgraph.Bootstrap, core.processAcceptedInternalTransactions or Store.Reset; a recorded round is never overwritten), " +
				"C10.plus6 (the round recorded is the parameter round-received + 6; both callers pass block.RoundReceived()), C10.accepted (WithNewPeer / WithRemovedPeer only under Accepted==true and the matching transaction type; the type switch covers every declared TransactionType), " +
				"C10.lookup (PeerSetCache.Get returns the entry with the greatest round <= r; rounds kept sorted), C10.member (_witness true only for creators in the round's set; _stronglySee counts members of the given set only), " +
				"C10.hash (Frame.Peers and BlockBody.PeersHash derive from the set of round-received; PeerSet.Hash folds the keys in slice order), C10.itx (internal transactions enter the pool only verified or self-signed), " +
				"C10.everyreceipt (the receipts of every block are examined: no success return of processAcceptedInternalTransactions before its loop over the receipts, except for an empty list), C10.immutable (a recorded set is never changed through a derived one or through a borrowed slice: no append into a truncated view of another set's Peers slice, no element store into it, no sort.* call whose argument is — through any chain of calls — the Peers slice of an existing set), C10.firstround (a peer's first round is the minimum over the recorded sets whatever the order in which they are recorded), C10.latest (every store to core.validators takes the genesis set, the value just recorded with SetPeerSet, or a value derived from the whole peer-set history). NOT decided: equality of histories across nodes (follows from agreement)."},
		Rules: []ruleFunc{c10writers, c10plus6, c10accepted, c10lookup, c10member, c10hash, c10itx, c10latest, c10alias, c10immutable, func(p *Prog, r *Report) { everyReceiptRule(p, r, "C10.everyreceipt") }, func(p *Prog, r *Report) { firstRoundRule(p, r, "C10.firstround") }},
	})
}

func c10writers(p *Prog, r *Report) {
	const rule = "C10.writers"
	r.Rule(rule, 2, "who may reach Store.SetPeerSet / PeerSetCache.Set; PeerSetCache.Set never replaces an existing round")
	var targets []*ssa.Function
	for _, t := range []string{"InmemStore", "BadgerStore"} {
		if f := p.Func(HG, t, "SetPeerSet"); f != nil {
			targets = append(targets, f)
		}
	}
	set := p.Func(HG, "PeerSetCache", "Set")
	if set != nil {
		targets = append(targets, set)
	}
	gates := map[*ssa.Function]bool{}
	gnames := []string{}
	for _, g := range [][3]string{{HG, "Hashgraph", "Init"}, {HG, "Hashgraph", "Bootstrap"}, {NODE, "core", "processAcceptedInternalTransactions"}, {HG, "InmemStore", "Reset"}, {HG, "BadgerStore", "Reset"}} {
		f := p.Func(g[0], g[1], g[2])
		if f == nil {
			r.Anchor(rule, g[1]+"."+g[2])
			return
		}
		gates[f] = true
		gnames = append(gnames, g[1]+"."+g[2])
	}
	if len(targets) < 3 {
		r.Anchor(rule, "SetPeerSet implementations / PeerSetCache.Set")
		return
	}
	roots := p.roots()
	for _, t := range targets {
		path := p.pathAvoiding(roots, t, func(f *ssa.Function) bool { return gates[f] })
		r.Check(path == nil, rule, fnName(t)+":callers", p.pos(t.Pos()), fnName(t), "reachable only through {"+strings.Join(gnames, ", ")+"}", "peer-set table written through another path: "+strings.Join(path, " -> "))
	}
	// never replaces
	fPS := p.Field(HG, "PeerSetCache", "peerSets")
	n := 0
	for _, w := range p.writersOf(fPS) {
		if w.Fn != set || w.Kind != "mapupdate" {
			continue
		}
		mu, ok := w.Instr.(*ssa.MapUpdate)
		if !ok {
			continue
		}
		n++
		q := func(l Lit) bool {
			lk, present, ok := lookupLit(l)
			if !ok || present {
				return false
			}
			fv, _ := fieldOf(lk.X)
			return fv == fPS && unwrap(lk.Index) == unwrap(mu.Key)
		}
		ok2, _ := p.allPaths(mu, []Pred{q}, all(1))
		r.Check(ok2, rule, "PeerSetCache.Set:no-overwrite", p.ipos(mu), fnName(set), "a round already recorded is refused (KeyAlreadyExists)", "peerSets[round] can be overwritten: no 'not present' test guards the update")
	}
	if n == 0 {
		r.Fail(rule, "PeerSetCache.Set:no-overwrite", "-", "", "no map update of peerSets in PeerSetCache.Set")
	}
	var bad []string
	for _, w := range p.writersOf(fPS) {
		if w.Fn != set && !w.Fresh {
			bad = append(bad, fnName(w.Fn)+"@"+p.ipos(w.Instr))
		}
	}
	r.Check(len(bad) == 0, rule, "PeerSetCache.peerSets:writers", "-", "", "only PeerSetCache.Set (and the constructor) write the table", "other writers: "+strings.Join(bad, ", "))
}

func c10plus6(p *Prog, r *Report) {
	const rule = "C10.plus6"
	r.Rule(rule, 3, "processAcceptedInternalTransactions records the new set at parameter roundReceived + 6; its callers pass block.RoundReceived() and that block's receipts")
	fn := p.Func(NODE, "core", "processAcceptedInternalTransactions")
	if fn == nil {
		r.Anchor(rule, "node.(*core).processAcceptedInternalTransactions")
		return
	}
	rr := ssa.Value(fn.Params[1])
	cs := callsIn(fn, storeM("SetPeerSet"))
	if len(cs) == 0 {
		r.Fail(rule, "processAccepted:SetPeerSet", p.pos(fn.Pos()), fnName(fn), "no SetPeerSet call")
	}
	for _, c := range cs {
		a := argN(c, 0)
		ok := allSources(a, func(x ssa.Value) bool { // EVERY source: no alternative round under a node-local condition
			b, ok := x.(*ssa.BinOp)
			if !ok || b.Op != token.ADD {
				return false
			}
			if k, ok := intConst(b.Y); ok && k == 6 && unwrap(b.X) == rr {
				return true
			}
			if k, ok := intConst(b.X); ok && k == 6 && unwrap(b.Y) == rr {
				return true
			}
			return false
		})
		r.Check(ok, rule, "processAccepted:SetPeerSet:round==roundReceived+6", p.ipos(c), fnName(fn), "effective round = round-received + 6", "the round passed to SetPeerSet is not (parameter roundReceived) + 6")
	}
	sites := p.callsAnywhere(named(NODE + ".core.processAcceptedInternalTransactions"))
	if len(sites) < 2 {
		r.Note("C10.plus6: %d call sites of processAcceptedInternalTransactions (2 confirmed by hand)", len(sites))
	}
	for i, c := range sites {
		a0, a1 := argN(c, 0), argN(c, 1)
		ok := a0 != nil && (flowsFromCall(a0, named(HG+".Block.RoundReceived"), 0) || flowsFromField(a0, "RoundReceived"))
		ok1 := a1 != nil && (depOnField(a1, "InternalTransactionReceipts") || depOnCall(a1, named(HG+".Block.InternalTransactionReceipts")))
		r.Check(ok && ok1, rule, fmt.Sprintf("%s:call#%d:args", c.Parent().Name(), i), p.ipos(c), fnName(c.Parent()), "called with block.RoundReceived() and receipts", "processAcceptedInternalTransactions called with a round that is not a block's RoundReceived(), or without receipts")
	}
}

func c10accepted(p *Prog, r *Report) {
	const rule = "C10.accepted"
	r.Rule(rule, 3, "WithNewPeer only under Accepted && Type==PEER_ADD, WithRemovedPeer only under Accepted && Type==PEER_REMOVE; every declared TransactionType constant is handled; the peer added/removed is the receipt's")
	fn := p.Func(NODE, "core", "processAcceptedInternalTransactions")
	if fn == nil {
		r.Anchor(rule, "node.(*core).processAcceptedInternalTransactions")
		return
	}
	tt := p.Type(HG, "TransactionType")
	if tt == nil {
		r.Anchor(rule, "hashgraph.TransactionType")
		return
	}
	consts := map[string]int64{}
	sc := tt.Obj().Pkg().Scope()
	for _, n := range sc.Names() {
		if c, ok := sc.Lookup(n).(*types.Const); ok && types.Identical(c.Type(), tt) {
			v, _ := intConstVal(c)
			consts[n] = v
		}
	}
	qAcc := func(l Lit) bool {
		if !l.Pos {
			return false
		}
		return flowsFromField(l.V, "Accepted")
	}
	typeIs := func(val int64) Pred {
		return func(l Lit) bool {
			x, y, ok := eqLit(l)
			if !ok {
				return false
			}
			if k, okc := intConst(y); okc && k == val && depOnField(x, "Type") {
				return true
			}
			if k, okc := intConst(x); okc && k == val && depOnField(y, "Type") {
				return true
			}
			return false
		}
	}
	handled := map[int64]bool{}
	for _, spec := range []struct {
		m    string
		cnst string
	}{{"WithNewPeer", "PEER_ADD"}, {"WithRemovedPeer", "PEER_REMOVE"}} {
		cs := callsIn(fn, named(PEER+".PeerSet."+spec.m))
		if len(cs) == 0 {
			r.Fail(rule, "processAccepted:"+spec.m, p.pos(fn.Pos()), fnName(fn), "no call to "+spec.m)
		}
		val, okc := consts[spec.cnst]
		if !okc {
			r.Anchor(rule, "hashgraph."+spec.cnst)
			continue
		}
		for i, c := range cs {
			ok1, _ := p.allPaths(c, []Pred{qAcc}, all(1))
			ok2, _ := p.allPaths(c, []Pred{typeIs(val)}, all(1))
			okPeer := depOnField(argN(c, 0), "Peer") && depOnParamType(argN(c, 0), "InternalTransactionReceipt") || depOnField(argN(c, 0), "Peer")
			if ok2 {
				handled[val] = true
			}
			r.Check(ok1 && ok2 && okPeer, rule, fmt.Sprintf("processAccepted:%s#%d", spec.m, i), p.ipos(c), fnName(fn),
				spec.m+" only for accepted "+spec.cnst+" receipts, applied to the receipt's peer",
				fmt.Sprintf("%s not guarded: accepted=%v type==%s=%v peer-from-receipt=%v", spec.m, ok1, spec.cnst, ok2, okPeer))
		}
	}
	var missing []string
	for n, v := range consts {
		if !handled[v] {
			missing = append(missing, n)
		}
	}
	sortStrings(missing)
	r.Check(len(missing) == 0, rule, "processAccepted:exhaustive", p.pos(fn.Pos()), fnName(fn), fmt.Sprintf("all %d TransactionType constants handled", len(consts)), "TransactionType constants without a handler: "+strings.Join(missing, ", "))
	// the set recorded starts from c.validators
	fVal := p.Field(NODE, "core", "validators")
	for _, c := range callsIn(fn, storeM("SetPeerSet")) {
		a := argN(c, 1)
		r.Check(a != nil && depOnFieldVar(a, fVal), rule, "processAccepted:SetPeerSet:base==c.validators", p.ipos(c), fnName(fn), "the new set is built from core.validators", "the set recorded is not derived from core.validators")
	}
}

func c10lookup(p *Prog, r *Report) {
	const rule = "C10.lookup"
	r.Rule(rule, 2, "PeerSetCache.Get: exact hit, else the entry with the greatest recorded round <= r (first entry for smaller rounds); rounds kept sorted ascending after every append")
	get := p.Func(HG, "PeerSetCache", "Get")
	set := p.Func(HG, "PeerSetCache", "Set")
	if get == nil || set == nil {
		r.Anchor(rule, "hashgraph.(*PeerSetCache).Get/Set")
		return
	}
	fRounds := p.Field(HG, "PeerSetCache", "rounds")
	round := ssa.Value(get.Params[1])
	// every success return inside the search loop is guarded by rounds[i] <= round < rounds[i+1]
	loops := naturalLoops(get)
	nLoopRet := 0
	for _, rp := range p.succRets(get, errNil, 1) {
		lp := innermostLoop(loops, rp.ret.Block())
		inLoop := lp != nil
		if !inLoop {
			// returns in blocks dominated by a loop body block count as in-loop if reachable only from the loop body
			for _, l := range loops {
				for b := range l.body {
					if b != l.head && b.Dominates(rp.ret.Block()) {
						inLoop = true
						if lp == nil || len(l.body) < len(lp.body) {
							lp = l
						}
					}
				}
			}
		}
		if !inLoop {
			continue
		}
		nLoopRet++
		idxOf := func(v ssa.Value) (ssa.Value, bool) {
			// v = load(IndexAddr(rounds, i))
			u, ok := unwrap(v).(*ssa.UnOp)
			if !ok {
				return nil, false
			}
			ia, ok := u.X.(*ssa.IndexAddr)
			if !ok {
				return nil, false
			}
			if fv, _ := fieldOf(ia.X); fv != fRounds {
				return nil, false
			}
			return ia.Index, true
		}
		// the returned entry: peerSets[rounds[i]]
		var retIdx ssa.Value
		dependsOn(rp.ret.Results[0], func(x ssa.Value) bool {
			lk, ok := x.(*ssa.Lookup)
			if !ok {
				return false
			}
			if i, ok := idxOf(lk.Index); ok {
				retIdx = i
				return true
			}
			return false
		})
		qLow := func(l Lit) bool { // round >= rounds[i]
			a, b, strict, ok := cmpLit(l)
			if !ok || strict || unwrap(a) != round {
				return false
			}
			i, ok := idxOf(b)
			if !ok || retIdx == nil {
				return false
			}
			if i == retIdx {
				return true
			}
			le := newLinEnv()
			d := le.toLin(i, 0).sub(le.toLin(retIdx, 0))
			return len(d.c) == 0 && d.k.Sign() == 0
		}
		qHigh := func(l Lit) bool { // rounds[i+1] > round
			a, b, strict, ok := cmpLit(l)
			if !ok || !strict || unwrap(b) != round {
				return false
			}
			i, ok := idxOf(a)
			if !ok {
				return false
			}
			if retIdx == nil {
				return false
			}
			// the index is the returned entry's index plus one (as linear forms: i+1, or i against i-1)
			le := newLinEnv()
			d := le.toLin(i, 0).sub(le.toLin(retIdx, 0)).plus(-1)
			return len(d.c) == 0 && d.k.Sign() == 0
		}
		ok1, _ := p.holdsAtRet(rp, []Pred{qLow}, all(1))
		ok2, _ := p.holdsAtRet(rp, []Pred{qHigh}, all(1))
		if ok1 && !ok2 && retIdx != nil {
			// the other exact form: a scan from the TOP of the sorted list that returns the first
			// entry with rounds[i] <= round — every entry above i was passed over only because
			// round < rounds[j]
			if ph, isPhi := retIdx.(*ssa.Phi); isPhi && lp != nil && ph.Block() == lp.head && len(ph.Edges) == 2 {
				down, top := false, false
				for k, e := range ph.Edges {
					bo, isB := e.(*ssa.BinOp)
					if !isB {
						continue
					}
					c, okc := intConst(bo.Y)
					if !okc {
						continue
					}
					if (bo.Op == token.SUB && c == 1 || bo.Op == token.ADD && c == -1) && bo.X == ssa.Value(ph) {
						// the step: the loop is continued only after round < rounds[i]
						qNotLow := func(l Lit) bool {
							a, b, strict, ok := cmpLit(l) // a > b  /  a >= b
							if !ok || !strict || unwrap(b) != round {
								return false
							}
							i, ok := idxOf(a)
							return ok && i == retIdx
						}
						latch := lp.head.Preds[k]
						g, _ := p.allPathsEdge(latch, lp.head, []Pred{qNotLow}, all(1))
						down = g
					} else if bo.Op == token.SUB && c == 1 {
						if x, isLen := isLenOf(bo.X); isLen {
							if fv, _ := fieldOf(x); fv == fRounds {
								top = true
							}
						}
					}
				}
				ok2 = down && top
			}
		}
		r.Check(ok1 && ok2 && retIdx != nil, rule, "PeerSetCache.Get:interval", p.ipos(rp.ret), fnName(get), "returns peerSets[rounds[i]] only if rounds[i] <= round < rounds[i+1] (interval test, or first hit of a scan from the top)",
			fmt.Sprintf("interval test broken: round>=rounds[i]:%v round<rounds[i+1] (or downward first-hit scan):%v returns-entry-i:%v", ok1, ok2, retIdx != nil))
	}
	// third exact form: binary search. S = sort.Search(len(rounds), func(i) bool { return rounds[i] > round })
	// is the first position above round, so rounds[S-1] <= round < rounds[S]: the entry returned must be S-1.
	for _, sc := range callsIn(get, named("sort.Search")) {
		c, isCall := sc.(*ssa.Call)
		if !isCall || len(c.Call.Args) != 2 {
			continue
		}
		nLoopRet++
		okLen := false
		if x, isLen := isLenOf(c.Call.Args[0]); isLen {
			if fv, _ := fieldOf(x); fv == fRounds {
				okLen = true
			}
		}
		okPred := false
		if mc, isMk := unwrap(c.Call.Args[1]).(*ssa.MakeClosure); isMk {
			if cl, isFn := mc.Fn.(*ssa.Function); isFn && len(cl.Params) == 1 {
				okPred = true
				nret := 0
				for _, b := range cl.Blocks {
					ret, isRet := b.Instrs[len(b.Instrs)-1].(*ssa.Return)
					if !isRet {
						continue
					}
					nret++
					// returned value: rounds[i] > round  (strict), i the closure's parameter
					a, bb, strict, ok := cmpLit(Lit{V: ret.Results[0], Pos: true})
					good := ok && strict && flowsFromLocal(bb, func(x ssa.Value) bool { return x == round })
					if good {
						u, isU := unwrap(a).(*ssa.UnOp)
						good = false
						if isU {
							if ia, isIA := u.X.(*ssa.IndexAddr); isIA && unwrap(ia.Index) == ssa.Value(cl.Params[0]) {
								if fv, _ := fieldOf(ia.X); fv == fRounds {
									good = true
								}
							}
						}
					}
					if !good {
						okPred = false
					}
				}
				if nret != 1 {
					okPred = false
				}
			}
		}
		// every success return that depends on the search returns entry S-1
		okRet, nr := true, 0
		for _, rp := range p.succRets(get, errNil, 1) {
			if !dependsOn(rp.ret.Results[0], func(x ssa.Value) bool { return x == ssa.Value(c) }) {
				continue
			}
			nr++
			good := false
			dependsOn(rp.ret.Results[0], func(x ssa.Value) bool {
				lk, ok := x.(*ssa.Lookup)
				if !ok {
					return false
				}
				u, isU := unwrap(lk.Index).(*ssa.UnOp)
				if !isU {
					return false
				}
				ia, isIA := u.X.(*ssa.IndexAddr)
				if !isIA {
					return false
				}
				if fv, _ := fieldOf(ia.X); fv != fRounds {
					return false
				}
				if bo, isB := unwrap(ia.Index).(*ssa.BinOp); isB && bo.Op == token.SUB && unwrap(bo.X) == ssa.Value(c) {
					if k, okc := intConst(bo.Y); okc && k == 1 {
						good = true
					}
				}
				return true
			})
			if !good {
				okRet = false
			}
		}
		r.Check(okLen && okPred && okRet && nr > 0, rule, "PeerSetCache.Get:interval", p.ipos(c), fnName(get), "binary search for the first recorded round above the requested one; the entry before it is returned",
			fmt.Sprintf("binary-search form broken: searches all of rounds:%v predicate is rounds[i] > round:%v returns entry S-1:%v", okLen, okPred, okRet && nr > 0))
	}
	if nLoopRet == 0 {
		r.Fail(rule, "PeerSetCache.Get:interval", p.pos(get.Pos()), fnName(get), "no interval search found in PeerSetCache.Get")
	}
	// sorted after append
	var appendStore ssa.Instruction
	for _, w := range p.writersOf(fRounds) {
		if w.Fn == set && w.Kind == "store" {
			appendStore = w.Instr
		}
	}
	sorted := false
	for _, c := range callsIn(set, named("sort.IntSlice.Sort", "sort.Ints", "sort.Sort")) {
		if appendStore != nil && canFollow(appendStore, c) && !canFollow(c, appendStore) {
			sorted = true
		}
	}
	r.Check(appendStore != nil && sorted, rule, "PeerSetCache.Set:rounds-sorted", p.pos(set.Pos()), fnName(set), "rounds sorted after every append", "rounds is appended to without being sorted afterwards")
}

func c10member(p *Prog, r *Report) { memberRule(p, r, "C10.member") }

func memberRule(p *Prog, r *Report, rule string) {
	r.Rule(rule, 2, "_witness returns true only if the creator is in GetPeerSet(round(x)).ByPubKey; _stronglySee counts by ranging over the given set's members")
	w := p.Func(HG, "Hashgraph", "_witness")
	if w == nil {
		r.Anchor(rule, "hashgraph.(*Hashgraph)._witness")
	} else {
		q := func(l Lit) bool {
			lk, present, ok := lookupLit(l)
			if !ok || !present {
				return false
			}
			fv, base := fieldOf(lk.X)
			if fv == nil || refName(fv) != "ByPubKey" {
				return false
			}
			okSet := dependsOn(base, func(x ssa.Value) bool {
				c, _, ok := isCallTo(x, storeM("GetPeerSet"))
				return ok && depOnCall(lastArg(c), named(HG+".Hashgraph.round", HG+".Hashgraph._round"))
			})
			return okSet && (depOnCall(lk.Index, named(HG+".Event.Creator")) || depOnField(lk.Index, "Creator"))
		}
		rets := p.succRets(w, boolTrue, 0)
		if len(rets) == 0 {
			r.Fail(rule, "_witness:returns", p.pos(w.Pos()), fnName(w), "no true-capable return")
		}
		for i, rp := range rets {
			if rp.val != nil && dependsOn(rp.val, func(x ssa.Value) bool { _, _, isGet := isCallTo(x, named(COMM+".LRU.Get")); return isGet }) {
				continue // a memoised answer (merged wrapper): justified when it was computed (C03.memo: the cache only holds computed results)
			}
			ok, _ := p.holdsAtRet(rp, []Pred{p.lift(q, 1)}, all(1))
			r.Check(ok, rule, fmt.Sprintf("_witness:return-true#%d:creator-in-round-set", i), p.ipos(rp.ret), fnName(w), "witness only if creator belongs to the round's peer set", "a true-capable return is not guarded by membership of the creator in the peer set of the event's round")
		}
	}
	ss := p.Func(HG, "Hashgraph", "_stronglySee")
	if ss == nil {
		r.Anchor(rule, "hashgraph.(*Hashgraph)._stronglySee")
		return
	}
	n := 0
	for _, b := range ss.Blocks {
		if len(b.Instrs) == 0 {
			continue
		}
		ret, ok := b.Instrs[len(b.Instrs)-1].(*ssa.Return)
		if !ok {
			continue
		}
		for _, inc := range incrementsOf(retCounter(ret.Results[0])) {
			n++
			src, _ := loopSource(ss, inc.Block())
			ok := src != nil && depOnParamType(src, "PeerSet") && (flowsFromField(src, "ByPubKey") || flowsFromField(src, "Peers") || flowsFromField(src, "ByID"))
			r.Check(ok, rule, "_stronglySee:count-over-members", p.ipos(inc), fnName(ss), "counts one per member of the given peer set", "the strongly-see counter does not iterate the members of the peer set passed in")
		}
	}
	if n == 0 {
		r.Fail(rule, "_stronglySee:count-over-members", p.pos(ss.Pos()), fnName(ss), "no counter found in _stronglySee")
	}
}

// retCounter: for a returned comparison "c >= sm", the counter operand c.
func retCounter(v ssa.Value) ssa.Value {
	if b, ok := v.(*ssa.BinOp); ok {
		if depOnCall(b.Y, named(PEER+".PeerSet.SuperMajority")) {
			return b.X
		}
		if depOnCall(b.X, named(PEER+".PeerSet.SuperMajority")) {
			return b.Y
		}
	}
	if ph, ok := v.(*ssa.Phi); ok {
		for _, e := range ph.Edges {
			if c := retCounter(e); c != nil {
				return c
			}
		}
	}
	return nil
}

func c10hash(p *Prog, r *Report) {
	const rule = "C10.hash"
	r.Rule(rule, 3, "Frame.Peers <- GetPeerSet(roundReceived).Peers; BlockBody.PeersHash <- NewPeerSet(frame.Peers).Hash(); PeerSet.Hash folds PubKeyBytes() of Peers in slice order")
	gf := p.Func(HG, "Hashgraph", "GetFrame")
	if gf == nil {
		r.Anchor(rule, "hashgraph.(*Hashgraph).GetFrame")
	} else {
		fPeers := p.Field(HG, "Frame", "Peers")
		rr := ssa.Value(gf.Params[1])
		n := 0
		for _, w := range p.writersOf(fPeers) {
			if w.Fn != gf {
				continue
			}
			n++
			ok := flowsFromField(w.Val, "Peers") && dependsOn(w.Val, func(x ssa.Value) bool {
				c, _, ok := isCallTo(x, storeM("GetPeerSet"))
				return ok && unwrap(lastArg(c)) == rr
			})
			r.Check(ok, rule, "GetFrame:Frame.Peers<-GetPeerSet(roundReceived).Peers", p.ipos(w.Instr), fnName(gf), "the frame carries the set effective at its round-received", "Frame.Peers is not the Peers of GetPeerSet(roundReceived)")
		}
		if n == 0 {
			r.Fail(rule, "GetFrame:Frame.Peers<-GetPeerSet(roundReceived).Peers", p.pos(gf.Pos()), fnName(gf), "GetFrame does not set Frame.Peers")
		}
	}
	nb := p.Func(HG, "", "NewBlock")
	if nb == nil {
		r.Anchor(rule, "hashgraph.NewBlock")
	} else {
		fPH := p.Field(HG, "BlockBody", "PeersHash")
		n := 0
		for _, w := range p.writersOf(fPH) {
			if w.Fn != nb {
				continue
			}
			n++
			ok := flowsFromCall(w.Val, named(PEER+".PeerSet.Hash"), 0) && dependsOn(w.Val, func(x ssa.Value) bool {
				c, _, ok := isCallTo(x, named(PEER+".NewPeerSet"))
				return ok && isParam(argN(c, 0), nb, 3)
			})
			r.Check(ok, rule, "NewBlock:PeersHash<-NewPeerSet(peerSlice).Hash()", p.ipos(w.Instr), fnName(nb), "peer-set hash computed from the slice passed in", "PeersHash is not the Hash() of NewPeerSet(peerSlice)")
		}
		if n == 0 {
			r.Fail(rule, "NewBlock:PeersHash<-NewPeerSet(peerSlice).Hash()", p.pos(nb.Pos()), fnName(nb), "NewBlock does not set PeersHash")
		}
		nbf := p.Func(HG, "", "NewBlockFromFrame")
		if nbf != nil {
			for _, c := range callsIn(nbf, named(HG+".NewBlock")) {
				a := argN(c, 3)
				r.Check(a != nil && flowsFromField(a, "Peers") && depOnParamType(a, "Frame"), rule, "NewBlockFromFrame:peers<-frame.Peers", p.ipos(c), fnName(nbf), "block peers are the frame's peers", "NewBlock is not given frame.Peers")
			}
		}
	}
	h := p.Func(PEER, "PeerSet", "Hash")
	if h == nil {
		r.Anchor(rule, "peers.(*PeerSet).Hash")
		return
	}
	cs := callsIn(h, named("src/crypto.SimpleHashFromTwoHashes"))
	if len(cs) == 0 {
		r.Fail(rule, "PeerSet.Hash:fold", p.pos(h.Pos()), fnName(h), "no hash fold found")
	}
	for _, c := range cs {
		src, _ := loopSource(h, c.Block())
		ok := src != nil && flowsFromField(src, "Peers") && depOnCall(argN(c, 1), named(PEER+".Peer.PubKeyBytes"))
		r.Check(ok, rule, "PeerSet.Hash:fold-in-slice-order", p.ipos(c), fnName(h), "keys folded in the order of the Peers slice", "PeerSet.Hash does not fold PubKeyBytes() over the Peers slice in order (map iteration would make the hash process-local)")
	}
}

func c10itx(p *Prog, r *Report) { itxRule(p, r, "C10.itx") }

func itxRule(p *Prog, r *Report, rule string) {
	r.Rule(rule, 2, "an internal transaction enters the pool only after Verify()==true on it (join request) or when built and signed locally (leave)")
	sites := p.callsAnywhere(named(NODE + ".core.addInternalTransaction"))
	if len(sites) == 0 {
		r.Fail(rule, "addInternalTransaction:callers", "-", "", "no call site")
	}
	for i, c := range sites {
		fn := c.Parent()
		tx := argN(c, 0)
		qVer := p.lift(func(l Lit) bool { return resultLit(l, named(HG+".InternalTransaction.Verify"), 0, true, nil) }, 1)
		ok, _ := p.allPaths(c, []Pred{qVer}, all(1))
		local := false
		if !ok {
			// built locally: value flows from NewInternalTransaction* and Sign was called on it before
			if dependsOn(tx, func(x ssa.Value) bool {
				_, _, ok := isCallTo(x, named(HG+".NewInternalTransaction", HG+".NewInternalTransactionLeave", HG+".NewInternalTransactionJoin"))
				return ok
			}) {
				for _, sc := range callsIn(fn, named(HG+".InternalTransaction.Sign")) {
					if dominates(sc, c) {
						local = true
					}
				}
			}
		}
		r.Check(ok || local, rule, fmt.Sprintf("%s:addInternalTransaction#%d", fn.Name(), i), p.ipos(c), fnName(fn), "verified or locally signed", "an internal transaction is queued without Verify()==true and is not a locally built, locally signed request")
	}
}

// C10.latest / C13.latest
func c10latest(p *Prog, r *Report) { latestRule(p, r, "C10.latest") }

func latestRule(p *Prog, r *Report, rule string) {
	r.Rule(rule, 3, "every store to core.validators takes the genesis set (constructor), the very value recorded with Store.SetPeerSet in the same function, or a value derived from the whole peer-set history (frame.PeerSets / GetAllPeerSets) — never the set of one particular round")
	f := p.Field(NODE, "core", "validators")
	if f == nil {
		r.Anchor(rule, "node.core.validators")
		return
	}
	ws := p.writersOf(f)
	if len(ws) == 0 {
		r.Fail(rule, "core.validators:writers", "-", "", "no store to core.validators found")
	}
	for _, w := range ws {
		fn := w.Fn
		name := fn.Name()
		switch {
		case w.Fresh:
			ok := isParamNamed(w.Val, fn, "genesisPeers") || depOnField(w.Val, "genesisPeers")
			r.Check(ok, rule, name+":validators<-genesis", p.ipos(w.Instr), fnName(fn), "constructor: genesis set", "constructor initialises validators with something else than the genesis peer set")
		default:
			// same value as recorded by SetPeerSet in this function?
			same := false
			for _, c := range callsIn(fn, storeM("SetPeerSet")) {
				if sameOrigin(argN(c, 1), w.Val) || unwrap(argN(c, 1)) == unwrap(w.Val) {
					same = true
				}
			}
			hist := depOnField(w.Val, "PeerSets") || depOnCall(w.Val, storeM("GetAllPeerSets"))
			if hist && !same {
				if why := notRunningMax(fn, w.Val); why != "" {
					r.Fail(rule, name+":validators<-latest", p.ipos(w.Instr), fnName(fn), "core.validators is picked from the frame's peer-set history, but not as the entry with the GREATEST round ("+why+"): with two changes pending at the anchor the node may keep the older set, and the next accepted receipt is applied to a stale base")
					continue
				}
			}
			r.Check(same || hist, rule, name+":validators<-latest", p.ipos(w.Instr), fnName(fn),
				"validators updated to the set just recorded / the latest of the history",
				"core.validators is set to the peer set of one particular round ("+describeVal(w.Val)+") although the frame's peer-set history may already contain later entries: the next accepted join/leave is applied to a stale base")
		}
	}
}

func isParamNamed(v ssa.Value, fn *ssa.Function, name string) bool {
	pv, ok := unwrap(v).(*ssa.Parameter)
	return ok && pv.Name() == name && pv.Parent() == fn
}

func describeVal(v ssa.Value) string {
	if c, _ := callOf(v); c != nil {
		if f := calleeFunc(c.Common()); f != nil {
			s := shortName(f) + "("
			for i, a := range c.Call.Args {
				if i > 0 {
					s += ", "
				}
				if fv, _ := fieldOf(a); fv != nil {
					s += "." + refName(fv)
				} else {
					s += a.Name()
				}
			}
			return s + ")"
		}
	}
	return v.String()
}

// C10.alias: a *Peer handed to a function that retains it (WithNewPeer appends
// the pointer to the new set) must not point into a variable that is
// overwritten on the next loop iteration (go.mod < 1.22: one range variable for
// the whole loop).
func c10alias(p *Prog, r *Report) {
	const rule = "C10.alias"
	r.Rule(rule, 2, "pointers retained by PeerSet.WithNewPeer / WithRemovedPeer / ParticipantEventsCache.AddPeer / NewPeerSet do not alias a loop variable that is overwritten by later iterations")
	sinks := named(PEER+".PeerSet.WithNewPeer", PEER+".PeerSet.WithRemovedPeer", HG+".ParticipantEventsCache.AddPeer")
	n := 0
	for _, fn := range p.Mod {
		loops := naturalLoops(fn)
		if len(loops) == 0 {
			continue
		}
		for _, c := range callsIn(fn, sinks) {
			lp := innermostLoop(loops, c.Block())
			if lp == nil {
				continue
			}
			n++
			a := argN(c, 0)
			al := rootAlloc(a)
			bad := false
			if al != nil && !lp.body[al.Block()] {
				// written inside the loop?
				for _, st := range storedThrough(al) {
					if lp.body[st.Block()] {
						bad = true
					}
				}
			}
			r.Check(!bad, rule, fmt.Sprintf("%s:%s-arg-not-loop-variable", fn.Name(), calleeFunc(c.Common()).Name()), p.ipos(c), fnName(fn),
				"the retained pointer refers to per-iteration memory",
				"the *Peer retained by the new validator set points into a variable allocated outside the loop and overwritten by every iteration (shared range variable): later receipts of the same block rewrite the peer that was added")
		}
	}
	if n == 0 {
		r.Fail(rule, "retaining-calls-in-loops", "-", "", "no WithNewPeer/WithRemovedPeer call inside a loop found")
	}
}

// rootAlloc follows FieldAddr / IndexAddr chains (and loads of pointer locals) to the Alloc a pointer points into.
func rootAlloc(v ssa.Value) *ssa.Alloc {
	seen := map[ssa.Value]bool{}
	for v != nil && !seen[v] {
		seen[v] = true
		switch x := unwrap(v).(type) {
		case *ssa.Alloc:
			return x
		case *ssa.FieldAddr:
			v = x.X
		case *ssa.IndexAddr:
			v = x.X
		case *ssa.Phi:
			for _, e := range x.Edges {
				if a := rootAlloc(e); a != nil {
					return a
				}
			}
			return nil
		default:
			return nil
		}
	}
	return nil
}

// C10.immutable: sets recorded in the peer-set table are shared by reference. Deriving a new set
// must not write into the backing array of the set it derives from: `x := ps.Peers[:0]; x =
// append(x, …)` overwrites the parent's visible elements.
func c10immutable(p *Prog, r *Report) { immutableRule(p, r, "C10.immutable") }

func immutableRule(p *Prog, r *Report, rule string) {
	r.Rule(rule, 1, "no in-place rewrite of another PeerSet's Peers slice (append into a truncated view, element store)")
	fPeers := p.Field(PEER, "PeerSet", "Peers")
	if fPeers == nil {
		r.Anchor(rule, "peers.PeerSet.Peers")
		return
	}
	n := 0
	for _, fn := range p.Mod {
		if !strings.HasSuffix(fnPkgPath(fn), "/src/peers") && !strings.HasSuffix(fnPkgPath(fn), "/src/hashgraph") && !strings.HasSuffix(fnPkgPath(fn), "/src/node") {
			continue
		}
		for _, b := range fn.Blocks {
			for _, in := range b.Instrs {
				c, ok := in.(*ssa.Call)
				if !ok {
					continue
				}
				bi, isB := c.Call.Value.(*ssa.Builtin)
				if !isB || bi.Name() != "append" || len(c.Call.Args) == 0 {
					continue
				}
				// first argument: a truncated view of a Peers field of an existing (non-fresh) set?
				trunc := false
				flowsFrom(c.Call.Args[0], func(x ssa.Value) bool {
					sl, ok := x.(*ssa.Slice)
					if !ok || sl.High == nil {
						return false
					}
					if sl.Max != nil && (sl.Max == sl.High || sameConst(sl.Max, sl.High)) {
						return false // x[:k:k]: no spare capacity, append reallocates
					}
					if fv, base := fieldOf(sl.X); fv == fPeers && !isFreshBase(base) {
						trunc = true
						return true
					}
					return false
				})
				// count the derivations we looked at: appends whose first argument comes from a Peers field at all
				if flowsFrom(c.Call.Args[0], func(x ssa.Value) bool { fv, _ := fieldOf(x); return fv == fPeers }) || trunc {
					n++
					r.Check(!trunc, rule, fn.Name()+":append-into-view-of-Peers", p.ipos(c), fnName(fn), "appends after the parent's elements (never over them)",
						"append into a truncated view of an existing set's Peers slice: the elements of the set it derives from — which the peer-set table still holds for earlier rounds — are overwritten in place; its Peers (hence its hash) no longer match its maps")
				}
			}
		}
	}
	// element stores into Peers of a non-fresh set
	var bad []string
	for _, w := range p.writersOf(fPeers) {
		if w.Kind == "elemstore" && !w.Fresh {
			bad = append(bad, fnName(w.Fn)+"@"+p.ipos(w.Instr))
		}
	}
	r.Check(len(bad) == 0, rule, "PeerSet.Peers:element-stores", "-", "", "no element of a set's Peers slice is overwritten", "elements of a PeerSet's Peers slice are overwritten: "+strings.Join(bad, ", "))
	r.Note("%s: %d append sites deriving from a Peers slice examined (zero is legitimate: derivation by explicit copy)", rule, n)
	// no library routine reorders a recorded set in place: the argument of sort.* never IS (a view of)
	// the Peers slice of an existing set — wherever the call is (HTTP service, mobile bindings, …)
	ns := 0
	for _, fn := range p.Mod {
		for _, b := range fn.Blocks {
			for _, in := range b.Instrs {
				ci, ok := in.(ssa.CallInstruction)
				if !ok {
					continue
				}
				f := calleeFunc(ci.Common())
				if f == nil || f.Pkg() == nil || f.Pkg().Path() != "sort" || len(ci.Common().Args) == 0 {
					continue
				}
				switch f.Name() {
				case "Sort", "Stable", "Slice", "SliceStable":
				default:
					continue
				}
				ns++
				arg := ci.Common().Args[0]
				hit := ""
				flowsFrom(arg, func(x ssa.Value) bool {
					if fv, base := fieldOf(x); fv == fPeers && !isFreshBase(base) {
						if xi, isIn := x.(ssa.Instruction); isIn {
							hit = fnName(xi.Parent()) + "@" + p.ipos(xi)
						} else {
							hit = "?"
						}
						return true
					}
					return false
				})
				r.Check(hit == "", rule, fn.Name()+":sort-of-recorded-Peers", p.ipos(in), fnName(fn), "does not reorder a recorded set",
					"a recorded validator set's Peers slice (loaded at "+hit+") is sorted in place: its order — and with it the peer-set hash this node puts into its next blocks and frames — changes on this node only")
			}
		}
	}
	r.Note("%s: %d sort calls examined", rule, ns)
}

func sameConst(a, b ssa.Value) bool {
	ka, oka := intConst(a)
	kb, okb := intConst(b)
	return oka && okb && ka == kb
}

// everyReceiptRule: the receipts of EVERY committed block are applied — also those of the anchor
// block that Node.fastForward hands over after a reset (whose round equals LastConsensusRound at
// that moment). processAcceptedInternalTransactions may not return success before it has looked at
// the receipts: every success return is reached through the loop over the receipts, unless the
// list is empty.
func everyReceiptRule(p *Prog, r *Report, rule string) {
	r.Rule(rule, 1, "processAcceptedInternalTransactions looks at the receipts on every path to a success return (no early exit that depends on other state)")
	fn := p.Func(NODE, "core", "processAcceptedInternalTransactions")
	if fn == nil || len(fn.Params) < 3 {
		r.Anchor(rule, "node.(*core).processAcceptedInternalTransactions")
		return
	}
	receipts := paramByType(fn, 2, "InternalTransactionReceipt")
	var lp *loopInfo
	for _, l := range naturalLoops(fn) {
		if src, ok := loopSourceOf(fn, l); ok && src != nil && flowsFromLocal(src, func(x ssa.Value) bool { return x == receipts }) {
			if lp == nil || len(l.body) > len(lp.body) {
				lp = l
			}
		}
	}
	if lp == nil {
		r.Fail(rule, "processAccepted:receipt-loop", p.pos(fn.Pos()), fnName(fn), "no loop over the receipts found")
		return
	}
	qEmpty := func(l Lit) bool {
		x, y, ok := eqLit(l)
		if !ok {
			return false
		}
		for _, pair := range [][2]ssa.Value{{x, y}, {y, x}} {
			if s, isLen := isLenOf(pair[0]); isLen && flowsFromLocal(s, func(v ssa.Value) bool { return v == receipts }) {
				if k, okc := intConst(pair[1]); okc && k == 0 {
					return true
				}
			}
		}
		return false
	}
	ok := true
	where := ""
	for _, rp := range p.succRets(fn, errNil, 0) {
		if dominatesBlock(lp.head, rp.ret.Block()) {
			continue
		}
		if g, _ := p.holdsAtRet(rp, []Pred{qEmpty}, all(1)); g {
			continue
		}
		ok = false
		where = p.ipos(rp.ret)
	}
	r.Check(ok, rule, "processAccepted:every-receipt-examined", p.pos(fn.Pos()), fnName(fn), "success only after the loop over the receipts (or for an empty list)",
		"processAcceptedInternalTransactions can return success at "+where+" without looking at the receipts: the accepted join / leave of that block is never recorded — e.g. the anchor block's receipts handed over by Node.fastForward right after Reset set LastConsensusRound to the anchor round — and the node's validator-set history diverges from then on")
}

// dominatesBlock: every feasible path to b passes through a (jump threading aware).
func dominatesBlock(a, b *ssa.BasicBlock) bool {
	if a == b || a.Dominates(b) {
		return true
	}
	return a.Parent() == b.Parent() && len(a.Parent().Blocks) > 0 && !reachesAvoiding(a.Parent().Blocks[0], b, a)
}

// notRunningMax: v is selected inside a loop over a round -> peers map in fn. Returns "" when the
// selection is a running maximum over the keys (`if r > best { best, sel = r, ps }`, best carried
// by the loop) or when v is not selected in such a loop; otherwise the reason.
func notRunningMax(fn *ssa.Function, v ssa.Value) string {
	loops := naturalLoops(fn)
	for _, lp := range loops {
		if !isMapRangeLoop(fn, lp) {
			continue
		}
		var next *ssa.Next
		for b := range lp.body {
			for _, in := range b.Instrs {
				if nx, ok := in.(*ssa.Next); ok {
					if il := innermostLoop(loops, b); il != nil && il.head == lp.head {
						next = nx
					}
				}
			}
		}
		if next == nil {
			continue
		}
		isKey := func(x ssa.Value) bool {
			e, ok := unwrap(x).(*ssa.Extract)
			return ok && e.Tuple == ssa.Value(next) && e.Index == 1
		}
		isVal := func(x ssa.Value) bool {
			e, ok := unwrap(x).(*ssa.Extract)
			return ok && e.Tuple == ssa.Value(next) && e.Index == 2
		}
		// the selection phi at the loop head
		for _, in := range lp.head.Instrs {
			sel, ok := in.(*ssa.Phi)
			if !ok {
				break
			}
			if !dependsOn(v, func(x ssa.Value) bool { return x == ssa.Value(sel) }) {
				continue
			}
			selected := false
			for i, e := range sel.Edges {
				if unwrap(e) == ssa.Value(sel) {
					continue // carried over unchanged
				}
				if !isVal(e) && !flowsFromLocal(e, isVal) {
					continue
				}
				selected = true
				from := lp.head.Preds[i]
				// a loop-carried "best key" phi updated with the key on the same edge
				var best *ssa.Phi
				for _, in2 := range lp.head.Instrs {
					m, ok := in2.(*ssa.Phi)
					if !ok {
						break
					}
					if i < len(m.Edges) && (isKey(m.Edges[i]) || flowsFromLocal(m.Edges[i], isKey)) {
						best = m
					}
				}
				if best == nil {
					return "the round of the entry kept is not remembered from one iteration to the next"
				}
				q := func(l Lit) bool {
					a, b, strict, ok := cmpLit(l)
					return ok && strict && isKey(a) && unwrap(b) == ssa.Value(best)
				}
				g := false
				if gProg != nil {
					g, _ = gProg.allPathsEdge(from, lp.head, []Pred{q}, all(1))
				}
				if !g {
					return "an entry replaces the one kept without its round having been compared (>) with the round of the one kept"
				}
			}
			if selected {
				return ""
			}
		}
	}
	return ""
}
