package main

import (
	"encoding/json"
	"fmt"
	"os"
	"path/filepath"
	"sort"
	"strings"
)

// Ob is one obligation: one rule instance evaluated at one site.
type Ob struct {
	Rule      string `json:"rule"`
	Construct string `json:"construct"` // stable key: function + operand description, never a line
	Site      string `json:"site"`
	Fn        string `json:"fn,omitempty"`
	OK        bool   `json:"ok"`
	Detail    string `json:"detail,omitempty"`
	Config    string `json:"config,omitempty"`
	Known     string `json:"known,omitempty"` // "known" if suppressed by known_findings.json
}

type Report struct {
	Prop   string
	Config string
	Obs    []*Ob
	Notes  []string
	mins   map[string]int
	allMin map[string]int
	cfgRul map[string]bool // rules declared in the current config
	descr  map[string]string
	seen   map[string]bool
}

func newReport(prop string) *Report {
	return &Report{Prop: prop, mins: map[string]int{}, descr: map[string]string{}, seen: map[string]bool{}, cfgRul: map[string]bool{}}
}

func (r *Report) add(rule, construct, site, fn string, ok bool, detail string) {
	k := rule + "|" + construct + "|" + r.Config + "|" + fmt.Sprint(ok) + "|" + detail
	if r.seen[k] {
		return
	}
	r.seen[k] = true
	r.Obs = append(r.Obs, &Ob{Rule: rule, Construct: construct, Site: site, Fn: fn, OK: ok, Detail: detail, Config: r.Config})
}

func (r *Report) Ok(rule, construct, site, fn, detail string) {
	r.add(rule, construct, site, fn, true, detail)
}
func (r *Report) Fail(rule, construct, site, fn, detail string) {
	r.add(rule, construct, site, fn, false, detail)
}
func (r *Report) Check(cond bool, rule, construct, site, fn, okDetail, failDetail string) bool {
	if cond {
		r.Ok(rule, construct, site, fn, okDetail)
	} else {
		r.Fail(rule, construct, site, fn, failDetail)
	}
	return cond
}

// Anchor reports an unresolved anchor: the rule cannot be evaluated and fails loudly.
func (r *Report) Anchor(rule, what string) {
	r.Fail(rule, "anchor:"+what, "-", "", "rule=anchor-unresolved: "+what+" not found in the loaded program (renamed or removed?)")
}

// Rule declares a rule, its minimum number of matched sites and a description.
func (r *Report) Rule(rule string, min int, descr string) {
	r.mins[rule] = min
	r.cfgRul[rule] = true
	r.descr[rule] = descr
}

func (r *Report) Note(f string, a ...interface{}) { r.Notes = append(r.Notes, fmt.Sprintf(f, a...)) }

// finishRules applies the vacuity policy: a declared rule with zero obligations fails.
func (r *Report) finishRules() {
	count := map[string]int{}
	for _, o := range r.Obs {
		if o.Config == r.Config {
			count[o.Rule]++
		}
	}
	var rules []string
	for k := range r.cfgRul {
		rules = append(rules, k)
	}
	r.cfgRul = map[string]bool{}
	sort.Strings(rules)
	for _, k := range rules {
		n := count[k]
		if n == 0 {
			r.Fail(k, "no-instance", "-", "", "rule=no-instance: rule matched zero sites (vacuous); expected at least "+fmt.Sprint(r.mins[k]))
		} else if n < r.mins[k] {
			r.Note("warning: rule %s matched %d sites, %d were confirmed by hand on the pinned tree (config %q)", k, n, r.mins[k], r.Config)
		}
	}
}

/* ---------- known findings ---------- */

type Finding struct {
	Property  string `json:"property"`
	Rule      string `json:"rule"`
	Construct string `json:"construct"`
	Status    string `json:"status"` // known | fixed
	Commit    string `json:"commit,omitempty"`
	ID        string `json:"id"`
	What      string `json:"what"`
}

type FindingsFile struct {
	Findings []Finding `json:"findings"`
	Lines    []string  `json:"lines,omitempty"`
}

func loadFindings(path string) ([]Finding, error) {
	b, err := os.ReadFile(path)
	if err != nil {
		if os.IsNotExist(err) {
			return nil, nil
		}
		return nil, err
	}
	var ff FindingsFile
	if err := json.Unmarshal(b, &ff); err != nil {
		return nil, err
	}
	return ff.Findings, nil
}

/* ---------- evidence ---------- */

type propMeta struct {
	Level       string
	Explanation string
	Assumptions []string
}

func (r *Report) finish(meta propMeta, tier string, seed int, wall float64, cov map[string]interface{}, known []Finding, evidencePath string) int {
	// classify
	violations := 0
	var vio []*Ob
	knownHit := map[string]bool{}
	for _, o := range r.Obs {
		if o.OK {
			continue
		}
		matched := false
		for _, k := range known {
			if k.Status == "known" && k.Rule == o.Rule && k.Construct == o.Construct && (k.Property == r.Prop || k.Property == "") {
				matched = true
				o.Known = "known"
				key := k.ID + "|" + k.Rule + "|" + k.Construct
				if !knownHit[key] {
					knownHit[key] = true
					fmt.Printf("KNOWN-FINDING: property=%s %s rule=%s construct=%s at=%s: %s\n", r.Prop, k.ID, o.Rule, o.Construct, o.Site, k.What)
				}
				break
			}
		}
		if !matched {
			violations++
			vio = append(vio, o)
		}
	}
	sort.SliceStable(r.Obs, func(i, j int) bool {
		if r.Obs[i].Rule != r.Obs[j].Rule {
			return r.Obs[i].Rule < r.Obs[j].Rule
		}
		return r.Obs[i].Construct < r.Obs[j].Construct
	})
	distinct := map[string]bool{}
	discharged := 0
	perRule := map[string][2]int{}
	for _, o := range r.Obs {
		distinct[o.Rule+"|"+o.Construct] = true
		c := perRule[o.Rule]
		c[0]++
		if o.OK {
			discharged++
			c[1]++
		}
		perRule[o.Rule] = c
	}
	var ruleList []map[string]interface{}
	var rn []string
	for k := range perRule {
		rn = append(rn, k)
	}
	sort.Strings(rn)
	for _, k := range rn {
		ruleList = append(ruleList, map[string]interface{}{
			"rule": k, "obligations": perRule[k][0], "discharged": perRule[k][1],
			"min_confirmed_by_hand": r.mins[k], "what": r.descr[k],
		})
	}
	samples := []interface{}{}
	// all failing obligations + up to 60 passing ones
	for _, o := range r.Obs {
		if !o.OK {
			samples = append(samples, o)
		}
	}
	n := 0
	for _, o := range r.Obs {
		if o.OK && n < 80 {
			samples = append(samples, o)
			n++
		}
	}
	coverage := map[string]interface{}{
		"obligations":         len(r.Obs),
		"discharged":          discharged,
		"evaluations":         len(r.Obs),
		"distinct_nontrivial": len(distinct),
		"rule":                "one obligation = one rule instance evaluated at one construct of /repo's current source; distinct = distinct (rule, construct) pairs that matched real code; every one is non-trivial in that it resolved to a typed object in the loaded program",
		"samples":             samples,
		"rules":               ruleList,
		"explanation":         meta.Explanation,
		"checker_cmd":         "bin/bblint -repo /repo -property " + r.Prop + " -tier " + tier,
		"trusted_base":        []string{"go/types", "golang.org/x/tools/go/ssa", "golang.org/x/tools/go/callgraph/vta", "bblint rule tables (/verif/tool/cmd/bblint)", "library summaries listed under assumptions"},
		"exhaustive":          true,
		"notes":               r.Notes,
	}
	for k, v := range cov {
		coverage[k] = v
	}
	ev := map[string]interface{}{
		"property_id": r.Prop,
		"tier":        tier,
		"seed":        seed,
		"level":       meta.Level,
		"coverage":    coverage,
		"assumptions": meta.Assumptions,
		"wall_s":      wall,
		"violations":  violations,
	}
	if evidencePath != "" {
		os.MkdirAll(filepath.Dir(evidencePath), 0o755)
		b, _ := json.MarshalIndent(ev, "", " ")
		if err := os.WriteFile(evidencePath, append(b, '\n'), 0o644); err != nil {
			fmt.Fprintf(os.Stderr, "cannot write evidence: %v\n", err)
			return 2
		}
	}
	if violations > 0 {
		replay := strings.TrimSuffix(evidencePath, ".json") + ".violations.json"
		b, _ := json.MarshalIndent(map[string]interface{}{"property_id": r.Prop, "violations": vio}, "", " ")
		os.WriteFile(replay, append(b, '\n'), 0o644)
		for _, o := range vio {
			fmt.Printf("VIOLATION property=%s replay=%s rule=%s construct=%s at=%s fn=%s detail=%s\n", r.Prop, replay, o.Rule, o.Construct, o.Site, o.Fn, o.Detail)
		}
		return 1
	}
	fmt.Printf("OK property=%s obligations=%d discharged=%d known_findings=%d rules=%d wall=%.1fs\n", r.Prop, len(r.Obs), discharged, len(knownHit), len(perRule), wall)
	return 0
}
