package main

import (
	"go/types"
	"sort"
	"strings"

	"golang.org/x/tools/go/ssa"
)

func init() {
	add := func(id string, expl string, rules ...ruleFunc) {
		d := registry[id]
		if d == nil {
			panic("rules_g: unknown property " + id)
		}
		d.Rules = append(d.Rules, rules...)
		if i := strings.LastIndex(d.Meta.Explanation, "NOT decided"); i >= 0 {
			d.Meta.Explanation = d.Meta.Explanation[:i] + expl + " " + d.Meta.Explanation[i:]
		} else {
			d.Meta.Explanation += " " + expl
		}
	}
	as := func(f func(*Prog, *Report, string, [][3]string), rule string, roots [][3]string) ruleFunc {
		return func(p *Prog, r *Report) { f(p, r, rule, roots) }
	}
	add("C03", "C03.mapcut (a consensus function that accumulates a result while ranging over a map visits every entry: no early exit other than an error return, since the entries met before the cut depend on Go's random map order; shared with C01.mapcut / C13.mapcut).", as(mapCutRule, "C03.mapcut", consensusFuncs))
	as1 := func(f func(*Prog, *Report, string), rule string) ruleFunc {
		return func(p *Prog, r *Report) { f(p, r, rule) }
	}
	add("C03", "C03.errs (a consensus function that tests the error of a store read or of another consensus function returns an error on the failing edge, or first asks which error it is: a transient store failure is never turned into — and memoised as — a consensus answer; shared with C01.errs).", as1(consensusErrRule, "C03.errs"))
	add("C01", "C01.errs (see C03.errs).", as1(consensusErrRule, "C01.errs"))
	add("C02", "C02.reset (Hashgraph.Reset stores the anchor block and resets the store from the frame on every successful reset, unconditionally: the last block index the next block is numbered from is re-established whatever the database still holds from the node's previous life; shared with C13.reset).", sharedAs(c13reset, map[string]string{"C13.reset": "C02.reset"}))
	add("C01", "C01.mapcut (see C03.mapcut).", as(mapCutRule, "C01.mapcut", consensusFuncs))
	add("C13", "C13.mapcut (see C03.mapcut, for the functions that build a frame).", as(mapCutRule, "C13.mapcut", frameFuncs))
}

/* ---------- round g: rules found with the mechanical mutation scan (mutscan.py) and seed round g ---------- */

// errorExit: the edge b->s leaves towards a return whose error result cannot be nil (an error exit of the function).
func errorExit(b, s *ssa.BasicBlock) bool {
	cur, prev := s, b
	for i := 0; i < 4; i++ {
		if len(cur.Instrs) == 0 {
			return false
		}
		if ret, ok := cur.Instrs[len(cur.Instrs)-1].(*ssa.Return); ok {
			n := len(ret.Results)
			if n == 0 || !isErrorType(ret.Results[n-1].Type()) {
				return false
			}
			for _, rp := range retPointsOf(ret, n-1) {
				if rp.pred != nil && rp.pred != prev && cur == s {
					continue // another edge into the returning block
				}
				v := rp.val
				if neverNilErr(v, 3) {
					continue
				}
				if isNil, known := knownNilOnEdge(cur, v); known && !isNil {
					continue
				}
				// the test sits on the edge b->s itself
				if l, ok := edgeLit(prev, cur); ok {
					if x, isNil, ok := nilTest(l); ok && !isNil && (x == v || unwrap(x) == unwrap(v)) {
						continue
					}
				}
				return false
			}
			return true
		}
		if len(cur.Succs) != 1 {
			return false
		}
		prev, cur = cur, cur.Succs[0]
	}
	return false
}

// mapCutRule: a consensus function that ranges over a map and ACCUMULATES (adds to a map, appends to a slice, stores a
// computed value into memory that outlives the iteration, calls a setter) must visit every entry: an early exit that is
// not an error return makes the set of entries processed depend on Go's random map order.
func mapCutRule(p *Prog, r *Report, rule string, roots [][3]string) {
	r.Rule(rule, 1, "a map range that accumulates a result is never cut short (other than by an error return): the entries visited before the cut depend on Go's random map order")
	var rs []*ssa.Function
	for _, n := range roots {
		if f := p.Func(n[0], n[1], n[2]); f != nil {
			rs = append(rs, f)
		}
	}
	set := p.reach(rs, func(f *ssa.Function) bool { return !inModule(f) || isStoreImpl(f) })
	var fs []*ssa.Function
	for f := range set {
		if inModule(f) && f.Synthetic == "" && !isStoreImpl(f) {
			fs = append(fs, f)
		}
	}
	sort.Slice(fs, func(i, j int) bool { return fs[i].String() < fs[j].String() })
	nLoops, nAcc := 0, 0
	for _, f := range fs {
		loops := naturalLoops(f)
		for _, lp := range loops {
			if !isMapRangeLoop(f, lp) {
				continue
			}
			nLoops++
			acc := accumulatesIn(lp)
			if acc == nil {
				continue
			}
			nAcc++
			bad := ""
			for b := range lp.body {
				if b == lp.head {
					continue
				}
				for _, s := range b.Succs {
					if lp.body[s] || errorExit(b, s) {
						continue
					}
					// panics are not exits
					if len(s.Instrs) > 0 {
						if _, isPanic := s.Instrs[len(s.Instrs)-1].(*ssa.Panic); isPanic {
							continue
						}
					}
					bad = p.ipos(b.Instrs[len(b.Instrs)-1])
				}
			}
			r.Check(bad == "", rule, f.Name()+":map-range-accumulates@"+p.ipos(acc), p.ipos(acc), fnName(f), "every entry of the map is visited (error exits apart)",
				"the loop over a map accumulates a result (at "+p.ipos(acc)+") but can be left early at "+bad+" without an error: which entries were processed before the cut depends on Go's random map order, so the accumulated result (roots of a frame, a set of witnesses, a vote count) differs between runs and between nodes")
		}
	}
	r.Note("%s: %d map-range loops in consensus functions, %d of them accumulate", rule, nLoops, nAcc)
}

// accumulatesIn: an instruction of the loop body whose effect survives the iteration and depends on it.
func accumulatesIn(lp *loopInfo) ssa.Instruction {
	definedInLoop := func(v ssa.Value) bool {
		in, ok := v.(ssa.Instruction)
		return ok && in.Block() != nil && lp.body[in.Block()]
	}
	var blocks []*ssa.BasicBlock
	for b := range lp.body {
		blocks = append(blocks, b)
	}
	sort.Slice(blocks, func(i, j int) bool { return blocks[i].Index < blocks[j].Index })
	for _, b := range blocks {
		for _, in := range b.Instrs {
			switch x := in.(type) {
			case *ssa.MapUpdate:
				if !definedInLoop(x.Map) {
					return in
				}
			case *ssa.Store:
				if _, isConst := x.Val.(*ssa.Const); isConst {
					continue
				}
				base := x.Addr
				for {
					switch y := base.(type) {
					case *ssa.FieldAddr:
						base = y.X
						continue
					case *ssa.IndexAddr:
						base = y.X
						continue
					}
					break
				}
				if al, isAl := base.(*ssa.Alloc); isAl {
					if definedInLoop(al) {
						continue
					}
					// a local that is only read inside the loop (the range variable itself, a per-iteration temporary)
					usedOutside := al.Heap
					if refs := al.Referrers(); refs != nil && !usedOutside {
						var walk func(v ssa.Value, refs []ssa.Instruction)
						walk = func(v ssa.Value, refs []ssa.Instruction) {
							for _, u := range refs {
								switch y := u.(type) {
								case *ssa.Store:
									if y.Addr != v && y.Val == v {
										usedOutside = true
									}
								case *ssa.FieldAddr:
									if rr := y.Referrers(); rr != nil {
										walk(y, *rr)
									}
								case *ssa.IndexAddr:
									if rr := y.Referrers(); rr != nil {
										walk(y, *rr)
									}
								case *ssa.DebugRef:
								default:
									if u.Block() != nil && !lp.body[u.Block()] {
										usedOutside = true
									}
									if _, isMC := u.(*ssa.MakeClosure); isMC {
										usedOutside = true
									}
								}
							}
						}
						walk(al, *refs)
					}
					if !usedOutside {
						continue
					}
				}
				if definedInLoop(base) {
					if u, isU := base.(*ssa.UnOp); !isU || definedInLoop(u.X) {
						continue
					}
				}
				return in
			case *ssa.Call:
				if bi, isB := x.Call.Value.(*ssa.Builtin); isB && bi.Name() == "append" {
					// appended slice carried around the loop
					if refs := x.Referrers(); refs != nil {
						for _, u := range *refs {
							if ph, isPhi := u.(*ssa.Phi); isPhi && ph.Block() == lp.head {
								return in
							}
						}
					}
					continue
				}
				if f := calleeFunc(x.Common()); f != nil && f.Pkg() != nil && (f.Pkg().Path() == modPath || strings.HasPrefix(f.Pkg().Path(), modPath+"/")) {
					n := f.Name()
					if sig, _ := f.Type().(*types.Signature); sig != nil && sig.Recv() != nil {
						for _, pre := range []string{"Set", "Add", "Insert", "Append", "Remove", "Delete"} {
							if strings.HasPrefix(n, pre) {
								return in
							}
						}
					}
				}
			}
		}
	}
	return nil
}

/* ---------- C03.errs: consensus functions do not turn a failed read into an answer ---------- */

// passFuncs: the consensus passes and the insertion path (roots in addition to consensusFuncs for the error rule).
var passFuncs = [][3]string{
	{HG, "Hashgraph", "DivideRounds"}, {HG, "Hashgraph", "ProcessDecidedRounds"}, {HG, "Hashgraph", "InsertEvent"},
	{HG, "Hashgraph", "InsertEventAndRunConsensus"}, {HG, "Hashgraph", "InsertFrameEvent"}, {HG, "Hashgraph", "ReadWireInfo"},
}

// errClassifiers: a path that inspects WHICH error it got (and treats one kind as an answer) is an accepted idiom.
func isErrClassifier(c *ssa.CallCommon) bool {
	f := calleeFunc(c)
	if f == nil {
		return false
	}
	switch shortName(f) {
	case "errors.Is", "errors.As":
		return true
	}
	n := f.Name()
	return strings.HasPrefix(n, "Is") && f.Pkg() != nil && (f.Pkg().Path() == modPath || strings.HasPrefix(f.Pkg().Path(), modPath+"/"))
}

// consensusErrRule: in the consensus functions, when a call into the module (a store read, another consensus function)
// reports an error and the function tests it, every path from the failing edge ends in an error return (or first asks
// which error it is). `if err != nil { return false, nil }`, `continue`, or falling through turn a transient store failure
// (an evicted cache entry, an I/O error) into a consensus answer — "not an ancestor", "not a witness" — which is memoised
// and from then on differs from what other nodes compute from the same DAG.
func consensusErrRule(p *Prog, r *Report, rule string) {
	r.Rule(rule, 60, "a consensus function that tests the error of a module call leaves through an error return on the failing edge (or classifies the error first)")
	var rs []*ssa.Function
	for _, n := range append(append([][3]string{}, consensusFuncs...), passFuncs...) {
		if f := p.Func(n[0], n[1], n[2]); f != nil {
			rs = append(rs, f)
		}
	}
	set := p.reach(rs, func(f *ssa.Function) bool { return !inModule(f) || isStoreImpl(f) })
	var fs []*ssa.Function
	for f := range set {
		if inModule(f) && f.Synthetic == "" && !isStoreImpl(f) && fnPkgPath(f) == modPath+"/"+HG {
			fs = append(fs, f)
		}
	}
	sort.Slice(fs, func(i, j int) bool { return fs[i].String() < fs[j].String() })
	n, nEx := 0, 0
	var exempt []string
	for _, f := range fs {
		for _, b := range f.Blocks {
			if len(b.Instrs) == 0 || len(b.Succs) != 2 {
				continue
			}
			for _, s := range b.Succs {
				l, ok := edgeLit(b, s)
				if !ok {
					continue
				}
				x, isNil, ok := nilTest(l)
				if !ok || isNil || !isErrorType(x.Type()) {
					continue
				}
				// the error of a module call (static callee or interface method declared in the module)
				c, _ := callOf(unwrap(x))
				if c == nil {
					continue
				}
				cf := calleeFunc(c.Common())
				if cf == nil || cf.Pkg() == nil || !(cf.Pkg().Path() == modPath || strings.HasPrefix(cf.Pkg().Path(), modPath+"/")) {
					continue
				}
				// a failed READ of the DAG: a Store method or a method of *Hashgraph
				recv := recvNamed(cf)
				if recv != "Store" && recv != "Hashgraph" {
					continue
				}
				if nres := f.Signature.Results().Len(); nres == 0 || !isErrorType(f.Signature.Results().At(nres-1).Type()) {
					continue // cannot report an error at all (sort comparators …): out of this rule's reach
				}
				if why := absentIsAnAnswer(f, cf, c); why != "" {
					nEx++
					exempt = append(exempt, f.Name()+"/"+cf.Name())
					continue
				}
				n++
				// forward from s: every return reached carries a non-nil error
				bad := ""
				visited := map[*ssa.BasicBlock]bool{}
				var order []*ssa.BasicBlock
				forwardFromEdge(b, s, func(cur *ssa.BasicBlock) bool {
					if !visited[cur] {
						visited[cur] = true
						order = append(order, cur)
					}
					for _, in := range cur.Instrs {
						if cc, isC := in.(ssa.CallInstruction); isC && isErrClassifier(cc.Common()) {
							for _, a := range cc.Common().Args {
								if a == x || unwrap(a) == unwrap(x) || sameErrVar(x, a) {
									return false // classified: accepted idiom
								}
							}
						}
					}
					// a later test of the same error on this path is decided: do not follow its nil edge
					if len(cur.Succs) == 2 {
						if l2, ok := edgeLit(cur, cur.Succs[0]); ok {
							if x2, _, ok := nilTest(l2); ok && (x2 == x || unwrap(x2) == unwrap(x)) {
								// follow only the non-nil successor by visiting it directly
								for _, nx := range cur.Succs {
									if l3, ok := edgeLit(cur, nx); ok {
										if _, isNil3, ok := nilTest(l3); ok && !isNil3 {
											forwardFromEdge(cur, nx, func(y *ssa.BasicBlock) bool {
												if !visited[y] {
													visited[y] = true
													order = append(order, y)
												}
												return true
											})
										}
									}
								}
								return false
							}
						}
					}
					return true
				})
				for _, cur := range order {
					last := cur.Instrs[len(cur.Instrs)-1]
					ret, isRet := last.(*ssa.Return)
					if !isRet {
						continue
					}
					nr := len(ret.Results)
					if nr == 0 || !isErrorType(ret.Results[nr-1].Type()) {
						bad = p.ipos(ret)
						break
					}
					for _, rp := range retPointsOf(ret, nr-1) {
						if rp.pred != nil && !visited[rp.pred] && !(cur == s && rp.pred == b) {
							continue
						}
						v := rp.val
						if neverNilErr(v, 3) || v == x || unwrap(v) == unwrap(x) || sameErrVar(x, v) || dependsOn(v, func(y ssa.Value) bool { return y == x }) {
							continue
						}
						if isN, known := knownNilOnEdge(cur, v); known && !isN {
							continue
						}
						if rp.pred != nil {
							if isN, known := knownNilOnEdge(rp.pred, v); known && !isN {
								continue
							}
						}
						bad = p.ipos(ret)
					}
				}
				r.Check(bad == "", rule, f.Name()+":err-of-"+cf.Name()+"@"+p.ipos(c), p.ipos(c), fnName(f), "failing edge leads to error returns only",
					"the error of "+shortName(cf)+" is tested, but from the failing edge a path reaches "+bad+" without returning an error and without asking which error it is: a transient store failure (evicted entry, I/O error) becomes a consensus answer that differs from what other nodes compute from the same DAG")
			}
		}
	}
	sort.Strings(exempt)
	r.Note("%s: %d tested errors of store / hashgraph calls in %d consensus / pass functions of package hashgraph; %d sites where 'absent' is an answer by design (table absentIsAnAnswer): %s", rule, n, len(fs), nEx, strings.Join(exempt, ", "))
}

// absentIsAnAnswer: the sites, confirmed by reading, where the code deliberately treats "the store does not have it" as
// an answer (history below a fast-sync frame, a joiner's first events). Keyed by function, callee and — where the function
// makes other calls to the same callee that must propagate — the provenance of the argument.
func absentIsAnAnswer(f *ssa.Function, callee *types.Func, c *ssa.Call) string {
	name := f.Name()
	if o, ok := f.Object().(*types.Func); ok && o != nil {
		sn := shortName(o) // reference name (renamed anchors resolved)
		name = sn[strings.LastIndex(sn, ".")+1:]
	}
	cn := shortName(callee)
	cn = cn[strings.LastIndex(cn, ".")+1:]
	switch name + "/" + cn {
	case "_lamportTimestamp/GetEvent", "lamportTimestamp/GetEvent":
		if a := argN(c, 0); a != nil && depOnCall(a, named(HG+".Event.OtherParent")) {
			return "an other-parent below the frame a node was reset from is unknown; the event's timestamp then rests on its self-parent"
		}
	case "initEventCoordinates/GetEvent":
		return "a parent may be absent (first event of a creator, parent below a reset frame): coordinates start from the parent that exists"
	case "updateAncestorFirstDescendant/GetEvent", "updateAncestorFirstDescendant/GetRound":
		return "the walk down the ancestors ends where the stored history ends"
	case "createRoot/ParticipantEvent":
		return "a root holds up to ROOT_DEPTH earlier events: fewer when the creator has fewer"
	case "DecideRoundReceived/GetRound":
		return "a joiner's first event can have a round far below the rounds still cached (comment in the code): the search ends"
	}
	return ""
}
