package main

import (
	"fmt"
	"go/types"
	"sort"
	"strings"

	"golang.org/x/tools/go/ssa"
)

func init() {
	add := func(id string, expl string, rules ...ruleFunc) {
		d := registry[id]
		if d == nil {
			panic("rules_g: unknown property " + id)
		}
		d.Rules = append(d.Rules, rules...)
		if i := strings.LastIndex(d.Meta.Explanation, "NOT decided"); i >= 0 {
			d.Meta.Explanation = d.Meta.Explanation[:i] + expl + " " + d.Meta.Explanation[i:]
		} else {
			d.Meta.Explanation += " " + expl
		}
	}
	as := func(f func(*Prog, *Report, string, [][3]string), rule string, roots [][3]string) ruleFunc {
		return func(p *Prog, r *Report) { f(p, r, rule, roots) }
	}
	add("C03", "C03.mapcut (a consensus function that accumulates a result while ranging over a map visits every entry: no early exit other than an error return, since the entries met before the cut depend on Go's random map order; shared with C01.mapcut / C13.mapcut).", as(mapCutRule, "C03.mapcut", consensusFuncs))
	as1 := func(f func(*Prog, *Report, string), rule string) ruleFunc {
		return func(p *Prog, r *Report) { f(p, r, rule) }
	}
	add("C03", "C03.errs (a consensus function that tests the error of a store read or of another consensus function returns an error on the failing edge, or first asks which error it is: a transient store failure is never turned into — and memoised as — a consensus answer; shared with C01.errs).", as1(consensusErrRule, "C03.errs"))
	add("C01", "C01.errs (see C03.errs).", as1(consensusErrRule, "C01.errs"))
	add("C11", "C11.errs (Bootstrap and the insertion / consensus path it replays through end with an error when a database read or an insertion fails: a replay that stops half-way is not reported as a successful recovery; see C03.errs).", as1(consensusErrRule, "C11.errs"))
	add("C02", "C02.reset (Hashgraph.Reset stores the anchor block and resets the store from the frame on every successful reset, unconditionally: the last block index the next block is numbered from is re-established whatever the database still holds from the node's previous life; shared with C13.reset).", sharedAs(c13reset, map[string]string{"C13.reset": "C02.reset"}))
	add("C11", "C11.coords (every successful InsertEvent computes the event's coordinates and updates its ancestors' first descendants — replayed events included: what an interrupted insertion left in the database is recomputed, not trusted; shared with C01.coords), C11.samepath (no branch on the insertion / consensus path depends on a Hashgraph field set by Bootstrap: there is no replay mode above the store).", as1(coordsRule, "C11.coords"), as1(samePathRule, "C11.samepath"))
	add("C01", "C01.coords (see C11.coords: see / strongly-see read only the coordinates InsertEvent computes).", as1(coordsRule, "C01.coords"))
	tot := func(rule string, funcs [][3]string, min int) ruleFunc {
		return func(p *Prog, r *Report) { totalLoopsRule(p, r, rule, funcs, min) }
	}
	add("C15", "C15.elementwise (the wire conversions — WireEvent.BlockSignatures, Event.WireBlockSignatures, ToWire, ReadWireInfo — and the frame / block builders convert element by element without dropping any: a filtered element changes the hash on the receiving side).", tot("C15.elementwise", conversionFuncs, 3))
	add("C04", "C04.everyevent (GetFrame turns every received event of the round into a frame event, NewBlockFromFrame every frame event's payload into the block, SortedFrameEvents every root and frame event into the list a reset node inserts: no filter, no early exit; shared with C13.everyevent).", tot("C04.everyevent", [][3]string{{HG, "Hashgraph", "GetFrame"}, {HG, "", "NewBlockFromFrame"}, {HG, "Frame", "SortedFrameEvents"}}, 3))
	add("C13", "C13.everyevent (see C04.everyevent).", tot("C13.everyevent", [][3]string{{HG, "Hashgraph", "GetFrame"}, {HG, "Frame", "SortedFrameEvents"}}, 2))
	add("C18", "C18.everywitness (the loop that collects the famous witnesses' timestamps in GetFrame adds one per famous witness: no filter — a filter on the values lets a node-local condition, e.g. its own clock, decide whose time counts; see C04.everyevent), C18.local (the functions that compute the frame read no process-local state such as the local clock; see C03.local).", tot("C18.everywitness", [][3]string{{HG, "Hashgraph", "GetFrame"}}, 2), func(p *Prog, r *Report) { localStateRule(p, r, "C18.local", frameFuncs, 10) })
	add("C14", "C14.accept (nothing of a fast-forward response is adopted unless CheckBlock accepted its block: no shortcut around the signature count; see C12.accept).", sharedAs(c12accept, map[string]string{"C12.accept": "C14.accept"}))
	add("C10", "C10.digest (what a membership request's signature covers is the whole request body: InternalTransactionBody.Hash digests the receiver itself; see C15.digest).", func(p *Prog, r *Report) { digestRule(p, r, "C10.digest", []string{"InternalTransactionBody"}) })
	add("C08", "C08.alloc (no make() in the code that handles gossip-port input is sized by an integer a peer supplied — a message field or an element of a Known map — without a two-sided bound: such an allocation panics or exhausts memory on one crafted message).", as1(allocRule, "C08.alloc"))
	add("C13", "C13.holdback (a joiner records no event before the round at which its validator-set takes effect: addSelfEvent's gate Store.LastRound() >= acceptedRound cannot be bypassed, acceptedRound comes from the join response, and the join promise is answered with the round passed to SetPeerSet; shared with C10.holdback).", as1(holdbackRule, "C13.holdback"))
	add("C10", "C10.holdback (see C13.holdback).", as1(holdbackRule, "C10.holdback"))
	add("C15", "C15.lazy (the lazy getters of the memoised digests — PeerSet.Hash/Hex, Block.Hash/Hex, Event.Hash/Hex/Creator — fill the memo exactly on the edge on which it was found empty, with a computed value; shared with C12.lazy / C10.lazy).", as1(lazyGetterRule, "C15.lazy"))
	add("C12", "C12.lazy (see C15.lazy: with an inverted test every peer-set hashes to the empty string and CheckBlock's peer-set comparison accepts any set).", as1(lazyGetterRule, "C12.lazy"))
	add("C10", "C10.lazy (see C15.lazy).", as1(lazyGetterRule, "C10.lazy"))
	cer := func(rule string, names []string, min int) ruleFunc {
		return func(p *Prog, r *Report) { coreErrRule(p, r, rule, names, min) }
	}
	add("C12", "C12.errs (core.fastForward and checkFastForwardShape return an error on every failing edge of the checks they make — CheckBlock, frame.Hash, the shape checks, Reset, setHeadAndSeq: a refused response cannot look adopted to Node.fastForward, which restores the application only after a nil result; shared with C08.errs / C14.errs).", cer("C12.errs", []string{"fastForward", "checkFastForwardShape?"}, 4))
	add("C14", "C14.errs (see C12.errs).", cer("C14.errs", []string{"fastForward", "checkFastForwardShape?"}, 4))
	add("C08", "C08.errs (the shape validation of a fast-forward response reports every failed check to its caller; see C12.errs).", cer("C08.errs", []string{"fastForward", "checkFastForwardShape?"}, 4))
	add("C02", "C02.errs (core.commit and core.signBlock report the failures they test — a failed re-store of the block, a failed signature — instead of returning nil).", cer("C02.errs", []string{"commit", "signBlock?"}, 4))
	add("C05", "C05.errs (core.sync, signAndInsertSelfEvent, insertEventAndRunConsensus, recordHeads and setHeadAndSeq report the failures they test: pools are trimmed and heads recorded only after a reported success; shared with C11.coreerrs).", cer("C05.errs", []string{"sync", "signAndInsertSelfEvent?", "insertEventAndRunConsensus", "recordHeads?", "setHeadAndSeq"}, 5))
	add("C11", "C11.coreerrs (see C05.errs: setHeadAndSeq reports a failed read of the creator's last event).", cer("C11.coreerrs", []string{"setHeadAndSeq", "insertEventAndRunConsensus"}, 2))
	add("C10", "C10.follows (after a successful SetPeerSet the recorded set becomes core.validators on every path to a success return: the next accepted change is applied to the latest set).", as1(validatorsFollowRule, "C10.follows"))
	rd := func(rule string) ruleFunc {
		return func(p *Prog, r *Report) {
			lockRule(p, r, rule, named(NODE+".core.eventDiff", NODE+".core.knownEvents", NODE+".core.getAnchorBlockWithFrame"), 5,
				"every call site of a core method that READS the hashgraph's maps for a peer (eventDiff, knownEvents, getAnchorBlockWithFrame) holds Node.coreLock, in the calling function or in every caller",
				"it ranges over maps of the store that the gossip routines write under the lock: in Go a concurrent map read and map write is a fatal runtime error — any peer's sync request can then stop the node", false)
		}
	}
	add("C08", "C08.lock (the request handlers read the hashgraph — eventDiff, knownEvents, the anchor block and its frame — only under Node.coreLock: an unlocked read races with the gossip routines' writes to the same maps, and a concurrent map read and write aborts the process; shared with C17.lock).", rd("C08.lock"))
	add("C17", "C17.lock (see C08.lock: a suspended node keeps answering sync requests without racing with its own state).", rd("C17.lock"))
	add("C17", "C17.answers (each request handler calls rpc.Respond on every path to its return: a suspended node that lets a sync request through the gate does answer it).", as1(answersRule, "C17.answers"))
	add("C03", "C03.perevent (one full consensus pass after every inserted event — Hashgraph.InsertEvent has no caller but InsertEventAndRunConsensus, which runs the four passes in order before every success return: with known finding F-C03-2 the consensus result is exact only for this schedule; shared with C01.perevent).", as1(perEventRule, "C03.perevent"))
	add("C01", "C01.perevent (see C03.perevent).", as1(perEventRule, "C01.perevent"))
	add("C16", "C16.dberrs (every BadgerStore method, and every closure it hands to the database, returns an error on the failing edge of each error it tests — transaction Set / Commit / Get, item Value, Unmarshal — or classifies it first: a lost write never looks stored, a failed read never yields a zero value as if stored; shared with C11.dberrs).", as1(dbErrRule, "C16.dberrs"))
	add("C11", "C11.dberrs (see C16.dberrs: what bootstrap replays is what was acknowledged).", as1(dbErrRule, "C11.dberrs"))
	add("C07", "C07.knownkey (the store resolves a creator by its full public key: ParticipantEventsCache.participantID succeeds only under a positive ByPubKey lookup of the key string — not by the 32-bit hash of the key, which a foreign key can be ground to collide with; shared with C16.knownkey).", as1(knownKeyRule, "C07.knownkey"))
	add("C16", "C16.knownkey (see C07.knownkey: per-creator records are keyed by the full public key).", as1(knownKeyRule, "C16.knownkey"))
	add("C05", "C05.everytx (core.addTransactions queues every transaction it is given — no filter on content: a submission that was acknowledged is never dropped, and two identical submissions are two transactions).", as1(everyTxRule, "C05.everytx"))
	add("C15", "C15.rebuilt (ReadWireInfo rebuilds the event from the wire form it was given — creator and parents resolved through checked lookups, no early return of some other stored event for the same slot; see C07.wire).", sharedAs(c07wire, map[string]string{"C07.wire": "C15.rebuilt"}))
	add("C11", "C11.commitreceipts (every success return of core.commit has processed the application's receipts for the block: a replayed database rebuilds the validator-set history only through this call, whatever the mode of the node; shared with C10.commitreceipts).", as1(commitReceiptsRule, "C11.commitreceipts"))
	add("C10", "C10.commitreceipts (see C11.commitreceipts).", as1(commitReceiptsRule, "C10.commitreceipts"))
	add("C02", "C02.handed (core.commit hands every block it is given to the application before it returns — no node-local mark or mode withholds one: the delivered sequence has no holes; shared with C05.handed).", as1(handedRule, "C02.handed"))
	add("C05", "C05.handed (see C02.handed: the transactions of a block the hashgraph produced are not withheld from the application, nor handed over twice).", as1(handedRule, "C05.handed"))
	add("C04", "C04.handed (core.commit invokes the application's commit callback exactly once per block: before every return, and never a second time — no retry above the proxy; see C02.handed).", as1(handedRule, "C04.handed"))
	add("C10", "C10.recorded (a block signature is recorded only for a member of the validator-set of the block's round — not for any peer of the repertoire; see C09.record).", sharedAs(c09record, map[string]string{"C09.record": "C10.recorded"}))
	add("C11", "C11.norefusal (Hashgraph.Bootstrap returns only errors its callees returned: it makes no acceptance decision of its own about the database it replays).", as1(noRefusalRule, "C11.norefusal"))
	add("C01", "C01.accepted (the accepted receipts of a block are applied in the block's own order, each by the operation of its type, straight in the loop over the receipts — not regrouped in a map: the resulting validator-set, whose order is hashed, is the same on every node; see C10.accepted).", sharedAs(c10accepted, map[string]string{"C10.accepted": "C01.accepted"}))
	add("C13", "C13.consensusevents (every event of every processed round is recorded as a consensus event, payload or not: the roots of later frames for silent creators come from this record; shared with C03.consensusevents).", as1(consensusEventsRule, "C13.consensusevents"))
	add("C03", "C03.consensusevents (see C13.consensusevents), C03.index (block numbers are read from the store for every block, not carried in a counter across the rounds of a pass; see C02.index).", as1(consensusEventsRule, "C03.consensusevents"), sharedAs(c02index, map[string]string{"C02.index": "C03.index"}))
	add("C20", "C20.replyintact (the socket proxy clients return the reply of an RPC as it came: no store into it after the call).", as1(replyIntactRule, "C20.replyintact"))
	add("C10", "C10.pair (the strongly-see quorum over the witnesses of a round is counted against that round's validator-set; see C01.pair).", sharedAs(c01pair, map[string]string{"C01.pair": "C10.pair"}))
	add("C16", "C16.store (the in-memory store refuses an event before it caches it; see C07.store).", sharedAs(c07store, map[string]string{"C07.store": "C16.store"}))
	add("C19", "C19.rr (an event is received in a round only if all its famous witnesses see it AND they are a supermajority; see C01.rr).", sharedAs(c01rr, map[string]string{"C01.rr": "C19.rr"}))
	add("C01", "C01.mapcut (see C03.mapcut).", as(mapCutRule, "C01.mapcut", consensusFuncs))
	add("C13", "C13.mapcut (see C03.mapcut, for the functions that build a frame).", as(mapCutRule, "C13.mapcut", frameFuncs))
}

/* ---------- round g: rules found with the mechanical mutation scan (mutscan.py) and seed round g ---------- */

// errorExit: every feasible path from the edge b->s (jump threading over the result temporaries of inlined helpers)
// ends in a return whose error result cannot be nil: an error exit of the function.
func errorExit(b, s *ssa.BasicBlock) bool {
	ok, n := true, 0
	visited := map[*ssa.BasicBlock]bool{}
	var rets []*ssa.Return
	forwardFromEdge(b, s, func(cur *ssa.BasicBlock) bool {
		n++
		if !ok || n > 60 || len(cur.Instrs) == 0 {
			ok = false
			return false
		}
		first := !visited[cur]
		visited[cur] = true
		last := cur.Instrs[len(cur.Instrs)-1]
		if _, isPanic := last.(*ssa.Panic); isPanic {
			return false
		}
		if ret, isRet := last.(*ssa.Return); isRet {
			if first {
				rets = append(rets, ret)
			}
			return false
		}
		return true
	})
	if !ok || len(rets) == 0 {
		return false
	}
	for _, ret := range rets {
		cur := ret.Block()
		nr := len(ret.Results)
		if nr == 0 || !isErrorType(ret.Results[nr-1].Type()) {
			return false
		}
		for _, rp := range retPointsOf(ret, nr-1) {
			// only the edges into the returning block that lie on the paths explored
			if rp.pred != nil && !visited[rp.pred] && !(cur == s && rp.pred == b) {
				continue
			}
			v := rp.val
			if neverNilErr(v, 3) {
				continue
			}
			if isNil, known := knownNilOnEdge(cur, v); known && !isNil {
				continue
			}
			if rp.pred != nil {
				if isNil, known := knownNilOnEdge(rp.pred, v); known && !isNil {
					continue
				}
			}
			if cur == s {
				if l, lok := edgeLit(b, s); lok {
					if x, isNil, tok := nilTest(l); tok && !isNil && (x == v || unwrap(x) == unwrap(v)) {
						continue
					}
				}
			}
			return false
		}
	}
	return true
}

// mapCutRule: a consensus function that ranges over a map and ACCUMULATES (adds to a map, appends to a slice, stores a
// computed value into memory that outlives the iteration, calls a setter) must visit every entry: an early exit that is
// not an error return makes the set of entries processed depend on Go's random map order.
func mapCutRule(p *Prog, r *Report, rule string, roots [][3]string) {
	r.Rule(rule, 1, "a map range that accumulates a result is never cut short (other than by an error return): the entries visited before the cut depend on Go's random map order")
	var rs []*ssa.Function
	for _, n := range roots {
		if f := p.Func(n[0], n[1], n[2]); f != nil {
			rs = append(rs, f)
		}
	}
	set := p.reach(rs, func(f *ssa.Function) bool { return !inModule(f) || isStoreImpl(f) })
	var fs []*ssa.Function
	for f := range set {
		if inModule(f) && f.Synthetic == "" && !isStoreImpl(f) {
			fs = append(fs, f)
		}
	}
	sort.Slice(fs, func(i, j int) bool { return fs[i].String() < fs[j].String() })
	nLoops, nAcc := 0, 0
	for _, f := range fs {
		loops := naturalLoops(f)
		for _, lp := range loops {
			if !isMapRangeLoop(f, lp) {
				continue
			}
			nLoops++
			acc := accumulatesIn(lp)
			if acc == nil {
				continue
			}
			nAcc++
			bad := ""
			for b := range lp.body {
				if b == lp.head {
					continue
				}
				for _, s := range b.Succs {
					if lp.body[s] || errorExit(b, s) {
						continue
					}
					// panics are not exits
					if len(s.Instrs) > 0 {
						if _, isPanic := s.Instrs[len(s.Instrs)-1].(*ssa.Panic); isPanic {
							continue
						}
					}
					bad = p.ipos(b.Instrs[len(b.Instrs)-1])
				}
			}
			r.Check(bad == "", rule, f.Name()+":map-range-accumulates@"+p.ipos(acc), p.ipos(acc), fnName(f), "every entry of the map is visited (error exits apart)",
				"the loop over a map accumulates a result (at "+p.ipos(acc)+") but can be left early at "+bad+" without an error: which entries were processed before the cut depends on Go's random map order, so the accumulated result (roots of a frame, a set of witnesses, a vote count) differs between runs and between nodes")
		}
	}
	r.Note("%s: %d map-range loops in consensus functions, %d of them accumulate", rule, nLoops, nAcc)
}

// accumulatesIn: an instruction of the loop body whose effect survives the iteration and depends on it.
func accumulatesIn(lp *loopInfo) ssa.Instruction {
	definedInLoop := func(v ssa.Value) bool {
		in, ok := v.(ssa.Instruction)
		return ok && in.Block() != nil && lp.body[in.Block()]
	}
	var blocks []*ssa.BasicBlock
	for b := range lp.body {
		blocks = append(blocks, b)
	}
	sort.Slice(blocks, func(i, j int) bool { return blocks[i].Index < blocks[j].Index })
	for _, b := range blocks {
		for _, in := range b.Instrs {
			switch x := in.(type) {
			case *ssa.MapUpdate:
				if !definedInLoop(x.Map) {
					return in
				}
			case *ssa.Store:
				if _, isConst := x.Val.(*ssa.Const); isConst {
					continue
				}
				base := x.Addr
				for {
					switch y := base.(type) {
					case *ssa.FieldAddr:
						base = y.X
						continue
					case *ssa.IndexAddr:
						base = y.X
						continue
					}
					break
				}
				if al, isAl := base.(*ssa.Alloc); isAl {
					if definedInLoop(al) {
						continue
					}
					// a local that is only read inside the loop (the range variable itself, a per-iteration temporary)
					usedOutside := al.Heap
					if refs := al.Referrers(); refs != nil && !usedOutside {
						var walk func(v ssa.Value, refs []ssa.Instruction)
						walk = func(v ssa.Value, refs []ssa.Instruction) {
							for _, u := range refs {
								switch y := u.(type) {
								case *ssa.Store:
									if y.Addr != v && y.Val == v {
										usedOutside = true
									}
								case *ssa.FieldAddr:
									if rr := y.Referrers(); rr != nil {
										walk(y, *rr)
									}
								case *ssa.IndexAddr:
									if rr := y.Referrers(); rr != nil {
										walk(y, *rr)
									}
								case *ssa.DebugRef:
								default:
									if u.Block() != nil && !lp.body[u.Block()] {
										usedOutside = true
									}
									if _, isMC := u.(*ssa.MakeClosure); isMC {
										usedOutside = true
									}
								}
							}
						}
						walk(al, *refs)
					}
					if !usedOutside {
						continue
					}
				}
				if definedInLoop(base) {
					if u, isU := base.(*ssa.UnOp); !isU || definedInLoop(u.X) {
						continue
					}
				}
				return in
			case *ssa.Call:
				if bi, isB := x.Call.Value.(*ssa.Builtin); isB && bi.Name() == "append" {
					// appended slice carried around the loop
					if refs := x.Referrers(); refs != nil {
						for _, u := range *refs {
							if ph, isPhi := u.(*ssa.Phi); isPhi && ph.Block() == lp.head {
								return in
							}
						}
					}
					continue
				}
				if f := calleeFunc(x.Common()); f != nil && f.Pkg() != nil && (f.Pkg().Path() == modPath || strings.HasPrefix(f.Pkg().Path(), modPath+"/")) {
					n := f.Name()
					if sig, _ := f.Type().(*types.Signature); sig != nil && sig.Recv() != nil {
						for _, pre := range []string{"Set", "Add", "Insert", "Append", "Remove", "Delete"} {
							if strings.HasPrefix(n, pre) {
								return in
							}
						}
					}
				}
			}
		}
	}
	return nil
}

/* ---------- C03.errs: consensus functions do not turn a failed read into an answer ---------- */

// passFuncs: the consensus passes and the insertion path (roots in addition to consensusFuncs for the error rule).
var passFuncs = [][3]string{
	{HG, "Hashgraph", "DivideRounds"}, {HG, "Hashgraph", "ProcessDecidedRounds"}, {HG, "Hashgraph", "InsertEvent"},
	{HG, "Hashgraph", "InsertEventAndRunConsensus"}, {HG, "Hashgraph", "InsertFrameEvent"}, {HG, "Hashgraph", "ReadWireInfo"},
	{HG, "Hashgraph", "Bootstrap"}, {HG, "Hashgraph", "Reset"},
}

// errClassifiers: a path that inspects WHICH error it got (and treats one kind as an answer) is an accepted idiom.
func isErrClassifier(c *ssa.CallCommon) bool {
	f := calleeFunc(c)
	if f == nil {
		return false
	}
	switch shortName(f) {
	case "errors.Is", "errors.As":
		return true
	}
	n := f.Name()
	return (strings.HasPrefix(n, "Is") || strings.HasPrefix(n, "is")) && f.Pkg() != nil && (f.Pkg().Path() == modPath || strings.HasPrefix(f.Pkg().Path(), modPath+"/"))
}

// consensusErrRule: in the consensus functions, when a call into the module (a store read, another consensus function)
// reports an error and the function tests it, every path from the failing edge ends in an error return (or first asks
// which error it is). `if err != nil { return false, nil }`, `continue`, or falling through turn a transient store failure
// (an evicted cache entry, an I/O error) into a consensus answer — "not an ancestor", "not a witness" — which is memoised
// and from then on differs from what other nodes compute from the same DAG.
func consensusErrRule(p *Prog, r *Report, rule string) {
	r.Rule(rule, 60, "a consensus function that tests the error of a module call leaves through an error return on the failing edge (or classifies the error first)")
	var rs []*ssa.Function
	for _, n := range append(append([][3]string{}, consensusFuncs...), passFuncs...) {
		if f := p.Func(n[0], n[1], n[2]); f != nil {
			rs = append(rs, f)
		}
	}
	sigPool := p.Func(HG, "Hashgraph", "ProcessSigPool") // block signatures: a signature that cannot be checked now stays in the pool (C09's business)
	set := p.reach(rs, func(f *ssa.Function) bool { return !inModule(f) || isStoreImpl(f) || f == sigPool })
	var fs []*ssa.Function
	for f := range set {
		if inModule(f) && f.Synthetic == "" && !isStoreImpl(f) && f != sigPool && fnPkgPath(f) == modPath+"/"+HG {
			fs = append(fs, f)
		}
	}
	sort.Slice(fs, func(i, j int) bool { return fs[i].String() < fs[j].String() })
	n, nEx, nCls, exempt := errPropFuncs(p, r, rule, fs, func(cf *types.Func, sf *ssa.Function) bool {
		if cf == nil || cf.Pkg() == nil || !(cf.Pkg().Path() == modPath || strings.HasPrefix(cf.Pkg().Path(), modPath+"/")) {
			return false
		}
		// a failed READ of the DAG: a Store method, a method of *Hashgraph / BadgerStore, a package function of hashgraph
		recv := recvNamed(cf)
		return recv == "Store" || recv == "Hashgraph" || recv == "BadgerStore" || (recv == "" && cf.Pkg().Path() == modPath+"/"+HG)
	}, "a transient store failure (evicted entry, I/O error) becomes a consensus answer that differs from what other nodes compute from the same DAG")
	sort.Strings(exempt)
	r.Note("%s: %d tested errors of store / hashgraph calls in %d consensus / pass functions of package hashgraph; %d tests of errors the function classifies (IsStore / errors.Is …); %d sites where 'absent' is an answer by design (table absentIsAnAnswer): %s", rule, n, len(fs), nCls, nEx, strings.Join(exempt, ", "))
}

// errPropStrict: functions whose nil result must mean "done" whatever the kind of error: asking which error it was does
// not excuse returning nil (addSelfEvent trims the pools after a nil from signAndInsertSelfEvent).
var errPropStrict = map[string]bool{"signAndInsertSelfEvent": true, "insertEventAndRunConsensus": true}

// errPropFuncs: the obligation of consensusErrRule evaluated on an explicit list of functions. calleeOK selects the
// calls whose error must propagate; name describes the callee in reports.
func errPropFuncs(p *Prog, r *Report, rule string, fs []*ssa.Function, calleeOK func(cf *types.Func, sf *ssa.Function) bool, what string) (n, nEx, nCls int, exempt []string) {
	for _, f := range fs {
		for _, b := range f.Blocks {
			if len(b.Instrs) == 0 || len(b.Succs) != 2 {
				continue
			}
			for _, s := range b.Succs {
				l, ok := edgeLit(b, s)
				if !ok {
					continue
				}
				x, isNil, ok := nilTest(l)
				if !ok || isNil || !isErrorType(x.Type()) {
					continue
				}
				c, _ := callOf(unwrap(x))
				if c == nil {
					continue
				}
				cf := calleeFunc(c.Common())
				sf := c.Call.StaticCallee()
				if !calleeOK(cf, sf) {
					continue
				}
				cname := "closure"
				if cf != nil {
					cname = shortName(cf)
				} else if sf != nil {
					cname = sf.Name()
				}
				if nres := f.Signature.Results().Len(); nres == 0 || !isErrorType(f.Signature.Results().At(nres-1).Type()) {
					continue // cannot report an error at all (sort comparators …): out of this rule's reach
				}
				if cf != nil {
					if why := absentIsAnAnswer(f, cf, c); why != "" {
						nEx++
						exempt = append(exempt, f.Name()+"/"+cf.Name())
						continue
					}
				}
				// the function asks which error it is (anywhere): accepted idiom, its handling is the function's business
				classified := false
				for _, bb := range f.Blocks {
					for _, in := range bb.Instrs {
						if cc, isC := in.(ssa.CallInstruction); isC && isErrClassifier(cc.Common()) {
							for _, a := range cc.Common().Args {
								if a == x || unwrap(a) == unwrap(x) || sameErrVar(x, a) {
									classified = true
								}
							}
						}
					}
				}
				if classified && !errPropStrict[f.Name()] {
					nCls++
					continue
				}
				n++
				// forward from s: every return reached carries a non-nil error
				bad := ""
				visited := map[*ssa.BasicBlock]bool{}
				var order []*ssa.BasicBlock
				forwardFromEdge(b, s, func(cur *ssa.BasicBlock) bool {
					if !visited[cur] {
						visited[cur] = true
						order = append(order, cur)
					}
					for _, in := range cur.Instrs {
						if cc, isC := in.(ssa.CallInstruction); isC && isErrClassifier(cc.Common()) {
							for _, a := range cc.Common().Args {
								if a == x || unwrap(a) == unwrap(x) || sameErrVar(x, a) {
									return false // classified: accepted idiom
								}
							}
						}
					}
					// a later test of the same error on this path is decided: do not follow its nil edge
					if len(cur.Succs) == 2 {
						if l2, ok := edgeLit(cur, cur.Succs[0]); ok {
							if x2, _, ok := nilTest(l2); ok && (x2 == x || unwrap(x2) == unwrap(x)) {
								// follow only the non-nil successor by visiting it directly
								for _, nx := range cur.Succs {
									if l3, ok := edgeLit(cur, nx); ok {
										if _, isNil3, ok := nilTest(l3); ok && !isNil3 {
											forwardFromEdge(cur, nx, func(y *ssa.BasicBlock) bool {
												if !visited[y] {
													visited[y] = true
													order = append(order, y)
												}
												return true
											})
										}
									}
								}
								return false
							}
						}
					}
					return true
				})
				for _, cur := range order {
					last := cur.Instrs[len(cur.Instrs)-1]
					ret, isRet := last.(*ssa.Return)
					if !isRet {
						continue
					}
					nr := len(ret.Results)
					if nr == 0 || !isErrorType(ret.Results[nr-1].Type()) {
						bad = p.ipos(ret)
						break
					}
					for _, rp := range retPointsOf(ret, nr-1) {
						if rp.pred != nil && !visited[rp.pred] && !(cur == s && rp.pred == b) {
							continue
						}
						v := rp.val
						if neverNilErr(v, 3) || v == x || unwrap(v) == unwrap(x) || sameErrVar(x, v) || dependsOn(v, func(y ssa.Value) bool { return y == x }) {
							continue
						}
						if isN, known := knownNilOnEdge(cur, v); known && !isN {
							continue
						}
						if rp.pred != nil {
							if isN, known := knownNilOnEdge(rp.pred, v); known && !isN {
								continue
							}
						}
						bad = p.ipos(ret)
					}
				}
				r.Check(bad == "", rule, f.Name()+":err-of-"+cname[strings.LastIndex(cname, ".")+1:]+"@"+p.ipos(c), p.ipos(c), fnName(f), "failing edge leads to error returns only",
					"the error of "+cname+" is tested, but from the failing edge a path reaches "+bad+" without returning an error and without asking which error it is: "+what)
			}
		}
	}
	return
}

// absentIsAnAnswer: the sites, confirmed by reading, where the code deliberately treats "the store does not have it" as
// an answer (history below a fast-sync frame, a joiner's first events). Keyed by function, callee and — where the function
// makes other calls to the same callee that must propagate — the provenance of the argument.
func absentIsAnAnswer(f *ssa.Function, callee *types.Func, c *ssa.Call) string {
	for f.Parent() != nil { // a closure belongs to the function that creates it
		f = f.Parent()
	}
	name := f.Name()
	if o, ok := f.Object().(*types.Func); ok && o != nil {
		sn := shortName(o) // reference name (renamed anchors resolved)
		name = sn[strings.LastIndex(sn, ".")+1:]
	}
	if gProg != nil {
		if orig, ok := gProg.forwardedFrom[f]; ok { // a reference function that became a front for this helper
			name = orig[strings.LastIndex(orig, ".")+1:]
		}
	}
	cn := shortName(callee)
	cn = cn[strings.LastIndex(cn, ".")+1:]
	switch name + "/" + cn {
	case "_lamportTimestamp/GetEvent", "lamportTimestamp/GetEvent":
		if a := argN(c, 0); a != nil && depOnCall(a, named(HG+".Event.OtherParent")) {
			return "an other-parent below the frame a node was reset from is unknown; the event's timestamp then rests on its self-parent"
		}
	case "initEventCoordinates/GetEvent":
		return "a parent may be absent (first event of a creator, parent below a reset frame): coordinates start from the parent that exists"
	case "updateAncestorFirstDescendant/GetEvent", "updateAncestorFirstDescendant/GetRound":
		return "the walk down the ancestors ends where the stored history ends"
	case "createRoot/ParticipantEvent":
		return "a root holds up to ROOT_DEPTH earlier events: fewer when the creator has fewer"
	case "Bootstrap/dbGetPeerSet":
		return "a database without a genesis peer-set is an empty database (first start with --bootstrap): nothing to replay"
	case "addParticipant/dbGetRoot":
		return "a participant without a root on disk gets one now (the failure of the lookup IS the condition; C16.dbguard checks that the lookup is the database's)"
	case "dbParticipantEvents/ValueCopy", "dbTopologicalEvents/ValueCopy":
		return "observation O-C16-1 (DESIGN 9.9): the listing ends silently at the first value that cannot be read; a read failure of a committed value could not be produced in this sandbox, so it is recorded as an observation and not armed"
	case "DecideRoundReceived/GetRound":
		return "a joiner's first event can have a round far below the rounds still cached (comment in the code): the search ends"
	}
	return ""
}

/* ---------- C11.coords / C11.samepath (seed C11g) ---------- */

// coordsRule: every successful InsertEvent has computed the event's coordinates (lastAncestors / firstDescendants) and
// pushed the event into its ancestors' firstDescendants — for every event, whatever its origin. The ancestry relations
// (see, strongly-see) read nothing else; coordinates taken over from elsewhere (a decoded database record, a wire form)
// are whatever a previous, possibly interrupted, insertion left behind.
func coordsRule(p *Prog, r *Report, rule string) {
	r.Rule(rule, 2, "InsertEvent computes the event's coordinates and updates its ancestors' first descendants on every successful insertion")
	ins := p.Func(HG, "Hashgraph", "InsertEvent")
	if ins == nil {
		r.Anchor(rule, "hashgraph.(*Hashgraph).InsertEvent")
		return
	}
	succ := p.succRets(ins, errNil, 0)
	for _, m := range []string{"initEventCoordinates", "updateAncestorFirstDescendant"} {
		var sites []ssa.CallInstruction
		for _, c := range callsIn(ins, named(HG+".Hashgraph."+m)) {
			if a := lastArg(c); a != nil && flowsFrom(a, func(v ssa.Value) bool { return isParamOfType(v, "Event") }) {
				sites = append(sites, c)
			}
		}
		ok, why := len(sites) > 0 && len(succ) > 0, ""
		if len(sites) == 0 {
			why = "InsertEvent does not call " + m + " on the event being inserted"
		}
		for _, rp := range succ {
			dom := false
			for _, c := range sites {
				if dominates(c, rp.ret) {
					dom = true
				}
			}
			if !dom && len(sites) > 0 {
				ok, why = false, "a success return of InsertEvent ("+p.ipos(rp.ret)+") is reached without "+m+"(event): the call is conditional, so some events keep coordinates computed elsewhere"
			}
		}
		r.Check(ok, rule, "InsertEvent:always-"+m, p.pos(ins.Pos()), fnName(ins), m+"(event) on every successful insertion", why)
	}
}

// samePathRule: Bootstrap replays the database through the very code path live events take. No field of Hashgraph that
// Bootstrap sets (a "replaying" flag) is branched on by the insertion / consensus path: a replayed event is treated as a
// new one. (The store's maintenance mode — which only suppresses writes to the database being read — is a store field.)
func samePathRule(p *Prog, r *Report, rule string) {
	r.Rule(rule, 1, "nothing on the insertion / consensus path branches on a Hashgraph field set by Bootstrap (no replay mode)")
	bs := p.Func(HG, "Hashgraph", "Bootstrap")
	iar := p.Func(HG, "Hashgraph", "InsertEventAndRunConsensus")
	if bs == nil || iar == nil {
		r.Anchor(rule, "hashgraph.(*Hashgraph).Bootstrap / InsertEventAndRunConsensus")
		return
	}
	hgT := p.Type(HG, "Hashgraph")
	if hgT == nil {
		r.Anchor(rule, "hashgraph.Hashgraph")
		return
	}
	// fields of Hashgraph stored to by Bootstrap itself (its closures and new helpers included), not through the insertion path
	path := p.reach([]*ssa.Function{iar}, func(f *ssa.Function) bool { return !inModule(f) || isStoreImpl(f) })
	own := p.reach([]*ssa.Function{bs}, func(f *ssa.Function) bool { return !inModule(f) || isStoreImpl(f) || path[f] })
	written := map[*types.Var]ssa.Instruction{}
	st, ok := hgT.Underlying().(*types.Struct)
	if !ok {
		r.Anchor(rule, "hashgraph.Hashgraph (struct)")
		return
	}
	for i := 0; i < st.NumFields(); i++ {
		fv := st.Field(i)
		for _, w := range p.writersOf(fv) {
			if own[w.Fn] && !path[w.Fn] && !w.Fresh {
				written[fv] = w.Instr
			}
		}
	}
	n := 0
	var fs []*ssa.Function
	for f := range path {
		if inModule(f) && f.Synthetic == "" && !isStoreImpl(f) {
			fs = append(fs, f)
		}
	}
	sort.Slice(fs, func(i, j int) bool { return fs[i].String() < fs[j].String() })
	bad := ""
	for _, f := range fs {
		for _, b := range f.Blocks {
			if len(b.Instrs) == 0 {
				continue
			}
			iff, isIf := b.Instrs[len(b.Instrs)-1].(*ssa.If)
			if !isIf {
				continue
			}
			n++
			for fv, w := range written {
				if depOnFieldVar(iff.Cond, fv) {
					bad = fnName(f) + " branches at " + p.ipos(iff) + " on Hashgraph." + fv.Name() + ", which Bootstrap sets at " + p.ipos(w)
				}
			}
		}
	}
	var wn []string
	for fv := range written {
		wn = append(wn, fv.Name())
	}
	sort.Strings(wn)
	r.Check(bad == "", rule, "Bootstrap:no-replay-mode-on-the-insertion-path", p.pos(bs.Pos()), fnName(bs), "replayed events take the live path", bad+": events read back from the database are then inserted differently from the way they were inserted the first time, so what an interrupted insertion left on disk is trusted instead of recomputed")
	r.Note("%s: Hashgraph fields written by Bootstrap outside the insertion path: [%s]; %d branches examined in %d functions reachable from InsertEventAndRunConsensus", rule, strings.Join(wn, " "), n, len(fs))
}

/* ---------- element-wise conversions are total (seeds C04g, C15g) ---------- */

// accumulators: the instructions of loop lp that add one element per iteration to a result that outlives the loop:
// an append whose result is carried around the loop (or stored into a variable that is), an element store into a slice
// allocated before the loop.
func accumulators(lp *loopInfo) []ssa.Instruction {
	var res []ssa.Instruction
	inLoop := func(v ssa.Value) bool {
		in, ok := v.(ssa.Instruction)
		return ok && in.Block() != nil && lp.body[in.Block()]
	}
	var blocks []*ssa.BasicBlock
	for b := range lp.body {
		blocks = append(blocks, b)
	}
	sort.Slice(blocks, func(i, j int) bool { return blocks[i].Index < blocks[j].Index })
	for _, b := range blocks {
		for _, in := range b.Instrs {
			switch x := in.(type) {
			case *ssa.Call:
				bi, isB := x.Call.Value.(*ssa.Builtin)
				if !isB || bi.Name() != "append" || x.Referrers() == nil {
					continue
				}
				carried := false
				var follow func(v ssa.Value, depth int)
				follow = func(v ssa.Value, depth int) {
					refs := v.Referrers()
					if refs == nil || depth > 3 {
						return
					}
					for _, u := range *refs {
						switch y := u.(type) {
						case *ssa.Phi:
							if y.Block() == lp.head {
								carried = true
							} else if lp.body[y.Block()] {
								follow(y, depth+1)
							}
						case *ssa.Store:
							if y.Val == v && !inLoop(y.Addr) {
								carried = true
							} else if y.Val == v {
								if al, isAl := y.Addr.(*ssa.Alloc); isAl && !lp.body[al.Block()] {
									carried = true
								}
							}
						}
					}
				}
				follow(x, 0)
				if carried {
					res = append(res, in)
				}
			case *ssa.Store:
				if ia, isIA := x.Addr.(*ssa.IndexAddr); isIA && !inLoop(ia.X) {
					if _, isSl := ia.X.Type().Underlying().(*types.Slice); isSl {
						res = append(res, in)
					}
				}
			}
		}
	}
	return res
}

// skippedIteration: an iteration of lp can complete (return to the loop head), or the loop can be left without an error,
// without executing any of the accumulating instructions acc. Returns the position of the offending edge, "" if none.
func (p *Prog) skippedIteration(lp *loopInfo, acc []ssa.Instruction) string {
	accBlock := map[*ssa.BasicBlock]bool{}
	for _, a := range acc {
		accBlock[a.Block()] = true
	}
	bad := ""
	for _, s := range lp.head.Succs {
		if !lp.body[s] {
			continue
		}
		if accBlock[lp.head] {
			return ""
		}
		prev := map[*ssa.BasicBlock]*ssa.BasicBlock{}
		forwardFromEdge(lp.head, s, func(cur *ssa.BasicBlock) bool {
			if bad != "" || accBlock[cur] {
				return false
			}
			if cur == lp.head {
				bad = "an iteration reaches the next one without it"
				return false
			}
			if !lp.body[cur] {
				// left the loop: fine if this is an error exit
				ok := false
				for _, pr := range cur.Preds {
					if lp.body[pr] && errorExit(pr, cur) {
						ok = true
					}
				}
				if !ok {
					if len(cur.Instrs) > 0 {
						if _, isPanic := cur.Instrs[len(cur.Instrs)-1].(*ssa.Panic); isPanic {
							return false
						}
					}
					bad = "the loop is left at " + p.ipos(cur.Instrs[0]) + " without it and without an error"
				}
				return false
			}
			_ = prev
			return true
		})
	}
	return bad
}

// totalLoopsRule: the listed functions convert one representation into another element by element (wire form <-> event,
// frame <- received events, block <- frame events, frame -> sorted events). Every element of the source yields an element
// of the result: a loop that accumulates the result adds to it on every iteration — no `continue`, no filter, no early
// `break` — unless it leaves through an error. A dropped element changes the hash on the other side (C15), removes an
// event's payload from the block (C04) or an event from the frame a reset node starts from (C13).
func totalLoopsRule(p *Prog, r *Report, rule string, funcs [][3]string, min int) {
	r.Rule(rule, min, "element-wise conversions are total: every iteration of a loop that builds the converted value adds its element (error exits apart)")
	n := 0
	for _, fn := range funcs {
		f := p.Func(fn[0], fn[1], fn[2])
		if f == nil {
			r.Anchor(rule, fn[1]+"."+fn[2])
			continue
		}
		for _, g := range withAnon(f) {
			loops := naturalLoops(g)
			for _, lp := range loops {
				// accumulators that belong to this loop (innermost)
				var acc []ssa.Instruction
				for _, a := range accumulators(lp) {
					if il := innermostLoop(loops, a.Block()); il != nil && il.head == lp.head {
						acc = append(acc, a)
					}
				}
				if len(acc) == 0 {
					continue
				}
				// group by destination: each accumulating site must be reached (sites that fill different results are
				// independent obligations)
				for _, a := range acc {
					n++
					// a payload getter whose emptiness is tested (`if len(txs) > 0 { append }`) changes nothing
					if guardedOnlyByOwnLength(p, g, lp, a) {
						continue
					}
					bad := p.skippedIteration(lp, []ssa.Instruction{a})
					r.Check(bad == "", rule, fn[2]+":every-element@"+p.ipos(a), p.ipos(a), fnName(g), "one element per source element",
						"the element added at "+p.ipos(a)+" is not added on every iteration: "+bad+" — a source element is dropped from the converted value")
				}
			}
		}
	}
	r.Note("%s: %d accumulating sites in loops of %d conversion functions", rule, n, len(funcs))
}

// guardedOnlyByOwnLength: the accumulating instruction appends a slice x... and the only loop-local conditions on the
// way are tests of len(x) (appending an empty slice is a no-op).
func guardedOnlyByOwnLength(p *Prog, g *ssa.Function, lp *loopInfo, a ssa.Instruction) bool {
	c, ok := a.(*ssa.Call)
	if !ok || len(c.Call.Args) < 2 {
		return false
	}
	src := c.Call.Args[1]
	if sl, isSl := src.(*ssa.Slice); isSl {
		if _, isAl := sl.X.(*ssa.Alloc); isAl {
			return false // append(s, elem): the variadic argument packed into a fresh array
		}
	}
	any := false
	for _, l := range p.Facts(g).At(a.Block()) {
		in, isIn := l.V.(ssa.Instruction)
		if !isIn || !lp.body[in.Block()] || in.Block() == lp.head {
			continue
		}
		any = true
		okLen := false
		if bo, isB := l.V.(*ssa.BinOp); isB {
			for _, side := range []ssa.Value{bo.X, bo.Y} {
				if s, isLen := isLenOf(side); isLen && (s == src || unwrap(s) == unwrap(src) || commonOrigin(s, src) || sameGetterCall(s, src)) {
					okLen = true
				}
			}
		}
		if !okLen {
			return false
		}
	}
	return any
}

var conversionFuncs = [][3]string{
	{HG, "WireEvent", "BlockSignatures"}, {HG, "Event", "WireBlockSignatures"}, {HG, "Event", "ToWire"}, {HG, "Hashgraph", "ReadWireInfo"},
	{HG, "", "NewBlockFromFrame"}, {HG, "Frame", "SortedFrameEvents"},
}

/* ---------- C08.alloc (seed C08g): no allocation sized by a number taken from the network ---------- */

// allocRule: in the code that handles gossip-port input, the size of a make() does not depend on an integer a peer
// supplied — an integer field of a wire type, or an element of an integer-valued map / slice that arrived in a message
// (SyncRequest.Known …) — unless it is bounded on both sides on every path. make([]T, 0, n) with n < 0 or n too large
// panics (makeslice: cap out of range); a merely huge n exhausts memory. Either way one message stops the node.
func allocRule(p *Prog, r *Report, rule string) {
	r.Rule(rule, 1, "no make() in network-reachable code is sized by a wire-controlled integer without a two-sided bound")
	R, _ := netReach(p)
	W := wireTypes(p)
	isWireField := func(x ssa.Value) bool {
		fv, base := fieldOf(x)
		if fv == nil || base == nil {
			return false
		}
		n := namedOf(base.Type())
		return n != nil && W[n]
	}
	intElem := func(t types.Type) bool {
		var e types.Type
		switch tt := t.Underlying().(type) {
		case *types.Map:
			e = tt.Elem()
		case *types.Slice:
			e = tt.Elem()
		default:
			return false
		}
		bt, ok := e.Underlying().(*types.Basic)
		return ok && bt.Info()&types.IsInteger != 0
	}
	fromWire := func(c ssa.Value) bool {
		return intElem(c.Type()) && flowsFrom(c, isWireField)
	}
	src := func(x ssa.Value) bool {
		// (a) an integer field of a wire type
		if fv, _ := fieldOf(x); fv != nil && isWireField(x) {
			if bt, ok := fv.Type().Underlying().(*types.Basic); ok && bt.Info()&types.IsInteger != 0 {
				return true
			}
		}
		// (b) an element of an integer container that came in a message
		switch y := x.(type) {
		case *ssa.Lookup:
			return fromWire(y.X)
		case *ssa.Extract:
			if nx, ok := y.Tuple.(*ssa.Next); ok {
				if rg, ok := nx.Iter.(*ssa.Range); ok {
					return fromWire(rg.X)
				}
			}
			if lk, ok := y.Tuple.(*ssa.Lookup); ok {
				return fromWire(lk.X)
			}
		case *ssa.UnOp:
			if ia, ok := y.X.(*ssa.IndexAddr); ok {
				return fromWire(ia.X)
			}
		}
		return false
	}
	nAll, nDyn := 0, 0
	for _, fn := range sortedFuncs(R) {
		for _, b := range fn.Blocks {
			for _, in := range b.Instrs {
				var sizes []ssa.Value
				switch x := in.(type) {
				case *ssa.MakeSlice:
					sizes = []ssa.Value{x.Len, x.Cap}
				case *ssa.MakeMap:
					if x.Reserve != nil {
						sizes = []ssa.Value{x.Reserve}
					}
				case *ssa.MakeChan:
					sizes = []ssa.Value{x.Size}
				default:
					continue
				}
				nAll++
				for _, sz := range sizes {
					if sz == nil {
						continue
					}
					if _, isC := intConst(sz); isC {
						continue
					}
					if _, isLen := isLenOf(unwrap(sz)); isLen {
						continue
					}
					nDyn++
					if !dependsOn(sz, src) {
						continue
					}
					qUp := func(l Lit) bool {
						a, bb, _, ok := cmpLit(l) // a > bb or a >= bb
						if !ok || !(unwrap(bb) == unwrap(sz) || sameOrigin(bb, sz)) {
							return false
						}
						if _, isC := intConst(a); isC {
							return true
						}
						_, isLen := isLenOf(a)
						return isLen
					}
					up, _ := p.allPaths(in, []Pred{qUp}, all(1))
					low := p.nonNegative(sz, in, 0)
					r.Check(up && low, rule, fn.Name()+":make-size<-wire-int", p.ipos(in), fnName(fn), "allocation size independent of peer-supplied numbers (or bounded on both sides)",
						fmt.Sprintf("the size of this make() depends on an integer supplied by a peer (a field or map / slice element of a message) and is not bounded on both sides (upper bound: %v, non-negative: %v): a hugely negative or large value panics (makeslice: cap out of range) or exhausts memory — one message stops the node", up, low))
				}
			}
		}
	}
	r.Check(nAll > 0, rule, "make-sites-examined", "-", "", "make() sites in network-reachable code were found", "no make() found in network-reachable code (rule would be vacuous)")
	r.Note("%s: %d make() sites in %d network-reachable functions, %d with a non-constant, non-len size", rule, nAll, len(R), nDyn)
}

/* ---------- C10.holdback / C13.holdback (seed C13g) ---------- */

// holdbackRule: a joiner holds back until the hashgraph has reached the round at which the validator-set that includes it
// takes effect. In core.addSelfEvent every path to the creation of the event (hg.NewEvent) and to its insertion carries
// the literal Store.LastRound() >= acceptedRound (no other condition opens the gate); acceptedRound is written only with
// the AcceptedRound of a join response (and -1 at construction); the round a join promise is answered with is the very
// round passed to Store.SetPeerSet. Events created inside the six-round window are invisible to frames of that window
// (no root for a participant whose first round lies ahead), so a node that fast-forwards there can never catch up on them.
func holdbackRule(p *Prog, r *Report, rule string) {
	r.Rule(rule, 3, "no self-event before the accepted round: addSelfEvent's gate, the writers of acceptedRound, and the round a join promise is answered with")
	ase := p.Func(NODE, "core", "addSelfEvent")
	fAcc := p.Field(NODE, "core", "acceptedRound")
	if ase == nil || fAcc == nil {
		r.Anchor(rule, "node.(*core).addSelfEvent / core.acceptedRound")
		return
	}
	q := func(l Lit) bool {
		a, b, _, ok := cmpLit(l) // a > b or a >= b
		if !ok {
			return false
		}
		return flowsFromCall(a, storeM("LastRound"), 0) && depOnFieldVar(b, fAcc) && flowsFrom(b, func(v ssa.Value) bool { fv, _ := fieldOf(v); return fv == fAcc })
	}
	n := 0
	for _, m := range []fnMatch{named(HG + ".NewEvent"), named(NODE + ".core.signAndInsertSelfEvent")} {
		for _, c := range callsIn(ase, m) {
			n++
			g, _ := p.allPaths(c, []Pred{q}, all(1))
			r.Check(g, rule, "addSelfEvent:"+shortName(calleeFunc(c.Common()))+":LastRound>=acceptedRound", p.ipos(c), fnName(ase), "reached only when the hashgraph's last round has reached acceptedRound",
				"a path reaches this call without Store.LastRound() >= acceptedRound: the node records events before the validator-set that includes it takes effect; frames of that window carry no root for it, and a node that fast-forwards there cannot follow")
		}
	}
	if n == 0 {
		r.Fail(rule, "addSelfEvent:gate", p.pos(ase.Pos()), fnName(ase), "addSelfEvent neither creates nor inserts an event (anchors NewEvent / signAndInsertSelfEvent not found)")
	}
	// writers of acceptedRound
	var bad []string
	nw := 0
	for _, w := range p.writersOf(fAcc) {
		if w.Fresh {
			continue
		}
		nw++
		if k, isC := intConst(w.Val); isC && k == -1 {
			continue
		}
		if flowsFromField(w.Val, "AcceptedRound") {
			continue
		}
		bad = append(bad, fnName(w.Fn)+"@"+p.ipos(w.Instr))
	}
	r.Check(len(bad) == 0, rule, "core.acceptedRound:writers", "-", "", "set only from a join response's AcceptedRound", "acceptedRound is also written at "+strings.Join(bad, ", ")+" with a value that is not the AcceptedRound of a join response")
	// the joiner does record the round it was given, before it starts babbling / catching up
	if jn := p.Func(NODE, "Node", "join"); jn != nil {
		var sts []*ssa.Store
		for _, st := range storesIntoField(jn, fAcc) {
			if flowsFromField(st.Val, "AcceptedRound") {
				sts = append(sts, st)
			}
		}
		starts := callsIn(jn, named(NODE+".Node.setBabblingOrCatchingUpState", NODE+".Node.transition"))
		okJ, why := len(sts) > 0, ""
		if len(sts) == 0 {
			why = "Node.join never stores the response's AcceptedRound into core.acceptedRound"
		}
		for _, c := range starts {
			if calleeFunc(c.Common()).Name() == "transition" {
				// only the transitions that start the node (Babbling / CatchingUp)
				if k, isC := intConst(argN(c, 0)); !isC || (k != statesOf(p)["Babbling"] && k != statesOf(p)["CatchingUp"]) {
					continue
				}
			}
			dom := false
			for _, st := range sts {
				if dominates(st, c) {
					dom = true
				}
			}
			if !dom && len(sts) > 0 {
				okJ, why = false, "the node starts (at "+p.ipos(c)+") on a path on which core.acceptedRound was not set from the join response: it keeps the default -1 and records events at once"
			}
		}
		r.Check(okJ, rule, "Node.join:acceptedRound-recorded-before-start", p.pos(jn.Pos()), fnName(jn), "acceptedRound = response.AcceptedRound before the node starts", why)
	} else {
		r.Anchor(rule, "node.(*Node).join")
	}
	// the promise is answered with the effective round
	pait := p.Func(NODE, "core", "processAcceptedInternalTransactions")
	if pait == nil {
		r.Anchor(rule, "node.(*core).processAcceptedInternalTransactions")
		return
	}
	var eff ssa.Value
	for _, c := range callsIn(pait, storeM("SetPeerSet")) {
		eff = argN(c, 0)
	}
	nr := 0
	for _, c := range callsIn(pait, named(NODE+".joinPromise.respond")) {
		if k, isC := c.Common().Args[len(c.Common().Args)-3].(*ssa.Const); isC && k.Value != nil && k.Value.String() == "false" {
			continue // refusal
		}
		nr++
		rd := c.Common().Args[len(c.Common().Args)-2]
		ok := eff != nil && (unwrap(rd) == unwrap(eff) || sameOrigin(rd, eff) || flowsFrom(rd, func(v ssa.Value) bool { return v == eff || unwrap(v) == unwrap(eff) }))
		r.Check(ok, rule, "processAcceptedInternalTransactions:respond(effective round)", p.ipos(c), fnName(pait), "an accepted join is answered with the round passed to SetPeerSet", "the round given to the joiner is not the round at which its validator-set was recorded")
	}
	if nr == 0 {
		r.Fail(rule, "processAcceptedInternalTransactions:respond", p.pos(pait.Pos()), fnName(pait), "no accepting respond() call found")
	}
}

/* ---------- lazy getters: the memo is filled exactly when it is empty (mutation scan) ---------- */

// lazyGetterRule: for the memoised digests (PeerSet.Hash / Hex, Block.Hash / Hex, Event.Hash / Hex / Creator, Peer.ID),
// every store to the memo field inside its getter is reached only on the edge on which the field was tested EMPTY
// (len == 0, == "", == nil, == 0), and the stored value is data-dependent on the object's content (not a constant).
// With the test inverted the getter returns the empty memo for ever: every peer-set then "hashes" to the empty string,
// and the peer-set hash comparison of CheckBlock (C12), the frame/block identity (C15) and the validator-set hash in
// blocks (C10) compare equal for any two sets.
func lazyGetterRule(p *Prog, r *Report, rule string) {
	r.Rule(rule, 6, "a lazy getter fills its memo field exactly on the edge on which the field was found empty, with a value computed from the content")
	specs := []struct{ pkg, typ, field, getter string }{
		{PEER, "PeerSet", "hash", "Hash"}, {PEER, "PeerSet", "hex", "Hex"},
		{HG, "Block", "hash", "Hash"}, {HG, "Block", "hex", "Hex"},
		{HG, "Event", "hash", "Hash"}, {HG, "Event", "hex", "Hex"}, {HG, "Event", "creator", "Creator"},
	}
	for _, s := range specs {
		fv := p.Field(s.pkg, s.typ, s.field)
		fn := p.Func(s.pkg, s.typ, s.getter)
		if fv == nil || fn == nil {
			r.Anchor(rule, s.typ+"."+s.getter+" / "+s.field)
			continue
		}
		emptyLit := func(l Lit) bool {
			// len(f) == 0, f == "", f == nil — with the polarity that makes the field empty
			if a, b, strict, okc := cmpLit(l); okc { // a > b or a >= b: 0 >= len(f), 1 > len(f)
				if lv, isLen := isLenOf(unwrap(b)); isLen {
					if f, _ := fieldOf(lv); f == fv {
						if k, isC := intConst(a); isC && ((k == 0 && !strict) || (k == 1 && strict)) {
							return true
						}
					}
				}
			}
			x, y, ok := eqLit(l)
			if !ok {
				return false
			}
			for _, pr := range [][2]ssa.Value{{x, y}, {y, x}} {
				a, b := pr[0], pr[1]
				if lv, isLen := isLenOf(unwrap(a)); isLen {
					if k, isC := intConst(b); isC && k == 0 {
						if f, _ := fieldOf(lv); f == fv {
							return true
						}
					}
				}
				if f, _ := fieldOf(a); f == fv {
					if sc, isS := strConst(b); isS && sc == "" {
						return true
					}
					if isNilConst(b) {
						return true
					}
				}
			}
			return false
		}
		sts := storesIntoField(fn, fv)
		ok, why := len(sts) > 0, ""
		if len(sts) == 0 {
			why = "the getter never stores into the memo field"
		}
		for _, st := range sts {
			if _, isC := st.Val.(*ssa.Const); isC {
				ok, why = false, "the memo is filled with a constant at "+p.ipos(st)
				continue
			}
			if g, _ := p.allPaths(st, []Pred{emptyLit}, all(1)); !g {
				ok, why = false, "the store at "+p.ipos(st)+" is not confined to the edge on which "+s.field+" was found empty (inverted or missing test): the getter can return an empty memo for ever, or overwrite a filled one"
			}
		}
		r.Check(ok, rule, s.typ+"."+s.getter+":fills-"+s.field+"-when-empty", p.pos(fn.Pos()), fnName(fn), "memo filled exactly when empty", why)
	}
}

/* ---------- core.* functions propagate the errors they test (mutation scan of src/node/core.go) ---------- */

// coreErrRule: the functions of node.core that the acceptance / commit / insertion rules reason about report failure
// through their error result; the rules of C12 (nothing adopted unless the checks passed, application restored only after
// core.fastForward returned nil), C02 (block re-stored after the application answered), C05 / C11 (pools trimmed, head moved
// only after a successful insertion) and C08 (shape validation) all read "returned nil" as "succeeded". That reading is
// sound only if these functions do not swallow the errors they test: `if err != nil { return nil }` in core.fastForward makes
// a refused response look adopted to Node.fastForward, which then restores the application from the unverified snapshot.
func coreErrRule(p *Prog, r *Report, rule string, names []string, min int) {
	r.Rule(rule, min, "the core functions whose nil result the other rules read as success return an error on every failing edge of the module calls they test")
	var fs []*ssa.Function
	for _, n := range names {
		optional := strings.HasSuffix(n, "?")
		n = strings.TrimSuffix(n, "?")
		f := p.Func(NODE, "core", n)
		if f == nil {
			f = p.Func(NODE, "", n)
		}
		if f == nil {
			if !optional { // an optional helper may have been merged into its caller (which is in the list)
				r.Anchor(rule, "node."+n)
			}
			continue
		}
		fs = append(fs, withAnon(f)...)
	}
	n, _, nCls, _ := errPropFuncs(p, r, rule, fs, func(cf *types.Func, sf *ssa.Function) bool {
		if cf != nil && cf.Pkg() != nil && (cf.Pkg().Path() == modPath || strings.HasPrefix(cf.Pkg().Path(), modPath+"/")) {
			return true
		}
		return cf == nil && sf != nil && inModule(sf) // a local closure (checkPeers, checkEvents)
	}, "the caller takes the nil result for success")
	r.Note("%s: %d tested errors of module calls / local closures in %d functions (%d classified by the function)", rule, n, len(fs), nCls)
	// strict functions: an explicit nil is returned only when every module call made before it returned a nil error (no
	// branch on the KIND of error turns a failure into a success)
	for _, f := range fs {
		if !errPropStrict[f.Name()] {
			continue
		}
		for _, rp := range p.succRets(f, errNil, 0) {
			if !isNilConst(rp.val) {
				continue
			}
			at := ssa.Instruction(rp.ret)
			if rp.pred != nil && len(rp.pred.Instrs) > 0 {
				at = rp.pred.Instrs[len(rp.pred.Instrs)-1]
			}
			for _, b := range f.Blocks {
				for _, in := range b.Instrs {
					c, isC := in.(*ssa.Call)
					if !isC || !dominates(c, at) {
						continue
					}
					sf := c.Call.StaticCallee()
					if sf == nil || !inModule(sf) {
						continue
					}
					res := sf.Signature.Results()
					if res.Len() == 0 || !isErrorType(res.At(res.Len()-1).Type()) {
						continue
					}
					q := func(l Lit) bool {
						v, isNil, ok := nilTest(l)
						if !ok || !isNil {
							return false
						}
						cc, _ := callOf(unwrap(v))
						return cc == c
					}
					g, _ := p.holdsAtRet(rp, []Pred{q}, all(1))
					r.Check(g, rule, f.Name()+":nil-only-after-"+sf.Name()+"-succeeded", p.ipos(rp.ret), fnName(f), "an explicit nil result only when the call before it returned nil",
						"nil is returned at "+p.ipos(rp.ret)+" on a path on which "+sf.Name()+" may have failed (the kind of error was looked at, not whether there was one): the caller trims the pools / moves on as if the event had been inserted")
				}
			}
		}
	}
}

/* ---------- C10.follows: core.validators follows every recorded set (mutation scan) ---------- */

// validatorsFollowRule: in processAcceptedInternalTransactions, once Store.SetPeerSet(round, v) succeeded, every path to a
// success return stores that same v into core.validators (C10.latest checks that nothing ELSE is stored there; this is the
// converse: the field is not left behind, or the next accepted change is applied to a stale base and the sets diverge from
// the nodes that replay the same blocks).
func validatorsFollowRule(p *Prog, r *Report, rule string) {
	r.Rule(rule, 1, "after a successful SetPeerSet the recorded set is stored into core.validators on every path to a success return")
	fn := p.Func(NODE, "core", "processAcceptedInternalTransactions")
	fv := p.Field(NODE, "core", "validators")
	if fn == nil || fv == nil {
		r.Anchor(rule, "node.(*core).processAcceptedInternalTransactions / core.validators")
		return
	}
	n := 0
	for _, c := range callsIn(fn, storeM("SetPeerSet")) {
		n++
		v := lastArg(c)
		var sts []ssa.Instruction
		for _, st := range storesIntoField(fn, fv) {
			if unwrap(st.Val) == unwrap(v) || sameOrigin(st.Val, v) || flowsFrom(st.Val, func(x ssa.Value) bool { return x == v || unwrap(x) == unwrap(v) }) {
				sts = append(sts, st)
			}
		}
		ok, why := len(sts) > 0, ""
		if len(sts) == 0 {
			why = "the set passed to SetPeerSet is never stored into core.validators"
		}
		cv, _ := c.(ssa.Value)
		for _, rp := range p.succRets(fn, errNil, 0) {
			if !canFollow(c, rp.ret) {
				continue
			}
			// success returns reached after the call (the call's own failure leads to error returns)
			dom := false
			for _, st := range sts {
				if dominates(st, rp.ret) {
					dom = true
				}
			}
			if dom {
				continue
			}
			// paths that bypass the SetPeerSet call (nothing changed) are fine: require only that no path from the
			// call's success edge reaches the return without the store
			reached := false
			if cv != nil {
				stBlocks := map[*ssa.BasicBlock]bool{}
				for _, st := range sts {
					stBlocks[st.Block()] = true
				}
				forwardFrom(c.Block(), func(x *ssa.BasicBlock) bool {
					if stBlocks[x] {
						return false
					}
					if x == rp.ret.Block() {
						reached = true
						return false
					}
					return true
				})
				// the store may sit in the call's own block, after the call
				for _, st := range sts {
					if st.Block() == c.Block() {
						reached = false
					}
				}
			}
			if reached && !errorExitFromCall(c, rp.ret) {
				ok, why = false, "a success return ("+p.ipos(rp.ret)+") is reachable after SetPeerSet succeeded without core.validators having been set to the recorded set"
			}
		}
		r.Check(ok, rule, "processAcceptedInternalTransactions:validators-follow-the-recorded-set", p.ipos(c), fnName(fn), "core.validators = the set just recorded", why)
	}
	if n == 0 {
		r.Fail(rule, "processAcceptedInternalTransactions:SetPeerSet", p.pos(fn.Pos()), fnName(fn), "no Store.SetPeerSet call")
	}
}

// errorExitFromCall: the return is an error return (never a success): used to discount the failure branch of the call.
func errorExitFromCall(c ssa.CallInstruction, ret *ssa.Return) bool {
	n := len(ret.Results)
	if n == 0 || !isErrorType(ret.Results[n-1].Type()) {
		return false
	}
	for _, rp := range retPointsOf(ret, n-1) {
		if !neverNilErr(rp.val, 3) {
			return false
		}
	}
	return true
}

/* ---------- C17.answers: every request handler answers (mutation scan of node_rpc.go) ---------- */

// answersRule: each request handler of the node (processSyncRequest, processEagerSyncRequest, processFastForwardRequest,
// processJoinRequest) calls RPC.Respond on every path to its return: a request that was let through the gate is answered —
// with a response or with an error — never left to time out at the requester.
func answersRule(p *Prog, r *Report, rule string) {
	r.Rule(rule, 4, "every request handler calls rpc.Respond on every path to its return")
	for _, h := range []string{"processSyncRequest", "processEagerSyncRequest", "processFastForwardRequest", "processJoinRequest"} {
		fn := p.Func(NODE, "Node", h)
		if fn == nil {
			r.Anchor(rule, "node.(*Node)."+h)
			continue
		}
		var sites []ssa.CallInstruction
		for _, b := range fn.Blocks {
			for _, in := range b.Instrs {
				if ci, ok := in.(ssa.CallInstruction); ok {
					if f := calleeFunc(ci.Common()); f != nil && f.Name() == "Respond" && recvNamed(f) == "RPC" {
						sites = append(sites, ci)
					}
				}
			}
		}
		ok, why := len(sites) > 0, ""
		if len(sites) == 0 {
			why = h + " never calls rpc.Respond"
		}
		for _, b := range fn.Blocks {
			ret, isRet := b.Instrs[len(b.Instrs)-1].(*ssa.Return)
			if !isRet || (b.Index != 0 && len(b.Preds) == 0) {
				continue
			}
			dom := false
			for _, c := range sites {
				if _, isDefer := c.(*ssa.Defer); isDefer {
					if c.Block().Dominates(b) {
						dom = true
					}
					continue
				}
				if dominates(c, ret) {
					dom = true
				}
			}
			if !dom && len(sites) > 0 {
				// several Respond sites on alternative paths: no path entry -> ret avoids all of them
				avoid := map[*ssa.BasicBlock]bool{}
				for _, c := range sites {
					avoid[c.Block()] = true
				}
				reached := false
				if !avoid[fn.Blocks[0]] {
					if fn.Blocks[0] == b {
						reached = true
					}
					forwardFrom(fn.Blocks[0], func(x *ssa.BasicBlock) bool {
						if avoid[x] || reached {
							return false
						}
						if x == b {
							reached = true
							return false
						}
						return true
					})
				}
				if reached {
					ok, why = false, "the return at "+p.ipos(ret)+" can be reached without a call to rpc.Respond: the requester is left waiting until its timeout"
				}
			}
		}
		r.Check(ok, rule, h+":always-responds", p.pos(fn.Pos()), fnName(fn), "the request is answered on every path", why)
	}
}

func statesOf(p *Prog) map[string]int64 {
	m, _ := stateConsts(p)
	return m
}

/* ---------- C03.perevent / C01.perevent (seed C01g) ---------- */

// perEventRule: the consensus passes run after EVERY insertion. The first-descendant walk of InsertEvent reads what the
// passes have recorded (known finding F-C03-2): its result is exact only for the schedule the node uses — one full pass
// (DivideRounds, DecideFame, DecideRoundReceived, ProcessDecidedRounds, in that order) after each inserted event. Hence:
// Hashgraph.InsertEvent has no caller other than InsertEventAndRunConsensus, and every success return of
// InsertEventAndRunConsensus is preceded by the four passes in order.
func perEventRule(p *Prog, r *Report, rule string) {
	r.Rule(rule, 2, "one full consensus pass after every inserted event: InsertEvent is called only by InsertEventAndRunConsensus, which runs DivideRounds, DecideFame, DecideRoundReceived, ProcessDecidedRounds in order before every success return")
	ins := p.Func(HG, "Hashgraph", "InsertEvent")
	iar := p.Func(HG, "Hashgraph", "InsertEventAndRunConsensus")
	if ins == nil || iar == nil {
		r.Anchor(rule, "hashgraph.(*Hashgraph).InsertEvent / InsertEventAndRunConsensus")
		return
	}
	var bad []string
	for _, e := range cgCallers(p, ins) {
		cf := e.Caller.Func
		if !inModule(cf) || cf.Synthetic != "" {
			continue
		}
		root := cf
		for root.Parent() != nil {
			root = root.Parent()
		}
		if root != iar {
			bad = append(bad, fnName(cf)+"@"+p.ipos(e.Site))
		}
	}
	sort.Strings(bad)
	r.Check(len(bad) == 0, rule, "InsertEvent:callers", p.pos(ins.Pos()), fnName(ins), "called only by InsertEventAndRunConsensus", "Hashgraph.InsertEvent is also called from "+strings.Join(bad, ", ")+": an event inserted without the consensus pass that follows it changes what the next insertion's first-descendant walk sees (it reads the recorded witness flags, known finding F-C03-2), so strongly-see, fame and blocks come to depend on how the node received its events")
	passes := []string{"InsertEvent", "DivideRounds", "DecideFame", "DecideRoundReceived", "ProcessDecidedRounds"}
	isPass := map[string]bool{}
	for _, m := range passes {
		isPass[m] = true
	}
	// the sequence of pass calls that dominate a return of fn, helpers (module methods of Hashgraph that are not passes
	// themselves) expanded in place
	retAt := func(rp retPoint) ssa.Instruction {
		if rp.pred != nil && len(rp.pred.Instrs) > 0 {
			return rp.pred.Instrs[len(rp.pred.Instrs)-1]
		}
		return rp.ret
	}
	var seqBefore func(fn *ssa.Function, ret ssa.Instruction, depth int) []string
	seqBefore = func(fn *ssa.Function, ret ssa.Instruction, depth int) []string {
		var cs []ssa.CallInstruction
		for _, b := range fn.Blocks {
			for _, in := range b.Instrs {
				ci, isC := in.(ssa.CallInstruction)
				if !isC {
					continue
				}
				sf := ci.Common().StaticCallee()
				if sf == nil || !inModule(sf) || recvNamedSig(sf) != "Hashgraph" {
					continue
				}
				if dominates(ci, ret) {
					cs = append(cs, ci)
				}
			}
		}
		sort.SliceStable(cs, func(a, b int) bool { return dominates(cs[a], cs[b]) && cs[a] != cs[b] })
		var out []string
		for _, ci := range cs {
			sf := ci.Common().StaticCallee()
			name := sf.Name()
			if o, isF := sf.Object().(*types.Func); isF && o != nil {
				sn := shortName(o)
				name = sn[strings.LastIndex(sn, ".")+1:]
			}
			if isPass[name] {
				out = append(out, name)
				continue
			}
			if depth > 0 {
				// a helper: what it has run before each of ITS success returns (the weakest of them)
				var common []string
				first := true
				for _, rp := range p.succRets(sf, errNil, 0) {
					sq := seqBefore(sf, retAt(rp), depth-1)
					if first {
						common, first = sq, false
						continue
					}
					// keep the longest common prefix-subsequence (conservative)
					var keep []string
					k := 0
					for _, x := range common {
						for k < len(sq) && sq[k] != x {
							k++
						}
						if k < len(sq) {
							keep = append(keep, x)
							k++
						}
					}
					common = keep
				}
				out = append(out, common...)
			}
		}
		return out
	}
	succ := p.succRets(iar, errNil, 0)
	ok, why := len(succ) > 0, ""
	for _, rp := range succ {
		sq := seqBefore(iar, retAt(rp), 2)
		k := 0
		for _, x := range sq {
			if k < len(passes) && x == passes[k] {
				k++
			}
		}
		if k < len(passes) {
			ok, why = false, "a success return ("+p.ipos(rp.ret)+") is reached after ["+strings.Join(sq, ", ")+"]: "+passes[k]+" is missing (or out of order)"
		}
	}
	r.Check(ok, rule, "InsertEventAndRunConsensus:insert-then-four-passes-in-order", p.pos(iar.Pos()), fnName(iar), "insert, DivideRounds, DecideFame, DecideRoundReceived, ProcessDecidedRounds before every success return", why)
}

// sameGetterCall: two calls of the same parameterless method on the same receiver (x.Transactions() twice).
func sameGetterCall(a, b ssa.Value) bool {
	ca, _ := unwrap(a).(*ssa.Call)
	cb, _ := unwrap(b).(*ssa.Call)
	if ca == nil || cb == nil {
		return false
	}
	fa, fb := calleeFunc(ca.Common()), calleeFunc(cb.Common())
	if fa == nil || fa != fb || len(ca.Call.Args) != len(cb.Call.Args) {
		return false
	}
	ra, rb := recvOf(ca), recvOf(cb)
	if ra == nil || rb == nil {
		return false
	}
	if !(ra == rb || unwrap(ra) == unwrap(rb) || sameOrigin(ra, rb) || commonOrigin(ra, rb)) {
		return false
	}
	for i := range ca.Call.Args {
		if ca.Call.Args[i] != cb.Call.Args[i] && ca.Call.Args[i] != ra && cb.Call.Args[i] != rb {
			return false
		}
	}
	return true
}

/* ---------- C16.dberrs: the Badger store reports every failure it tests (mutation scan of badger_store.go) ---------- */

// dbErrRule: in the methods of BadgerStore (and the closures they hand to db.View / db.Update), when the error of ANY call —
// a transaction Set / Commit / Get, an item Value, an Unmarshal, another store method — is tested, every path from the
// failing edge ends in an error return, unless the function asks which error it is (key not found → cache miss …). A
// swallowed write error makes a lost record look stored (C16: exact, durable map; C11: what bootstrap replays is what was
// acknowledged); a swallowed read / decode error hands back a zero value as if it had been stored.
func dbErrRule(p *Prog, r *Report, rule string) {
	r.Rule(rule, 40, "every BadgerStore method returns an error on the failing edge of each error it tests (or classifies it first)")
	var fs []*ssa.Function
	for _, fn := range p.Mod {
		if fn.Synthetic != "" || fn.Parent() != nil {
			continue
		}
		if recvNamedSig(fn) == "BadgerStore" {
			fs = append(fs, withAnon(fn)...)
		}
	}
	sort.Slice(fs, func(i, j int) bool { return fs[i].String() < fs[j].String() })
	n, nEx, nCls, _ := errPropFuncs(p, r, rule, fs, func(cf *types.Func, sf *ssa.Function) bool {
		if cf != nil && recvNamed(cf) == "InmemStore" {
			return false // the cache in front of the database: a miss leads to the database reader (C16.readthrough)
		}
		return cf != nil || sf != nil
	},
		"a failed write looks stored, or a failed read / decode hands back a zero value as if it had been stored")
	r.Note("%s: %d tested errors in %d BadgerStore functions and closures (%d classified by the function, %d sites of the table absentIsAnAnswer)", rule, n, len(fs), nCls, nEx)
}

/* ---------- C07.knownkey (seed C07h): a participant is known by its full public key ---------- */

// knownKeyRule: ParticipantEventsCache.participantID — the function through which every per-creator lookup of the store
// (last event of a creator, its events by index) resolves the creator — succeeds only under a positive comma-ok lookup of
// the creator's key STRING in a ByPubKey map, and the id it returns is that peer's. Resolving by the 32-bit hash of the key
// lets an unknown key that collides with a validator's id (seconds of offline search) pass checkSelfParent as that validator
// and extend its chain.
func knownKeyRule(p *Prog, r *Report, rule string) {
	r.Rule(rule, 1, "ParticipantEventsCache.participantID succeeds only for a key found in ByPubKey (full public key), and returns that peer's id")
	fn := p.Func(HG, "ParticipantEventsCache", "participantID")
	if fn == nil {
		r.Anchor(rule, "hashgraph.(*ParticipantEventsCache).participantID")
		return
	}
	param := ssa.Value(fn.Params[len(fn.Params)-1])
	var lk *ssa.Lookup
	q := func(l Lit) bool {
		x, present, ok := lookupLit(l)
		if !ok || !present {
			return false
		}
		fv, _ := fieldOf(x.X)
		if fv == nil || refName(fv) != "ByPubKey" {
			return false
		}
		if !dependsOn(x.Index, func(v ssa.Value) bool { return v == param }) {
			return false
		}
		lk = x
		return true
	}
	n := 0
	for _, rp := range p.succRets(fn, errNil, 1) {
		n++
		g, _ := p.holdsAtRet(rp, []Pred{q}, all(1))
		okID := false
		for _, r0 := range retPointsOf(rp.ret, 0) {
			if rp.pred != nil && r0.pred != nil && r0.pred != rp.pred {
				continue
			}
			// the id of the peer found: Peer.ID() on the looked-up value (or its id field)
			if dependsOn(r0.val, func(v ssa.Value) bool {
				e, ok := v.(*ssa.Extract)
				return ok && lk != nil && e.Tuple == ssa.Value(lk)
			}) {
				okID = true
			}
		}
		r.Check(g && okID, rule, "participantID:success-only-for-a-key-in-ByPubKey", p.ipos(rp.ret), fnName(fn), "known participant = full public key found in ByPubKey; the id returned is that peer's",
			fmt.Sprintf("participantID can succeed without a positive lookup of the key string in a ByPubKey map (%v), or returns an id not taken from the peer found (%v): a creator is then 'known' by the 32-bit hash of its key, and a colliding foreign key is admitted into a validator's chain", g, okID))
	}
	if n == 0 {
		r.Fail(rule, "participantID:success-returns", p.pos(fn.Pos()), fnName(fn), "no success return found")
	}
}

/* ---------- C05.everytx (seed C05h): every submitted transaction enters the pool ---------- */

// everyTxRule: core.addTransactions puts EVERY element of its argument into the transaction pool: either the whole slice is
// appended on every path to the return, or a loop over the argument appends each element on every iteration (no filter —
// "already pending", "empty", "too large": a transaction acknowledged to the submitter and then dropped is lost, and two
// identical submissions are two transactions).
func everyTxRule(p *Prog, r *Report, rule string) {
	r.Rule(rule, 1, "core.addTransactions appends every submitted transaction to the pool (whole-slice append on every path, or a total loop)")
	fn := p.Func(NODE, "core", "addTransactions")
	fPool := p.Field(NODE, "core", "transactionPool")
	if fn == nil || fPool == nil || len(fn.Params) < 2 {
		r.Anchor(rule, "node.(*core).addTransactions / core.transactionPool")
		return
	}
	param := ssa.Value(fn.Params[len(fn.Params)-1])
	fromParam := func(v ssa.Value) bool { return flowsFrom(v, func(x ssa.Value) bool { return x == param }) }
	whole := false
	for _, st := range storesIntoField(fn, fPool) {
		c, isC := unwrap(st.Val).(*ssa.Call)
		if !isC {
			continue
		}
		if bi, isB := c.Call.Value.(*ssa.Builtin); !isB || bi.Name() != "append" || len(c.Call.Args) != 2 {
			continue
		}
		if fromParam(c.Call.Args[1]) {
			// the whole argument: must happen on every path to every return
			all := true
			for _, b := range fn.Blocks {
				if ret, isRet := b.Instrs[len(b.Instrs)-1].(*ssa.Return); isRet && (b.Index == 0 || len(b.Preds) > 0) {
					if !dominates(st, ret) {
						all = false
					}
				}
			}
			if all {
				whole = true
			}
		}
	}
	if whole {
		r.Check(true, rule, "addTransactions:every-transaction-appended", p.pos(fn.Pos()), fnName(fn), "the whole argument is appended on every path", "")
		return
	}
	// element by element
	loops := naturalLoops(fn)
	ok, why, n := true, "", 0
	for _, lp := range loops {
		src, okS := loopSourceOf(fn, lp)
		if !okS || src == nil || !fromParam(src) {
			continue
		}
		var acc []ssa.Instruction
		for _, a := range accumulators(lp) {
			// stores into the pool field inside the loop count as accumulation as well
			acc = append(acc, a)
		}
		for b := range lp.body {
			for _, in := range b.Instrs {
				if st, isSt := in.(*ssa.Store); isSt {
					if f, _ := fieldOf(st.Addr); f == fPool {
						acc = append(acc, in)
					} else if fa, isFA := st.Addr.(*ssa.FieldAddr); isFA && fieldVar(fa.X.Type(), fa.Field) == fPool {
						acc = append(acc, in)
					}
				}
			}
		}
		if len(acc) == 0 {
			continue
		}
		n++
		if bad := p.skippedIteration(lp, acc); bad != "" {
			ok, why = false, "in the loop over the submitted transactions "+bad+": a transaction that was acknowledged to its submitter is not queued"
		}
	}
	if n == 0 {
		ok, why = false, "addTransactions neither appends its whole argument on every path nor loops over it appending each element"
	}
	r.Check(ok, rule, "addTransactions:every-transaction-appended", p.pos(fn.Pos()), fnName(fn), "each submitted transaction is appended", why)
}

/* ---------- C10.commitreceipts / C11.commitreceipts (seed C11h) ---------- */

// commitReceiptsRule: every success return of core.commit has handed the application's receipts for that block to
// processAcceptedInternalTransactions(block.RoundReceived(), receipts): no mode of the node (maintenance, replay, …) skips
// it. The validator-set history is rebuilt ONLY this way when a database is replayed — Bootstrap reads peer-set 0 and nothing
// else —, so a skipped call leaves the replaying node with the genesis set for ever.
func commitReceiptsRule(p *Prog, r *Report, rule string) {
	r.Rule(rule, 1, "every success return of core.commit is preceded by processAcceptedInternalTransactions(block.RoundReceived(), the application's receipts)")
	fn := p.Func(NODE, "core", "commit")
	if fn == nil {
		r.Anchor(rule, "node.(*core).commit")
		return
	}
	var sites []ssa.CallInstruction
	for _, c := range callsIn(fn, named(NODE+".core.processAcceptedInternalTransactions")) {
		if flowsFromCall(argN(c, 0), named(HG+".Block.RoundReceived"), 0) && (depOnField(argN(c, 1), "InternalTransactionReceipts") || depOnCall(argN(c, 1), named(HG+".Block.InternalTransactionReceipts"))) {
			sites = append(sites, c)
		}
	}
	ok, why := len(sites) > 0, ""
	if len(sites) == 0 {
		why = "core.commit does not call processAcceptedInternalTransactions with the block's round and the application's receipts"
	}
	nonNilOnEdge := func(pred, blk *ssa.BasicBlock, v ssa.Value) bool {
		if l, okL := edgeLit(pred, blk); okL {
			if x, isNil, okN := nilTest(l); okN && !isNil && (x == v || unwrap(x) == unwrap(v)) {
				return true
			}
		}
		// the test sits on the single-predecessor chain above pred (or pred's own entry edge)
		if isNil, known := knownNilOnEdge(pred, v); known && !isNil {
			return true
		}
		return false
	}
	for _, rp := range p.succRets(fn, errNil, 0) {
		// the points from which the return is entered with a possibly-nil error
		var ats []ssa.Instruction
		blk := rp.ret.Block()
		switch {
		case rp.pred != nil:
			if !nonNilOnEdge(rp.pred, blk, rp.val) {
				ats = append(ats, rp.pred.Instrs[len(rp.pred.Instrs)-1])
			}
		case len(blk.Preds) > 1:
			for _, pr := range blk.Preds {
				if !nonNilOnEdge(pr, blk, rp.val) {
					ats = append(ats, pr.Instrs[len(pr.Instrs)-1])
				}
			}
		default:
			ats = append(ats, rp.ret)
		}
		for _, at := range ats {
			dom := false
			for _, c := range sites {
				if dominates(c, at) {
					dom = true
				}
			}
			if !dom && len(sites) > 0 {
				ok, why = false, "a success return of core.commit ("+p.ipos(rp.ret)+") is reached without processAcceptedInternalTransactions: in that mode the node never records the validator-set changes of the blocks it commits (on a replayed database: the genesis set for ever)"
			}
		}
	}
	r.Check(ok, rule, "commit:receipts-always-processed", p.pos(fn.Pos()), fnName(fn), "receipts processed before every success return", why)
}

/* ---------- C02.handed (seed C02h): every block that reaches core.commit is handed to the application ---------- */

// handedRule: core.commit invokes the application's commit callback (the function value in core.proxyCommitCallback) before
// every return: no node-local condition (a high-water mark, a mode) withholds a block the hashgraph produced. The hashgraph
// numbers blocks consecutively from the last stored one; a block that is created and stored but not handed over leaves a
// hole in what the application sees, and a block record without state hash, receipts and own signature.
func handedRule(p *Prog, r *Report, rule string) {
	r.Rule(rule, 1, "core.commit calls the application's commit callback before every return")
	fn := p.Func(NODE, "core", "commit")
	fCb := p.Field(NODE, "core", "proxyCommitCallback")
	if fn == nil || fCb == nil {
		r.Anchor(rule, "node.(*core).commit / core.proxyCommitCallback")
		return
	}
	var sites []ssa.CallInstruction
	for _, b := range fn.Blocks {
		for _, in := range b.Instrs {
			if ci, ok := in.(ssa.CallInstruction); ok && dynCallThroughField(ci, fCb) {
				sites = append(sites, ci)
			}
		}
	}
	ok, why := len(sites) > 0, ""
	if len(sites) == 0 {
		why = "core.commit never calls proxyCommitCallback"
	}
	for _, b := range fn.Blocks {
		ret, isRet := b.Instrs[len(b.Instrs)-1].(*ssa.Return)
		if !isRet || (b.Index != 0 && len(b.Preds) == 0) {
			continue
		}
		dom := false
		for _, c := range sites {
			if dominates(c, ret) {
				dom = true
			}
		}
		if !dom && len(sites) > 0 {
			ok, why = false, "the return at "+p.ipos(ret)+" is reached without the application having been handed the block: a block the hashgraph created and stored is withheld from the application (a hole in the delivered sequence)"
		}
	}
	r.Check(ok, rule, "commit:block-always-handed-to-the-application", p.pos(fn.Pos()), fnName(fn), "the commit callback runs before every return", why)
	// … and at most once: no call of the callback can follow another one (a retry after an error hands the block to an
	// application that may already have applied it — the acknowledgement, not the block, was lost)
	twice := ""
	for _, c1 := range sites {
		for _, c2 := range sites {
			if canFollow(c1, c2) {
				twice = p.ipos(c2) + " after " + p.ipos(c1)
			}
		}
	}
	r.Check(twice == "", rule, "commit:block-handed-at-most-once", p.pos(fn.Pos()), fnName(fn), "one invocation of the commit callback per block", "the commit callback can be invoked again ("+twice+") for the same block: an application that applied the block but whose answer was lost or late applies every transaction of the block a second time")
}

/* ---------- C11.norefusal (seed C11i): Bootstrap refuses a database only when a callee reported a failure ---------- */

// noRefusalRule: every non-nil error Hashgraph.Bootstrap returns is (or wraps) an error one of its callees returned — a
// database read, an insertion, the signature pool. Bootstrap itself makes no acceptance decision about the database it
// replays: the events in it were admitted by InsertEvent when they were first inserted and are admitted by it again. A check
// of its own (against the repertoire known so far, against a size, against a version …) turns a healthy database into one the
// node can no longer restart from.
func noRefusalRule(p *Prog, r *Report, rule string) {
	r.Rule(rule, 1, "every error returned by Hashgraph.Bootstrap comes from a callee's error result (wrapped or not)")
	fn := p.Func(HG, "Hashgraph", "Bootstrap")
	if fn == nil {
		r.Anchor(rule, "hashgraph.(*Hashgraph).Bootstrap")
		return
	}
	var fromCallee func(v ssa.Value, depth int) bool
	fromCallee = func(v ssa.Value, depth int) bool {
		if depth > 6 {
			return false
		}
		v = unwrap(v)
		switch x := v.(type) {
		case *ssa.Const:
			return x.Value == nil
		case *ssa.Phi:
			for _, e := range x.Edges {
				if !fromCallee(e, depth+1) {
					return false
				}
			}
			return true
		case *ssa.Extract:
			_, isCall := x.Tuple.(*ssa.Call)
			return isCall && isErrorType(x.Type())
		case *ssa.Call:
			f := calleeFunc(x.Common())
			if f != nil {
				switch shortName(f) {
				case "fmt.Errorf", "errors.New", "errors.Wrap", "errors.Wrapf":
					for _, a := range x.Call.Args {
						if dependsOn(a, func(y ssa.Value) bool {
							if y == ssa.Value(x) {
								return false
							}
							return isErrorType(y.Type()) && fromCallee(y, depth+1) && !isNilConst(y)
						}) {
							return true
						}
					}
					return false
				}
			}
			return isErrorType(x.Type())
		case *ssa.UnOp:
			// a result temporary / local error variable: every value stored into it
			if al, ok := x.X.(*ssa.Alloc); ok {
				okAll, n := true, 0
				if refs := al.Referrers(); refs != nil {
					for _, u := range *refs {
						if st, isSt := u.(*ssa.Store); isSt && st.Addr == ssa.Value(al) {
							n++
							if !fromCallee(st.Val, depth+1) {
								okAll = false
							}
						}
					}
				}
				return okAll && n > 0
			}
		case *ssa.MakeInterface:
			return false
		}
		return false
	}
	ok, why, n := true, "", 0
	for _, g := range withAnon(fn) {
		if g != fn {
			continue // deferred closures do not return Bootstrap's error
		}
		for _, b := range g.Blocks {
			ret, isRet := b.Instrs[len(b.Instrs)-1].(*ssa.Return)
			if !isRet || (b.Index != 0 && len(b.Preds) == 0) || len(ret.Results) == 0 {
				continue
			}
			n++
			for _, rp := range retPointsOf(ret, len(ret.Results)-1) {
				if !fromCallee(rp.val, 0) {
					ok, why = false, "the error returned at "+p.ipos(ret)+" is made up by Bootstrap itself (it is not an error a callee returned): a check of Bootstrap's own can refuse a database that the insertion path would replay without complaint"
				}
			}
		}
	}
	r.Check(ok && n > 0, rule, "Bootstrap:errors-come-from-callees", p.pos(fn.Pos()), fnName(fn), "no refusal of its own", why)
}

/* ---------- C13.consensusevents (seed C13i) ---------- */

// consensusEventsRule: ProcessDecidedRounds records EVERY event of every processed round as a consensus event
// (Store.AddConsensusEvent in a total loop over frame.Events), whether or not the round yields a block. The roots of later
// frames for creators that have gone silent are taken from this record (LastConsensusEventFrom); a round left out of it
// gives every later frame a stale root — the same on all full nodes, so the hashes verify — and a node that is reset from such
// a frame is sent the missing events again and receives them in a later round.
func consensusEventsRule(p *Prog, r *Report, rule string) {
	r.Rule(rule, 1, "ProcessDecidedRounds calls Store.AddConsensusEvent for every event of every processed frame, under no condition on the round's payload")
	fn := p.Func(HG, "Hashgraph", "ProcessDecidedRounds")
	if fn == nil {
		r.Anchor(rule, "hashgraph.(*Hashgraph).ProcessDecidedRounds")
		return
	}
	loops := naturalLoops(fn)
	n := 0
	for _, c := range callsIn(fn, storeM("AddConsensusEvent")) {
		n++
		lp := innermostLoop(loops, c.Block())
		ok, why := true, ""
		if lp == nil {
			ok, why = false, "AddConsensusEvent is not called in a loop over the frame's events"
		} else {
			src, _ := loopSourceOf(fn, lp)
			if src == nil || !flowsFromField(src, "Events") {
				ok, why = false, "the loop around AddConsensusEvent does not range over frame.Events"
			}
			if bad := p.skippedIteration(lp, []ssa.Instruction{c}); bad != "" {
				ok, why = false, "in the loop over the frame's events "+bad
			}
			// conditions between the frame and the loop: only the error tests, the Decided flag and the emptiness of the frame
			for _, l := range p.Facts(fn).At(lp.head) {
				if _, _, isNilT := nilTest(l); isNilT {
					continue
				}
				if depOnField(l.V, "Decided") {
					continue
				}
				allowed := false
				if bo, isB := l.V.(*ssa.BinOp); isB {
					for _, side := range []ssa.Value{bo.X, bo.Y} {
						if lv, isLen := isLenOf(unwrap(side)); isLen && flowsFromField(lv, "Events") {
							allowed = true
						}
					}
				}
				// the range conditions of the enclosing loop over the pending rounds
				if in, isIn := l.V.(ssa.Instruction); isIn {
					for _, ol := range loops {
						if ol != lp && ol.body[lp.head] && in.Block() == ol.head {
							allowed = true
						}
					}
				}
				if !allowed {
					ok, why = false, "the loop that records consensus events runs only under the condition at "+p.ipos(l.V.(ssa.Instruction))+" (not an error test, the round's Decided flag or the emptiness of the frame): the events of some processed rounds are not recorded"
				}
			}
		}
		r.Check(ok, rule, "ProcessDecidedRounds:every-frame-event-recorded", p.ipos(c), fnName(fn), "every event of every processed frame is recorded as a consensus event", why)
	}
	if n == 0 {
		r.Fail(rule, "ProcessDecidedRounds:AddConsensusEvent", p.pos(fn.Pos()), fnName(fn), "ProcessDecidedRounds does not call Store.AddConsensusEvent")
	}
}

/* ---------- C20.replyintact (seed C20j) ---------- */

// replyIntactRule: in the methods of the two socket proxy clients, the reply variable filled by the RPC is returned as it
// came: no store into it (or into a field of it) after it was handed to `call` — no truncation, defaulting or normalisation
// of what the other side answered.
func replyIntactRule(p *Prog, r *Report, rule string) {
	r.Rule(rule, 4, "the socket proxy clients do not write into the reply of an RPC after the call")
	n := 0
	for _, fn := range p.Mod {
		if fn.Synthetic != "" || fn.Parent() != nil {
			continue
		}
		rn := recvNamedSig(fn)
		if rn != "SocketAppProxyClient" && rn != "SocketBabbleProxyClient" {
			continue
		}
		for _, c := range callsIn(fn, func(f *types.Func) bool { return f.Name() == "call" }) {
			args := c.Common().Args
			if len(args) == 0 {
				continue
			}
			reply := unwrap(args[len(args)-1])
			if mi, ok := reply.(*ssa.MakeInterface); ok {
				reply = unwrap(mi.X)
			}
			al, ok := reply.(*ssa.Alloc)
			if !ok {
				continue
			}
			n++
			bad := ""
			for _, b := range fn.Blocks {
				for _, in := range b.Instrs {
					st, isSt := in.(*ssa.Store)
					if !isSt || !canFollow(c, st) {
						continue
					}
					base := st.Addr
					for {
						if fa, isFA := base.(*ssa.FieldAddr); isFA {
							base = fa.X
							continue
						}
						if ia, isIA := base.(*ssa.IndexAddr); isIA {
							base = ia.X
							continue
						}
						break
					}
					if base == ssa.Value(al) {
						bad = p.ipos(st)
					}
				}
			}
			r.Check(bad == "", rule, fn.Name()+":reply-returned-as-received", p.ipos(c), fnName(fn), "the reply is not modified after the call", "the reply of the RPC is written into at "+bad+" after the call: what Babble receives is no longer what the application answered (receipts truncated, fields defaulted …)")
		}
	}
	if n == 0 {
		r.Fail(rule, "socket-clients:calls", "-", "", "no RPC call with a local reply variable found in the socket proxy clients")
	}
}
