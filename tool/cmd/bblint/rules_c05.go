package main

import (
	"fmt"
	"go/types"
	"strings"

	"golang.org/x/tools/go/ssa"
)

func init() {
	register(&propDef{
		ID: "C05", NeedCG: true,
		Meta: propMeta{Level: "other", Assumptions: commonAssumptions,
			Explanation: "Decides: C05.trim (in core.addSelfEvent each pool is handed to NewEvent as loaded, trimmed by exactly the length captured before the insertion and only on the path where the insertion returned nil; the signature pool removes exactly the slice handed over), " +
				"C05.writers (only addTransactions / addInternalTransaction append to the pools, only addSelfEvent trims them), C05.resubmit (the socket client used by applications to submit transactions never re-sends a request it merely stopped waiting for: no timer-bounded wait in its retry loop — a slow node would queue both copies), C05.copy (InmemProxy.SubmitTx queues a fresh copy, never the caller's slice), " +
				"C05.lock (every call site of a pool writer or core mutator reachable from a concurrent root executes with Node.coreLock held, directly or because every caller holds it), " +
				"C05.once (shared with C02.once: a committed round is never processed again, so its transactions are not committed a second time). NOT decided: exactly-once across the network, byte identity from submission to block (properties of histories)."},
		Rules: []ruleFunc{c05trim, c05writers, c05copy, c05lock, func(p *Prog, r *Report) { onceRule(p, r, "C05.once") }, c05resubmit},
	})
}

func c05trim(p *Prog, r *Report) {
	const rule = "C05.trim"
	r.Rule(rule, 3, "pools trimmed by the counts captured before insertion, only after the self-event was inserted")
	fn := p.Func(NODE, "core", "addSelfEvent")
	if fn == nil {
		r.Anchor(rule, "node.(*core).addSelfEvent")
		return
	}
	newEv := callsIn(fn, named(HG+".NewEvent"))
	ins := callsIn(fn, named(NODE+".core.signAndInsertSelfEvent", NODE+".core.insertEventAndRunConsensus"))
	if len(newEv) != 1 || len(ins) != 1 {
		r.Fail(rule, "addSelfEvent:shape", p.pos(fn.Pos()), fnName(fn), fmt.Sprintf("expected one NewEvent and one insertion call, found %d and %d", len(newEv), len(ins)))
		return
	}
	ne, in := newEv[0], ins[0]
	inCall := in.(*ssa.Call)
	qInserted := func(l Lit) bool {
		v, isNil, ok := nilTest(l)
		if !ok || !isNil {
			return false
		}
		c, _ := callOf(v)
		return c == inCall
	}
	// the event inserted is the one built
	r.Check(sameOrigin(argN(in, 0), ne.Value()) || depOnValue(argN(in, 0), ne.Value()), rule, "addSelfEvent:insert(NewEvent)", p.ipos(in), fnName(fn), "the event built from the pools is the one inserted", "the inserted event is not the one built from the pools")
	for i, pool := range []string{"transactionPool", "internalTransactionPool"} {
		f := p.Field(NODE, "core", pool)
		if f == nil {
			r.Anchor(rule, "core."+pool)
			continue
		}
		handed := argN(ne, i)
		// the WHOLE pool is handed over: every source of the value is the pool field itself (a prefix /
		// a filtered copy on some path would leave items that the trim by len(pool) then drops unplaced)
		okHand := handed != nil && flowsFrom(handed, func(x ssa.Value) bool { fv, _ := fieldOf(x); return fv == f }) &&
			allSources(handed, func(x ssa.Value) bool { fv, _ := fieldOf(x); return fv == f })
		var stores []*FieldWrite
		for _, w := range p.writersOf(f) {
			if w.Fn == fn {
				stores = append(stores, w)
			}
		}
		ok := okHand && len(stores) == 1
		detail := ""
		if !okHand {
			detail = "NewEvent is not handed the pool itself on every path (a prefix or a copy of part of it: the items left out are trimmed away with the rest and never placed in an event)"
		} else if len(stores) != 1 {
			detail = fmt.Sprintf("expected exactly one trim store, found %d", len(stores))
		}
		if ok {
			w := stores[0]
			sl, isSl := unwrap(w.Val).(*ssa.Slice)
			if !isSl || sl.High != nil || sl.Low == nil {
				ok = false
				detail = "the pool is not trimmed with pool[k:]"
			} else {
				if fv, _ := fieldOf(sl.X); fv != f {
					ok = false
					detail = "the trimmed slice is not the pool"
				}
				base, isLen := isLenOf(resolveLocalValue(sl.Low))
				// the moment the count was fixed: the load of the pool whose length is taken (the len
				// itself may be evaluated later, on that captured slice value)
				var lenIn ssa.Instruction
				if isLen {
					flowsFromLocal(base, func(x ssa.Value) bool {
						if fv, _ := fieldOf(x); fv == f {
							if xi, isIn := x.(ssa.Instruction); isIn {
								lenIn = xi
							}
							return true
						}
						return false
					})
				}
				if !isLen {
					ok = false
					detail = "the trim count is not len(pool)"
				} else if lenIn == nil {
					ok = false
					detail = "the trim count is the length of something else than the pool"
				} else {
					if !dominates(lenIn, in) {
						ok = false
						detail = "the trim count is captured after the insertion (items added by the commit callback during insertion would be dropped)"
					}
					// nothing between the capture and the hand-over (in either order) can write the pool
					first, second := lenIn, ssa.Instruction(ne)
					if ok && !dominates(lenIn, ne) {
						if dominates(ne, lenIn) {
							first, second = ne, lenIn
						} else {
							ok = false
							detail = "the pool is handed to NewEvent on a path on which its length was not captured"
						}
					}
					if ok {
						if wr := p.poolWrittenBetween(first, second, f); wr != "" {
							ok = false
							detail = "the pool can be written between len(pool) and the hand-over to NewEvent: " + wr
						}
					}
				}
				if g, _ := p.allPaths(w.Instr, []Pred{qInserted}, all(1)); !g {
					ok = false
					detail = "the pool is trimmed although the insertion may have failed (transactions would be dropped)"
				}
			}
		}
		r.Check(ok, rule, "addSelfEvent:"+pool, p.pos(fn.Pos()), fnName(fn), "handed over as loaded; trimmed by the pre-insertion length; only after a successful insertion", detail)
	}
	// signature pool
	rs := callsIn(fn, named(HG+".SigPool.RemoveSlice"))
	okSig := len(rs) == 1
	detail := "expected one SigPool.RemoveSlice"
	if okSig {
		a := argN(rs[0], 0)
		handed := argN(ne, 2)
		if !(sameOrigin(a, handed) || unwrap(a) == unwrap(handed) || commonOrigin(a, handed)) {
			okSig = false
			detail = "the signatures removed are not the slice handed to NewEvent"
		}
		if g, _ := p.allPaths(rs[0], []Pred{qInserted}, all(1)); !g {
			okSig = false
			detail = "signatures removed although the insertion may have failed"
		}
		if !flowsFromCall(handed, named(HG+".SigPool.Slice"), 0) {
			okSig = false
			detail = "the signatures handed over do not come from selfBlockSignatures.Slice()"
		}
	}
	r.Check(okSig, rule, "addSelfEvent:selfBlockSignatures", p.pos(fn.Pos()), fnName(fn), "exactly the signatures handed over are removed, after a successful insertion", detail)
}

// poolWrittenBetween: is there an instruction strictly between a and b (same block, or blocks on the way) that may write field f?
func (p *Prog) poolWrittenBetween(a, b ssa.Instruction, f *types.Var) string {
	if a.Block() != b.Block() {
		return "" // different blocks: dominance was checked; intermediate calls are examined only within the block
	}
	on := false
	for _, in := range a.Block().Instrs {
		if in == a {
			on = true
			continue
		}
		if in == b {
			break
		}
		if !on {
			continue
		}
		if ci, ok := in.(ssa.CallInstruction); ok {
			if _, isB := ci.Common().Value.(*ssa.Builtin); isB {
				continue
			}
			var roots []*ssa.Function
			if sf := ci.Common().StaticCallee(); sf != nil {
				roots = append(roots, sf)
			} else if n := p.CG.Nodes[a.Parent()]; n != nil {
				for _, e := range n.Out {
					if e.Site == ci {
						roots = append(roots, e.Callee.Func)
					}
				}
			}
			set := p.reach(roots, nil)
			for _, w := range p.writersOf(f) {
				if set[w.Fn] {
					return fnName(w.Fn) + " via " + p.ipos(in)
				}
			}
		}
	}
	return ""
}

func c05writers(p *Prog, r *Report) {
	const rule = "C05.writers"
	r.Rule(rule, 3, "writers of the pools: transactionPool {newCore, addTransactions (append), addSelfEvent (trim)}; internalTransactionPool {newCore, addInternalTransaction, addSelfEvent}; addTransactions / addInternalTransaction append their argument unchanged")
	for pool, app := range map[string]string{"transactionPool": "addTransactions", "internalTransactionPool": "addInternalTransaction"} {
		f := p.Field(NODE, "core", pool)
		if f == nil {
			r.Anchor(rule, "core."+pool)
			continue
		}
		var bad []string
		n := 0
		for _, w := range p.writersOf(f) {
			n++
			wf := w.Fn
			for wf.Parent() != nil { // a closure (e.g. a deferred append) belongs to the function that creates it
				wf = wf.Parent()
			}
			name := wf.Name()
			switch {
			case w.Fresh && name == "newCore":
			case name == app:
				// value = append(load pool, param...)
				c, _ := unwrap(w.Val).(*ssa.Call)
				ok := false
				if c != nil {
					if bi, isB := c.Call.Value.(*ssa.Builtin); isB && bi.Name() == "append" && len(c.Call.Args) == 2 {
						fv, _ := fieldOf(c.Call.Args[0])
						ok = fv == f && dependsOn(c.Call.Args[1], func(x ssa.Value) bool {
							if _, isP := x.(*ssa.Parameter); isP {
								return true
							}
							if fvr, isFV := x.(*ssa.FreeVar); isFV {
								if bnd := freeVarBinding(fvr); bnd != nil {
									return dependsOn(bnd, func(y ssa.Value) bool { _, isP := y.(*ssa.Parameter); return isP }) || func() bool { al, isAl := bnd.(*ssa.Alloc); return isAl && al.Comment != "" }()
								}
							}
							return false
						})
					}
				}
				r.Check(ok, rule, app+":append(pool, arg)", p.ipos(w.Instr), fnName(w.Fn), "appends its argument to the pool", app+" does not append its argument to "+pool)
			case name == "addSelfEvent":
			default:
				bad = append(bad, fnName(w.Fn)+"@"+p.ipos(w.Instr))
			}
		}
		r.Check(len(bad) == 0 && n >= 3, rule, "core."+pool+":writers", "-", "", fmt.Sprintf("%d writes, all in newCore/%s/addSelfEvent", n, app), "unexpected writer of core."+pool+": "+strings.Join(bad, ", "))
	}
}

func c05copy(p *Prog, r *Report) { submitCopyRule(p, r, "C05.copy") }

func submitCopyRule(p *Prog, r *Report, rule string) {
	r.Rule(rule, 1, "InmemProxy.SubmitTx sends a slice made in the function and filled by copy(_, tx), never the parameter")
	fn := p.Func("src/proxy/inmem", "InmemProxy", "SubmitTx")
	if fn == nil {
		r.Anchor(rule, "inmem.(*InmemProxy).SubmitTx")
		return
	}
	n := 0
	for _, b := range fn.Blocks {
		for _, in := range b.Instrs {
			s, ok := in.(*ssa.Send)
			if !ok {
				continue
			}
			n++
			fresh := flowsFrom(s.X, func(x ssa.Value) bool { _, isMk := x.(*ssa.MakeSlice); return isMk })
			notParam := !flowsFrom(s.X, func(x ssa.Value) bool { _, isP := x.(*ssa.Parameter); return isP })
			copied := false
			for _, b2 := range fn.Blocks {
				for _, in2 := range b2.Instrs {
					if c, ok := in2.(*ssa.Call); ok {
						if bi, isB := c.Call.Value.(*ssa.Builtin); isB && bi.Name() == "copy" && len(c.Call.Args) == 2 {
							srcIsParam := isParam(c.Call.Args[1], fn, 1) || (len(fn.Params) > 1 && flowsFromLocal(c.Call.Args[1], func(x ssa.Value) bool { return x == ssa.Value(fn.Params[1]) }))
							if (unwrap(c.Call.Args[0]) == unwrap(s.X) || commonOrigin(c.Call.Args[0], s.X)) && srcIsParam && dominates(c, s) {
								copied = true
							}
						}
					}
				}
			}
			if !(fresh && notParam && copied) && len(fn.Params) > 1 && freshCopyOf(s.X, fn.Params[1]) {
				fresh, notParam, copied = true, true, true
			}
			r.Check(fresh && notParam && copied, rule, "InmemProxy.SubmitTx:send-copy", p.ipos(in), fnName(fn), "the queued slice is a private copy", fmt.Sprintf("the transaction queued is not a fresh copy of the argument (fresh=%v notParam=%v copied=%v): the caller can modify it after submission", fresh, notParam, copied))
		}
	}
	if n == 0 {
		r.Fail(rule, "InmemProxy.SubmitTx:send", p.pos(fn.Pos()), fnName(fn), "no channel send found")
	}
}

/* ---------- lock context ---------- */

// lockHeldAt: must-analysis — is a mutex Lock()'ed on every path to instruction at
// (and not Unlock()'ed since)? Lock identity: sync.Mutex / sync.RWMutex / sync.Locker methods on
// the field core lock of Node, or on a Locker parameter.
func (p *Prog) lockHeldAt(at ssa.Instruction, isLock func(ssa.Value) bool) bool {
	fn := at.Parent()
	nb := len(fn.Blocks)
	in := make([]int, nb) // -1 top, 0 not held, 1 held
	for i := range in {
		in[i] = -1
	}
	in[0] = 0
	lockOp := func(i ssa.Instruction) int { // 1 lock, 2 unlock, 0 none
		c, ok := i.(*ssa.Call)
		if !ok {
			return 0
		}
		f := calleeFunc(c.Common())
		if f == nil || f.Pkg() == nil || f.Pkg().Path() != "sync" {
			return 0
		}
		rv := recvOf(c)
		if rv == nil || !isLock(rv) {
			return 0
		}
		switch f.Name() {
		case "Lock":
			return 1
		case "Unlock":
			return 2
		}
		return 0
	}
	transfer := func(b *ssa.BasicBlock, st int, stop ssa.Instruction) int {
		for _, i := range b.Instrs {
			if i == stop {
				return st
			}
			switch lockOp(i) {
			case 1:
				st = 1
			case 2:
				st = 0
			}
		}
		return st
	}
	changed := true
	for changed {
		changed = false
		for _, b := range fn.Blocks {
			if in[b.Index] == -1 {
				continue
			}
			out := transfer(b, in[b.Index], nil)
			for _, s := range b.Succs {
				nv := out
				if in[s.Index] != -1 && in[s.Index] < nv {
					nv = in[s.Index]
				}
				if in[s.Index] == -1 || nv != in[s.Index] {
					if in[s.Index] != nv {
						in[s.Index] = nv
						changed = true
					}
				}
			}
		}
	}
	if in[at.Block().Index] == -1 {
		return true // unreachable
	}
	return transfer(at.Block(), in[at.Block().Index], at) == 1
}

func c05lock(p *Prog, r *Report) {
	lockRule(p, r, "C05.lock", named(NODE+".core.addTransactions", NODE+".core.addInternalTransaction", NODE+".core.sync", NODE+".core.addSelfEvent",
		NODE+".core.processSigPool", NODE+".core.fastForward", NODE+".core.recordHeads"), 10,
		"every call site of a pool writer / core mutator (addTransactions, addInternalTransaction, sync, addSelfEvent, processSigPool, fastForward, recordHeads) reachable from a concurrent root holds Node.coreLock, in the calling function or in every caller (closure over callers, depth 4)",
		"it writes state (pools, promises map, hashgraph) that RPC handlers and gossip routines access under the lock — lost update or fatal concurrent map write", true)
}

// lockRule: every call site of the target core methods holds Node.coreLock (in the calling function or in every caller).
func lockRule(p *Prog, r *Report, rule string, targets fnMatch, min int, descr, consequence string, lockerArgs bool) {
	r.Rule(rule, min, descr)
	fLock := p.Field(NODE, "Node", "coreLock")
	if fLock == nil {
		r.Anchor(rule, "node.Node.coreLock")
		return
	}
	isLock := func(v ssa.Value) bool {
		if fv, _ := fieldOf(v); fv == fLock {
			return true
		}
		// a sync.Locker / *sync.Mutex parameter (lock handed in by the caller)
		if pv, ok := unwrap(v).(*ssa.Parameter); ok {
			t := pv.Type().String()
			return t == "sync.Locker" || t == "*sync.Mutex"
		}
		return false
	}
	// single-threaded contexts: construction and Init (before any goroutine is started)
	initCtx := map[*ssa.Function]bool{}
	for _, n := range [][3]string{{NODE, "Node", "Init"}, {NODE, "", "NewNode"}, {NODE, "", "newCore"}} {
		if f := p.Func(n[0], n[1], n[2]); f != nil {
			initCtx[f] = true
		}
	}
	var heldEverywhere func(fn *ssa.Function, depth int, seen map[*ssa.Function]bool) (bool, string)
	heldAtSite := func(site ssa.CallInstruction, depth int, seen map[*ssa.Function]bool) (bool, string) {
		if p.lockHeldAt(site, isLock) {
			// a Locker parameter must be the core lock at every caller
			return true, ""
		}
		fn := site.Parent()
		if initCtx[fn] {
			return true, ""
		}
		if depth <= 0 {
			return false, fnName(fn)
		}
		return heldEverywhere(fn, depth-1, seen)
	}
	heldEverywhere = func(fn *ssa.Function, depth int, seen map[*ssa.Function]bool) (bool, string) {
		if seen[fn] {
			return true, ""
		}
		seen[fn] = true
		// closures: the site that runs the closure is its creator's context only if called synchronously; treat go/GoFunc closures as roots
		var callers []ssa.CallInstruction
		if n := p.CG.Nodes[fn]; n != nil {
			for _, e := range n.In {
				if e.Site != nil && inModule(e.Caller.Func) && e.Caller.Func.Synthetic == "" {
					callers = append(callers, e.Site)
				}
			}
		}
		if len(callers) == 0 {
			return false, fnName(fn) + " (root: no caller holds the lock)"
		}
		for _, cs := range callers {
			if _, isGo := cs.(*ssa.Go); isGo {
				return false, fnName(fn) + " (started as goroutine at " + p.ipos(cs) + ")"
			}
			if ok, why := heldAtSite(cs, depth, seen); !ok {
				return false, fnName(cs.Parent()) + "@" + p.ipos(cs) + " <- " + why
			}
		}
		return true, ""
	}
	n := 0
	ord := map[string]int{}
	for _, site := range p.callsAnywhere(targets) {
		n++
		callee := calleeFunc(site.Common()).Name()
		key := site.Parent().Name() + "->" + callee
		ord[key]++
		ok, why := heldAtSite(site, 4, map[*ssa.Function]bool{})
		r.Check(ok, rule, fmt.Sprintf("%s#%d:coreLock-held", key, ord[key]), p.ipos(site), fnName(site.Parent()), "Node.coreLock held",
			"core."+callee+" is called without Node.coreLock: unlocked chain "+why+"; "+consequence)
	}
	if n == 0 {
		r.Fail(rule, "core-mutators:call-sites", "-", "", "no call site of a core mutator found")
	}
	if !lockerArgs {
		return
	}
	// a Locker handed to a core method must be the node's core lock
	for _, fn := range p.Mod {
		for _, b := range fn.Blocks {
			for _, in := range b.Instrs {
				ci, ok := in.(ssa.CallInstruction)
				if !ok {
					continue
				}
				sf := ci.Common().StaticCallee()
				if sf == nil || !inModule(sf) || recvNamedSig(sf) != "core" {
					continue
				}
				for i, a := range ci.Common().Args {
					if i < len(sf.Params) {
						t := sf.Params[i].Type().String()
						if t == "sync.Locker" || t == "*sync.Mutex" {
							fv, _ := fieldOf(unwrap(a))
							r.Check(fv == fLock, rule, fn.Name()+"->"+sf.Name()+":locker-arg-is-coreLock", p.ipos(in), fnName(fn), "the lock handed in is Node.coreLock", "a lock other than Node.coreLock is handed to core."+sf.Name())
						}
					}
				}
			}
		}
	}
}

// C05.resubmit: a transaction handed to the socket proxy is sent to the node once per attempt that
// is KNOWN to have failed. The client may reconnect and send again after the rpc layer reported an
// error, but it must not abandon a request that is still in flight (select on a timer) and send it
// again: the node is alive, merely slow (e.g. the core lock is held by a long sync), both copies are
// queued and the transaction is committed twice.
func c05resubmit(p *Prog, r *Report) {
	const rule = "C05.resubmit"
	r.Rule(rule, 1, "SocketBabbleProxyClient.call never re-sends a request it merely stopped waiting for (no timer-bounded wait inside the retry loop)")
	fn := p.Func(PBAB, "SocketBabbleProxyClient", "call")
	if fn == nil {
		r.Anchor(rule, "SocketBabbleProxyClient.call")
		return
	}
	loops := naturalLoops(fn)
	bad := ""
	for _, b := range fn.Blocks {
		for _, in := range b.Instrs {
			sel, ok := in.(*ssa.Select)
			if !ok || innermostLoop(loops, b) == nil {
				continue
			}
			for _, st := range sel.States {
				if st.Dir != types.RecvOnly {
					continue
				}
				if dependsOn(st.Chan, func(x ssa.Value) bool {
					c, isCall := x.(*ssa.Call)
					if !isCall {
						return false
					}
					f := calleeFunc(c.Common())
					return f != nil && f.Pkg() != nil && f.Pkg().Path() == "time" && (f.Name() == "After" || f.Name() == "NewTimer" || f.Name() == "Tick")
				}) {
					bad = p.ipos(sel)
				}
			}
		}
	}
	r.Check(bad == "", rule, "SocketBabbleProxyClient.call:no-timeout-resend", p.pos(fn.Pos()), fnName(fn), "a request is re-sent only after the rpc layer reported its failure",
		"the submission client stops waiting for an in-flight request after a timer ("+bad+") inside its retry loop and sends it again: a slow node receives the transaction twice and commits it twice")
}

// freshCopyOf: v is a copy of src made by one of the cloning idioms — append(<nil | empty | zero-capacity
// slice>, src...), bytes.Clone(src), slices.Clone(src).
func freshCopyOf(v ssa.Value, src ssa.Value) bool {
	v = resolveLocalValue(v)
	c, ok := unwrap(v).(*ssa.Call)
	if !ok {
		return false
	}
	isSrc := func(x ssa.Value) bool {
		return flowsFromLocal(x, func(y ssa.Value) bool { return y == src })
	}
	if bi, isB := c.Call.Value.(*ssa.Builtin); isB && bi.Name() == "append" && len(c.Call.Args) == 2 {
		if !isSrc(c.Call.Args[1]) {
			return false
		}
		base := unwrap(c.Call.Args[0])
		switch b := base.(type) {
		case *ssa.Const:
			return b.IsNil()
		case *ssa.MakeSlice:
			return true
		case *ssa.Slice:
			// x[:0:0] (no capacity to write into), or []T{} (a new zero-length array)
			if b.Max != nil {
				if k, isK := intConst(b.Max); isK && k == 0 {
					return true
				}
			}
			if al, isAl := b.X.(*ssa.Alloc); isAl {
				if pt, isP := al.Type().Underlying().(*types.Pointer); isP {
					if at, isA := pt.Elem().Underlying().(*types.Array); isA && at.Len() == 0 {
						return true
					}
				}
			}
		}
		return false
	}
	if f := calleeFunc(c.Common()); f != nil && f.Name() == "Clone" && f.Pkg() != nil && (f.Pkg().Path() == "bytes" || f.Pkg().Path() == "slices") && len(c.Call.Args) == 1 {
		return isSrc(c.Call.Args[0])
	}
	return false
}
