package main

import (
	"go/constant"
	"fmt"
	"go/token"
	"go/types"
	"strings"

	"golang.org/x/tools/go/ssa"
)

func init() {
	register(&propDef{
		ID: "C12", NeedCG: true,
		Meta: propMeta{Level: "other", Assumptions: commonAssumptions,
			Explanation: "Decides on every CFG path: C12.accept (core.fastForward mutates core/hashgraph state only after CheckBlock returned nil and the frame hash equals the block's frame hash; the peer set hashed against the block's PeersHash derives from frame.Peers), " +
				"C12.check (CheckBlock returns nil only under peer-set-hash equality and count > TrustCount; the counter is incremented only for members whose signature verifies against this block), " +
				"C12.distinct (one signer, one vote: the counter iterates the trusted set or is guarded by a seen-set keyed by the canonical identity), C12.trust (sufficiently signed means count > TrustCount(): for every n, more than TrustCount(n) signatures is more than n/3 — the closed form of TrustCount is proved for all n by the quasi-affine evaluator; shared with C19.trust), C12.digest (the two digests the acceptance test compares bind the WHOLE frame and the WHOLE block body: Frame.Hash / BlockBody.Hash are SHA256 of Marshal() of the receiver itself, Marshal encodes the receiver, no exported field is hidden by a struct tag — a section left out of the frame hash, e.g. PeerSets, could be rewritten by the responder), C12.app (the application is restored only after core.fastForward accepted). " +
				"NOT decided: that every single-field tampering is refused as a statement over values (collision resistance of SHA-256 plus the two equalities)."},
		Rules: []ruleFunc{c12accept, c12check, c12app, func(p *Prog, r *Report) {
			r.Rule("C12.verify", 1, "Block.Verify returns true only through keys.Verify over Body.Hash() with the signer's key and this signature")
			verifyProvenance(p, r, "C12.verify", []string{"Block"})
		}, func(p *Prog, r *Report) { digestRule(p, r, "C12.digest", []string{"Frame", "BlockBody"}) }, func(p *Prog, r *Report) { trustRule(p, r, "C12.trust") }},
	})
	register(&propDef{
		ID: "C14", NeedCG: true,
		Meta: propMeta{Level: "other", Assumptions: commonAssumptions,
			Explanation: "Decides the provenance of the validator set against which fast-forward signatures are counted (argument of CheckBlock in core.fastForward): it must be data-dependent on state the node already trusted (core.validators / core.peers / core.genesisPeers / Store.GetPeerSet) and not exclusively on the response. On the pinned tree this is violated (F-C14-1, protocol-level, recorded as known finding). C14.source decides the only mitigation that exists today: fast-forward requests go exclusively to the addresses of the node's own peer list, and the response handed to core.fastForward is one of those answers (so the responder is at least a configured peer — which does not make its self-declared validator set trustworthy)."},
		Rules: []ruleFunc{c14known, c14source},
	})
}

// canonical identity producers
var canonIdent = named(HG+".BlockSignature.ValidatorHex", PEER+".Peer.PubKeyString", COMM+".EncodeToString", "strings.ToUpper", PEER+".Peer.ID", KEYS+".PublicKeyID", KEYS+".PublicKeyHex")

// identity producers that carry the whole public key
var fullKeyIdent = named(HG+".BlockSignature.ValidatorHex", PEER+".Peer.PubKeyString", COMM+".EncodeToString", "strings.ToUpper", KEYS+".PublicKeyHex")

func c12accept(p *Prog, r *Report) {
	const rule = "C12.accept"
	r.Rule(rule, 3, "core.fastForward: hg.Reset / setPeers / setHeadAndSeq / stores to core fields are reached only after CheckBlock(block, set)==nil and frame.Hash()==block.FrameHash(); the set hashed against block.PeersHash() derives from frame.Peers")
	fn := p.Func(NODE, "core", "fastForward")
	if fn == nil {
		r.Anchor(rule, "node.(*core).fastForward")
		return
	}
	frame := paramByType(fn, 2, "Frame")
	checkM := named(HG + ".Hashgraph.CheckBlock")
	qCheck := p.lift(func(l Lit) bool {
		c, ok := errNilLit(l, checkM)
		return ok && depOnParamType(argN(c, 0), "Block")
	}, 1)
	qFrame := p.lift(func(l Lit) bool {
		x, y, ok := eqLit(l)
		if !ok {
			return false
		}
		isFH := func(v ssa.Value) bool {
			return (flowsFromCall(v, named(HG+".Block.FrameHash"), 0) || flowsFromField(v, "FrameHash")) && depOnParamType(v, "Block")
		}
		isH := func(v ssa.Value) bool {
			return flowsFromCall(v, named(HG+".Frame.Hash"), 0) && depOnParamType(v, "Frame")
		}
		return (isFH(x) && isH(y)) || (isFH(y) && isH(x))
	}, 1)
	var actions []ssa.Instruction
	var labels []string
	for _, c := range callsIn(fn, named(HG+".Hashgraph.Reset", NODE+".core.setPeers", NODE+".core.setHeadAndSeq")) {
		actions = append(actions, c)
		labels = append(labels, "call "+calleeFunc(c.Common()).Name())
	}
	for _, c := range callsIn(fn, storeM("SetPeerSet", "SetEvent", "SetBlock", "SetFrame", "SetRound", "Reset")) {
		actions = append(actions, c)
		labels = append(labels, "call Store."+calleeFunc(c.Common()).Name())
	}
	coreT := p.Type(NODE, "core")
	if coreT != nil {
		st := coreT.Underlying().(*types.Struct)
		for i := 0; i < st.NumFields(); i++ {
			for _, w := range p.writersOf(st.Field(i)) {
				if w.Fn == fn {
					actions = append(actions, w.Instr)
					labels = append(labels, "store core."+st.Field(i).Name())
				}
			}
		}
	}
	if len(actions) < 2 {
		r.Fail(rule, "fastForward:actions", p.pos(fn.Pos()), fnName(fn), "expected hg.Reset and state updates in core.fastForward")
	}
	for i, a := range actions {
		ok1, _ := p.allPaths(a, []Pred{qCheck}, all(1))
		ok2, _ := p.allPaths(a, []Pred{qFrame}, all(1))
		r.Check(ok1, rule, "fastForward:"+labels[i]+":CheckBlock==nil", p.ipos(a), fnName(fn), "guarded by CheckBlock==nil", labels[i]+" reachable without a successful CheckBlock(block, …)")
		r.Check(ok2, rule, "fastForward:"+labels[i]+":frameHash==block.FrameHash", p.ipos(a), fnName(fn), "guarded by frame-hash equality", labels[i]+" reachable without frame.Hash()==block.FrameHash()")
	}
	// nil means adopted: Node.fastForward reads a nil result as "verified and adopted" (it then restores the application
	// from the response's snapshot and applies its receipts). Every success return of core.fastForward is reached only
	// after both checks passed and after the hashgraph was reset from the response.
	resets := callsIn(fn, named(HG+".Hashgraph.Reset"))
	for i, rp := range p.succRets(fn, errNil, 0) {
		g1, _ := p.holdsAtRet(rp, []Pred{qCheck}, all(1))
		g2, _ := p.holdsAtRet(rp, []Pred{qFrame}, all(1))
		at := ssa.Instruction(rp.ret)
		if rp.pred != nil && len(rp.pred.Instrs) > 0 {
			at = rp.pred.Instrs[len(rp.pred.Instrs)-1]
		}
		dom := false
		for _, c := range resets {
			if dominates(c, at) {
				dom = true
			}
		}
		r.Check(g1 && g2 && dom, rule, fmt.Sprintf("fastForward:return-nil#%d:verified-and-adopted", i), p.ipos(rp.ret), fnName(fn), "nil is returned only after CheckBlock==nil, frame-hash equality and hg.Reset",
			fmt.Sprintf("core.fastForward can return nil without CheckBlock==nil (%v), without the frame-hash comparison (%v) or without having reset the hashgraph from the response (%v): Node.fastForward takes nil for 'verified and adopted', restores the application from the unverified snapshot and applies the unverified block's receipts", g1, g2, dom))
	}
	// peer-set hash: a set derived from frame.Peers is hashed against block.PeersHash
	okPH := false
	where := "-"
	// form 1: CheckBlock called with a set derived from frame.Peers and CheckBlock compares its parameter's hash (C12.check)
	for _, c := range callsIn(fn, checkM) {
		if a := argN(c, 1); a != nil && depOnField(a, "Peers") && depOnValue(a, frame) {
			okPH = true
			where = p.ipos(c)
		}
	}
	// form 2: an explicit equality in fastForward
	if !okPH {
		q := p.lift(func(l Lit) bool {
			x, y, ok := eqLit(l)
			if !ok {
				return false
			}
			isPH := func(v ssa.Value) bool {
				return (flowsFromCall(v, named(HG+".Block.PeersHash"), 0) || flowsFromField(v, "PeersHash")) && depOnParamType(v, "Block")
			}
			isSet := func(v ssa.Value) bool {
				return flowsFromCall(v, named(PEER+".PeerSet.Hash"), 0) && depOnField(v, "Peers") && depOnParamType(v, "Frame")
			}
			return (isPH(x) && isSet(y)) || (isPH(y) && isSet(x))
		}, 1)
		for _, c := range callsIn(fn, named(HG+".Hashgraph.Reset")) {
			if ok, _ := p.allPaths(c, []Pred{q}, all(1)); ok {
				okPH = true
				where = p.ipos(c)
			}
		}
	}
	r.Check(okPH, rule, "fastForward:frame.Peers-hash==block.PeersHash", where, fnName(fn), "the frame's validator set is hashed against the block's peer-set hash", "no comparison of the hash of frame.Peers with block.PeersHash() guards the reset")
}

func c12check(p *Prog, r *Report) {
	const rule = "C12.check"
	r.Rule(rule, 3, "CheckBlock: nil only if peerSet.Hash()==block.PeersHash() and count > peerSet.TrustCount(); count incremented only under membership in peerSet.ByPubKey and block.Verify(sig)==true")
	const rule2 = "C12.distinct"
	r.Rule(rule2, 1, "one signer, one vote: the counter compared with TrustCount is incremented in a loop over the trusted set, or under a not-seen-yet test of a set keyed by the canonical identity, or is the size of such a set")
	fn := p.Func(HG, "Hashgraph", "CheckBlock")
	if fn == nil {
		r.Anchor(rule, "hashgraph.(*Hashgraph).CheckBlock")
		return
	}
	block, peerSet := paramByType(fn, 1, "Block"), paramByType(fn, 2, "PeerSet")
	qHash := p.lift(func(l Lit) bool {
		x, y, ok := eqLit(l)
		if !ok {
			return false
		}
		isPH := func(v ssa.Value) bool {
			return (flowsFromCall(v, named(HG+".Block.PeersHash"), 0) || flowsFromField(v, "PeersHash")) && depOnParamType(v, "Block")
		}
		isSet := func(v ssa.Value) bool {
			return flowsFromCall(v, named(PEER+".PeerSet.Hash"), 0) && depOnParamType(v, "PeerSet")
		}
		return (isPH(x) && isSet(y)) || (isPH(y) && isSet(x))
	}, 1)
	var counters []ssa.Value
	qCount := func(l Lit) bool {
		a, b, strict, ok := cmpLit(l)
		if !ok || !strict {
			return false
		}
		if !(flowsFromCall(b, named(PEER+".PeerSet.TrustCount"), 0) && depOnParamType(b, "PeerSet")) {
			return false
		}
		if depOnCall(a, named(PEER+".PeerSet.TrustCount")) {
			return false
		}
		counters = append(counters, a)
		return true
	}
	rets := p.succRets(fn, errNil, 0)
	if len(rets) == 0 {
		r.Fail(rule, "CheckBlock:returns", p.pos(fn.Pos()), fnName(fn), "no success return")
		return
	}
	for i, rp := range rets {
		ok1, _ := p.holdsAtRet(rp, []Pred{qHash}, all(1))
		ok2, _ := p.holdsAtRet(rp, []Pred{qCount}, all(1))
		r.Check(ok1, rule, fmt.Sprintf("CheckBlock:return-nil#%d:peersHash", i), p.ipos(rp.ret), fnName(fn), "nil only if peerSet.Hash()==block.PeersHash()", "nil returned without the peer-set hash equality")
		r.Check(ok2, rule, fmt.Sprintf("CheckBlock:return-nil#%d:count>TrustCount", i), p.ipos(rp.ret), fnName(fn), "nil only if count > TrustCount() (strict)", "nil returned without a strict count > peerSet.TrustCount() test")
	}
	// the counter
	seenCounter := map[ssa.Value]bool{}
	nInc := 0
	for _, a := range counters {
		if seenCounter[a] {
			continue
		}
		seenCounter[a] = true
		// Form C: counter is len(localMap)
		if m, ok := isLenOf(a); ok {
			if mk, ok := m.(*ssa.MakeMap); ok {
				nInc++
				c12mapCounter(p, r, fn, mk, block, peerSet)
				continue
			}
		}
		// Form D: the counter is the length of a local slice used as a set: every append is an increment
		var incs []ssa.Instruction
		for _, inc := range incrementsOf(a) {
			incs = append(incs, inc)
		}
		var setSlice ssa.Value
		if sl, isLen := isLenOf(a); isLen && len(incs) == 0 {
			dependsOn(sl, func(y ssa.Value) bool {
				if ac, ok := y.(*ssa.Call); ok {
					if bi, isB := ac.Call.Value.(*ssa.Builtin); isB && bi.Name() == "append" && ac.Parent() == fn {
						incs = append(incs, ac)
						setSlice = sl
					}
				}
				return false
			})
		}
		for _, inc := range incs {
			nInc++
			qMember := p.lift(func(l Lit) bool {
				lk, present, ok := lookupLit(l)
				if !ok || !present {
					return false
				}
				fv, base := fieldOf(lk.X)
				// membership must be decided on the full public key that the signature is then
				// verified against (a 32-bit peer ID can be collided by a stranger's key)
				return fv != nil && refName(fv) == "ByPubKey" && depOnParamType(base, "PeerSet") && depOnCall(lk.Index, fullKeyIdent)
			}, 1)
			qVerify := p.lift(func(l Lit) bool {
				return resultLit(l, named(HG+".Block.Verify"), 0, true, block)
			}, 1)
			src, _ := loopSource(fn, inc.Block())
			overTrusted := src != nil && depOnValue(src, peerSet) && !depOnValue(src, block)
			ok1, _ := p.allPaths(inc, []Pred{qMember}, all(1))
			if overTrusted {
				ok1 = true // iterating the trusted set: members by construction
			}
			ok2, _ := p.allPaths(inc, []Pred{qVerify}, all(1))
			r.Check(ok1, rule, "CheckBlock:count++:member", p.ipos(inc), fnName(fn), "increment only for members of peerSet (by full public key)", "counter incremented without a membership test of the signer's full public key in peerSet.ByPubKey (a lookup by 32-bit ID admits colliding strangers whose signature is then verified against their own key)")
			r.Check(ok2, rule, "CheckBlock:count++:Block.Verify==true", p.ipos(inc), fnName(fn), "increment only if block.Verify(sig) is true", "counter incremented without block.Verify(sig)==true")
			// distinctness
			okD := overTrusted
			detail := "loop iterates the trusted set"
			if !okD {
				// Form B: not-seen literal on a local map keyed by canonical identity + update of that map under the same guard
				qSeen := func(l Lit) bool {
					var lk *ssa.Lookup
					if k, present, ok := lookupLit(l); ok && !present {
						lk = k
					} else if k, ok := l.V.(*ssa.Lookup); ok && !l.Pos {
						lk = k
					} else {
						return false
					}
					if _, ok := lk.X.(*ssa.MakeMap); !ok {
						return false
					}
					return depOnCall(lk.Index, canonIdent)
				}
				g, _ := p.allPaths(inc, []Pred{qSeen}, all(1))
				if !g && setSlice != nil {
					// slice used as a set: guarded by a negative answer of a local closure that
					// compares its argument (the canonical identity) with the elements of that slice,
					// and the element appended is that identity
					qSeenSlice := func(l Lit) bool {
						if l.Pos || l.Nil {
							return false
						}
						c, _ := callOf(l.V)
						if c == nil || len(c.Call.Args) != 1 || !depOnCall(c.Call.Args[0], canonIdent) {
							return false
						}
						cl := c.Call.StaticCallee()
						if cl == nil || cl.Parent() != fn || len(cl.Params) != 1 {
							return false
						}
						cmp := false
						for _, b := range cl.Blocks {
							for _, in := range b.Instrs {
								if bo, ok := in.(*ssa.BinOp); ok && bo.Op == token.EQL {
									if (unwrap(bo.X) == ssa.Value(cl.Params[0])) != (unwrap(bo.Y) == ssa.Value(cl.Params[0])) {
										cmp = true
									}
								}
							}
						}
						return cmp
					}
					g2, _ := p.allPaths(inc, []Pred{qSeenSlice}, all(1))
					if ac, isCall := inc.(*ssa.Call); g2 && isCall && len(ac.Call.Args) == 2 && depOnCall(ac.Call.Args[1], canonIdent) {
						okD = true
						detail = "guarded by a seen-list of canonical identities"
					}
				}
				if g {
					// the seen-set must be updated in the loop
					upd := false
					for _, b := range fn.Blocks {
						for _, in := range b.Instrs {
							if mu, ok := in.(*ssa.MapUpdate); ok {
								if _, ok := mu.Map.(*ssa.MakeMap); ok && depOnCall(mu.Key, canonIdent) {
									// the entry marks the signer as seen (not `= false`), whenever the signer is counted
									if c, isC := mu.Value.(*ssa.Const); isC && c.Value != nil && c.Value.Kind() == constant.Bool && !constant.BoolVal(c.Value) {
										continue
									}
									if dominates(mu, inc) || dominates(inc, mu) {
										upd = true
									}
								}
							}
						}
					}
					okD = upd
					detail = "guarded by a seen-set keyed by the canonical identity"
				}
			}
			srcDesc := "unknown"
			if src != nil {
				srcDesc = src.String()
				if c, ok := src.(*ssa.Call); ok {
					if f := calleeFunc(c.Common()); f != nil {
						srcDesc = "result of " + shortName(f)
					}
				}
			}
			r.Check(okD, rule2, "CheckBlock:count++:distinct-signers", p.ipos(inc), fnName(fn), detail,
				"the counter is incremented once per element of "+srcDesc+" (the received signature map: one key per spelling of a validator's hex key), with no seen-set keyed by the canonical identity: one signer can be counted several times")
		}
	}
	if nInc == 0 {
		r.Fail(rule, "CheckBlock:counter", p.pos(fn.Pos()), fnName(fn), "could not identify the signature counter compared with TrustCount()")
	}
}

func c12mapCounter(p *Prog, r *Report, fn *ssa.Function, mk *ssa.MakeMap, block, peerSet ssa.Value) {
	n := 0
	for _, b := range fn.Blocks {
		for _, in := range b.Instrs {
			mu, ok := in.(*ssa.MapUpdate)
			if !ok || mu.Map != ssa.Value(mk) {
				continue
			}
			n++
			qMember := p.lift(func(l Lit) bool {
				lk, present, ok := lookupLit(l)
				if !ok || !present {
					return false
				}
				fv, base := fieldOf(lk.X)
				return fv != nil && refName(fv) == "ByPubKey" && depOnParamType(base, "PeerSet") && depOnCall(lk.Index, fullKeyIdent)
			}, 1)
			qVerify := p.lift(func(l Lit) bool { return resultLit(l, named(HG+".Block.Verify"), 0, true, block) }, 1)
			ok1, _ := p.allPaths(mu, []Pred{qMember}, all(1))
			ok2, _ := p.allPaths(mu, []Pred{qVerify}, all(1))
			r.Check(ok1, "C12.check", "CheckBlock:count++:member", p.ipos(mu), fnName(fn), "set insert only for members", "signer set updated without membership test")
			r.Check(ok2, "C12.check", "CheckBlock:count++:Block.Verify==true", p.ipos(mu), fnName(fn), "set insert only if verified", "signer set updated without block.Verify==true")
			r.Check(depOnCall(mu.Key, canonIdent), "C12.distinct", "CheckBlock:count++:distinct-signers", p.ipos(mu), fnName(fn), "size of a set keyed by the canonical identity", "signer set keyed by a non-canonical value")
		}
	}
	if n == 0 {
		r.Fail("C12.check", "CheckBlock:counter", p.ipos(mk), fnName(fn), "map counter never updated")
	}
}

func c12app(p *Prog, r *Report) {
	const rule = "C12.app"
	r.Rule(rule, 1, "Node.fastForward: proxy.Restore(snapshot) is reached only after core.fastForward(...) returned nil (a refused response leaves the application untouched)")
	fn := p.Func(NODE, "Node", "fastForward")
	if fn == nil {
		r.Anchor(rule, "node.(*Node).fastForward")
		return
	}
	restoreM := func(f *types.Func) bool { return f.Name() == "Restore" && strings.Contains(shortName(f), "proxy") }
	q := p.lift(func(l Lit) bool { _, ok := errNilLit(l, named(NODE+".core.fastForward")); return ok }, 1)
	n := 0
	for _, c := range callsIn(fn, restoreM) {
		n++
		ok, _ := p.allPaths(c, []Pred{q}, all(1))
		r.Check(ok, rule, "Node.fastForward:proxy.Restore-after-core.fastForward", p.ipos(c), fnName(fn), "Restore only after the core accepted the response", "proxy.Restore(resp.Snapshot) is called before core.fastForward verified the response: a refused response has already overwritten the application state")
	}
	if n == 0 {
		r.Fail(rule, "Node.fastForward:proxy.Restore", p.pos(fn.Pos()), fnName(fn), "no proxy.Restore call found")
	}
}

func c14known(p *Prog, r *Report) {
	const rule = "C14.known"
	r.Rule(rule, 1, "the *PeerSet passed to CheckBlock in core.fastForward is data-dependent on already-trusted state (core.validators/peers/genesisPeers, Store.GetPeerSet), not only on the response")
	fn := p.Func(NODE, "core", "fastForward")
	if fn == nil {
		r.Anchor(rule, "node.(*core).fastForward")
		return
	}
	cs := callsIn(fn, named(HG+".Hashgraph.CheckBlock"))
	if len(cs) == 0 {
		r.Fail(rule, "core.fastForward:CheckBlock", p.pos(fn.Pos()), fnName(fn), "no CheckBlock call")
		return
	}
	trusted := func(v ssa.Value) bool {
		return dependsOn(v, func(x ssa.Value) bool {
			if fv, _ := fieldOf(x); fv != nil && fv.Pkg() != nil && strings.HasSuffix(fv.Pkg().Path(), "/node") {
				switch refName(fv) {
				case "validators", "peers", "genesisPeers":
					return true
				}
			}
			_, _, ok := isCallTo(x, storeM("GetPeerSet", "GetAllPeerSets"))
			return ok
		})
	}
	for _, c := range cs {
		a := argN(c, 1)
		ok := a != nil && trusted(a)
		// one level: a helper in package node that itself reads trusted state
		if !ok && a != nil {
			ok = dependsOn(a, func(x ssa.Value) bool {
				cc, _ := callOf(x)
				if cc == nil {
					return false
				}
				sf := cc.Call.StaticCallee()
				if sf == nil || !inModule(sf) || fnPkgPath(sf) != modPath+"/"+NODE {
					return false
				}
				for _, b := range sf.Blocks {
					if ret, ok := b.Instrs[len(b.Instrs)-1].(*ssa.Return); ok {
						for _, rv := range ret.Results {
							if trusted(rv) {
								return true
							}
						}
					}
				}
				return false
			})
		}
		r.Check(ok, rule, "core.fastForward:CheckBlock-peerset-provenance", p.ipos(c), fnName(fn),
			"signatures are counted against a set derived from trusted state",
			"signatures are counted against peers.NewPeerSet(frame.Peers), a set taken from the response itself; docs/fastsync.rst says 'against the known set of validators'. A single responder can ship a self-made validator set signed by itself")
	}
}

// C14.source: who can be the responder at all.
func c14source(p *Prog, r *Report) {
	const rule = "C14.source"
	r.Rule(rule, 2, "fast-forward requests are sent only to NetAddr of the node's own peers; the response adopted is one of those answers")
	gb := p.Func(NODE, "Node", "getBestFastForwardResponse")
	nf := p.Func(NODE, "Node", "fastForward")
	if gb == nil || nf == nil {
		r.Anchor(rule, "Node.getBestFastForwardResponse / fastForward")
		return
	}
	cs := callsIn(gb, named(NODE+".Node.requestFastForward"))
	if len(cs) == 0 {
		r.Fail(rule, "getBestFastForwardResponse:requests", p.pos(gb.Pos()), fnName(gb), "no fast-forward request is sent")
	}
	for i, c := range cs {
		t := argN(c, 0)
		src, _ := loopSource(gb, c.Block())
		ok := t != nil && flowsFromField(t, "NetAddr") && src != nil && flowsFromField(src, "Peers") && depOnCall(src, func(f *types.Func) bool { return f.Name() == "getPeers" })
		r.Check(ok, rule, fmt.Sprintf("getBestFastForwardResponse:request#%d:target-is-own-peer", i), p.ipos(c), fnName(gb), "requests go to the addresses of peerSelector.getPeers()", "a fast-forward request is sent to an address that does not come from the node's own peer list")
	}
	// every returned response is one of the answers
	okRet := true
	for _, b := range gb.Blocks {
		if ret, isRet := b.Instrs[len(b.Instrs)-1].(*ssa.Return); isRet && (b.Index == 0 || len(b.Preds) > 0) {
			v := ret.Results[0]
			if isNilConst(v) {
				continue
			}
			if !dependsOn(v, func(x ssa.Value) bool { _, _, ok := isCallTo(x, named(NODE+".Node.requestFastForward")); return ok }) {
				okRet = false
			}
		}
	}
	r.Check(okRet, rule, "getBestFastForwardResponse:returns-an-answer", p.pos(gb.Pos()), fnName(gb), "the best response is one of the peers' answers", "getBestFastForwardResponse can return something that is not a peer's answer")
	for _, c := range callsIn(nf, named(NODE+".core.fastForward")) {
		ok := depOnCall(argN(c, 0), named(NODE+".Node.getBestFastForwardResponse")) && depOnCall(argN(c, 1), named(NODE+".Node.getBestFastForwardResponse"))
		r.Check(ok, rule, "Node.fastForward:adopts-best-response", p.ipos(c), fnName(nf), "block and frame handed to the core are the selected answer's", "core.fastForward is given a block/frame that is not the selected peer answer")
	}
}

// digestRule: a digest that a signature / an equality test relies on must cover the WHOLE value:
// T.Hash() hashes exactly the bytes of T.Marshal() called on the receiver itself (not on a partial
// copy), T.Marshal() encodes the receiver itself, and no field of T is hidden from the encoder.
func digestRule(p *Prog, r *Report, rule string, typesList []string) {
	r.Rule(rule, len(typesList), "T.Hash() = SHA256(T.Marshal()) of the receiver itself; T.Marshal() encodes the receiver; no field of T hidden from the encoder")
	for _, tn := range typesList {
		hash := p.Func(HG, tn, "Hash")
		marsh := p.Func(HG, tn, "Marshal")
		if hash == nil || marsh == nil {
			r.Anchor(rule, "hashgraph."+tn+".Hash / Marshal")
			continue
		}
		recv := ssa.Value(hash.Params[0])
		// 1. Marshal is called on the receiver itself
		var mcalls []*ssa.Call
		okRecv := true
		for _, ci := range callsIn(hash, named(HG+"."+tn+".Marshal")) {
			c, isCall := ci.(*ssa.Call)
			if !isCall {
				continue
			}
			mcalls = append(mcalls, c)
			if len(c.Call.Args) == 0 || unwrap(c.Call.Args[0]) != recv {
				okRecv = false
			}
		}
		// 2. every SHA256 in Hash digests exactly those bytes
		sha := callsIn(hash, named("src/crypto.SHA256"))
		okSha := len(sha) > 0
		for _, s := range sha {
			a := s.Common().Args[0]
			mc, idx := callOf(a)
			found := false
			for _, c := range mcalls {
				if mc == c && idx == 0 {
					found = true
				}
			}
			if !found {
				okSha = false
			}
		}
		// 3. what is returned is the digest (or the memo field written only with the digest)
		okRet := true
		for _, b := range hash.Blocks {
			ret, isRet := b.Instrs[len(b.Instrs)-1].(*ssa.Return)
			if !isRet || len(ret.Results) == 0 {
				continue
			}
			v := ret.Results[0]
			if isNilOrEmpty(v) {
				continue
			}
			fromSha := func(x ssa.Value) bool {
				return dependsOn(x, func(y ssa.Value) bool { _, _, ok := isCallTo(y, named("src/crypto.SHA256")); return ok })
			}
			if fromSha(v) {
				continue
			}
			// memo field: all module writers store a digest
			if fv, _ := fieldOf(v); fv != nil {
				all := true
				nw := 0
				for _, w := range p.writersOf(fv) {
					st, isSt := w.Instr.(*ssa.Store)
					if !isSt {
						all = false
						continue
					}
					nw++
					if !fromSha(st.Val) && !isNilOrEmpty(st.Val) {
						all = false
					}
				}
				if all && nw > 0 {
					continue
				}
			}
			okRet = false
		}
		r.Check(len(mcalls) > 0 && okRecv && okSha && okRet, rule, tn+".Hash:covers-receiver", p.pos(hash.Pos()), fnName(hash),
			"Hash() = SHA256(receiver.Marshal())",
			fmt.Sprintf("%s.Hash() does not digest the whole receiver (Marshal called on the receiver itself: %v, SHA256 over exactly those bytes: %v, returned value is that digest: %v): whatever is left out can be changed without changing the hash that signatures and fast-forward equality tests rely on", tn, len(mcalls) > 0 && okRecv, okSha, okRet))
		// 4. Marshal encodes the receiver
		mrecv := ssa.Value(marsh.Params[0])
		nEnc, okEnc := 0, true
		for _, b := range marsh.Blocks {
			for _, in := range b.Instrs {
				c, isCall := in.(*ssa.Call)
				if !isCall {
					continue
				}
				f := calleeFunc(c.Common())
				if f == nil || f.Name() != "Encode" || f.Pkg() == nil || strings.HasPrefix(f.Pkg().Path(), modPath) {
					continue
				}
				nEnc++
				arg := c.Call.Args[len(c.Call.Args)-1]
				if unwrap(arg) != mrecv {
					okEnc = false
				}
			}
		}
		r.Check(nEnc > 0 && okEnc, rule, tn+".Marshal:encodes-receiver", p.pos(marsh.Pos()), fnName(marsh), "Encode(receiver)", tn+".Marshal() does not hand the receiver itself to the encoder: the bytes that are hashed / signed are not the value's")
		// 5. no hidden field among the exported ones (unexported fields are derived caches: listed)
		if t := p.Type(HG, tn); t != nil {
			if st, isSt := t.Underlying().(*types.Struct); isSt {
				var hidden, caches []string
				for i := 0; i < st.NumFields(); i++ {
					f := st.Field(i)
					tag := st.Tag(i)
					if f.Exported() && (strings.Contains(tag, `json:"-"`) || strings.Contains(tag, `codec:"-"`)) {
						hidden = append(hidden, f.Name())
					}
					if !f.Exported() {
						caches = append(caches, f.Name())
					}
				}
				r.Check(len(hidden) == 0, rule, tn+":no-hidden-field", p.pos(hash.Pos()), "", "no exported field excluded by a struct tag", "exported fields of "+tn+" are excluded from the encoding (and hence from the hash) by a struct tag: "+strings.Join(hidden, ", "))
				if len(caches) > 0 {
					r.Note("%s: %s has unexported (never encoded, derived) fields: %s", rule, tn, strings.Join(caches, ", "))
				}
			}
		}
	}
}

func isNilOrEmpty(v ssa.Value) bool {
	c, ok := unwrap(v).(*ssa.Const)
	return ok && (c.IsNil() || c.Value == nil || c.Value.String() == `""`)
}
