package main

import (
	"fmt"
	"go/constant"
	"go/token"
	"go/types"
	"sort"
	"strings"

	"golang.org/x/tools/go/ssa"
)

func init() {
	register(&propDef{
		ID: "C17", NeedCG: true,
		Meta: propMeta{Level: "other", Assumptions: commonAssumptions,
			Explanation: "Decides: C17.gate (finite and exhaustive: for every declared node state x every command type + an unknown command, a symbolic walk of processRPC's CFG — state comparisons and type assertions decided, everything else explored both ways — shows handlers run only when Babbling, the sync handler additionally when Suspended, every other combination answers rpc.Respond(nil, err!=nil) and runs no handler), " +
				"C17.readonly (the call-graph closure of processSyncRequest, library callbacks included, contains no hashgraph/core mutator and no store to a field of Hashgraph, core, the stores or their caches), " +
				"C17.diff (eventDiff asks ParticipantEvents(peer, otherKnown[id] or -1) per known creator, sorts by topological index ascending before returning; the sync handler truncates to a prefix), " +
				"C17.submit (a submitted transaction only reaches core.addTransactions; self-events are created only through babble — entered only in state Babbling — and the gated eager-sync handler), " +
				"C17.suspend (checkSuspend is called on every tick in babble; Suspend() is reached only under undetermined-events > SuspendLimit x validators or the eviction condition; Suspend transitions before waiting for routines). " +
				"C17.selfremoved (a node learns that it was voted out by an identity test on IDs: core.removedRound is set exactly under Peer.ID()==validator.ID(), and no comparison anywhere mixes a raw Peer.PubKeyHex with a canonical key string). " +
				"NOT decided: overshoot of the threshold by concurrent routines, requests already past the gate when the state changes."},
		Rules: []ruleFunc{c17gate, c17readonly, c17diff, c17submit, c17suspend, func(p *Prog, r *Report) { selfRemovedRule(p, r, "C17.selfremoved") }},
	})
}

func stateConsts(p *Prog) (map[string]int64, *types.Named) {
	st := p.ByPkg[modPath+"/src/node/state"]
	if st == nil {
		return nil, nil
	}
	tn, ok := st.Types.Scope().Lookup("State").(*types.TypeName)
	if !ok {
		return nil, nil
	}
	T := tn.Type().(*types.Named)
	res := map[string]int64{}
	for _, n := range st.Types.Scope().Names() {
		if c, ok := st.Types.Scope().Lookup(n).(*types.Const); ok && types.Identical(c.Type(), T) {
			v, _ := intConstVal(c)
			res[n] = v
		}
	}
	return res, T
}

func c17gate(p *Prog, r *Report) {
	const rule = "C17.gate"
	r.Rule(rule, 24, "exhaustive state x command matrix of processRPC")
	fn := p.Func(NODE, "Node", "processRPC")
	if fn == nil {
		r.Anchor(rule, "node.(*Node).processRPC")
		return
	}
	states, _ := stateConsts(p)
	if len(states) == 0 {
		r.Anchor(rule, "state.State constants")
		return
	}
	cmds := []string{"SyncRequest", "EagerSyncRequest", "FastForwardRequest", "JoinRequest"}
	handlers := map[string]string{"SyncRequest": "processSyncRequest", "EagerSyncRequest": "processEagerSyncRequest", "FastForwardRequest": "processFastForwardRequest", "JoinRequest": "processJoinRequest"}
	handlerSet := map[string]bool{}
	for _, h := range handlers {
		handlerSet[h] = true
	}
	isStateVal := func(v ssa.Value) bool {
		return flowsFromCall(v, func(f *types.Func) bool { return f.Name() == "GetState" }, 0)
	}
	var names []string
	for n := range states {
		names = append(names, n)
	}
	sort.Strings(names)
	for _, sn := range names {
		sv := states[sn]
		for _, cmd := range append(cmds, "<other>") {
			// symbolic walk
			type res struct {
				handlers map[string]bool
				refused  bool // Respond(nil, non-nil err) executed
				silent   bool // a return reached with neither handler nor refusal
			}
			out := res{handlers: map[string]bool{}}
			decide := func(cond ssa.Value) (bool, bool) { // value, known
				v, pos := stripNot(cond, true)
				if bo, ok := v.(*ssa.BinOp); ok && (bo.Op == token.EQL || bo.Op == token.NEQ) {
					var k int64
					var okc bool
					if isStateVal(bo.X) {
						k, okc = intConst(bo.Y)
					} else if isStateVal(bo.Y) {
						k, okc = intConst(bo.X)
					}
					if okc {
						eq := k == sv
						if bo.Op == token.NEQ {
							eq = !eq
						}
						return eq == pos, true
					}
				}
				if e, ok := v.(*ssa.Extract); ok && e.Index == 1 {
					if ta, ok := e.Tuple.(*ssa.TypeAssert); ok && ta.CommaOk && flowsFromField(ta.X, "Command") {
						if n := namedOf(ta.AssertedType); n != nil {
							is := n.Obj().Name() == cmd
							return is == pos, true
						}
					}
				}
				return false, false
			}
			type stt struct {
				b       *ssa.BasicBlock
				handled bool
				refused bool
				env     string // known boolean phi values, canonical
			}
			seen := map[stt]bool{}
			envOf := func(m map[ssa.Value]bool) string {
				var ks []string
				for k, v := range m {
					ks = append(ks, fmt.Sprintf("%s=%v", k.Name(), v))
				}
				sort.Strings(ks)
				return strings.Join(ks, ",")
			}
			var walk func(s stt, known map[ssa.Value]bool)
			step := func(from *ssa.BasicBlock, to *ssa.BasicBlock, s stt, known map[ssa.Value]bool) {
				nk := map[ssa.Value]bool{}
				for k, v := range known {
					nk[k] = v
				}
				// evaluate boolean phis of the successor for this edge
				for i, pr := range to.Preds {
					if pr != from {
						continue
					}
					for _, in := range to.Instrs {
						ph, ok := in.(*ssa.Phi)
						if !ok {
							break
						}
						delete(nk, ph)
						e := ph.Edges[i]
						if c, ok := e.(*ssa.Const); ok && c.Value != nil && c.Value.Kind() == constant.Bool {
							nk[ph] = constant.BoolVal(c.Value)
						} else if v, ok := known[e]; ok {
							nk[ph] = v
						} else if val, kn := decide(e); kn {
							nk[ph] = val
						}
					}
					break
				}
				walk(stt{to, s.handled, s.refused, envOf(nk)}, nk)
			}
			walk = func(s stt, known map[ssa.Value]bool) {
				if seen[s] {
					return
				}
				seen[s] = true
				for _, in := range s.b.Instrs {
					switch x := in.(type) {
					case ssa.CallInstruction:
						if f := calleeFunc(x.Common()); f != nil {
							if handlerSet[f.Name()] && recvNamed(f) == "Node" {
								out.handlers[f.Name()] = true
								s.handled = true
							}
							if f.Name() == "Respond" && recvNamed(f) == "RPC" {
								a := x.Common().Args
								if len(a) == 3 && isNilConst(a[1]) && neverNilErr(a[2], 3) {
									s.refused = true
								}
							}
						}
					}
					if _, isRet := in.(*ssa.Return); isRet {
						if s.refused {
							out.refused = true
						}
						if !s.refused && !s.handled {
							out.silent = true
						}
					}
				}
				if n := len(s.b.Instrs); n > 0 {
					if iff, ok := s.b.Instrs[n-1].(*ssa.If); ok {
						v, pos := stripNot(iff.Cond, true)
						val, kn := known[v]
						if kn {
							val = val == pos
						} else {
							val, kn = decide(iff.Cond)
						}
						if kn {
							if val {
								step(s.b, s.b.Succs[0], s, known)
							} else {
								step(s.b, s.b.Succs[1], s, known)
							}
							return
						}
					}
				}
				for _, su := range s.b.Succs {
					step(s.b, su, s, known)
				}
			}
			walk(stt{fn.Blocks[0], false, false, ""}, map[ssa.Value]bool{})
			var hs []string
			for h := range out.handlers {
				hs = append(hs, h)
			}
			sort.Strings(hs)
			want := ""
			if cmd != "<other>" && (sn == "Babbling" || (sn == "Suspended" && cmd == "SyncRequest")) {
				want = handlers[cmd]
			}
			got := strings.Join(hs, ",")
			ok := got == want && !out.silent && (want != "" || out.refused)
			if want != "" && out.refused && cmd != "<other>" {
				// refusal and handler both reachable for an admitted combination
				ok = false
			}
			detail := fmt.Sprintf("state=%s command=%s: handlers reached={%s} refused=%v silent-return=%v", sn, cmd, got, out.refused, out.silent)
			r.Check(ok, rule, fmt.Sprintf("processRPC:%s x %s", sn, cmd), p.pos(fn.Pos()), fnName(fn), detail, detail+"; expected handler={"+want+"}"+map[bool]string{true: "", false: " and an error response"}[want != ""])
		}
	}
}

func c17readonly(p *Prog, r *Report) {
	const rule = "C17.readonly"
	r.Rule(rule, 1, "reach(processSyncRequest) is disjoint from the mutator set and writes no field of Hashgraph / core / stores / caches")
	fn := p.Func(NODE, "Node", "processSyncRequest")
	if fn == nil {
		r.Anchor(rule, "node.(*Node).processSyncRequest")
		return
	}
	set := p.reach([]*ssa.Function{fn}, nil)
	mut := map[string]bool{}
	for _, m := range []string{"SetEvent", "SetBlock", "SetFrame", "SetRound", "SetPeerSet", "AddConsensusEvent", "Reset"} {
		mut[HG+".InmemStore."+m] = true
		mut[HG+".BadgerStore."+m] = true
	}
	for _, m := range []string{"InsertEvent", "InsertFrameEvent", "InsertEventAndRunConsensus", "DivideRounds", "DecideFame", "DecideRoundReceived", "ProcessDecidedRounds", "ProcessSigPool", "Reset", "Bootstrap", "SetAnchorBlock", "Init"} {
		mut[HG+".Hashgraph."+m] = true
	}
	for _, m := range []string{"sync", "addSelfEvent", "commit", "fastForward", "addTransactions", "addInternalTransaction", "processAcceptedInternalTransactions", "recordHeads", "signBlock", "setHeadAndSeq", "setPeers", "leave", "bootstrap", "processSigPool", "insertEventAndRunConsensus", "signAndInsertSelfEvent"} {
		mut[NODE+".core."+m] = true
	}
	var bad []string
	nMod := 0
	for f := range set {
		if !inModule(f) {
			continue
		}
		nMod++
		if o, ok := f.Object().(*types.Func); ok && mut[shortName(o)] {
			bad = append(bad, fnName(f))
		}
	}
	sort.Strings(bad)
	r.Check(len(bad) == 0, rule, "processSyncRequest:reach-vs-mutators", p.pos(fn.Pos()), fnName(fn), fmt.Sprintf("%d module functions reachable, none is a mutator", nMod), "a sync request can reach: "+strings.Join(bad, ", "))
	// field writes
	guarded := map[string]bool{"Hashgraph": true, "core": true, "InmemStore": true, "BadgerStore": true, "PeerSetCache": true, "ParticipantEventsCache": true, "PendingRoundsCache": true, "SigPool": true, "RoundInfo": true, "RollingIndex": true, "RollingIndexMap": true, "Node": true}
	p.buildFieldStores()
	var wbad []string
	for fv, ws := range p.fieldStoreCache {
		for _, w := range ws {
			if w.Fresh || !set[w.Fn] {
				continue
			}
			owner := fieldOwner(p, fv)
			if guarded[owner] {
				// statistics counters of Node are not DAG state
				if owner == "Node" && (refName(fv) == "syncRequests" || refName(fv) == "syncErrors") {
					continue
				}
				wbad = append(wbad, owner+"."+refName(fv)+" in "+fnName(w.Fn)+"@"+p.ipos(w.Instr))
			}
		}
	}
	sort.Strings(wbad)
	r.Check(len(wbad) == 0, rule, "processSyncRequest:reach-writes-no-state", p.pos(fn.Pos()), fnName(fn), "no store to hashgraph/core/store/cache fields in the closure", "state written while serving a sync request: "+strings.Join(wbad, "; "))
}

var fieldOwnerCaches = map[*Prog]map[*types.Var]string{}

func fieldOwner(p *Prog, fv *types.Var) string {
	fieldOwnerCache := fieldOwnerCaches[p]
	if fieldOwnerCache == nil {
		fieldOwnerCache = map[*types.Var]string{}
		fieldOwnerCaches[p] = fieldOwnerCache
		for _, pk := range p.Pkgs {
			sc := pk.Types.Scope()
			for _, n := range sc.Names() {
				if tn, ok := sc.Lookup(n).(*types.TypeName); ok {
					if st, ok := tn.Type().Underlying().(*types.Struct); ok {
						for i := 0; i < st.NumFields(); i++ {
							fieldOwnerCache[st.Field(i)] = tn.Name()
						}
					}
				}
			}
		}
	}
	return fieldOwnerCache[fv]
}

func c17diff(p *Prog, r *Report) {
	const rule = "C17.diff"
	r.Rule(rule, 3, "eventDiff: ParticipantEvents(peer key, otherKnown[id] or -1); result sorted by ByTopologicalOrder (topologicalIndex, <) before every success return; processSyncRequest truncates to a prefix")
	fn := p.Func(NODE, "core", "eventDiff")
	if fn == nil {
		r.Anchor(rule, "node.(*core).eventDiff")
		return
	}
	other := ssa.Value(fn.Params[1])
	for _, c := range callsIn(fn, storeM("ParticipantEvents")) {
		skip := lastArg(c)
		// skip is the looked-up value, or -1 when absent
		okSkip := flowsFrom(skip, func(x ssa.Value) bool {
			if e, ok := x.(*ssa.Extract); ok && e.Index == 0 {
				if lk, ok := e.Tuple.(*ssa.Lookup); ok && unwrap(lk.X) == other {
					return true
				}
			}
			if lk, ok := x.(*ssa.Lookup); ok && unwrap(lk.X) == other {
				return true
			}
			return false
		})
		okDefault := true
		if ph, ok := unwrap(skip).(*ssa.Phi); ok {
			for _, e := range ph.Edges {
				if k, okc := intConst(e); okc && k != -1 {
					okDefault = false
				}
			}
		}
		r.Check(okSkip && okDefault, rule, "eventDiff:ParticipantEvents(skip=otherKnown[id]|-1)", p.ipos(c), fnName(fn), "asks exactly for the events the other side lacks", "the skip index is not the other side's known index (or -1 when unknown)")
	}
	// sort before return
	var sorts []ssa.CallInstruction
	for _, c := range callsIn(fn, named("sort.Sort", "sort.Stable")) {
		a := c.Common().Args[0]
		if mi, ok := a.(*ssa.MakeInterface); ok {
			if n := namedOf(mi.X.Type()); n != nil && n.Obj().Name() == "ByTopologicalOrder" {
				sorts = append(sorts, c)
			}
		}
	}
	for i, rp := range p.succRets(fn, errNil, 1) {
		ok := false
		for _, s := range sorts {
			if dominates(s, rp.ret) {
				// the sorted value is the returned one
				a := s.Common().Args[0].(*ssa.MakeInterface).X
				if sameOrigin(unwrap(a), rp.ret.Results[0]) || flowsFrom(a, func(x ssa.Value) bool { return x == unwrap(rp.ret.Results[0]) }) || sameRoot(a, rp.ret.Results[0]) {
					ok = true
				}
			}
		}
		r.Check(ok, rule, fmt.Sprintf("eventDiff:return#%d:sorted-topologically", i), p.ipos(rp.ret), fnName(fn), "the diff is returned in topological (insertion) order", "eventDiff returns events that were not sorted by ByTopologicalOrder: a truncated prefix would not be downward-closed and the receiver could not insert it")
	}
	less := p.Func(HG, "ByTopologicalOrder", "Less")
	if less == nil {
		r.Anchor(rule, "hashgraph.ByTopologicalOrder.Less")
	} else {
		ok := false
		for _, b := range less.Blocks {
			if ret, isRet := b.Instrs[len(b.Instrs)-1].(*ssa.Return); isRet {
				if bo, isB := ret.Results[0].(*ssa.BinOp); isB && (bo.Op == token.LSS || bo.Op == token.GTR) {
					lo, hi := bo.X, bo.Y
					if bo.Op == token.GTR {
						lo, hi = hi, lo
					}
					if flowsFromField(lo, "topologicalIndex") && flowsFromField(hi, "topologicalIndex") && depOnValue(lo, less.Params[1]) && depOnValue(hi, less.Params[2]) {
						ok = true
					}
				}
			}
		}
		r.Check(ok, rule, "ByTopologicalOrder.Less", p.pos(less.Pos()), fnName(less), "ascending topological index", "ByTopologicalOrder.Less is not a[i].topologicalIndex < a[j].topologicalIndex")
	}
	// prefix truncation in the handlers that cut the diff
	for _, hn := range []string{"processSyncRequest", "push"} {
		h := p.Func(NODE, "Node", hn)
		if h == nil {
			r.Anchor(rule, "node.(*Node)."+hn)
			continue
		}
		n := 0
		for _, b := range h.Blocks {
			for _, in := range b.Instrs {
				sl, ok := in.(*ssa.Slice)
				if !ok || !flowsFromCall(sl.X, named(NODE+".core.eventDiff"), 0) {
					continue
				}
				n++
				r.Check(sl.Low == nil, rule, hn+":truncate-to-prefix", p.ipos(in), fnName(h), "the diff is cut to a prefix [:limit]", "the diff is cut to something else than a prefix: the receiver would get events whose ancestors were dropped")
			}
		}
		if n == 0 {
			r.Note("C17.diff: %s does not slice the diff", hn)
		}
	}
}

// sameRoot: both values are loads / copies of the same local.
func sameRoot(a, b ssa.Value) bool {
	ra, rb := rootOf(a), rootOf(b)
	return ra != nil && ra == rb
}

func rootOf(v ssa.Value) ssa.Value {
	for i := 0; i < 10; i++ {
		v = unwrap(v)
		switch x := v.(type) {
		case *ssa.UnOp:
			if x.Op == token.MUL {
				if al, ok := x.X.(*ssa.Alloc); ok {
					return al
				}
			}
			return v
		case *ssa.Phi:
			return v
		default:
			return v
		}
	}
	return v
}

func c17submit(p *Prog, r *Report) {
	const rule = "C17.submit"
	r.Rule(rule, 3, "Node.addTransaction reaches only core.addTransactions among the mutators; core.addSelfEvent reachable only through Node.babble (entered only when Babbling) and processEagerSyncRequest; babble called only under state == Babbling")
	at := p.Func(NODE, "Node", "addTransaction")
	if at == nil {
		r.Anchor(rule, "node.(*Node).addTransaction")
		return
	}
	set := p.reach([]*ssa.Function{at}, nil)
	var bad []string
	p.buildFieldStores()
	for fv, ws := range p.fieldStoreCache {
		for _, w := range ws {
			if w.Fresh || !set[w.Fn] {
				continue
			}
			owner := fieldOwner(p, fv)
			if owner == "core" && refName(fv) == "transactionPool" {
				continue
			}
			switch owner {
			case "Hashgraph", "core", "InmemStore", "BadgerStore", "PeerSetCache", "ParticipantEventsCache", "PendingRoundsCache", "SigPool", "RoundInfo", "RollingIndex", "RollingIndexMap":
				bad = append(bad, owner+"."+refName(fv)+" in "+fnName(w.Fn))
			}
		}
	}
	sort.Strings(bad)
	r.Check(len(bad) == 0, rule, "addTransaction:writes-only-the-pool", p.pos(at.Pos()), fnName(at), "a submission only appends to the transaction pool", "submitting a transaction also writes: "+strings.Join(bad, ", "))
	ase := p.Func(NODE, "core", "addSelfEvent")
	bab := p.Func(NODE, "Node", "babble")
	eag := p.Func(NODE, "Node", "processEagerSyncRequest")
	if ase == nil || bab == nil || eag == nil {
		r.Anchor(rule, "core.addSelfEvent / Node.babble / Node.processEagerSyncRequest")
		return
	}
	// closures created in babble (the gossip goroutine body) belong to babble: the call graph is
	// context-insensitive at state.Manager.GoFunc, so they are reachable from any GoFunc caller
	gate := func(f *ssa.Function) bool { return f == bab || f == eag || f.Parent() == bab }
	path := p.pathAvoiding(p.roots(), ase, gate)
	r.Check(path == nil, rule, "addSelfEvent:only-via-babble-or-eager-sync", p.pos(ase.Pos()), fnName(ase), "self-events are created only from the babbling loop and the gated eager-sync handler", "a self-event can be created through: "+strings.Join(path, " -> "))
	// babble called only when state == Babbling
	states, _ := stateConsts(p)
	n := 0
	for _, c := range p.callsAnywhere(named(NODE + ".Node.babble")) {
		n++
		q := func(l Lit) bool {
			x, y, ok := eqLit(l)
			if !ok {
				return false
			}
			k, okc := intConst(y)
			if !okc {
				k, okc = intConst(x)
				x = y
			}
			return okc && k == states["Babbling"] && flowsFromCall(x, func(f *types.Func) bool { return f.Name() == "GetState" }, 0)
		}
		g, _ := p.allPaths(c, []Pred{q}, all(1))
		if !g {
			// table dispatch: the call sits in a closure stored in a map under the constant key Babbling, and every
			// invocation of an element of that map looks it up under GetState()
			if cl := c.Parent(); cl.Parent() != nil {
				par := cl.Parent()
				okTable := false
				for _, b := range par.Blocks {
					for _, in := range b.Instrs {
						mu, isMU := in.(*ssa.MapUpdate)
						if !isMU {
							continue
						}
						mc, isMC := unwrap(mu.Value).(*ssa.MakeClosure)
						if !isMC || mc.Fn != ssa.Value(cl) {
							if fv, isF := unwrap(mu.Value).(*ssa.Function); !isF || fv != cl {
								continue
							}
						}
						if k, isC := intConst(mu.Key); isC && k == states["Babbling"] {
							okTable = true
							// every other key under which this closure is stored must be Babbling too; and lookups
							// of the map use the current state
							for _, b2 := range par.Blocks {
								for _, in2 := range b2.Instrs {
									if lk, isL := in2.(*ssa.Lookup); isL && (lk.X == mu.Map || unwrap(lk.X) == unwrap(mu.Map)) {
										if !flowsFromCall(lk.Index, func(f *types.Func) bool { return f.Name() == "GetState" }, 0) {
											okTable = false
										}
									}
								}
							}
						} else if isMC || true {
							okTable = false
						}
					}
				}
				g = okTable
			}
		}
		r.Check(g, rule, c.Parent().Name()+":babble-only-when-Babbling", p.ipos(c), fnName(c.Parent()), "the babbling loop is entered only in state Babbling", "babble() is called without state == Babbling")
	}
	if n == 0 {
		r.Fail(rule, "babble:callers", p.pos(bab.Pos()), fnName(bab), "no call of babble found")
	}
	// processEagerSyncRequest is called only from processRPC
	var oc []string
	for _, e := range cgCallers(p, eag) {
		if e.Caller.Func.Name() != "processRPC" && inModule(e.Caller.Func) && e.Caller.Func.Synthetic == "" {
			oc = append(oc, fnName(e.Caller.Func))
		}
	}
	r.Check(len(oc) == 0, rule, "processEagerSyncRequest:only-from-processRPC", p.pos(eag.Pos()), fnName(eag), "the handler is reached only through the gated dispatcher", "processEagerSyncRequest called from "+strings.Join(oc, ", "))
}

func c17suspend(p *Prog, r *Report) {
	const rule = "C17.suspend"
	r.Rule(rule, 3, "checkSuspend called on every tick of babble; Suspend() only under (new undetermined events > SuspendLimit * validators.Len()) or the eviction condition; Suspend transitions to Suspended before waiting for routines")
	bab := p.Func(NODE, "Node", "babble")
	cs := p.Func(NODE, "Node", "checkSuspend")
	sus := p.Func(NODE, "Node", "Suspend")
	if bab == nil || cs == nil || sus == nil {
		r.Anchor(rule, "Node.babble / checkSuspend / Suspend")
		return
	}
	calls := callsIn(bab, named(NODE+".Node.checkSuspend"))
	okTick := false
	for _, c := range calls {
		// not conditional on the gossip flag, and inside the loop; every resetTimer in the loop is followed by it
		lp := innermostLoop(naturalLoops(bab), c.Block())
		cond := false
		for _, l := range p.Facts(bab).At(c.Block()) {
			if dependsOn(l.V, func(x ssa.Value) bool { pv, ok := x.(*ssa.Parameter); return ok && pv.Name() == "gossip" }) {
				cond = true
			}
		}
		if lp != nil && !cond {
			// the tick receive: a Select / channel receive on controlTimer.tickCh dominates it
			okTick = true
		}
	}
	// nothing is started after the suspension check within the same heartbeat: a node that has just
	// suspended itself must not go on to gossip / create a self-event on that tick
	for _, c := range calls {
		lp := innermostLoop(naturalLoops(bab), c.Block())
		if lp == nil {
			continue
		}
		starts := func(in ssa.Instruction) bool {
			ci, ok := in.(ssa.CallInstruction)
			if !ok {
				return false
			}
			f := calleeFunc(ci.Common())
			if f == nil {
				return false
			}
			switch shortName(f) {
			case NODE + ".Node.gossip", NODE + ".Node.monologue", NODE + ".Node.pull", NODE + ".Node.push":
				return true
			}
			return f.Name() == "GoFunc"
		}
		after := ""
		seenCall := false
		for _, in := range c.Block().Instrs {
			if in == ssa.Instruction(c) {
				seenCall = true
				continue
			}
			if seenCall && starts(in) {
				after = p.ipos(in)
			}
		}
		forwardFrom(c.Block(), func(x *ssa.BasicBlock) bool {
			if x == lp.head || !lp.body[x] || after != "" {
				return false
			}
			for _, in := range x.Instrs {
				if starts(in) {
					after = p.ipos(in)
				}
			}
			return true
		})
		r.Check(after == "", rule, "babble:nothing-started-after-checkSuspend", p.ipos(c), fnName(bab), "the suspension check is the last thing a heartbeat does",
			"within one heartbeat, gossip / a self-event is started at "+after+" AFTER checkSuspend(): on the tick on which the node suspends itself (too many undetermined events, evicted) it still syncs and creates an event while Suspended, outside the routines Suspend() waited for")
	}
	r.Check(okTick, rule, "babble:checkSuspend-every-tick", p.pos(bab.Pos()), fnName(bab), "suspension is checked after every heartbeat, gossiping or not", "checkSuspend is not called unconditionally inside the babbling loop")
	// condition
	fInit := p.Field(NODE, "Node", "initialUndeterminedEvents")
	qMany := func(l Lit) bool {
		a, b, strict, ok := cmpLit(l)
		if !ok || !strict {
			return false
		}
		okA := depOnCall(a, named(NODE+".core.getUndeterminedEvents")) && depOnFieldVar(a, fInit)
		okB := flowsFrom(b, func(x ssa.Value) bool {
			m, ok := x.(*ssa.BinOp)
			if !ok || m.Op != token.MUL {
				return false
			}
			lim := func(v ssa.Value) bool { return flowsFromField(v, "SuspendLimit") }
			vl := func(v ssa.Value) bool {
				return flowsFromCall(v, named(PEER+".PeerSet.Len"), 0) && depOnField(v, "validators")
			}
			return (lim(m.X) && vl(m.Y)) || (lim(m.Y) && vl(m.X))
		})
		return okA && okB
	}
	qEvict := func(l Lit) bool {
		a, b, _, ok := cmpLit(l)
		if !ok {
			return false
		}
		return depOnField(a, "LastConsensusRound") && depOnField(b, "removedRound")
	}
	n := 0
	for _, c := range callsIn(cs, named(NODE+".Node.Suspend")) {
		n++
		// tooMany is materialised in a variable: the branch tests the phi/boolean; accept literal on a value that flows from the comparison
		qManyV := func(l Lit) bool {
			if qMany(l) {
				return true
			}
			if !l.Pos {
				return false
			}
			return flowsFrom(l.V, func(x ssa.Value) bool { return qMany(Lit{V: x, Pos: true}) })
		}
		qEvictV := func(l Lit) bool {
			if qEvict(l) {
				return true
			}
			if !l.Pos {
				return false
			}
			return dependsOn(l.V, func(x ssa.Value) bool { return qEvict(Lit{V: x, Pos: true}) }) && depOnField(l.V, "removedRound")
		}
		// each condition ALONE suspends (the conditions are alternatives, not a conjunction): some path reaches Suspend()
		// with the eviction literal but without the too-many literal, and some path with the too-many literal but
		// without the eviction literal
		pi := p.pathMasks(cs, []Pred{qManyV, qEvictV})
		aloneMany, aloneEvict := false, false
		for m := range pi.in[c.Block().Index] {
			switch pi.predMask(m) & 3 {
			case 1:
				aloneMany = true
			case 2:
				aloneEvict = true
			}
		}
		r.Check(aloneMany && aloneEvict, rule, "checkSuspend:each-condition-alone", p.ipos(c), fnName(cs), "too many undetermined events alone, and eviction alone, each suspend the node",
			fmt.Sprintf("Suspend() is not reached by too-many-undetermined-events alone (%v) or by eviction alone (%v): the two conditions were combined into a conjunction, so an evicted node keeps babbling (or a node cut off from the others keeps piling up events) until the other condition happens to hold too", aloneMany, aloneEvict))
		g, _ := p.allPaths(c, []Pred{qManyV, qEvictV}, func(m uint32) bool { return m != 0 })
		r.Check(g, rule, "checkSuspend:Suspend-condition", p.ipos(c), fnName(cs), "suspends only when new undetermined events > SuspendLimit x validators, or evicted", "Suspend() is not guarded by (undetermined - initial) > SuspendLimit * validators.Len() or the eviction condition")
	}
	if n == 0 {
		r.Fail(rule, "checkSuspend:Suspend-condition", p.pos(cs.Pos()), fnName(cs), "checkSuspend never calls Suspend")
	}
	// the too-many comparison exists with the right operands at all
	found := false
	for _, b := range cs.Blocks {
		for _, in := range b.Instrs {
			if v, ok := in.(ssa.Value); ok && (qMany(Lit{V: v, Pos: true}) || qMany(Lit{V: v, Pos: false})) {
				found = true
			}
		}
	}
	r.Check(found, rule, "checkSuspend:threshold-form", p.pos(cs.Pos()), fnName(cs), "(len(undetermined) - initial) > SuspendLimit * validators.Len()", "the suspension threshold is not (undetermined - initial) > SuspendLimit * validators.Len() (strict)")
	// Suspend: transition before waiting
	states, _ := stateConsts(p)
	var tr, wait ssa.CallInstruction
	for _, c := range callsIn(sus, named(NODE+".Node.transition")) {
		if k, ok := intConst(argN(c, 0)); ok && k == states["Suspended"] {
			tr = c
		}
	}
	for _, c := range callsIn(sus, func(f *types.Func) bool { return f.Name() == "WaitRoutines" }) {
		wait = c
	}
	r.Check(tr != nil && (wait == nil || dominates(tr, wait)), rule, "Suspend:transition-before-wait", p.pos(sus.Pos()), fnName(sus), "the state changes before in-flight routines are awaited (new requests are refused at once)", "Suspend does not transition to Suspended before waiting for routines")
	// the state change itself cannot fail or be skipped: Node.transition stores the new state on every
	// path — it is not conditional on what the application's OnStateChanged callback answers
	trf := p.Func(NODE, "Node", "transition")
	if trf == nil {
		r.Anchor(rule, "node.(*Node).transition")
		return
	}
	var sets []ssa.CallInstruction
	for _, c := range callsIn(trf, func(f *types.Func) bool { return f.Name() == "SetState" }) {
		a := c.Common().Args
		if len(a) > 0 && len(trf.Params) > 1 && unwrap(a[len(a)-1]) == ssa.Value(trf.Params[1]) {
			sets = append(sets, c)
		}
	}
	okSet := len(sets) > 0
	for _, b := range trf.Blocks {
		ret, isRet := b.Instrs[len(b.Instrs)-1].(*ssa.Return)
		if !isRet || (b.Index != 0 && len(b.Preds) == 0) {
			continue
		}
		dom := false
		for _, c := range sets {
			if dominates(c, ret) {
				dom = true
			}
		}
		if !dom {
			okSet = false
		}
	}
	r.Check(okSet, rule, "transition:state-set-unconditionally", p.pos(trf.Pos()), fnName(trf), "SetState(state) is executed on every path through transition",
		"Node.transition can return without storing the new state (e.g. when the application's OnStateChanged callback fails): a node that must suspend (too many undetermined events, evicted) stays Babbling and keeps creating events")
}

/* ---------- C17.selfremoved ---------- */

// selfRemovedRule: a node learns that it was voted out from the receipt of its own leave
// transaction. The test "is this removal mine?" is an identity test on peer IDs (the ID is derived
// from the key BYTES; the spelling of the key in a peers file or in a transaction is not canonical).
//  - core.removedRound receives the effective round exactly under Peer.ID() == validator.ID();
//  - nowhere in the module is a raw Peer.PubKeyHex compared (==, !=) with a canonical key string
//    (Validator.PublicKeyHex(), keys.PublicKeyHex(...), Event.Creator()).
func selfRemovedRule(p *Prog, r *Report, rule string) {
	r.Rule(rule, 2, "core.removedRound is set exactly under txBody.Peer.ID() == validator.ID(); no comparison mixes a raw Peer.PubKeyHex with a canonical key string")
	fn := p.Func(NODE, "core", "processAcceptedInternalTransactions")
	fRR := p.Field(NODE, "core", "removedRound")
	if fn == nil || fRR == nil {
		r.Anchor(rule, "core.processAcceptedInternalTransactions / core.removedRound")
		return
	}
	isIDOf := func(v ssa.Value, recvType string) bool {
		c, _ := callOf(v)
		if c == nil {
			return false
		}
		f := calleeFunc(c.Common())
		return f != nil && f.Name() == "ID" && recvNamed(f) == recvType
	}
	qSelf := func(l Lit) bool {
		x, y, ok := eqLit(l)
		if !ok {
			return false
		}
		return (isIDOf(x, "Peer") && isIDOf(y, "Validator")) || (isIDOf(y, "Peer") && isIDOf(x, "Validator"))
	}
	n, okGuard, okConverse, where := 0, true, true, p.pos(fn.Pos())
	loops := naturalLoops(fn)
	for _, w := range p.writersOf(fRR) {
		if w.Fn != fn {
			continue
		}
		n++
		if g, _ := p.allPaths(w.Instr, []Pred{qSelf}, all(1)); !g {
			okGuard = false
			where = p.ipos(w.Instr)
		}
		// conversely: once the identity test succeeded, the round is recorded before the iteration ends
		lp := innermostLoop(loops, w.Instr.Block())
		for _, b := range fn.Blocks {
			if len(b.Succs) != 2 {
				continue
			}
			for _, s := range b.Succs {
				l, ok := edgeLit(b, s)
				if !ok || !qSelf(l) {
					continue
				}
				var targets []*ssa.BasicBlock
				if lp != nil {
					targets = append(targets, lp.head)
				}
				for _, t := range fn.Blocks {
					if len(t.Instrs) > 0 {
						if _, isRet := t.Instrs[len(t.Instrs)-1].(*ssa.Return); isRet {
							targets = append(targets, t)
						}
					}
				}
				for _, t := range targets {
					if s != w.Instr.Block() && reachesAvoiding(s, t, w.Instr.Block()) {
						okConverse = false
						where = p.ipos(w.Instr)
					}
				}
			}
		}
	}
	r.Check(n > 0 && okGuard && okConverse, rule, "removedRound:set-iff-own-ID", where, fnName(fn), "the removal round is recorded exactly when the removed peer's ID is the validator's",
		"core.removedRound is not set exactly under Peer.ID() == validator.ID(): a node whose key is spelled differently in the leave transaction (lower-case hex, no 0X prefix) never learns that it was voted out, stays Babbling and keeps creating events after its removal")
	okCmp, whereC := true, "-"
	raw := func(v ssa.Value) bool {
		return flowsFromLocal(v, func(x ssa.Value) bool {
			fv, _ := fieldOf(x)
			return fv != nil && refName(fv) == "PubKeyHex"
		})
	}
	canonical := func(v ssa.Value) bool {
		return flowsFromLocal(v, func(x ssa.Value) bool {
			c, _ := callOf(x)
			if c == nil {
				return false
			}
			f := calleeFunc(c.Common())
			if f == nil {
				return false
			}
			switch {
			case f.Name() == "PublicKeyHex":
				return true
			case f.Name() == "Creator" && recvNamed(f) == "Event":
				return true
			case f.Name() == "ValidatorHex":
				return true
			}
			return false
		})
	}
	for _, f := range p.Mod {
		for _, b := range f.Blocks {
			for _, in := range b.Instrs {
				bo, ok := in.(*ssa.BinOp)
				if !ok || (bo.Op != token.EQL && bo.Op != token.NEQ) {
					continue
				}
				if (raw(bo.X) && canonical(bo.Y)) || (raw(bo.Y) && canonical(bo.X)) {
					okCmp = false
					whereC = p.ipos(bo)
				}
			}
		}
	}
	r.Check(okCmp, rule, "key-spelling:raw-vs-canonical", whereC, "", "no comparison of a raw key spelling with a canonical one", "a raw Peer.PubKeyHex is compared with a canonical key string: equal keys spelled differently compare unequal")
}
