package main

// Rules added in the sixth round (probe batch 1 and seeds C??f). Each is registered under the
// properties it is a necessary condition of (see the init functions of the rules_cXX.go files).

import (
	"fmt"
	"go/token"
	"go/types"
	"strings"

	"golang.org/x/tools/go/ssa"
)

func init() {
	add := func(id string, expl string, rules ...ruleFunc) {
		d := registry[id]
		if d == nil {
			panic("rules_f: unknown property " + id)
		}
		d.Rules = append(d.Rules, rules...)
		if i := strings.LastIndex(d.Meta.Explanation, "NOT decided"); i >= 0 {
			d.Meta.Explanation = d.Meta.Explanation[:i] + expl + " " + d.Meta.Explanation[i:]
		} else {
			d.Meta.Explanation += " " + expl
		}
	}
	as := func(f func(*Prog, *Report, string), rule string) ruleFunc {
		return func(p *Prog, r *Report) { f(p, r, rule) }
	}
	add("C10", "C10.applied (every accepted receipt of a handled type is applied — no node-local condition skips one — and an applied receipt always leads to SetPeerSet).", as(appliedRule, "C10.applied"))
	add("C02", "C02.requeue (a round enters the pending queue only if it is not queued, was never decided, and lies above the fast-sync lower bound: a late witness cannot make a processed round be delivered again; shared with C13.requeue / C01.requeue).", as(requeueRule, "C02.requeue"))
	add("C13", "C13.requeue (see C02.requeue: the anchor round is not re-queued after a reset).", as(requeueRule, "C13.requeue"))
	add("C01", "C01.requeue (see C02.requeue), C01.famous (FamousWitnesses returns exactly the witnesses decided famous; shared with C18.famous).", as(requeueRule, "C01.requeue"), as(famousRule, "C01.famous"))
	add("C18", "C18.famous (the famous witnesses the median is taken over are exactly the witnesses decided famous).", as(famousRule, "C18.famous"))
	add("C11", "C11.headvalue (setHeadAndSeq restores exactly the creator's last stored event and its index and reports a store failure), C11.headfollows (head / seq move on every successful insertion of an own event and on no failed one; shared with C05.headfollows), C11.replayall (the replay loop ends only on a short batch or an error).", as(headValueRule, "C11.headvalue"), as(headFollowsRule, "C11.headfollows"), as(replayAllRule, "C11.replayall"))
	add("C05", "C05.headfollows (the head does not move when the insertion of a self-event reported an error: the pools stay untrimmed then, and a moved head would place the same transactions in a second event).", as(headFollowsRule, "C05.headfollows"))
	add("C02", "C02.roundreadback (while RoundInfo has fields that are not serialised — F-C16-2 — no production path reads a round record back from the database: a decided round read back as undecided is queued and delivered again; shared with C16.roundreadback / C01.roundreadback).", as(roundReadbackRule, "C02.roundreadback"))
	add("C08", "C08.verdictkey (nothing is remembered under a body hash that depends on a signature verdict: a forged copy cannot make the node refuse the genuine message later; shared with C07.verdictkey).", as(verdictKeyRule, "C08.verdictkey"))
	add("C07", "C07.verdictkey (see C08.verdictkey).", as(verdictKeyRule, "C07.verdictkey"))
	add("C16", "C16.roundreadback (see C02.roundreadback).", as(roundReadbackRule, "C16.roundreadback"))
	add("C01", "C01.roundreadback (see C02.roundreadback).", as(roundReadbackRule, "C01.roundreadback"))
	add("C17", "C17.removedround (removedRound is the effective round of the recorded set), C17.initial (the suspension baseline is taken after the bootstrap replay), C17.differr (a failing store read ends eventDiff with an error, never with a diff that has a hole).", c17more)
}

/* ---------- generic: stateful forward search ---------- */

// avoidSearch explores the CFG forward from the edge from->first (all successors of from when first
// is nil). stop(b) ends a path successfully (the obligation was met in b); target(pred, b) says that
// reaching b through pred->b is an exit that needs the obligation; excuse(l) marks an edge literal that
// waives the obligation for the rest of the path (n independent excuses may be required: the path is
// waived when all bits 0..nExcuse-1 were collected). Returns the first exit reached without stop /
// waiver (pred, block), or nil.
func avoidSearch(from, first *ssa.BasicBlock, stop func(*ssa.BasicBlock) bool, target func(pred, b *ssa.BasicBlock) bool, excuse func(Lit) int, nExcuse int, prune ...func(Lit) bool) (pr, at *ssa.BasicBlock) {
	type st struct {
		b    *ssa.BasicBlock
		mask int
	}
	full := (1 << uint(nExcuse)) - 1
	seen := map[st]bool{}
	type item struct {
		pred *ssa.BasicBlock
		st
	}
	var stack []item
	push := func(pred *ssa.BasicBlock, mask int, only *ssa.BasicBlock) {
		for _, s := range pred.Succs {
			if only != nil && s != only {
				continue
			}
			m := mask
			if l, ok := edgeLit(pred, s); ok {
				cut := false
				for _, pf := range prune {
					if pf(l) {
						cut = true
					}
				}
				if cut {
					continue
				}
				if excuse != nil {
					if k := excuse(l); k >= 0 {
						m |= 1 << uint(k)
					}
				}
			}
			stack = append(stack, item{pred, st{s, m}})
		}
	}
	push(from, 0, first)
	for len(stack) > 0 {
		x := stack[len(stack)-1]
		stack = stack[:len(stack)-1]
		if seen[x.st] {
			continue
		}
		seen[x.st] = true
		waived := nExcuse > 0 && x.mask == full
		if waived || stop(x.b) {
			continue
		}
		if target(x.pred, x.b) {
			return x.pred, x.b
		}
		push(x.b, x.mask, nil)
	}
	return nil, nil
}

func blockHasCall(b *ssa.BasicBlock, m fnMatch) bool {
	for _, in := range b.Instrs {
		if ci, ok := in.(ssa.CallInstruction); ok {
			if f := calleeFunc(ci.Common()); f != nil && m(f) {
				return true
			}
		}
	}
	return false
}

func receiptLoop(p *Prog, fn *ssa.Function) (*loopInfo, ssa.Value) {
	receipts := paramByType(fn, 2, "InternalTransactionReceipt")
	if receipts == nil {
		return nil, nil
	}
	var lp *loopInfo
	applyM := named(PEER+".PeerSet.WithNewPeer", PEER+".PeerSet.WithRemovedPeer")
	for _, l := range naturalLoops(fn) {
		if src, ok := loopSourceOf(fn, l); ok && src != nil && flowsFromLocal(src, func(x ssa.Value) bool { return x == receipts }) {
			has := false
			for b := range l.body {
				if blockHasCall(b, applyM) {
					has = true
				}
			}
			if has && (lp == nil || len(l.body) > len(lp.body)) {
				lp = l
			}
		}
	}
	return lp, receipts
}

/* ---------- C10.applied ---------- */

// appliedRule: "the validator set equals the genesis set modified by EXACTLY the accepted receipts":
// C10.accepted decides "only accepted ones"; this rule decides "every accepted one" — inside the loop
// over a block's receipts, once the Accepted flag tested true, every path to the next iteration passes
// WithNewPeer / WithRemovedPeer, unless the transaction type was tested different from every type that
// has such an arm; and every path from such a call to the next iteration raises the flag that guards
// SetPeerSet.
func appliedRule(p *Prog, r *Report, rule string) {
	r.Rule(rule, 2, "processAcceptedInternalTransactions: after Accepted tested true every path of the iteration applies the receipt (WithNewPeer / WithRemovedPeer) unless its type is none of the handled ones — no node-local condition (a seen-before set, a counter, the node's own membership) may skip an accepted receipt; an applied receipt always raises the flag that guards SetPeerSet")
	fn := p.Func(NODE, "core", "processAcceptedInternalTransactions")
	if fn == nil {
		r.Anchor(rule, "node.(*core).processAcceptedInternalTransactions")
		return
	}
	lp, _ := receiptLoop(p, fn)
	if lp == nil {
		r.Fail(rule, "processAccepted:receipt-loop", p.pos(fn.Pos()), fnName(fn), "no loop over the receipts that applies them found")
		return
	}
	applyM := named(PEER+".PeerSet.WithNewPeer", PEER+".PeerSet.WithRemovedPeer")
	// handled type constants: those compared (==) on some path to an apply call
	vals := map[int64]int{}
	typeConst := func(l Lit) (int64, bool) {
		x, y, ok := eqLit(l)
		if !ok {
			return 0, false
		}
		if k, okc := intConst(y); okc && depOnField(x, "Type") {
			return k, true
		}
		if k, okc := intConst(x); okc && depOnField(y, "Type") {
			return k, true
		}
		return 0, false
	}
	for b := range lp.body {
		for _, s := range b.Succs {
			if l, ok := edgeLit(b, s); ok {
				if k, okc := typeConst(l); okc {
					if _, seen := vals[k]; !seen {
						vals[k] = len(vals)
					}
				}
			}
		}
	}
	excuse := func(l Lit) int {
		// the literal asserts Type != k
		if k, ok := typeConst(Lit{V: l.V, Pos: !l.Pos, Nil: l.Nil}); ok {
			if bit, known := vals[k]; known {
				return bit
			}
		}
		return -1
	}
	isAcc := func(l Lit) bool { return l.Pos && flowsFromField(l.V, "Accepted") }
	n := 0
	for _, b := range fn.Blocks {
		if !lp.body[b] {
			continue
		}
		for _, s := range b.Succs {
			l, ok := edgeLit(b, s)
			if !ok || !isAcc(l) {
				continue
			}
			n++
			nEx := len(vals)
			if nEx == 0 {
				nEx = 1 // no type test at all: nothing waives
			}
			pr, at := avoidSearch(b, s,
				func(x *ssa.BasicBlock) bool { return blockHasCall(x, applyM) },
				func(pred, x *ssa.BasicBlock) bool { return x == lp.head || !lp.body[x] },
				excuse, nEx,
				// the flag was tested true on this path: an edge asserting it false is infeasible
				func(l2 Lit) bool { return !l2.Pos && flowsFromField(l2.V, "Accepted") })
			where := ""
			if at != nil {
				where = p.ipos(pr.Instrs[len(pr.Instrs)-1])
			}
			r.Check(at == nil, rule, fmt.Sprintf("processAccepted:accepted-edge#%d:every-accepted-receipt-applied", n), p.ipos(b.Instrs[len(b.Instrs)-1]), fnName(fn),
				"an accepted PEER_ADD / PEER_REMOVE receipt always reaches WithNewPeer / WithRemovedPeer",
				"an accepted receipt of a handled type can be skipped (path leaves the iteration at "+where+" without WithNewPeer / WithRemovedPeer): whether it is applied depends on something else than the committed block — a node that restarted, fast-forwarded or joined later applies it, this one does not, and the validator-set histories diverge")
		}
	}
	if n == 0 {
		r.Fail(rule, "processAccepted:accepted-test", p.pos(fn.Pos()), fnName(fn), "no branch on the receipt's Accepted flag inside the receipt loop")
	}
	// an applied receipt raises the flag guarding SetPeerSet
	closure := map[*ssa.Phi]bool{}
	var addPhi func(v ssa.Value)
	addPhi = func(v ssa.Value) {
		if ph, ok := v.(*ssa.Phi); ok && !closure[ph] {
			closure[ph] = true
			for _, e := range ph.Edges {
				addPhi(e)
			}
		}
	}
	guarded := false
	for _, c := range callsIn(fn, storeM("SetPeerSet")) {
		for _, l := range p.Facts(fn).At(c.Block()) {
			if bt, ok := l.V.Type().Underlying().(*types.Basic); ok && bt.Kind() == types.Bool && l.Pos {
				if _, isPhi := l.V.(*ssa.Phi); isPhi {
					addPhi(l.V)
					guarded = true
				}
			}
		}
	}
	if !guarded {
		r.Ok(rule, "processAccepted:applied-implies-recorded", p.pos(fn.Pos()), fnName(fn), "SetPeerSet is not guarded by a boolean flag carried through the loop")
		return
	}
	raises := func(pred, x *ssa.BasicBlock) bool {
		idx := -1
		for k, pp := range x.Preds {
			if pp == pred {
				idx = k
			}
		}
		if idx < 0 {
			return false
		}
		for _, in := range x.Instrs {
			ph, ok := in.(*ssa.Phi)
			if !ok {
				break
			}
			if closure[ph] && idx < len(ph.Edges) {
				if c, ok := ph.Edges[idx].(*ssa.Const); ok && c.Value != nil && c.Value.String() == "true" {
					return true
				}
			}
		}
		return false
	}
	for i, c := range callsIn(fn, applyM) {
		if !lp.body[c.Block()] {
			continue
		}
		// search over edges: stop when an edge raises the flag
		type st struct{ b *ssa.BasicBlock }
		seen := map[*ssa.BasicBlock]bool{}
		stack := []*ssa.BasicBlock{c.Block()}
		var badPred *ssa.BasicBlock
		for len(stack) > 0 && badPred == nil {
			x := stack[len(stack)-1]
			stack = stack[:len(stack)-1]
			if seen[x] {
				continue
			}
			seen[x] = true
			for _, s := range x.Succs {
				if raises(x, s) {
					continue
				}
				if s == lp.head || !lp.body[s] {
					// error exits (return of a non-nil error) do not count
					if _, isRet := s.Instrs[len(s.Instrs)-1].(*ssa.Return); isRet && !lp.body[s] {
						continue
					}
					badPred = x
					break
				}
				stack = append(stack, s)
			}
		}
		where := ""
		if badPred != nil {
			where = p.ipos(badPred.Instrs[len(badPred.Instrs)-1])
		}
		r.Check(badPred == nil, rule, fmt.Sprintf("processAccepted:apply#%d:raises-changed-flag", i), p.ipos(c), fnName(fn),
			"every applied receipt makes the function record the new set",
			"a receipt is applied to the local copy of the validator set but the flag guarding SetPeerSet is not raised on the path through "+where+": the change is dropped unless another receipt of the same block raises it")
	}
}

/* ---------- C02.requeue / C13.requeue ---------- */

// requeueRule: DivideRounds puts a round into the pending queue only if it is not queued already,
// was not decided before, and lies above the fast-sync lower bound. Without the second condition a
// witness that arrives after its round was decided and processed re-queues the round: DecideFame finds
// it decided at once, ProcessDecidedRounds reads the stored frame and delivers the same payload again
// under a new block index. Without the third a fast-forwarded node re-delivers its anchor round.
func requeueRule(p *Prog, r *Report, rule string) {
	r.Rule(rule, 2, "DivideRounds queues a round only under !Queued(round) && !roundInfo.decided && (no lower bound || round > lower bound); a queued round starts undecided; PendingRoundsCache.Update flags only the rounds it was given")
	fn := p.Func(HG, "Hashgraph", "DivideRounds")
	if fn == nil {
		r.Anchor(rule, "hashgraph.(*Hashgraph).DivideRounds")
		return
	}
	setM := named(HG + ".PendingRoundsCache.Set")
	qNotQueued := func(l Lit) bool {
		if l.Pos {
			return false
		}
		_, _, ok := isCallTo(l.V, named(HG+".PendingRoundsCache.Queued"))
		return ok
	}
	qNotDecided := func(l Lit) bool {
		if l.Pos {
			return false
		}
		if flowsFromField(l.V, "decided") {
			return true
		}
		return false
	}
	qNoBound := func(l Lit) bool {
		v, isNil, ok := nilTest(l)
		return ok && isNil && flowsFromField(v, "roundLowerBound")
	}
	qAbove := func(l Lit) bool {
		a, b, strict, ok := cmpLit(l)
		if !ok || !strict {
			return false
		}
		_, isConst := a.(*ssa.Const)
		return !isConst && depOnField(b, "roundLowerBound") && !depOnField(a, "roundLowerBound")
	}
	cs := callsIn(fn, setM)
	if len(cs) == 0 {
		r.Fail(rule, "DivideRounds:PendingRounds.Set", p.pos(fn.Pos()), fnName(fn), "DivideRounds never queues a round")
	}
	for i, c := range cs {
		ok, m := p.allPaths(c, []Pred{qNotQueued, qNotDecided, qNoBound, qAbove}, func(m uint32) bool {
			return m&1 != 0 && m&2 != 0 && (m&4 != 0 || m&8 != 0)
		})
		r.Check(ok, rule, fmt.Sprintf("DivideRounds:PendingRounds.Set#%d:guards", i), p.ipos(c), fnName(fn),
			"a round is queued once: not while queued, never after it was decided, never at or below the fast-sync lower bound",
			fmt.Sprintf("a round can be queued without all of: not queued (%v), not decided before (%v), above the fast-sync lower bound (%v) — a late witness of a processed round (or, after a fast-forward, an event of the anchor round) re-queues the round, which is found decided at once and delivered again as a new block", m&1 != 0, m&2 != 0, m&4 != 0 || m&8 != 0))
		// the queued entry starts undecided
		arg := argN(c, 0)
		okInit := false
		if arg != nil {
			if al, isAl := unwrap(arg).(*ssa.Alloc); isAl {
				for _, st := range storedThrough(al) {
					if fa, isFA := st.Addr.(*ssa.FieldAddr); isFA {
						if fv := fieldVar(fa.X.Type(), fa.Field); fv != nil && fv.Name() == "Decided" {
							if k, isC := st.Val.(*ssa.Const); isC && k.Value != nil && k.Value.String() == "false" {
								okInit = true
							} else {
								okInit = false
								break
							}
						}
					}
				}
				// a composite literal that leaves Decided at its zero value
				if !okInit {
					wrote := false
					for _, st := range storedThrough(al) {
						if fa, isFA := st.Addr.(*ssa.FieldAddr); isFA {
							if fv := fieldVar(fa.X.Type(), fa.Field); fv != nil && fv.Name() == "Decided" {
								wrote = true
							}
						}
					}
					okInit = !wrote
				}
			}
		}
		r.Check(okInit, rule, fmt.Sprintf("DivideRounds:PendingRounds.Set#%d:starts-undecided", i), p.ipos(c), fnName(fn), "a newly queued round is undecided", "a round is queued with Decided already set (or with a value the rule cannot see through): it would be processed before DecideFame decided it")
	}
	// writers of PendingRound.Decided
	fDec := p.Field(HG, "PendingRound", "Decided")
	upd := p.Func(HG, "PendingRoundsCache", "Update")
	if fDec == nil || upd == nil {
		r.Anchor(rule, "hashgraph.PendingRound.Decided / PendingRoundsCache.Update")
		return
	}
	for _, w := range p.writersOf(fDec) {
		if w.Fresh {
			continue
		}
		if w.Fn != upd {
			r.Fail(rule, "PendingRound.Decided:writer:"+w.Fn.Name(), p.ipos(w.Instr), fnName(w.Fn), "PendingRound.Decided is written outside PendingRoundsCache.Update (the queue's flag must only follow DecideFame's list)")
			continue
		}
		// the entry written is the one looked up under an index taken from the parameter
		param := ssa.Value(upd.Params[1])
		okEntry := false
		var fa *ssa.FieldAddr
		if st, isSt := w.Instr.(*ssa.Store); isSt {
			fa, _ = st.Addr.(*ssa.FieldAddr)
		}
		if fa != nil {
			okEntry = flowsFromLocal(fa.X, func(x ssa.Value) bool {
				e, ok := x.(*ssa.Extract)
				var lk *ssa.Lookup
				if ok {
					lk, _ = e.Tuple.(*ssa.Lookup)
				} else {
					lk, _ = x.(*ssa.Lookup)
				}
				if lk == nil {
					return false
				}
				return dependsOn(lk.Index, func(y ssa.Value) bool { return unwrap(y) == param }) && flowsFromField(lk.X, "items")
			})
		}
		r.Check(okEntry, rule, "PendingRoundsCache.Update:flags-listed-rounds-only", p.ipos(w.Instr), fnName(upd), "only the entry of a listed round is flagged decided", "Update sets Decided on an entry that is not the one looked up under a round of its argument: a round DecideFame did not decide would be processed")
	}
}

/* ---------- C01.famous / C18.famous ---------- */

// famousRule: FamousWitnesses() — the set round-received and the block timestamp are computed from —
// contains exactly the created events that are witnesses with Famous == True. A late witness whose
// fame was never decided (its round left the queue before it arrived) must not be in it: only some
// nodes hold such a witness.
func famousRule(p *Prog, r *Report, rule string) {
	r.Rule(rule, 1, "RoundInfo.FamousWitnesses appends an event only under Witness && Famous == True (undecided witnesses — e.g. late arrivals of a decided round — are not famous)")
	fn := p.Func(HG, "RoundInfo", "FamousWitnesses")
	if fn == nil {
		r.Anchor(rule, "hashgraph.(*RoundInfo).FamousWitnesses")
		return
	}
	cm := p.ByPkg[modPath+"/src/common"]
	if cm == nil {
		r.Anchor(rule, "common")
		return
	}
	tc, ok := cm.Types.Scope().Lookup("True").(*types.Const)
	if !ok {
		r.Anchor(rule, "common.True")
		return
	}
	tv, _ := intConstVal(tc)
	qW := func(l Lit) bool { return l.Pos && flowsFromField(l.V, "Witness") }
	qF := func(l Lit) bool {
		x, y, ok := eqLit(l)
		if !ok {
			return false
		}
		if k, okc := intConst(y); okc && k == tv && flowsFromField(x, "Famous") {
			return true
		}
		if k, okc := intConst(x); okc && k == tv && flowsFromField(y, "Famous") {
			return true
		}
		return false
	}
	n := 0
	for _, b := range fn.Blocks {
		for _, in := range b.Instrs {
			c, ok := in.(*ssa.Call)
			if !ok {
				continue
			}
			if bi, isB := c.Call.Value.(*ssa.Builtin); !isB || bi.Name() != "append" {
				continue
			}
			n++
			g, m := p.allPaths(c, []Pred{qW, qF}, all(2))
			r.Check(g, rule, fmt.Sprintf("FamousWitnesses:append#%d", n), p.ipos(c), fnName(fn), "only witnesses decided famous are returned",
				fmt.Sprintf("an event is returned as famous witness without Witness (%v) && Famous == True (%v) on every path: undecided late witnesses, which only some nodes hold, would enter the round-received test and the timestamp median", m&1 != 0, m&2 != 0))
		}
	}
	if n == 0 {
		// built differently (e.g. filtered copy): every element store must be guarded the same way
		r.Fail(rule, "FamousWitnesses:append", p.pos(fn.Pos()), fnName(fn), "no append found in FamousWitnesses: the rule cannot see how the list is built")
	}
}

/* ---------- C11.headvalue ---------- */

func storesToField(fn *ssa.Function, fv *types.Var) []*ssa.Store {
	var res []*ssa.Store
	for _, b := range fn.Blocks {
		for _, in := range b.Instrs {
			if st, ok := in.(*ssa.Store); ok {
				if fa, ok := st.Addr.(*ssa.FieldAddr); ok && fieldVar(fa.X.Type(), fa.Field) == fv {
					res = append(res, st)
				}
			}
		}
	}
	return res
}

// headValueRule: what setHeadAndSeq restores IS the creator's last stored event and its index, a store
// failure is reported, and the head follows every own event that is inserted.
func headValueRule(p *Prog, r *Report, rule string) {
	r.Rule(rule, 4, "core.setHeadAndSeq: head is \"\" or the hash LastEventFrom(own key) returned, seq is -1 or that event's Index(); it returns nil only if LastEventFrom succeeded, reported an empty listing, or the node is not in the repertoire; core.insertEventAndRunConsensus moves head/seq on every successful insertion of an own event")
	fn := p.Func(NODE, "core", "setHeadAndSeq")
	fHead, fSeq := p.Field(NODE, "core", "head"), p.Field(NODE, "core", "seq")
	if fn == nil || fHead == nil || fSeq == nil {
		r.Anchor(rule, "node.(*core).setHeadAndSeq / core.head / core.seq")
		return
	}
	lastM := storeM("LastEventFrom")
	isLast := func(x ssa.Value) bool { _, idx, ok := isCallTo(x, lastM); return ok && idx == 0 }
	hs := storesToField(fn, fHead)
	some := false
	for i, st := range hs {
		okAll := allSources(st.Val, func(x ssa.Value) bool {
			if s, ok := strConst(x); ok && s == "" {
				return true
			}
			if isLast(x) {
				some = true
				return true
			}
			return false
		})
		r.Check(okAll, rule, fmt.Sprintf("setHeadAndSeq:head#%d", i), p.ipos(st), fnName(fn), "head is the creator's last stored event (or empty)", "the value stored to core.head is not (on every path) \"\" or the hash returned by Store.LastEventFrom for the node's own key: after a restart the node would build its next event on the wrong (or no) self-parent and could never create an event again")
	}
	if len(hs) == 0 || !some {
		r.Fail(rule, "setHeadAndSeq:head", p.pos(fn.Pos()), fnName(fn), "setHeadAndSeq never stores the hash returned by Store.LastEventFrom to core.head")
	}
	ss := storesToField(fn, fSeq)
	some = false
	for i, st := range ss {
		okAll := allSources(st.Val, func(x ssa.Value) bool {
			if k, ok := intConst(x); ok && k == -1 {
				return true
			}
			if c, _, ok := isCallTo(x, named(HG+".Event.Index")); ok {
				// of the event fetched under the hash LastEventFrom returned
				if dependsOn(recvOf(c), func(y ssa.Value) bool { return isLast(y) }) {
					some = true
					return true
				}
			}
			return false
		})
		r.Check(okAll, rule, fmt.Sprintf("setHeadAndSeq:seq#%d", i), p.ipos(st), fnName(fn), "seq is the index of that event (or -1)", "the value stored to core.seq is not (on every path) -1 or Index() of the event fetched under the hash LastEventFrom returned: the next self-event would get a wrong index")
	}
	if len(ss) == 0 || !some {
		r.Fail(rule, "setHeadAndSeq:seq", p.pos(fn.Pos()), fnName(fn), "setHeadAndSeq never stores the index of the creator's last event to core.seq")
	}
	// the empty head is chosen only when there is no last event: the node is not in the repertoire, or the hash returned by
	// LastEventFrom is itself empty (an inverted test keeps the head empty on top of a non-empty chain)
	qNotIn := func(l Lit) bool {
		_, present, ok := lookupLit(l)
		return ok && !present
	}
	qLastEmpty := func(l Lit) bool {
		x, y, ok := eqLit(l)
		if !ok {
			return false
		}
		for _, pr := range [][2]ssa.Value{{x, y}, {y, x}} {
			if sc, isS := strConst(pr[1]); isS && sc == "" && flowsFrom(pr[0], isLast) {
				return true
			}
		}
		return false
	}
	for i, st := range hs {
		v := resolveLocalValue(st.Val)
		okE, n0 := true, 0
		if ph, isPhi := unwrap(v).(*ssa.Phi); isPhi {
			for k, e := range ph.Edges {
				if sc, isS := strConst(e); isS && sc == "" {
					// only edges from which the store is feasibly reached (an error path of an inlined helper also
					// assigns "" to the result temporary, then leaves through the error return)
					reach := ph.Block() == st.Block()
					if !reach {
						forwardFromEdge(ph.Block().Preds[k], ph.Block(), func(x *ssa.BasicBlock) bool {
							if x == st.Block() {
								reach = true
							}
							return !reach
						})
					}
					if !reach {
						continue
					}
					n0++
					if g, _ := p.allPathsEdge(ph.Block().Preds[k], ph.Block(), []Pred{qNotIn, qLastEmpty}, func(m uint32) bool { return m != 0 }); !g {
						okE = false
					}
				}
			}
		} else if sc, isS := strConst(v); isS && sc == "" {
			n0++
			if g, _ := p.allPaths(st, []Pred{qNotIn, qLastEmpty}, func(m uint32) bool { return m != 0 }); !g {
				okE = false
			}
		}
		if n0 > 0 {
			r.Check(okE, rule, fmt.Sprintf("setHeadAndSeq:head#%d:empty-only-without-last-event", i), p.ipos(st), fnName(fn), "the head is left empty only when the node has no last event", "core.head can be set to \"\" on a path where Store.LastEventFrom returned a non-empty hash (and the node is in the repertoire): after a restart the node's next event would have no self-parent and be refused for ever")
		}
	}
	qOK := func(l Lit) bool { _, ok := errNilLit(l, lastM); return ok }
	qEmpty := func(l Lit) bool {
		if !l.Pos {
			return false
		}
		c, _, ok := isCallTo(l.V, named("src/common.IsStore"))
		if !ok || len(c.Call.Args) < 2 {
			return false
		}
		_, _, fromLast := isCallTo(c.Call.Args[0], lastM)
		return fromLast || depOnCall(c.Call.Args[0], lastM)
	}
	qAbsent := func(l Lit) bool {
		_, present, ok := lookupLit(l)
		return ok && !present
	}
	for i, rp := range p.succRets(fn, errNil, 0) {
		g, _ := p.holdsAtRet(rp, []Pred{qOK, qEmpty, qAbsent}, func(m uint32) bool { return m != 0 })
		r.Check(g, rule, fmt.Sprintf("setHeadAndSeq:return-nil#%d", i), p.ipos(rp.ret), fnName(fn), "success only if the listing was read (or is empty / the node is not a participant yet)", "setHeadAndSeq can return nil although Store.LastEventFrom failed with a real error: the node would start babbling with an empty head on top of a non-empty chain")
	}
}

// headFollowsRule: core.head / core.seq move exactly when an event of this validator was inserted
// successfully: never on a failed insertion (addSelfEvent keeps the pools untrimmed on an error — a head
// that moved anyway makes the next self-event carry the same transactions a second time), and always on
// a successful one.
func headFollowsRule(p *Prog, r *Report, rule string) {
	r.Rule(rule, 3, "core.insertEventAndRunConsensus stores core.head / core.seq only after hg.InsertEventAndRunConsensus returned nil, and on every such path when the event's creator is this validator; the values are the event's Hex() / Index()")
	fHead, fSeq := p.Field(NODE, "core", "head"), p.Field(NODE, "core", "seq")
	if fHead == nil || fSeq == nil {
		r.Anchor(rule, "core.head / core.seq")
		return
	}
	ins := p.Func(NODE, "core", "insertEventAndRunConsensus")
	if ins == nil {
		r.Anchor(rule, "node.(*core).insertEventAndRunConsensus")
		return
	}
	for _, fv := range []*types.Var{fHead, fSeq} {
		sts := storesToField(ins, fv)
		if len(sts) == 0 {
			r.Fail(rule, "insertEventAndRunConsensus:"+fv.Name(), p.pos(ins.Pos()), fnName(ins), "core."+fv.Name()+" is not updated when an own event is inserted")
			continue
		}
		sb := map[*ssa.BasicBlock]bool{}
		for _, st := range sts {
			sb[st.Block()] = true
		}
		qIns := p.lift(func(l Lit) bool { _, ok := errNilLit(l, named(HG+".Hashgraph.InsertEventAndRunConsensus")); return ok }, 1)
		for i, st := range sts {
			g, _ := p.allPaths(st, []Pred{qIns}, all(1))
			r.Check(g, rule, fmt.Sprintf("insertEventAndRunConsensus:%s#%d:only-after-success", fv.Name(), i), p.ipos(st), fnName(ins), "core."+fv.Name()+" moves only when the insertion succeeded",
				"core."+fv.Name()+" is stored on a path on which hg.InsertEventAndRunConsensus did not return nil: the caller (addSelfEvent) keeps the pools untrimmed after an error, so the next self-event — built on the head that moved anyway — carries the same transactions again and they are committed twice")
			want := HG + ".Event.Hex"
			if fv == fSeq {
				want = HG + ".Event.Index"
			}
			_, _, okv := isCallTo(st.Val, named(want))
			r.Check(okv || flowsFromCall(st.Val, named(want), 0), rule, fmt.Sprintf("insertEventAndRunConsensus:%s#%d:value", fv.Name(), i), p.ipos(st), fnName(ins), "the inserted event's own "+want[len(HG)+7:]+"()", "core."+fv.Name()+" does not receive the inserted event's "+want[len(HG)+1:]+"()")
		}
		notSelf := func(l Lit) int {
			x, y, ok := eqLit(Lit{V: l.V, Pos: !l.Pos, Nil: l.Nil})
			if !ok {
				return -1
			}
			cr := func(v ssa.Value) bool {
				return depOnCall(v, named(HG+".Event.Creator", HG+".Event.creatorID", HG+".Event.CreatorID"))
			}
			me := func(v ssa.Value) bool { return depOnField(v, "validator") }
			if (cr(x) && me(y)) || (cr(y) && me(x)) {
				return 0
			}
			return -1
		}
		bad := ""
		for _, rp := range p.succRets(ins, errNil, 0) {
			rb := rp.ret.Block()
			if len(ins.Blocks) == 0 {
				continue
			}
			entry := ins.Blocks[0]
			if sb[entry] {
				continue
			}
			// virtual start: search from the entry block's successors; the entry itself cannot be a target
			pr, at := avoidSearch(entry, nil,
				func(x *ssa.BasicBlock) bool { return sb[x] },
				func(pred, x *ssa.BasicBlock) bool { return x == rb && (rp.pred == nil || rp.pred == pred) },
				notSelf, 1)
			if at != nil {
				bad = p.ipos(pr.Instrs[len(pr.Instrs)-1])
			}
		}
		r.Check(bad == "", rule, "insertEventAndRunConsensus:"+fv.Name()+"-follows-own-events", p.pos(ins.Pos()), fnName(ins), "every successful insertion of an event created by this validator moves core."+fv.Name(),
			"a successful insertion of an own event can leave core."+fv.Name()+" unchanged (path through "+bad+"): own events that come back through a sync — after a restart from an empty store — leave the head behind, and every later self-event is built on a stale self-parent")
	}
}


/* ---------- C08.verdictkey / C07.verdictkey ---------- */

// verdictKeyRule: a signature verdict is a function of (body, signature); the hashes the module uses as
// identities (Event.Hex / Hash, Block.Hex / Hash, InternalTransaction.HashString / Hash) cover the body
// only. Nothing may therefore be remembered UNDER such a hash that depends on the outcome of a
// signature verification: a forged copy (same body, bad signature) would poison the entry of the genuine
// object (rejected for ever), or a genuine one would vouch for a forgery.
func verdictKeyRule(p *Prog, r *Report, rule string) {
	r.Rule(rule, 1, "no container entry keyed by a body hash (Event.Hex/Hash, Block.Hex/Hash, InternalTransaction.HashString/Hash) is written under a condition on — or with a value derived from — the result of a signature verification (Event.Verify, Block.Verify, InternalTransaction.Verify, keys.Verify)")
	hashM := named(HG+".Event.Hex", HG+".Event.Hash", HG+".Block.Hex", HG+".Block.Hash", HG+".InternalTransaction.HashString", HG+".InternalTransaction.Hash", HG+".EventBody.Hash", HG+".BlockBody.Hash")
	verM := named(HG+".Event.Verify", HG+".Block.Verify", HG+".InternalTransaction.Verify", "src/crypto/keys.Verify")
	isVerdict := func(v ssa.Value) bool {
		return dependsOn(v, func(x ssa.Value) bool { _, _, ok := isCallTo(x, verM); return ok })
	}
	n, bad := 0, 0
	for _, fn := range p.Mod {
		var facts *FactInfo
		for _, b := range fn.Blocks {
			for _, in := range b.Instrs {
				var key, val ssa.Value
				switch x := in.(type) {
				case *ssa.MapUpdate:
					key, val = x.Key, x.Value
				case ssa.CallInstruction:
					if f := calleeFunc(x.Common()); f != nil && shortName(f) == "src/common.LRU.Add" {
						key, val = argN(x, 0), argN(x, 1)
					}
				}
				if key == nil || !depOnCall(key, hashM) {
					continue
				}
				n++
				why := ""
				if val != nil && isVerdict(val) {
					why = "the value stored derives from a signature verification"
				}
				if why == "" {
					if facts == nil {
						facts = p.Facts(fn)
					}
					for _, l := range facts.At(b) {
						if isVerdict(l.V) {
							why = "the entry is written only when a signature verification " + map[bool]string{true: "succeeded", false: "failed"}[l.Pos]
						}
					}
				}
				if why != "" {
					bad++
					r.Fail(rule, fmt.Sprintf("%s:entry-keyed-by-body-hash#%d", fn.Name(), bad), p.ipos(in), fnName(fn), why+", but the key is a hash of the body alone (the signature is not part of it): a copy of a valid object with a corrupted signature and the valid object itself share the entry — one forged message makes the node refuse the genuine event / block / request for as long as the entry lives (or accept a forgery on the strength of the genuine one)")
				}
			}
		}
	}
	if bad == 0 {
		r.Ok(rule, "entries-keyed-by-body-hash", "-", "", fmt.Sprintf("%d container writes keyed by a body hash examined; none depends on a signature verdict", n))
	}
}

/* ---------- C02.roundreadback ---------- */

// roundReadbackRule: the known finding F-C16-2 (RoundInfo.decided / queued are not serialised) is
// harmless only because nothing reads a round record back from the database outside tests. This rule
// decides that premise: while RoundInfo has unexported (unserialised) state, dbGetRound has no caller
// in the module's non-test code.
func roundReadbackRule(p *Prog, r *Report, rule string) {
	r.Rule(rule, 1, "dbGetRound (which yields a RoundInfo without its unserialised decided / queued flags) is not called from non-test code")
	ri := p.Type(HG, "RoundInfo")
	if ri == nil {
		r.Anchor(rule, "hashgraph.RoundInfo")
		return
	}
	stv, _ := ri.Underlying().(*types.Struct)
	lossy := []string{}
	if stv != nil {
		for i := 0; i < stv.NumFields(); i++ {
			if f := stv.Field(i); !f.Exported() {
				lossy = append(lossy, f.Name())
			}
		}
	}
	if len(lossy) == 0 {
		r.Ok(rule, "RoundInfo:unserialised-fields", p.pos(ri.Obj().Pos()), "", "RoundInfo has no unexported field: the database form is complete")
		return
	}
	n := 0
	for _, fn := range p.Mod {
		if fn.Name() != "dbGetRound" || recvNamedSig(fn) != "BadgerStore" {
			continue
		}
		n++
		var callers []string
		for _, e := range cgCallers(p, fn) {
			if inModule(e.Caller.Func) && e.Caller.Func.Synthetic == "" {
				callers = append(callers, fnName(e.Caller.Func)+"@"+p.ipos(e.Site))
			}
		}
		sortStrings(callers)
		r.Check(len(callers) == 0, rule, "dbGetRound:no-production-reader", p.pos(fn.Pos()), fnName(fn), "round records are write-only in production (rounds are recomputed by Bootstrap)",
			"a round record is read back from the database by "+strings.Join(callers, ", ")+" although RoundInfo."+strings.Join(lossy, "/")+" are not serialised: a round that was decided and processed comes back undecided, DivideRounds queues it again on the next late event and its frame is delivered a second time under a new block index")
	}
	if n == 0 {
		r.Anchor(rule, "hashgraph.(*BadgerStore).dbGetRound")
	}
}

/* ---------- C11.replayall ---------- */

// replayAllRule: the replay loop of Bootstrap stops only when the store returned fewer events than
// asked for (or on an error).
func replayAllRule(p *Prog, r *Report, rule string) {
	r.Rule(rule, 1, "Bootstrap leaves its batch loop only when dbTopologicalEvents returned fewer events than the count it was asked for (or none), or with an error: a full batch is always followed by another read")
	fn := p.Func(HG, "Hashgraph", "Bootstrap")
	if fn == nil {
		r.Anchor(rule, "hashgraph.(*Hashgraph).Bootstrap")
		return
	}
	dbM := named(HG + ".BadgerStore.dbTopologicalEvents")
	loops := naturalLoops(fn)
	n := 0
	for _, c := range callsIn(fn, dbM) {
		lp := innermostLoop(loops, c.Block())
		if lp == nil {
			r.Fail(rule, "Bootstrap:batch-loop", p.ipos(c), fnName(fn), "dbTopologicalEvents is not called in a loop: only one batch is replayed")
			continue
		}
		cv, _ := c.(*ssa.Call)
		count := argN(c, 1)
		qShort := func(l Lit) bool {
			isBatchLen := func(v ssa.Value) bool {
				// len(batch), possibly carried through a local / the result of an inlined helper
				return cv != nil && flowsFromLocal(v, func(y ssa.Value) bool {
					s, ok := isLenOf(y)
					return ok && flowsFromLocal(s, func(x ssa.Value) bool {
						e, ok := x.(*ssa.Extract)
						return ok && e.Tuple == ssa.Value(cv) && e.Index == 0
					})
				})
			}
			if a, b, strict, ok := cmpLit(l); ok && strict {
				// a > b: count > len(batch)
				if isBatchLen(b) && sameConstOrValue(a, count) {
					return true
				}
				// 1 > len(batch)
				if k, okc := intConst(a); okc && k == 1 && isBatchLen(b) {
					return true
				}
			}
			if x, y, ok := eqLit(l); ok {
				if k, okc := intConst(y); okc && k == 0 && isBatchLen(x) {
					return true
				}
				if k, okc := intConst(x); okc && k == 0 && isBatchLen(y) {
					return true
				}
			}
			return false
		}
		qErr := func(l Lit) bool {
			v, isNil, ok := nilTest(l)
			return ok && !isNil && isErrorType(v.Type())
		}
		for _, b := range fn.Blocks {
			if !lp.body[b] {
				continue
			}
			for _, s := range b.Succs {
				if lp.body[s] {
					continue
				}
				n++
				g, _ := p.allPathsEdge(b, s, []Pred{qShort, qErr}, func(m uint32) bool { return m != 0 })
				if !g {
					// an exit into a block that only returns a non-nil error
					if ret, isRet := s.Instrs[len(s.Instrs)-1].(*ssa.Return); isRet && len(ret.Results) > 0 {
						if neverNilErr(ret.Results[len(ret.Results)-1], 2) {
							g = true
						}
					}
				}
				r.Check(g, rule, fmt.Sprintf("Bootstrap:loop-exit#%d", n), p.ipos(b.Instrs[len(b.Instrs)-1]), fnName(fn), "the replay stops only after a short batch (or an error)",
					"the replay loop can be left although the last batch was full (exit not guarded by len(batch) < count / == 0): every event beyond the first batches is silently not replayed — the restarted node forgets part of its own chain and forks itself")
			}
		}
	}
	if n == 0 {
		r.Fail(rule, "Bootstrap:loop-exit", p.pos(fn.Pos()), fnName(fn), "no exit of the replay loop found")
	}
}

/* ---------- C17.removedround / C17.initial / C17.differr ---------- */

func c17more(p *Prog, r *Report) {
	// removedRound is the round at which the new set takes effect
	{
		const rule = "C17.removedround"
		r.Rule(rule, 1, "core.removedRound receives the very round under which the new validator set is recorded (SetPeerSet), not an earlier one: the node suspends itself once it HAS been removed")
		fn := p.Func(NODE, "core", "processAcceptedInternalTransactions")
		fRR := p.Field(NODE, "core", "removedRound")
		if fn == nil || fRR == nil {
			r.Anchor(rule, "core.processAcceptedInternalTransactions / core.removedRound")
		} else {
			var rounds []ssa.Value
			for _, c := range callsIn(fn, storeM("SetPeerSet")) {
				rounds = append(rounds, argN(c, 0))
			}
			sts := storesToField(fn, fRR)
			if len(sts) == 0 {
				r.Fail(rule, "processAccepted:removedRound", p.pos(fn.Pos()), fnName(fn), "removedRound is never set")
			}
			for i, st := range sts {
				ok := false
				for _, rv := range rounds {
					if rv != nil && (sameOrigin(st.Val, rv) || sameConstOrValue(st.Val, rv) || commonOrigin(st.Val, rv)) {
						ok = true
					}
				}
				r.Check(ok, rule, fmt.Sprintf("processAccepted:removedRound#%d", i), p.ipos(st), fnName(fn), "removedRound == the effective round of the recorded set", "core.removedRound is not the round passed to SetPeerSet: the node would suspend before (or after) the round from which it is no longer a validator")
			}
		}
	}
	// the baseline of the suspension threshold is taken after the bootstrap
	{
		const rule = "C17.initial"
		r.Rule(rule, 1, "Node.Init records initialUndeterminedEvents after core.bootstrap() and on every successful path: the threshold counts events created since the node started, not the replayed backlog")
		fn := p.Func(NODE, "Node", "Init")
		fI := p.Field(NODE, "Node", "initialUndeterminedEvents")
		if fn == nil || fI == nil {
			r.Anchor(rule, "node.(*Node).Init / Node.initialUndeterminedEvents")
		} else {
			sts := storesToField(fn, fI)
			boots := callsIn(fn, named(NODE+".core.bootstrap"))
			ok := len(sts) > 0
			detail := "initialUndeterminedEvents is never recorded in Init"
			for _, st := range sts {
				for _, b := range boots {
					if canFollow(st, b) {
						ok = false
						detail = "initialUndeterminedEvents is recorded before core.bootstrap(): the undetermined events replayed from the database count as new and a restarted node suspends itself at once"
					}
				}
				if !(depOnCall(st.Val, named(NODE+".core.getUndeterminedEvents")) || depOnField(st.Val, "UndeterminedEvents")) {
					ok = false
					detail = "initialUndeterminedEvents is not the current number of undetermined events"
				}
			}
			if ok {
				for _, rp := range p.succRets(fn, errNil, 0) {
					dom := false
					for _, st := range sts {
						if dominates(st, rp.ret) {
							dom = true
						}
					}
					if !dom {
						ok = false
						detail = "Init can return nil without recording initialUndeterminedEvents"
					}
				}
			}
			r.Check(ok, rule, "Init:initialUndeterminedEvents-after-bootstrap", p.pos(fn.Pos()), fnName(fn), "baseline taken after the replay", detail)
		}
	}
	// eventDiff reports store failures
	{
		const rule = "C17.differr"
		r.Rule(rule, 2, "core.eventDiff: a failing store read (ParticipantEvents, GetEvent) ends the function with that error; it is never skipped — a diff with a hole is not downward-closed")
		fn := p.Func(NODE, "core", "eventDiff")
		if fn == nil {
			r.Anchor(rule, "node.(*core).eventDiff")
			return
		}
		_ = naturalLoops
		n := 0
		for _, c := range callsIn(fn, storeM("ParticipantEvents", "GetEvent")) {
			cv, ok := c.(*ssa.Call)
			if !ok {
				continue
			}
			n++
			// branches on this call's error
			bad := ""
			tested := false
			for _, b := range fn.Blocks {
				for _, s := range b.Succs {
					l, ok := edgeLit(b, s)
					if !ok {
						continue
					}
					v, isNil, okn := nilTest(l)
					if !okn || isNil {
						continue
					}
					if cc, idx, okc := isCallTo(v, func(f *types.Func) bool { return true }); !okc || cc != cv || idx != 1 {
						continue
					}
					tested = true
					// from s: every feasible path (jump threading through the result temporaries of an inlined helper)
					// ends in a return of a non-nil error
					if !errorExit(b, s) {
						bad = "from the failing edge at " + p.ipos(b.Instrs[len(b.Instrs)-1]) + " a path does not end in an error return"
					}
				}
			}
			if !tested {
				bad = "the error result is never tested"
			}
			r.Check(bad == "", rule, fmt.Sprintf("eventDiff:%s#%d:error-ends-the-diff", calleeFunc(c.Common()).Name(), n), p.ipos(c), fnName(fn), "a read failure is reported to the caller", "a failing store read does not end eventDiff with an error ("+bad+"): the events of one creator are left out while events that have them as parents are sent — the receiver cannot insert them, for this and every later sync")
		}
		if n == 0 {
			r.Fail(rule, "eventDiff:store-reads", p.pos(fn.Pos()), fnName(fn), "eventDiff does not read the store")
		}
	}
}

var _ = token.ADD
