package main

import (
	"fmt"
	"go/token"
	"go/types"
	"reflect"
	"sort"
	"strings"

	"golang.org/x/tools/go/ssa"
)

const (
	PAPP = "src/proxy/socket/app"
	PBAB = "src/proxy/socket/babble"
	PINM = "src/proxy/inmem"
	PROX = "src/proxy"
)

func init() {
	register(&propDef{
		ID: "C20", NeedCG: true,
		Meta: propMeta{Level: "other", Assumptions: append([]string{"net/rpc + jsonrpc deliver the argument and reply values they are given (library summary)"}, commonAssumptions...),
			Explanation: "Decides: C20.err (in both retry wrappers `call` the returned error can be nil only on a path where the RPC's own error was tested nil — never after exhausting the attempts or after a failed attempt; `retries` is only ever a positive constant; every proxy method returns a nil error only after call(...) returned nil; SubmitTx turns ack==false into an error), " +
				"C20.pass (client methods hand call() their own parameter and return the reply variable call() filled; server methods hand the handler the decoded argument and store the handler's result into the reply, returning the handler's error; InmemProxy passes through; SocketAppProxyServer.SubmitTx forwards the decoded slice), " +
				"C20.done (every asynchronous rpc call is waited for on its own completion channel: the done argument of rpc.Client.Go is nil or made in the same attempt, and every receive from a chan *rpc.Call is on the Done channel of the call issued in that attempt — a channel shared by the attempts of the retry loop lets a late completion of a timed-out attempt end the next wait with a nil error and an empty reply). " +
				"C20.shape (every field of every type crossing the JSON-RPC boundary is exported and untagged, or is a listed cache field; payload fields are []byte / [][]byte, i.e. base64 on the wire — binary safe). " +
				"C20.copy (what the in-process proxy queues for the node is a fresh copy of the submitted bytes — `append(tx[:0], tx...)` is the caller's buffer, not a copy; shared with C05.copy). " +
				"NOT decided: ordering per client connection, behaviour of net/rpc under drops at arbitrary instants, duplicate delivery on retry after a timeout."},
		Rules: []ruleFunc{c20err, c20pass, c20shape, c20done, func(p *Prog, r *Report) { submitCopyRule(p, r, "C20.copy") }},
	})
}

// rpcErrValue: v is the error produced by the RPC itself: result of (*rpc.Client).Call, or the Error field of an *rpc.Call.
func rpcErrValue(v ssa.Value) bool {
	return flowsFrom(v, func(x ssa.Value) bool {
		if c, _ := callOf(x); c != nil {
			if f := calleeFunc(c.Common()); f != nil && f.Pkg() != nil && f.Pkg().Path() == "net/rpc" && f.Name() == "Call" {
				return true
			}
		}
		if fv, _ := fieldOf(x); fv != nil && refName(fv) == "Error" && fv.Pkg() != nil && fv.Pkg().Path() == "net/rpc" {
			return true
		}
		return false
	})
}

// rpcErrAll: v is the RPC's own error on EVERY incoming path (phi edges all qualify).
func rpcErrAll(v ssa.Value, depth int) bool {
	if depth > 6 {
		return false
	}
	if ph, ok := v.(*ssa.Phi); ok {
		nRPC := 0
		for _, e := range ph.Edges {
			if neverNilErr(e, 3) {
				continue // cannot pass a nil test
			}
			if !rpcErrAll(e, depth+1) {
				return false
			}
			nRPC++
		}
		return nRPC > 0
	}
	if _, isPhi := unwrap(v).(*ssa.Phi); isPhi {
		return rpcErrAll(unwrap(v), depth+1)
	}
	return rpcErrValue(v)
}

// errLeaves walks the phi structure of a returned error and classifies every incoming edge.
type errLeaf struct {
	kind string // "nonnil" | "rpc-ok" | "initial-nil" | "unknown"
	at   string
}

func (p *Prog) errLeaves(v ssa.Value, pred, succ *ssa.BasicBlock, depth int, seen map[ssa.Value]bool) []errLeaf {
	if depth > 8 {
		return []errLeaf{{"unknown", "depth"}}
	}
	// facts available on this edge / at this point about v
	holds := func(q Pred) bool {
		if pred != nil {
			g, _ := p.allPathsEdge(pred, succ, []Pred{q}, all(1))
			return g
		}
		return false
	}
	nonNil := func(l Lit) bool { x, isNil, ok := nilTest(l); return ok && !isNil && (x == v || sameErrVar(x, v)) }
	isNilQ := func(l Lit) bool { x, isNil, ok := nilTest(l); return ok && isNil && (x == v || sameErrVar(x, v)) }
	if c, ok := v.(*ssa.Const); ok && c.Value == nil {
		// an explicit nil reached only after the RPC's own error tested nil is the success answer
		rpcNil := func(l Lit) bool {
			x, isNil, ok := nilTest(l)
			return ok && isNil && rpcErrAll(x, 0)
		}
		if holds(rpcNil) {
			return []errLeaf{{"rpc-ok", ""}}
		}
		// nil assigned inside the retry loop is a fabricated success, not the initial value
		if pred != nil && innermostLoop(naturalLoops(pred.Parent()), pred) != nil {
			return []errLeaf{{"unknown", "error reset to nil inside the retry loop at " + p.ipos(pred.Instrs[len(pred.Instrs)-1])}}
		}
		return []errLeaf{{"initial-nil", ""}}
	}
	if neverNilErr(v, 3) {
		return []errLeaf{{"nonnil", ""}}
	}
	if holds(nonNil) {
		return []errLeaf{{"nonnil", ""}}
	}
	if holds(isNilQ) {
		if rpcErrAll(v, 0) {
			return []errLeaf{{"rpc-ok", ""}}
		}
		return []errLeaf{{"unknown", "the value tested nil is not (on every path) the RPC's own error: a path that never completed the call passes the test"}}
	}
	if ph, ok := v.(*ssa.Phi); ok {
		if seen[v] {
			// the value is carried around unchanged
			return []errLeaf{{"carried", ""}}
		}
		seen[v] = true
		var res []errLeaf
		// loop-carried error at a loop head: every back edge (an attempt that failed and is retried)
		// must bring a recorded, non-nil error — otherwise exhausting the attempts returns the initial nil
		var lp *loopInfo
		for _, l := range naturalLoops(ph.Parent()) {
			if l.head == ph.Block() {
				lp = l
			}
		}
		for i, e := range ph.Edges {
			pr := ph.Block().Preds[i]
			sub := p.errLeaves(e, pr, ph.Block(), depth+1, seen)
			if lp != nil && lp.body[pr] {
				for _, l := range sub {
					if l.kind != "nonnil" {
						sub = []errLeaf{{"unknown", "a retry iteration can reach the next attempt (" + p.ipos(pr.Instrs[len(pr.Instrs)-1]) + ") without having recorded a non-nil error: after the last attempt the wrapper returns the initial nil"}}
						break
					}
				}
			}
			res = append(res, sub...)
		}
		return res
	}
	return []errLeaf{{"unknown", v.String()}}
}

func c20err(p *Prog, r *Report) { proxyErrRule(p, r, "C20.err") }

func proxyErrRule(p *Prog, r *Report, rule string) {
	r.Rule(rule, 8, "a failed proxy call is reported as an error, never as an empty success")
	for _, w := range [][2]string{{PAPP, "SocketAppProxyClient"}, {PBAB, "SocketBabbleProxyClient"}} {
		fn := p.Func(w[0], w[1], "call")
		if fn == nil {
			r.Anchor(rule, w[1]+".call")
			continue
		}
		n := 0
		totalOK := 0
		for _, b := range fn.Blocks {
			if ret, ok := b.Instrs[len(b.Instrs)-1].(*ssa.Return); ok && !(b.Index != 0 && len(b.Preds) == 0) {
				v := ret.Results[0]
				var ls []errLeaf
				if ph, isPhi := v.(*ssa.Phi); isPhi {
					seen := map[ssa.Value]bool{v: true}
					for i, e := range ph.Edges {
						ls = append(ls, p.errLeaves(e, ph.Block().Preds[i], ph.Block(), 0, seen)...)
					}
				} else if len(b.Preds) == 1 {
					ls = p.errLeaves(v, b.Preds[0], b, 0, map[ssa.Value]bool{})
				}
				for _, l := range ls {
					if l.kind == "rpc-ok" {
						totalOK++
					}
				}
			}
		}
		for _, b := range fn.Blocks {
			ret, ok := b.Instrs[len(b.Instrs)-1].(*ssa.Return)
			if !ok || (b.Index != 0 && len(b.Preds) == 0) {
				continue
			}
			n++
			v := ret.Results[0]
			var leaves []errLeaf
			if ph, isPhi := v.(*ssa.Phi); isPhi {
				seen := map[ssa.Value]bool{v: true}
				for i, e := range ph.Edges {
					leaves = append(leaves, p.errLeaves(e, ph.Block().Preds[i], ph.Block(), 0, seen)...)
				}
			} else if len(b.Preds) == 1 {
				leaves = p.errLeaves(v, b.Preds[0], b, 0, map[ssa.Value]bool{})
				// a literal `return nil` is a success answer: legitimate only after the RPC's own error tested nil
				if c, isC := v.(*ssa.Const); isC && c.Value == nil {
					for i := range leaves {
						if leaves[i].kind == "initial-nil" {
							leaves[i] = errLeaf{"unknown", "nil returned explicitly without the RPC's own error having been tested nil"}
						}
					}
				}
			} else {
				leaves = []errLeaf{{"unknown", "unsupported return shape"}}
			}
			bad := ""
			nOK, nInit := 0, 0
			for _, l := range leaves {
				switch l.kind {
				case "unknown":
					bad = "a path returns an error value that is neither known non-nil nor the RPC's own nil result (" + l.at + ")"
				case "carried":
				case "rpc-ok":
					nOK++
				case "initial-nil":
					nInit++
				}
			}
			if nOK == 0 && totalOK == 0 && bad == "" {
				bad = "no path returns success after an RPC error test"
			}
			r.Check(bad == "", rule, w[1]+".call:nil-only-after-rpc-success", p.ipos(ret), fnName(fn), fmt.Sprintf("%d leaves: nil only where the RPC's error was tested nil (or zero attempts, excluded by retries>=1)", len(leaves)),
				"the retry wrapper can return nil although the call did not succeed: "+bad)
			// zero-iteration leaf is harmless only if retries >= 1
			if nInit > 0 {
				f := p.Field(w[0], w[1], "retries")
				okR := f != nil
				if f != nil {
					ws := p.writersOf(f)
					if len(ws) == 0 {
						okR = false
					}
					for _, wr := range ws {
						if k, okc := intConst(wr.Val); !okc || k < 1 {
							okR = false
						}
					}
				}
				r.Check(okR, rule, w[1]+".retries>=1", p.pos(fn.Pos()), fnName(fn), "retries is only ever a positive constant: at least one attempt is made", "retries can be zero or non-constant: the wrapper would return nil without attempting the call")
			}
		}
		if n == 0 {
			r.Fail(rule, w[1]+".call:returns", p.pos(fn.Pos()), fnName(fn), "no return found")
		}
	}
	// proxy methods: nil error only after call(...) == nil
	for _, m := range [][3]string{{PAPP, "SocketAppProxyClient", "CommitBlock"}, {PAPP, "SocketAppProxyClient", "GetSnapshot"}, {PAPP, "SocketAppProxyClient", "Restore"}, {PAPP, "SocketAppProxyClient", "OnStateChanged"}, {PBAB, "SocketBabbleProxyClient", "SubmitTx"}} {
		fn := p.Func(m[0], m[1], m[2])
		if fn == nil {
			r.Anchor(rule, m[1]+"."+m[2])
			continue
		}
		errIdx := fn.Signature.Results().Len() - 1
		callM := named(m[0] + "." + m[1] + ".call")
		q := p.lift(func(l Lit) bool { _, ok := errNilLit(l, callM); return ok }, 1)
		rets := p.succRets(fn, errNil, errIdx)
		ok := len(rets) > 0
		for _, rp := range rets {
			if c, _ := callOf(rp.ret.Results[errIdx]); c != nil && rp.pred == nil {
				if f := calleeFunc(c.Common()); f != nil && callM(f) {
					continue // returns call's error directly
				}
			}
			if g, _ := p.holdsAtRet(rp, []Pred{q}, all(1)); !g {
				ok = false
			}
		}
		r.Check(ok, rule, m[1]+"."+m[2]+":nil-only-after-call-ok", p.pos(fn.Pos()), fnName(fn), "success only after call() returned nil", m[1]+"."+m[2]+" can return a nil error although call() failed: the caller sees an empty success")
	}
	// SocketBabbleProxy.SubmitTx: ack false => error
	sp := p.Func(PBAB, "SocketBabbleProxy", "SubmitTx")
	if sp == nil {
		r.Anchor(rule, "SocketBabbleProxy.SubmitTx")
	} else {
		qAck := func(l Lit) bool {
			if !l.Pos {
				return false
			}
			return dependsOn(l.V, func(x ssa.Value) bool {
				_, idx, ok := isCallTo(x, named(PBAB+".SocketBabbleProxyClient.SubmitTx"))
				return ok && (idx == 0 || idx == -1)
			})
		}
		qErr := func(l Lit) bool { _, ok := errNilLit(l, named(PBAB+".SocketBabbleProxyClient.SubmitTx")); return ok }
		ok := true
		rets := p.succRets(sp, errNil, 0)
		for _, rp := range rets {
			if g, _ := p.holdsAtRet(rp, []Pred{qAck, qErr}, all(2)); !g {
				ok = false
			}
		}
		r.Check(ok && len(rets) > 0, rule, "SocketBabbleProxy.SubmitTx:ack-and-err", p.pos(sp.Pos()), fnName(sp), "success needs a nil error and a true acknowledgement", "SubmitTx can report success without a positive acknowledgement from Babble")
	}
}

// passesParam: v is parameter idx of fn, possibly through the local copy go/ssa makes for an
// address-taken value parameter — provided that copy is never written again.
func passesParam(v ssa.Value, fn *ssa.Function, idx int) bool {
	if isParam(v, fn, idx) {
		return true
	}
	if idx >= len(fn.Params) {
		return false
	}
	par := ssa.Value(fn.Params[idx])
	u, ok := unwrap(v).(*ssa.UnOp)
	if !ok {
		return false
	}
	al, ok := u.X.(*ssa.Alloc)
	if !ok {
		return false
	}
	sts := storedThrough(al)
	return len(sts) == 1 && sts[0].Addr == ssa.Value(al) && sts[0].Val == par
}

func c20pass(p *Prog, r *Report) { passRule(p, r, "C20.pass") }

func passRule(p *Prog, r *Report, rule string) {
	r.Rule(rule, 10, "arguments and replies pass through the proxies unchanged")
	// client side
	for _, m := range [][3]string{{PAPP, "SocketAppProxyClient", "CommitBlock"}, {PAPP, "SocketAppProxyClient", "GetSnapshot"}, {PAPP, "SocketAppProxyClient", "Restore"}, {PAPP, "SocketAppProxyClient", "OnStateChanged"}, {PBAB, "SocketBabbleProxyClient", "SubmitTx"}} {
		fn := p.Func(m[0], m[1], m[2])
		if fn == nil {
			r.Anchor(rule, m[1]+"."+m[2])
			continue
		}
		cs := callsIn(fn, named(m[0]+"."+m[1]+".call"))
		ok := len(cs) == 1
		detail := fmt.Sprintf("%d call() sites", len(cs))
		if ok {
			arg := argN(cs[0], 1)
			if !(passesParam(arg, fn, 1)) {
				ok = false
				detail = "the value sent is not the method's own parameter"
			}
			reply := argN(cs[0], 2)
			// the returned payload is the reply variable
			if fn.Signature.Results().Len() == 2 {
				for _, rp := range p.succRets(fn, errNil, 1) {
					res := rp.ret.Results[0]
					al := rootAllocOf(unwrap(reply))
					if _, isAl := al.(*ssa.Alloc); !isAl || !(rootAllocOf(res) == al || depOnValue(res, al)) {
						ok = false
						detail = "the value returned on success is not the reply filled by call()"
					}
				}
			}
		}
		r.Check(ok, rule, m[1]+"."+m[2]+":pass-through", p.pos(fn.Pos()), fnName(fn), "sends its parameter, returns the reply", detail)
	}
	// server side (application process): handler gets the decoded argument; reply <- handler result; error returned
	for _, m := range [][3]string{{"CommitBlock", "CommitHandler", ""}, {"GetSnapshot", "SnapshotHandler", ""}, {"Restore", "RestoreHandler", ""}, {"OnStateChanged", "StateChangeHandler", ""}} {
		fn := p.Func(PBAB, "SocketBabbleProxyServer", m[0])
		if fn == nil {
			r.Anchor(rule, "SocketBabbleProxyServer."+m[0])
			continue
		}
		hm := func(f *types.Func) bool { return f.Name() == m[1] }
		hs := callsIn(fn, hm)
		ok := len(hs) == 1
		detail := fmt.Sprintf("%d handler calls", len(hs))
		if ok {
			h := hs[0].(*ssa.Call)
			if !passesParam(argN(h, 0), fn, 1) {
				ok = false
				detail = "the handler does not receive the decoded argument"
			}
			nres := h.Call.Signature().Results().Len()
			// reply store
			if nres == 2 {
				stored := false
				for _, b := range fn.Blocks {
					for _, in := range b.Instrs {
						if st, isSt := in.(*ssa.Store); isSt && unwrap(st.Addr) == ssa.Value(fn.Params[2]) {
							if c, idx := callOf(st.Val); c == h && idx == 0 {
								stored = true
							}
						}
					}
				}
				if !stored {
					ok = false
					detail = "the handler's result is not stored into the reply"
				}
			}
			// error returned is the handler's
			for _, b := range fn.Blocks {
				if ret, isRet := b.Instrs[len(b.Instrs)-1].(*ssa.Return); isRet && (b.Index == 0 || len(b.Preds) > 0) {
					if !depOnValue(ret.Results[0], h) {
						ok = false
						detail = "the handler's error is not what is returned (an application error would become an empty success)"
					}
				}
			}
		}
		r.Check(ok, rule, "SocketBabbleProxyServer."+m[0]+":pass-through", p.pos(fn.Pos()), fnName(fn), "decoded argument -> handler -> reply, error returned", detail)
	}
	// SocketAppProxyServer.SubmitTx forwards the decoded slice and acks after queueing
	st := p.Func(PAPP, "SocketAppProxyServer", "SubmitTx")
	if st == nil {
		r.Anchor(rule, "SocketAppProxyServer.SubmitTx")
	} else {
		ok := false
		var send *ssa.Send
		for _, b := range st.Blocks {
			for _, in := range b.Instrs {
				if s, isS := in.(*ssa.Send); isS && isParam(s.X, st, 1) {
					ok = true
					send = s
				}
			}
		}
		ackAfter := false
		if send != nil {
			for _, b := range st.Blocks {
				for _, in := range b.Instrs {
					if s, isSt := in.(*ssa.Store); isSt && unwrap(s.Addr) == ssa.Value(st.Params[2]) {
						if c, isC := s.Val.(*ssa.Const); isC && c.Value != nil && c.Value.String() == "true" && dominates(send, s) {
							ackAfter = true
						}
					}
				}
			}
		}
		r.Check(ok && ackAfter, rule, "SocketAppProxyServer.SubmitTx:forward-then-ack", p.pos(st.Pos()), fnName(st), "the decoded transaction is queued, then acknowledged", "SubmitTx does not queue the decoded transaction before acknowledging it")
	}
	// InmemProxy passes through
	for _, m := range [][2]string{{"CommitBlock", "CommitHandler"}, {"GetSnapshot", "SnapshotHandler"}, {"Restore", "RestoreHandler"}} {
		fn := p.Func(PINM, "InmemProxy", m[0])
		if fn == nil {
			r.Anchor(rule, "InmemProxy."+m[0])
			continue
		}
		hs := callsIn(fn, func(f *types.Func) bool { return f.Name() == m[1] })
		ok := len(hs) == 1
		if ok {
			h := hs[0].(*ssa.Call)
			ok = passesParam(argN(h, 0), fn, 1)
			for _, b := range fn.Blocks {
				if ret, isRet := b.Instrs[len(b.Instrs)-1].(*ssa.Return); isRet && (b.Index == 0 || len(b.Preds) > 0) {
					for _, rv := range ret.Results {
						if !depOnValue(rv, h) {
							ok = false
						}
					}
				}
			}
		}
		r.Check(ok, rule, "InmemProxy."+m[0]+":pass-through", p.pos(fn.Pos()), fnName(fn), "parameter to handler, handler results returned", "InmemProxy."+m[0]+" does not pass its parameter to the handler and return the handler's results unchanged")
	}
}

func c20shape(p *Prog, r *Report) {
	const rule = "C20.shape"
	r.Rule(rule, 7, "types crossing the JSON-RPC boundary")
	caches := map[string]map[string]bool{"Block": {"hash": true, "hex": true, "peerSet": true}, "Peer": {"id": true}}
	for _, t := range [][2]string{{HG, "Block"}, {HG, "BlockBody"}, {HG, "InternalTransaction"}, {HG, "InternalTransactionBody"}, {HG, "InternalTransactionReceipt"}, {PEER, "Peer"}, {PROX, "CommitResponse"}} {
		n := p.Type(t[0], t[1])
		if n == nil {
			r.Anchor(rule, t[1])
			continue
		}
		st := n.Underlying().(*types.Struct)
		var bad []string
		for i := 0; i < st.NumFields(); i++ {
			f := st.Field(i)
			if !f.Exported() {
				if !caches[t[1]][refName(f)] {
					bad = append(bad, f.Name()+" (unexported: dropped by the JSON-RPC codec)")
				}
				continue
			}
			if v, ok := reflect.StructTag(st.Tag(i)).Lookup("json"); ok {
				bad = append(bad, f.Name()+" `json:\""+v+"\"`")
			}
		}
		sort.Strings(bad)
		r.Check(len(bad) == 0, rule, t[1]+":fields-cross-the-boundary", p.pos(n.Obj().Pos()), "", "every non-cache field is exported and untagged", "fields of "+t[1]+" that do not cross the proxy boundary intact: "+strings.Join(bad, "; "))
	}
	// payload fields are byte slices
	for _, pf := range [][3]string{{HG, "BlockBody", "Transactions"}, {HG, "BlockBody", "StateHash"}, {HG, "BlockBody", "FrameHash"}, {HG, "BlockBody", "PeersHash"}, {PROX, "CommitResponse", "StateHash"}} {
		f := p.Field(pf[0], pf[1], pf[2])
		if f == nil {
			r.Anchor(rule, pf[1]+"."+pf[2])
			continue
		}
		ts := f.Type().String()
		r.Check(ts == "[]byte" || ts == "[][]byte", rule, pf[1]+"."+pf[2]+":bytes", p.pos(f.Pos()), "", "binary-safe on the wire (base64)", pf[1]+"."+pf[2]+" has type "+ts+": arbitrary bytes would not survive JSON (invalid UTF-8 is replaced)")
	}
}

// C20.done: a reply belongs to the attempt that asked for it. Every asynchronous rpc call
// ((*rpc.Client).Go) signals completion on ITS OWN channel: the done argument is nil (the library
// allocates one per call) or a channel made in the same loop iteration, and every receive from a
// `chan *rpc.Call` in the function is on the Done channel of that call (or that per-iteration
// channel). A channel shared by the attempts of a retry loop lets the late completion of a timed-out
// attempt end the wait of the next one: the caller reads an error-free, still empty reply.
func c20done(p *Prog, r *Report) {
	const rule = "C20.done"
	r.Rule(rule, 1, "each asynchronous rpc call is waited for on its own completion channel (no channel shared between retry attempts)")
	goM := named("net/rpc.Client.Go")
	isCallChan := func(t types.Type) bool {
		ch, ok := t.Underlying().(*types.Chan)
		if !ok {
			return false
		}
		pt, ok := ch.Elem().(*types.Pointer)
		if !ok {
			return false
		}
		n, ok := pt.Elem().(*types.Named)
		return ok && n.Obj().Pkg() != nil && n.Obj().Pkg().Path() == "net/rpc" && n.Obj().Name() == "Call"
	}
	n := 0
	for _, fn := range p.Mod {
		if !strings.Contains(fnPkgPath(fn), "/src/proxy") && !strings.Contains(fnPkgPath(fn), "/src/babble") {
			continue
		}
		gos := callsIn(fn, goM)
		if len(gos) == 0 {
			continue
		}
		loops := naturalLoops(fn)
		sameIter := func(a, b *ssa.BasicBlock) bool {
			la, lb := innermostLoop(loops, a), innermostLoop(loops, b)
			if la == nil && lb == nil {
				return true
			}
			return la != nil && lb != nil && la.head == lb.head
		}
		var own []ssa.Value // channels that belong to one attempt
		for i, g := range gos {
			n++
			args := g.Common().Args
			done := args[len(args)-1]
			ok := false
			if c, isC := unwrap(done).(*ssa.Const); isC && c.IsNil() {
				ok = true
			} else if flowsFromLocal(done, func(x ssa.Value) bool {
				mc, isMk := x.(*ssa.MakeChan)
				if isMk && sameIter(mc.Block(), g.Block()) && innermostLoop(loops, g.Block()) != nil {
					own = append(own, mc)
					return true
				}
				// outside any loop a channel made in the function serves one call only if there is one Go
				if isMk && innermostLoop(loops, g.Block()) == nil && len(gos) == 1 {
					own = append(own, mc)
					return true
				}
				return false
			}) {
				ok = true
			}
			r.Check(ok, rule, fmt.Sprintf("%s:Go#%d:done-channel", fn.Name(), i), p.ipos(g), fnName(fn), "completion channel is the call's own",
				"the completion channel handed to rpc.Client.Go outlives the attempt (made outside the retry loop / shared): the completion of a timed-out attempt is taken for the completion of the next one, and the caller returns success with an empty reply")
		}
		// receives
		k := 0
		checkRecv := func(at ssa.Instruction, ch ssa.Value) {
			if !isCallChan(ch.Type()) {
				return
			}
			k++
			ok := false
			if fv, base := fieldOf(ch); fv != nil && refName(fv) == "Done" {
				for _, g := range gos {
					if gv, isV := g.(ssa.Value); isV && mustBeValue(base, gv, 0) && sameIter(g.Block(), at.Block()) {
						ok = true
					}
				}
			}
			for _, o := range own {
				if flowsFromLocal(ch, func(x ssa.Value) bool { return x == o }) {
					ok = true
				}
			}
			r.Check(ok, rule, fmt.Sprintf("%s:recv#%d:own-call", fn.Name(), k), p.ipos(at), fnName(fn), "waits on the Done channel of the call issued in this attempt", "waits for completion on a channel that is not the Done channel of the call issued in this attempt")
		}
		for _, b := range fn.Blocks {
			for _, in := range b.Instrs {
				switch x := in.(type) {
				case *ssa.Select:
					for _, st := range x.States {
						if st.Dir == types.RecvOnly {
							checkRecv(x, st.Chan)
						}
					}
				case *ssa.UnOp:
					if x.Op == token.ARROW {
						checkRecv(x, x.X)
					}
				}
			}
		}
	}
	if n == 0 {
		r.Note("%s: no asynchronous rpc call (rpc.Client.Go) in the proxies", rule)
		r.Ok(rule, "no-async-calls", "-", "", "the proxies use synchronous rpc calls only")
	}
}

// mustBeValue: v is want on every path (conversions, single-assignment locals, phis whose every
// operand is want).
func mustBeValue(v, want ssa.Value, depth int) bool {
	v = unwrap(v)
	if v == want {
		return true
	}
	if depth > 4 {
		return false
	}
	switch t := v.(type) {
	case *ssa.Phi:
		for _, e := range t.Edges {
			if !mustBeValue(e, want, depth+1) {
				return false
			}
		}
		return len(t.Edges) > 0
	case *ssa.UnOp:
		if t.Op == token.MUL {
			if al, ok := t.X.(*ssa.Alloc); ok {
				st := capturedStores(al)
				for _, sv := range st {
					if !mustBeValue(sv, want, depth+1) {
						return false
					}
				}
				return len(st) > 0
			}
		}
	}
	return false
}
