package main

import (
	"go/constant"
	"go/token"
	"go/types"

	"golang.org/x/tools/go/ssa"
)

// Pred is a predicate over branch literals.
type Pred func(Lit) bool

// pathMasks: forward MAY-dataflow over the powerset of predicates. For each
// block it computes the set of bitmasks m such that some path from the entry
// to the start of the block traverses exactly the literals matching the
// predicates whose bits are set in m (a bit is cleared again when the
// condition value it was derived from is re-evaluated, i.e. when its defining
// block is entered again in a loop). A requirement "on every path, F(mask)"
// is then decided exactly for the abstraction "which checks were passed".
type pathInfo struct {
	fn    *ssa.Function
	preds []Pred
	// atoms: one bit per (predicate, condition value) pair, so that
	// re-evaluation of a condition only invalidates the fact it established
	atomPred []int
	atomVal  []ssa.Value
	in       []map[uint64]bool
	kill     []uint64 // per block: atoms whose condition value is defined in the block
	addMemo  map[litKey][]uint64
	depth    int
	// selector atoms: for a phi that is branched on in another block than the one defining it,
	// one bit per operand records through which edge the path entered the phi's block
	sel map[*ssa.Phi][]uint64
	// polarity atoms: for a condition value that is branched on in more than one block, which way
	// the path went the first time (a later branch on the same value must agree)
	pol map[ssa.Value][2]uint64
}

func (pi *pathInfo) predMask(m uint64) uint32 {
	var r uint32
	for i, pidx := range pi.atomPred {
		if pidx >= 0 && m&(1<<uint(i)) != 0 {
			r |= 1 << uint(pidx)
		}
	}
	return r
}

func (pi *pathInfo) atomBits(l Lit) uint64 {
	var bits uint64
	for i := range pi.atomPred {
		if pi.atomPred[i] >= 0 && pi.atomVal[i] == l.V && pi.preds[pi.atomPred[i]](l) {
			bits |= 1 << uint(i)
		}
	}
	return bits
}

func edgeLit(pr, succ *ssa.BasicBlock) (Lit, bool) {
	n := len(pr.Instrs)
	if n == 0 {
		return Lit{}, false
	}
	iff, ok := pr.Instrs[n-1].(*ssa.If)
	if !ok || len(pr.Succs) != 2 || pr.Succs[0] == pr.Succs[1] {
		return Lit{}, false
	}
	v, pos := stripNot(iff.Cond, true)
	if pr.Succs[0] == succ {
		return Lit{V: v, Pos: pos}, true
	}
	return Lit{V: v, Pos: !pos}, true
}

// inlineDepth: how many levels of module helper calls the path engine looks into when a branch
// literal asserts the success of a call (error result nil / boolean result true|false).
const inlineDepth = 2

func (p *Prog) pathMasks(fn *ssa.Function, preds []Pred) *pathInfo {
	if p.inlineMemo != nil {
		// nested use from within a predicate: share nothing, but do not inline further
		return p.pathMasksD(fn, preds, 0)
	}
	p.inlineMemo = map[calleeKey][]uint32{}
	defer func() { p.inlineMemo = nil }()
	return p.pathMasksD(fn, preds, inlineDepth)
}

type calleeKey struct {
	h     *ssa.Function
	kind  succKind
	idx   int
	depth int
}

// litMasks: the set of predicate masks that asserting literal l may establish: the predicates it
// matches directly, combined (when l asserts the success of a call to a module helper H) with each
// mask that a success return of H may carry — virtual inlining of H's paths, so that a check moved
// into a helper, including a disjunctive one, is decided exactly as if it were written in place.
func (p *Prog) litMasks(l Lit, preds []Pred, depth int) []uint32 {
	// a literal about a phi is a literal about one of its operands (each consistent operand is an
	// alternative; a constant operand that contradicts the literal is no alternative at all)
	if ms, ok := p.phiLitMasks(l, preds, depth, 0); ok {
		return ms
	}
	return p.litMasks1(l, preds, depth)
}

func (p *Prog) phiLitMasks(l Lit, preds []Pred, depth, nest int) ([]uint32, bool) {
	if nest > 3 {
		return nil, false
	}
	var ph *ssa.Phi
	isNilLit, wantNil := false, false
	if x, isNil, ok := nilTest(l); ok {
		if q, isPhi := x.(*ssa.Phi); isPhi {
			ph, isNilLit, wantNil = q, true, isNil
		}
	} else if q, isPhi := l.V.(*ssa.Phi); isPhi && !l.Nil {
		if bt, okb := q.Type().Underlying().(*types.Basic); okb && bt.Kind() == types.Bool {
			ph = q
		}
	}
	if ph == nil {
		return nil, false
	}
	var direct uint32
	for i, q := range preds {
		if q(l) {
			direct |= 1 << uint(i)
		}
	}
	set := map[uint32]bool{}
	for _, e := range ph.Edges {
		var el Lit
		if isNilLit {
			if c, isC := e.(*ssa.Const); isC {
				if c.IsNil() == wantNil {
					set[direct] = true
				}
				continue
			}
			if !wantNil && false {
				continue
			}
			if wantNil && isErrorType(e.Type()) && neverNilErr(e, 2) {
				continue
			}
			el = Lit{V: e, Nil: true, Pos: wantNil}
		} else {
			if c, isC := e.(*ssa.Const); isC {
				if c.Value != nil && c.Value.Kind() == constant.Bool && constant.BoolVal(c.Value) == l.Pos {
					set[direct] = true
				}
				continue
			}
			ev, pos := stripNot(e, l.Pos)
			el = Lit{V: ev, Pos: pos}
		}
		var ms []uint32
		if sub, ok := p.phiLitMasks(el, preds, depth, nest+1); ok {
			ms = sub
		} else {
			ms = p.litMasks1(el, preds, depth)
		}
		for _, m := range ms {
			set[m|direct] = true
		}
	}
	var res []uint32
	for m := range set {
		res = append(res, m)
	}
	return res, true
}

func (p *Prog) litMasks1(l Lit, preds []Pred, depth int) []uint32 {
	var direct uint32
	for i, q := range preds {
		if q(l) {
			direct |= 1 << uint(i)
		}
	}
	if depth <= 0 {
		return []uint32{direct}
	}
	h, kind, idx, _ := p.successOfCall(l)
	if h == nil {
		return []uint32{direct}
	}
	if p.inlining == nil {
		p.inlining = map[*ssa.Function]bool{}
	}
	if p.inlining[h] {
		return []uint32{direct}
	}
	ck := calleeKey{h, kind, idx, depth}
	if cached, ok := p.inlineMemo[ck]; ok {
		res := make([]uint32, len(cached))
		for i, m := range cached {
			res[i] = m | direct
		}
		return res
	}
	p.inlining[h] = true
	defer delete(p.inlining, h)
	set := map[uint32]bool{}
	pi := p.pathMasksD(h, preds, depth-1)
	rets := p.succRets(h, kind, idx)
	if len(rets) == 0 {
		return []uint32{direct}
	}
	for _, rp := range rets {
		var ms []uint32
		if rp.pred != nil {
			var adds []uint64
			if el, ok := edgeLit(rp.pred, rp.ret.Block()); ok {
				adds = pi.edgeAdds(p, el)
			} else {
				adds = []uint64{0}
			}
			for m := range pi.in[rp.pred.Index] {
				for _, a := range adds {
					ms = append(ms, pi.predMask((m&^pi.kill[rp.pred.Index])|a))
				}
			}
		} else {
			for m := range pi.in[rp.ret.Block().Index] {
				ms = append(ms, pi.predMask(m))
			}
		}
		// a dynamic returned value: the helper's success implies that value's
		var implied []uint32
		if v := rp.val; v != nil {
			if _, isConst := v.(*ssa.Const); !isConst {
				il := Lit{V: v, Pos: kind == boolTrue}
				if kind == errNil {
					il = Lit{V: v, Pos: true, Nil: true}
				}
				implied = p.litMasks(il, preds, depth-1)
			}
		}
		if implied == nil {
			implied = []uint32{0}
		}
		for _, m := range ms {
			for _, im := range implied {
				set[m|im] = true
			}
		}
	}
	if len(set) == 0 {
		set[0] = true
	}
	var raw []uint32
	for m := range set {
		raw = append(raw, m)
	}
	if p.inlineMemo != nil {
		p.inlineMemo[ck] = raw
	}
	res := make([]uint32, len(raw))
	for i, m := range raw {
		res[i] = m | direct
	}
	return res
}

// edgeAdds: the alternative atom sets added by traversing an edge with literal l.
func (pi *pathInfo) edgeAdds(p *Prog, l Lit) []uint64 {
	key := litKey{l.V, l.Pos, l.Nil}
	if r, ok := pi.addMemo[key]; ok {
		return r
	}
	var res []uint64
	seen := map[uint64]bool{}
	for _, pm := range p.litMasks(l, pi.preds, pi.depth) {
		var bits uint64
		for i := range pi.atomPred {
			if pi.atomPred[i] >= 0 && pi.atomVal[i] == l.V && pm&(1<<uint(pi.atomPred[i])) != 0 {
				bits |= 1 << uint(i)
			}
		}
		if !seen[bits] {
			seen[bits] = true
			res = append(res, bits)
		}
	}
	if pi.addMemo == nil {
		pi.addMemo = map[litKey][]uint64{}
	}
	pi.addMemo[key] = res
	return res
}

type litKey struct {
	v   ssa.Value
	pos bool
	nil bool
}

func (p *Prog) pathMasksD(fn *ssa.Function, preds []Pred, depth int) *pathInfo {
	pi := &pathInfo{fn: fn, preds: preds, depth: depth}
	nb := len(fn.Blocks)
	pi.in = make([]map[uint64]bool, nb)
	pi.kill = make([]uint64, nb)
	for i := range pi.in {
		pi.in[i] = map[uint64]bool{}
	}
	if nb == 0 {
		return pi
	}
	// atoms and kill masks
	seenCond := map[ssa.Value]bool{}
	for _, b := range fn.Blocks {
		if n := len(b.Instrs); n > 0 {
			if iff, ok := b.Instrs[n-1].(*ssa.If); ok {
				v, _ := stripNot(iff.Cond, true)
				if seenCond[v] {
					continue
				}
				seenCond[v] = true
				register := func(v ssa.Value, lits []Lit) {
					var any uint32
					for _, l := range lits {
						for _, pm := range p.litMasks(l, preds, depth) {
							any |= pm
						}
					}
					for i := range preds {
						if any&(1<<uint(i)) != 0 {
							if len(pi.atomPred) >= 61 {
								panic("pathMasks: more than 61 (predicate, condition) atoms in " + fn.String())
							}
							bit := uint64(1) << uint(len(pi.atomPred))
							pi.atomPred = append(pi.atomPred, i)
							pi.atomVal = append(pi.atomVal, v)
							if in, ok := v.(ssa.Instruction); ok && in.Block() != nil {
								pi.kill[in.Block().Index] |= bit
							}
						}
					}
				}
				register(v, []Lit{{V: v, Pos: true}, {V: v, Pos: false}})
				// a block that only branches on a phi it defines: the literal is also one about the
				// phi operand of the edge through which the block was entered
				if pb := phiBranchOf(b); pb != nil {
					for _, e := range pb.phi.Edges {
						if _, isC := e.(*ssa.Const); isC || seenCond[e] {
							continue
						}
						seenCond[e] = true
						l0, ok0 := pb.lit(e, 0)
						l1, ok1 := pb.lit(e, 1)
						if ok0 && ok1 {
							register(e, []Lit{l0, l1})
						}
					}
				}
			}
		}
	}
	// polarity atoms for conditions branched on more than once
	pi.pol = map[ssa.Value][2]uint64{}
	condBlocks := map[ssa.Value]int{}
	for _, b := range fn.Blocks {
		if n := len(b.Instrs); n > 0 {
			if iff, ok := b.Instrs[n-1].(*ssa.If); ok {
				v, _ := stripNot(iff.Cond, true)
				condBlocks[v]++
			}
		}
	}
	for _, b := range fn.Blocks { // deterministic order
		if n := len(b.Instrs); n > 0 {
			if iff, ok := b.Instrs[n-1].(*ssa.If); ok {
				v, _ := stripNot(iff.Cond, true)
				if _, done := pi.pol[v]; done || condBlocks[v] < 2 || len(pi.atomPred)+2 >= 61 {
					continue
				}
				if _, isC := v.(*ssa.Const); isC {
					continue
				}
				var bits [2]uint64
				for k := 0; k < 2; k++ {
					bits[k] = uint64(1) << uint(len(pi.atomPred))
					pi.atomPred = append(pi.atomPred, -1)
					pi.atomVal = append(pi.atomVal, v)
					if in, ok := v.(ssa.Instruction); ok && in.Block() != nil {
						pi.kill[in.Block().Index] |= bits[k]
					}
				}
				pi.pol[v] = bits
			}
		}
	}
	// selector atoms for phis branched on outside their defining block
	pi.sel = map[*ssa.Phi][]uint64{}
	for _, b := range fn.Blocks {
		n := len(b.Instrs)
		if n == 0 {
			continue
		}
		iff, ok := b.Instrs[n-1].(*ssa.If)
		if !ok {
			continue
		}
		v, _ := stripNot(iff.Cond, true)
		ph := subjectPhi(Lit{V: v, Pos: true})
		if ph == nil || pi.sel[ph] != nil || len(ph.Edges) > 4 {
			continue
		}
		// a block that does nothing but branch on its own phi is bypassed (below); a block that
		// defines the phi, does other work (calls, loads) and then branches on it gets selector
		// atoms like a phi branched on in a later block
		if ph.Block() == b && phiBranchOf(b) != nil {
			continue
		}
		if len(pi.atomPred)+len(ph.Edges) >= 61 {
			continue
		}
		// only worth it if some predicate cares about a literal on one of the operands
		var bits []uint64
		for range ph.Edges {
			bits = append(bits, uint64(1)<<uint(len(pi.atomPred)))
			pi.atomPred = append(pi.atomPred, -1)
			pi.atomVal = append(pi.atomVal, ph)
		}
		pi.sel[ph] = bits
		for _, e := range ph.Edges {
			if _, isC := e.(*ssa.Const); isC {
				continue
			}
			l0, ok0 := operandLit(Lit{V: v, Pos: true}, ph, e)
			l1, ok1 := operandLit(Lit{V: v, Pos: false}, ph, e)
			if ok0 && ok1 && !seenCond[l0.V] {
				seenCond[l0.V] = true
				// register atoms for the operand literals
				var any uint32
				for _, l := range []Lit{l0, l1} {
					for _, pm := range p.litMasks(l, preds, depth) {
						any |= pm
					}
				}
				for i := range preds {
					if any&(1<<uint(i)) != 0 && len(pi.atomPred) < 61 {
						bit := uint64(1) << uint(len(pi.atomPred))
						pi.atomPred = append(pi.atomPred, i)
						pi.atomVal = append(pi.atomVal, l0.V)
						if in, ok := l0.V.(ssa.Instruction); ok && in.Block() != nil {
							pi.kill[in.Block().Index] |= bit
						}
					}
				}
			}
		}
	}
	pi.in[0][0] = true
	work := []*ssa.BasicBlock{fn.Blocks[0]}
	inWork := map[*ssa.BasicBlock]bool{fn.Blocks[0]: true}
	noExit := forceBit[0] | forceBit[1]
	put := func(s *ssa.BasicBlock, nm uint64) {
		if !pi.in[s.Index][nm] {
			pi.in[s.Index][nm] = true
			if !inWork[s] {
				inWork[s] = true
				work = append(work, s)
			}
		}
	}
	for len(work) > 0 {
		b := work[0]
		work = work[1:]
		inWork[b] = false
		for si, s := range b.Succs {
			adds := []uint64{0}
			if l, ok := edgeLit(b, s); ok {
				adds = pi.edgeAdds(p, l)
			}
			// jump threading: when the value s branches on is a phi whose operand on this edge is a
			// constant (or decided by a test that dominates the edge), the paths arriving through
			// this edge leave s through the decided successor only
			var force uint64
			if k, ok := decidedSucc(b, s); ok {
				force = forceBit[k]
			}
			// otherwise, if s does nothing but branch on that phi, the paths through this edge are
			// continued directly into s's successors with the literal about the phi OPERAND
			var pb *phiBranch
			var opnd ssa.Value
			if force == 0 {
				if pb = phiBranchOf(s); pb != nil {
					pidx := -1
					for i, pr := range s.Preds {
						if pr == b {
							if pidx >= 0 {
								pidx = -2
								break
							}
							pidx = i
						}
					}
					if pidx >= 0 {
						opnd = pb.phi.Edges[pidx]
					} else {
						pb = nil
					}
				}
			}
			// selector atoms of the phis defined in s
			selUpdate := func(pred, blk *ssa.BasicBlock) (clear, set uint64) {
				for _, in := range blk.Instrs {
					ph, isPhi := in.(*ssa.Phi)
					if !isPhi {
						break
					}
					if bits := pi.sel[ph]; bits != nil {
						pidx := -1
						for i, pr := range blk.Preds {
							if pr == pred {
								if pidx >= 0 {
									pidx = -2
									break
								}
								pidx = i
							}
						}
						for _, bt := range bits {
							clear |= bt
						}
						if pidx >= 0 && pidx < len(bits) {
							set |= bits[pidx]
						}
					}
				}
				return
			}
			selClear, selSet := selUpdate(b, s)
			// a literal about a phi with selector atoms is resolved per path
			var selPhi *ssa.Phi
			var selLit Lit
			if l, ok := edgeLit(b, s); ok {
				if ph := subjectPhi(l); ph != nil && pi.sel[ph] != nil {
					selPhi, selLit = ph, l
				}
			}
			// polarity of a condition branched on more than once
			var polSet, polForbid uint64
			if l, ok := edgeLit(b, s); ok {
				if bits, has := pi.pol[l.V]; has && !l.Nil {
					if l.Pos {
						polSet, polForbid = bits[0], bits[1]
					} else {
						polSet, polForbid = bits[1], bits[0]
					}
				}
			}
			for m := range pi.in[b.Index] {
				if m&noExit == noExit {
					continue
				}
				if m&forceBit[0] != 0 && si != 0 && len(b.Succs) == 2 {
					continue
				}
				if m&forceBit[1] != 0 && si != 1 && len(b.Succs) == 2 {
					continue
				}
				if (m&^pi.kill[b.Index])&polForbid != 0 {
					continue // the same condition was already taken the other way on this path
				}
				m &^= noExit
				adds := adds
				if selPhi != nil {
					for i, bt := range pi.sel[selPhi] {
						if m&bt == 0 {
							continue
						}
						e := selPhi.Edges[i]
						if feasible, decided := constLit(selLit, selPhi, e); decided {
							if !feasible {
								adds = nil
							} else {
								adds = []uint64{0}
							}
						} else if ol, ok := operandLit(selLit, selPhi, e); ok {
							adds = pi.edgeAdds(p, ol)
						}
						break
					}
				}
				m = (m &^ selClear) | selSet
				for _, add := range adds {
					nm := (m &^ pi.kill[b.Index]) | add | polSet
					if pb == nil {
						put(s, nm|force)
						continue
					}
					put(s, nm|noExit) // visible to queries inside s, not propagated from s
					for k, t := range s.Succs {
						adds2 := []uint64{0}
						if l, ok := pb.lit(opnd, k); ok {
							adds2 = pi.edgeAdds(p, l)
						}
						var orig uint64
						if l, ok := edgeLit(s, t); ok {
							for _, a := range pi.edgeAdds(p, l) {
								orig |= a
							}
						}
						var f2 uint64
						if k2, ok := decidedSucc(s, t); ok {
							f2 = forceBit[k2]
						}
						c2, s2 := selUpdate(s, t)
						for _, a2 := range adds2 {
							put(t, ((((nm&^pi.kill[s.Index])|a2|orig)&^c2)|s2)|f2)
						}
					}
				}
			}
		}
	}
	return pi
}

// allPaths: does formula hold for the mask of every path reaching instruction at?
// Returns false and a witness mask otherwise. An unreachable instruction holds vacuously.
func (p *Prog) allPaths(at ssa.Instruction, preds []Pred, formula func(uint32) bool) (bool, uint32) {
	fn := at.Parent()
	pi := p.pathMasks(fn, preds)
	for m := range pi.in[at.Block().Index] {
		if pm := pi.predMask(m); !formula(pm) {
			return false, pm
		}
	}
	return true, 0
}

// allPathsEdge: same, for the paths that reach block succ through the edge pred->succ.
func (p *Prog) allPathsEdge(pred, succ *ssa.BasicBlock, preds []Pred, formula func(uint32) bool) (bool, uint32) {
	pi := p.pathMasks(pred.Parent(), preds)
	adds := []uint64{0}
	if l, ok := edgeLit(pred, succ); ok {
		adds = pi.edgeAdds(p, l)
	}
	for m := range pi.in[pred.Index] {
		for _, add := range adds {
			nm := (m &^ pi.kill[pred.Index]) | add
			if pm := pi.predMask(nm); !formula(pm) {
				return false, pm
			}
		}
	}
	return true, 0
}

func all(n int) func(uint32) bool {
	want := uint32(1)<<uint(n) - 1
	return func(m uint32) bool { return m&want == want }
}

/* ---------- success of helper calls (one-level inlining) ---------- */

type succKind int

const (
	errNil succKind = iota
	boolTrue
	boolFalse
)

func isErrorType(t types.Type) bool {
	n, ok := t.(*types.Named)
	return ok && n.Obj().Pkg() == nil && n.Obj().Name() == "error"
}

// successOfCall: does literal l assert that a call to a module function
// succeeded (error result nil / bool result true|false)?
func (p *Prog) successOfCall(l Lit) (*ssa.Function, succKind, int, *ssa.Call) {
	if v, isNil, ok := nilTest(l); ok && isNil {
		if c, idx := callOf(v); c != nil {
			if f := c.Call.StaticCallee(); f != nil && inModule(f) && len(f.Blocks) > 0 {
				res := f.Signature.Results()
				i := idx
				if i < 0 {
					i = 0
				}
				if i < res.Len() && isErrorType(res.At(i).Type()) {
					return f, errNil, i, c
				}
			}
		}
	}
	if c, idx := callOf(l.V); c != nil {
		if f := c.Call.StaticCallee(); f != nil && inModule(f) && len(f.Blocks) > 0 {
			res := f.Signature.Results()
			i := idx
			if i < 0 {
				i = 0
			}
			if i < res.Len() {
				if b, ok := res.At(i).Type().Underlying().(*types.Basic); ok && b.Kind() == types.Bool {
					if l.Pos {
						return f, boolTrue, i, c
					}
					return f, boolFalse, i, c
				}
			}
		}
	}
	return nil, 0, 0, nil
}

// successReturns enumerates the (block, edge-pred) points at which H may
// return the success value for result idx. For a Phi result the individual
// incoming edges are enumerated.
type retPoint struct {
	ret  *ssa.Return
	pred *ssa.BasicBlock // non-nil: only paths through edge pred->ret.Block()
	val  ssa.Value       // the value returned on these paths (phi edge value, or the result operand)
}

// neverNilErr: v is an error value that cannot be nil: a boxed concrete
// value, the result of fmt.Errorf / errors.New, or the result of a module
// function all of whose returns are such values.
func neverNilErr(v ssa.Value, depth int) bool {
	switch x := v.(type) {
	case *ssa.MakeInterface:
		return true
	case *ssa.UnOp:
		// a package-level sentinel: var errX = errors.New(…), never reassigned to a possibly nil value
		if g, ok := x.X.(*ssa.Global); ok && x.Op == token.MUL {
			return sentinelNeverNil(g)
		}
		return false
	case *ssa.Call:
		f := calleeFunc(x.Common())
		if f == nil {
			return false
		}
		switch shortName(f) {
		case "fmt.Errorf", "errors.New":
			return true
		}
		sf := x.Call.StaticCallee()
		if sf == nil || depth <= 0 || len(sf.Blocks) == 0 || sf.Signature.Results().Len() != 1 {
			return false
		}
		for _, b := range sf.Blocks {
			if ret, ok := b.Instrs[len(b.Instrs)-1].(*ssa.Return); ok {
				if !neverNilErr(ret.Results[0], depth-1) {
					return false
				}
			}
		}
		return true
	case *ssa.Phi:
		if depth <= 0 {
			return false
		}
		for _, e := range x.Edges {
			if !neverNilErr(e, depth-1) {
				return false
			}
		}
		return true
	}
	return false
}

func mayBeSuccess(v ssa.Value, kind succKind) bool {
	v0 := v
	if kind == errNil && neverNilErr(v0, 3) {
		return false
	}
	if c, ok := v0.(*ssa.Const); ok {
		switch kind {
		case errNil:
			return c.Value == nil
		case boolTrue:
			return c.Value != nil && c.Value.Kind() == constant.Bool && constant.BoolVal(c.Value)
		case boolFalse:
			return c.Value != nil && c.Value.Kind() == constant.Bool && !constant.BoolVal(c.Value)
		}
	}
	return true // dynamic: may be the success value
}

func successReturns(h *ssa.Function, kind succKind, idx int) []retPoint {
	var res []retPoint
	for _, b := range h.Blocks {
		if len(b.Instrs) == 0 {
			continue
		}
		ret, ok := b.Instrs[len(b.Instrs)-1].(*ssa.Return)
		if !ok || idx >= len(ret.Results) {
			continue
		}
		v := spilledResult(ret, idx)
		if phi, ok := v.(*ssa.Phi); ok && phi.Block() == b {
			for i, e := range phi.Edges {
				if kind == errNil {
					// `if err != nil { result = err }`: not a success return
					if isNil, known := knownNilOnEdge(b.Preds[i], e); known && !isNil {
						continue
					}
				}
				if mayBeSuccess(e, kind) {
					res = append(res, retPoint{ret, b.Preds[i], e})
				}
			}
			continue
		}
		if mayBeSuccess(v, kind) {
			// a dynamic error value that is known non-nil on this path is not a success return
			res = append(res, retPoint{ret, nil, v})
		}
	}
	return res
}

// succRets: successReturns minus the returns whose dynamic error operand is
// tested non-nil on every path to the return (`if err != nil { return err }`).
func (p *Prog) succRets(h *ssa.Function, kind succKind, idx int) []retPoint {
	var res []retPoint
	for _, rp := range successReturns(h, kind, idx) {
		if kind == errNil && rp.pred == nil {
			v := rp.val
			if _, isConst := v.(*ssa.Const); !isConst {
				nonNil := func(l Lit) bool {
					x, isNil, ok := nilTest(l)
					return ok && !isNil && (x == v || sameErrVar(x, v))
				}
				if g, _ := p.allPaths(rp.ret, []Pred{nonNil}, all(1)); g {
					continue
				}
			}
		}
		res = append(res, rp)
	}
	return res
}

// sameErrVar: x and v are the same value modulo phi merging of one variable.
func sameErrVar(x, v ssa.Value) bool {
	if x == v {
		return true
	}
	if ph, ok := v.(*ssa.Phi); ok {
		for _, e := range ph.Edges {
			if e == x {
				return true
			}
		}
	}
	return false
}

// lift makes predicate q helper-aware: a literal asserting the success of a
// call to a module function H also satisfies q if every success return of H is
// reached only through paths on which (lifted) q holds.
func (p *Prog) lift(q Pred, depth int) Pred {
	memo := map[*ssa.Function]map[succKind]int{}
	var self Pred
	self = func(l Lit) bool {
		if q(l) {
			return true
		}
		if depth <= 0 {
			return false
		}
		h, kind, idx, _ := p.successOfCall(l)
		if h == nil {
			return false
		}
		if m, ok := memo[h]; ok {
			if v, ok := m[kind]; ok {
				return v == 1
			}
		} else {
			memo[h] = map[succKind]int{}
		}
		memo[h][kind] = 0 // recursion guard
		inner := p.lift(q, depth-1)
		ok := true
		rets := p.succRets(h, kind, idx)
		if len(rets) == 0 {
			ok = false
		}
		for _, rp := range rets {
			// refine: dynamic error known non-nil at the return
			var good bool
			if rp.pred != nil {
				good, _ = p.allPathsEdge(rp.pred, rp.ret.Block(), []Pred{inner}, all(1))
			} else {
				good, _ = p.allPaths(rp.ret, []Pred{inner}, all(1))
			}
			if !good {
				// the helper returns the result of another call: its own
				// success implies that call's success
				v := rp.val
				if _, isConst := v.(*ssa.Const); !isConst && v != nil {
					var implied Lit
					if kind == errNil {
						implied = Lit{V: v, Pos: true, Nil: true}
					} else {
						implied = Lit{V: v, Pos: kind == boolTrue}
					}
					if inner(implied) {
						continue
					}
				}
			}
			if !good {
				// a return of a dynamic error that is tested non-nil on all paths is a failure return
				if kind == errNil && rp.pred == nil {
					v := rp.val
					nonNil := func(l Lit) bool {
						x, isNil, ok := nilTest(l)
						return ok && !isNil && x == v
					}
					if g, _ := p.allPaths(rp.ret, []Pred{nonNil}, all(1)); g {
						continue
					}
				}
				ok = false
				break
			}
		}
		if ok {
			memo[h][kind] = 1
		}
		return ok
	}
	return self
}

/* ---------- natural loops ---------- */

type loopInfo struct {
	head *ssa.BasicBlock
	body map[*ssa.BasicBlock]bool
}

func naturalLoops(fn *ssa.Function) []*loopInfo {
	byHead := map[*ssa.BasicBlock]*loopInfo{}
	var res []*loopInfo
	for _, b := range fn.Blocks {
		for _, s := range b.Succs {
			if s.Dominates(b) { // back edge b->s
				li := byHead[s]
				if li == nil {
					li = &loopInfo{head: s, body: map[*ssa.BasicBlock]bool{s: true}}
					byHead[s] = li
					res = append(res, li)
				}
				// body: nodes that reach b without passing s
				stack := []*ssa.BasicBlock{b}
				for len(stack) > 0 {
					x := stack[len(stack)-1]
					stack = stack[:len(stack)-1]
					if li.body[x] {
						continue
					}
					li.body[x] = true
					stack = append(stack, x.Preds...)
				}
			}
		}
	}
	return res
}

// innermostLoop returns the smallest natural loop containing block b.
func innermostLoop(loops []*loopInfo, b *ssa.BasicBlock) *loopInfo {
	var best *loopInfo
	for _, l := range loops {
		if l.body[b] && (best == nil || len(l.body) < len(best.body)) {
			best = l
		}
	}
	return best
}

// forceBit: the two top bits of a path mask record "the paths with this mask leave the current
// block through successor 0 / 1 only" (jump threading over phi operands that are constants).
var forceBit = [2]uint64{1 << 62, 1 << 63}

// decidedSucc: block s ends with an If on a value that, for the paths entering through pred->s, is
// decided by a constant phi operand. Returns the index of the successor taken.
func decidedSucc(pred, s *ssa.BasicBlock) (int, bool) {
	n := len(s.Instrs)
	if n == 0 || len(s.Succs) != 2 {
		return 0, false
	}
	iff, ok := s.Instrs[n-1].(*ssa.If)
	if !ok {
		return 0, false
	}
	pidx := -1
	for i, p := range s.Preds {
		if p == pred {
			if pidx >= 0 {
				return 0, false
			}
			pidx = i
		}
	}
	if pidx < 0 {
		return 0, false
	}
	v, pos := stripNot(iff.Cond, true)
	edgeVal := func(x ssa.Value) (ssa.Value, bool) {
		if ph, ok := x.(*ssa.Phi); ok && ph.Block() == s && pidx < len(ph.Edges) {
			return ph.Edges[pidx], true
		}
		return nil, false
	}
	truth := func(t bool) (int, bool) {
		if t == pos {
			return 0, true
		}
		return 1, true
	}
	// boolean phi used directly
	if ev, ok := edgeVal(v); ok {
		if c, isC := ev.(*ssa.Const); isC && c.Value != nil && c.Value.Kind() == constant.Bool {
			return truth(constant.BoolVal(c.Value))
		}
		return 0, false
	}
	bo, ok := v.(*ssa.BinOp)
	if !ok || (bo.Op != token.EQL && bo.Op != token.NEQ) || bo.Block() != s {
		return 0, false
	}
	var ev ssa.Value
	var other ssa.Value
	if e, ok := edgeVal(bo.X); ok {
		ev, other = e, bo.Y
	} else if e, ok := edgeVal(bo.Y); ok {
		ev, other = e, bo.X
	} else {
		return 0, false
	}
	oc, ok := other.(*ssa.Const)
	if !ok {
		return 0, false
	}
	eq := bo.Op == token.EQL
	if oc.IsNil() {
		if c, isC := ev.(*ssa.Const); isC && c.IsNil() {
			return truth(eq)
		}
		if isErrorType(ev.Type()) && neverNilErr(ev, 2) {
			return truth(!eq)
		}
		if isNil, known := knownNilOnEdge(pred, ev); known {
			return truth(isNil == eq)
		}
		return 0, false
	}
	if c, isC := ev.(*ssa.Const); isC && c.Value != nil && oc.Value != nil {
		return truth(constant.Compare(c.Value, token.EQL, oc.Value) == eq)
	}
	return 0, false
}

// phiBranch: a block that does nothing but branch on a phi it defines — `if phi`, `if phi == nil`,
// `if phi != nil` (the shape a helper's result takes once the helper is inlined, or an `err`
// variable assigned on several paths and tested after the join).
type phiBranch struct {
	phi   *ssa.Phi
	isNil bool // nil comparison (else: boolean phi)
	eq    bool // the comparison is ==
	pos   bool // polarity of the If condition w.r.t. the comparison / the phi
}

func phiBranchOf(s *ssa.BasicBlock) *phiBranch {
	n := len(s.Instrs)
	if n == 0 || len(s.Succs) != 2 {
		return nil
	}
	iff, ok := s.Instrs[n-1].(*ssa.If)
	if !ok {
		return nil
	}
	for _, in := range s.Instrs[:n-1] {
		switch x := in.(type) {
		case *ssa.Phi, *ssa.DebugRef:
		case *ssa.BinOp:
			if x.Op != token.EQL && x.Op != token.NEQ {
				return nil
			}
		case *ssa.UnOp:
			if x.Op != token.NOT {
				return nil
			}
		default:
			return nil
		}
	}
	v, pos := stripNot(iff.Cond, true)
	if ph, ok := v.(*ssa.Phi); ok && ph.Block() == s {
		return &phiBranch{phi: ph, pos: pos}
	}
	bo, ok := v.(*ssa.BinOp)
	if !ok || bo.Block() != s || (bo.Op != token.EQL && bo.Op != token.NEQ) {
		return nil
	}
	var ph *ssa.Phi
	if x, ok := bo.X.(*ssa.Phi); ok && x.Block() == s && isNilConst(bo.Y) {
		ph = x
	} else if y, ok := bo.Y.(*ssa.Phi); ok && y.Block() == s && isNilConst(bo.X) {
		ph = y
	}
	if ph == nil {
		return nil
	}
	return &phiBranch{phi: ph, isNil: true, eq: bo.Op == token.EQL, pos: pos}
}

// lit: the literal about phi operand e that holds when the block is left through successor k.
func (pb *phiBranch) lit(e ssa.Value, k int) (Lit, bool) {
	if e == nil {
		return Lit{}, false
	}
	vTrue := (k == 0) == pb.pos
	if !pb.isNil {
		return Lit{V: e, Pos: vTrue}, true
	}
	return Lit{V: e, Nil: true, Pos: vTrue == pb.eq}, true
}

// knownNilOnEdge: the nil-ness of e is decided by a test on the single-predecessor chain above blk.
func knownNilOnEdge(blk *ssa.BasicBlock, e ssa.Value) (bool, bool) {
	for i := 0; i < 8 && blk != nil && len(blk.Preds) == 1; i++ {
		pp := blk.Preds[0]
		if l, ok := edgeLit(pp, blk); ok {
			if x, isNil, ok := nilTest(l); ok && (x == e || unwrap(x) == unwrap(e)) {
				return isNil, true
			}
		}
		blk = pp
	}
	return false, false
}

// subjectPhi: the phi a literal is about: `phi`, `!phi`, `phi == nil`, `phi != nil`.
func subjectPhi(l Lit) *ssa.Phi {
	if x, _, ok := nilTest(l); ok {
		if ph, isPhi := x.(*ssa.Phi); isPhi {
			return ph
		}
		return nil
	}
	if l.Nil {
		return nil
	}
	if ph, isPhi := l.V.(*ssa.Phi); isPhi {
		if bt, okb := ph.Type().Underlying().(*types.Basic); okb && bt.Kind() == types.Bool {
			return ph
		}
	}
	return nil
}

// operandLit: literal l about phi ph, restated about operand e of ph.
func operandLit(l Lit, ph *ssa.Phi, e ssa.Value) (Lit, bool) {
	if x, isNil, ok := nilTest(l); ok && x == ssa.Value(ph) {
		return Lit{V: e, Nil: true, Pos: isNil}, true
	}
	if l.V == ssa.Value(ph) && !l.Nil {
		v, pos := stripNot(e, l.Pos)
		return Lit{V: v, Pos: pos}, true
	}
	return Lit{}, false
}

// constLit: operand e is a constant (or a never-nil error): is literal l about ph satisfiable?
func constLit(l Lit, ph *ssa.Phi, e ssa.Value) (feasible, decided bool) {
	if x, isNil, ok := nilTest(l); ok && x == ssa.Value(ph) {
		if c, isC := e.(*ssa.Const); isC {
			return c.IsNil() == isNil, true
		}
		if isErrorType(e.Type()) && neverNilErr(e, 2) {
			return !isNil, true
		}
		return false, false
	}
	if l.V == ssa.Value(ph) && !l.Nil {
		if c, isC := e.(*ssa.Const); isC && c.Value != nil && c.Value.Kind() == constant.Bool {
			return constant.BoolVal(c.Value) == l.Pos, true
		}
	}
	return false, false
}

var sentinelMemo = map[*ssa.Global]bool{}

// sentinelNeverNil: every store to package-level variable g (its initialiser included) stores a
// never-nil error.
func sentinelNeverNil(g *ssa.Global) bool {
	if v, ok := sentinelMemo[g]; ok {
		return v
	}
	sentinelMemo[g] = false
	if g.Pkg == nil || gProg == nil {
		return false
	}
	n, ok := 0, true
	check := func(fn *ssa.Function) {
		for _, b := range fn.Blocks {
			for _, in := range b.Instrs {
				if st, isSt := in.(*ssa.Store); isSt && st.Addr == ssa.Value(g) {
					n++
					if !neverNilErr(st.Val, 2) {
						ok = false
					}
				}
			}
		}
	}
	for _, m := range g.Pkg.Members {
		if fn, isFn := m.(*ssa.Function); isFn {
			for _, f := range withAnon(fn) {
				check(f)
			}
		}
	}
	for _, fn := range gProg.Mod {
		if fn.Pkg == g.Pkg && fn.Signature.Recv() != nil {
			check(fn)
		}
	}
	// the address must not escape (no other referrers than loads and these stores) — globals have no
	// Referrers in go/ssa; an exported sentinel could be reassigned by another package: only
	// unexported ones, or exported ones never stored to outside their package, are trusted
	for _, fn := range gProg.Mod {
		if fn.Pkg != g.Pkg {
			for _, b := range fn.Blocks {
				for _, in := range b.Instrs {
					if st, isSt := in.(*ssa.Store); isSt && st.Addr == ssa.Value(g) {
						ok = false
					}
				}
			}
		}
	}
	res := ok && n > 0
	sentinelMemo[g] = res
	return res
}

// retPointsOf: the return points of one Return for result idx (phi operands enumerated per edge).
func retPointsOf(ret *ssa.Return, idx int) []retPoint {
	if idx >= len(ret.Results) {
		return nil
	}
	v := spilledResult(ret, idx)
	b := ret.Block()
	if phi, ok := v.(*ssa.Phi); ok && phi.Block() == b {
		var res []retPoint
		for i, e := range phi.Edges {
			res = append(res, retPoint{ret, b.Preds[i], e})
		}
		return res
	}
	return []retPoint{{ret, nil, v}}
}

// spilledResult: in a function with defers the results are spilled to locals (`*t0 = v; rundefers;
// t1 = *t0; return t1`). When the local is written in the returning block itself and is not shared
// with a closure, the value returned is the one stored last.
func spilledResult(ret *ssa.Return, idx int) ssa.Value {
	v := ret.Results[idx]
	u, ok := v.(*ssa.UnOp)
	if !ok || u.Op != token.MUL {
		return v
	}
	al, ok := u.X.(*ssa.Alloc)
	if !ok || al.Heap {
		return v
	}
	if refs := al.Referrers(); refs != nil {
		for _, r := range *refs {
			switch x := r.(type) {
			case *ssa.Store:
				if x.Addr != ssa.Value(al) {
					return v
				}
			case *ssa.UnOp:
			default:
				return v
			}
		}
	}
	var last ssa.Value
	for _, in := range ret.Block().Instrs {
		if st, isSt := in.(*ssa.Store); isSt && st.Addr == ssa.Value(al) {
			last = st.Val
		}
		if in == ssa.Instruction(u) {
			break
		}
	}
	if last != nil {
		return last
	}
	return v
}
