package main

import (
	"fmt"
	"go/types"
	"strings"

	"golang.org/x/tools/go/ssa"
)

func init() {
	register(&propDef{
		ID: "C09", NeedCG: true,
		Meta: propMeta{Level: "other", Assumptions: commonAssumptions,
			Explanation: "Decides on every CFG path: C09.record (Block.SetSignature in ProcessSigPool only after the block was fetched for the signature's index, the peer set of the block's round fetched, the signer found in that set and Block.Verify returned (true,nil); who may reach SetSignature), " +
				"C09.attrib (wire signatures carry no validator; the validator is filled from the event creator's repertoire entry only; frame events do not feed the signature pool), " +
				"C09.anchor (anchor raised only under len(Signatures) > TrustCount() of the block round's set — strict — and a monotone index; writers of AnchorBlock), " +
				"C09.verify (Block.Verify yields true only through the ECDSA check of this signature over the body hash — no shortcut), C09.sign (signBlock only from commit, after the application answered without error, after the state hash / receipts were stored into the block, only if the node belongs to the block's set; Block.Sign signs Body.Hash()). " +
				"C09.threshold (the anchor test compares with the trust count of the block round's set: every comparison is strict, the memoised thresholds are written only by their getters, and a derived set never inherits its parent's memo; shared with C19.use), C09.delivered (a node signs a block only after its application answered: the application proxies report a failed CommitBlock as an error, never as an empty success — otherwise core.commit signs a block the application never received, over a body without the returned state hash; shared with C20.err), C09.commit (the block on disk is rewritten every time SetBlock is called — the database writer never returns success without a commit — so the copy served as anchor after cache eviction carries the signatures collected since; shared with C16.commit), C09.digest (what is signed and verified — BlockBody.Hash — is SHA256 over the encoding of the whole body), C09.reset (a block received by fast-forward is stored with a signature map rebuilt from the signatures that passed the membership test and Block.Verify — the responder's extra entries are not recorded). NOT decided: signature validity as a value-level statement (that is ECDSA)."},
		Rules: []ruleFunc{c09record, c09attrib, c09anchor, c09sign, func(p *Prog, r *Report) {
			r.Rule("C09.verify", 1, "Block.Verify returns true only through keys.Verify over Body.Hash() with the signer's key and this signature")
			verifyProvenance(p, r, "C09.verify", []string{"Block"})
		}, c09reset, func(p *Prog, r *Report) { digestRule(p, r, "C09.digest", []string{"BlockBody"}) }, func(p *Prog, r *Report) { proxyErrRule(p, r, "C09.delivered") }, func(p *Prog, r *Report) { thresholdUseRule(p, r, "C09.threshold") }, func(p *Prog, r *Report) { trustRule(p, r, "C09.trust") }, func(p *Prog, r *Report) { commitRule(p, r, "C09.commit") }},
	})
}

func c09record(p *Prog, r *Report) {
	const rule = "C09.record"
	r.Rule(rule, 5, "ProcessSigPool: SetSignature(bs) only after GetBlock(bs.Index) ok, GetPeerSet(block.RoundReceived()) ok, peerSet.ByPubKey[bs.ValidatorHex()] present, block.Verify(bs)==(true,nil); SetSignature reachable only through ProcessSigPool and core.signBlock")
	fn := p.Func(HG, "Hashgraph", "ProcessSigPool")
	if fn == nil {
		r.Anchor(rule, "hashgraph.(*Hashgraph).ProcessSigPool")
		return
	}
	setM := named(HG + ".Block.SetSignature")
	calls := callsIn(fn, setM)
	if len(calls) == 0 {
		r.Fail(rule, "ProcessSigPool:SetSignature", p.pos(fn.Pos()), fnName(fn), "no Block.SetSignature call")
	}
	for _, c := range calls {
		blk := recvOf(c)
		bs := argN(c, 0)
		// the block on which the signature is set is the one fetched for bs.Index
		qBlock := p.lift(func(l Lit) bool {
			cc, ok := errNilLit(l, storeM("GetBlock"))
			return ok && depOnField(lastArg(cc), "Index")
		}, 1)
		qPeerSet := p.lift(func(l Lit) bool {
			cc, ok := errNilLit(l, storeM("GetPeerSet"))
			return ok && (depOnCall(lastArg(cc), named(HG+".Block.RoundReceived")) || depOnField(lastArg(cc), "RoundReceived"))
		}, 1)
		qMember := p.lift(func(l Lit) bool {
			lk, present, ok := lookupLit(l)
			if !ok || !present {
				return false
			}
			fv, base := fieldOf(lk.X)
			if fv == nil || refName(fv) != "ByPubKey" {
				return false
			}
			return depOnCallIdx(base, storeM("GetPeerSet"), 0) && (depOnCall(lk.Index, named(HG+".BlockSignature.ValidatorHex")) || depOnField(lk.Index, "Validator"))
		}, 1)
		qValid := p.lift(func(l Lit) bool { return resultLit(l, named(HG+".Block.Verify"), 0, true, nil) }, 1)
		qNoErr := p.lift(func(l Lit) bool {
			v, isNil, ok := nilTest(l)
			if !ok || !isNil {
				return false
			}
			_, idx, ok := isCallTo(v, named(HG+".Block.Verify"))
			return ok && idx == 1
		}, 1)
		names := []string{"GetBlock(bs.Index)==ok", "GetPeerSet(block.RoundReceived())==ok", "signer in peerSet.ByPubKey", "block.Verify(bs)#0==true", "block.Verify(bs)#1==nil"}
		for i, q := range []Pred{qBlock, qPeerSet, qMember, qValid, qNoErr} {
			ok, _ := p.allPaths(c, []Pred{q}, all(1))
			r.Check(ok, rule, "ProcessSigPool:SetSignature:"+names[i], p.ipos(c), fnName(fn), "guarded by "+names[i], "SetSignature reachable without "+names[i])
		}
		// the verified block and signature are the ones recorded
		okSame := true
		for _, vc := range callsIn(fn, named(HG+".Block.Verify")) {
			if !(commonOrigin(recvOf(vc), blk) && commonOrigin(argN(vc, 0), bs)) {
				okSame = false
			}
		}
		r.Check(okSame, rule, "ProcessSigPool:SetSignature:same-block-and-signature", p.ipos(c), fnName(fn), "Verify and SetSignature act on the same block and signature values", "block.Verify is applied to a different block or signature than the one recorded")
		// block value comes from GetBlock result
		r.Check(depOnCallIdx(blk, storeM("GetBlock"), 0), rule, "ProcessSigPool:SetSignature:block-from-store", p.ipos(c), fnName(fn), "the block is the node's own stored block", "signature recorded on a block that does not come from Store.GetBlock")
	}
	// who may reach SetSignature
	target := p.Func(HG, "Block", "SetSignature")
	g1, g2 := fn, p.Func(NODE, "core", "signBlock")
	if target == nil || g2 == nil {
		r.Anchor(rule, "Block.SetSignature / core.signBlock")
		return
	}
	path := p.pathAvoiding(p.roots(), target, func(f *ssa.Function) bool { return f == g1 || f == g2 })
	r.Check(path == nil, rule, "SetSignature:callers", p.pos(target.Pos()), fnName(target), "every call path passes ProcessSigPool or core.signBlock", "SetSignature reachable otherwise: "+strings.Join(path, " -> "))
	// writers of Block.Signatures
	fSig := p.Field(HG, "Block", "Signatures")
	// core.fastForward may replace the map of a received block by the filtered one (shape checked by C09.reset)
	allowed := map[string]bool{"NewBlock": true, "SetSignature": true}
	var bad []string
	for _, w := range p.writersOf(fSig) {
		if w.Fn.Name() == "fastForward" && recvNamedSig(w.Fn) == "core" && w.Kind == "store" {
			if flowsFrom(w.Val, func(x ssa.Value) bool { _, ok := x.(*ssa.MakeMap); return ok }) {
				continue
			}
		}
		if !allowed[w.Fn.Name()] {
			bad = append(bad, fnName(w.Fn)+"@"+p.ipos(w.Instr))
		}
	}
	r.Check(len(bad) == 0, rule, "Block.Signatures:writers", "-", "", fmt.Sprintf("writers of Block.Signatures: NewBlock, SetSignature only (%d writes)", len(p.writersOf(fSig))), "unexpected writer of Block.Signatures: "+strings.Join(bad, ", "))
}

// sameOrigin: two SSA values denote the same source variable (same value, or
// loads of the same local, or range element copies of the same next-tuple).
func sameOrigin(a, b ssa.Value) bool {
	if a == nil || b == nil {
		return false
	}
	a, b = unwrap(a), unwrap(b)
	if a == b {
		return true
	}
	la, oka := a.(*ssa.UnOp)
	lb, okb := b.(*ssa.UnOp)
	if oka && okb && la.X == lb.X {
		return true
	}
	// two loads of the same field of the same object (go/ssa does no CSE); a store to the
	// field in between is not tracked — callers use this for guards that directly precede the use
	if oka && okb {
		fa, ok1 := la.X.(*ssa.FieldAddr)
		fb, ok2 := lb.X.(*ssa.FieldAddr)
		if ok1 && ok2 && fa.Field == fb.Field && (fa.X == fb.X || sameOrigin(fa.X, fb.X)) {
			return true
		}
	}
	ea, oka2 := a.(*ssa.Extract)
	eb, okb2 := b.(*ssa.Extract)
	if oka2 && okb2 && ea.Tuple == eb.Tuple && ea.Index == eb.Index {
		return true
	}
	// one is a load from an alloc into which the other was stored
	for _, pr := range [][2]ssa.Value{{a, b}, {b, a}} {
		if u, ok := pr[0].(*ssa.UnOp); ok {
			if al, ok := u.X.(*ssa.Alloc); ok {
				if refs := al.Referrers(); refs != nil {
					for _, rf := range *refs {
						if st, ok := rf.(*ssa.Store); ok && st.Addr == al && unwrap(st.Val) == pr[1] {
							return true
						}
					}
				}
			}
		}
		if al, ok := pr[0].(*ssa.Alloc); ok {
			// address of a local holding the other value
			if refs := al.Referrers(); refs != nil {
				for _, rf := range *refs {
					if st, ok := rf.(*ssa.Store); ok && st.Addr == al && unwrap(st.Val) == pr[1] {
						return true
					}
				}
			}
			if u, ok := pr[1].(*ssa.UnOp); ok && u.X == al {
				return true
			}
		}
	}
	return false
}

func c09attrib(p *Prog, r *Report) {
	const rule = "C09.attrib"
	r.Rule(rule, 3, "WireBlockSignature has exactly {Index, Signature}; WireEvent.BlockSignatures fills Validator from its parameter only; ReadWireInfo passes the bytes of the creator's repertoire entry, the same value that becomes Body.Creator; InsertFrameEvent does not feed PendingSignatures")
	wbs := p.Type(HG, "WireBlockSignature")
	if wbs == nil {
		r.Anchor(rule, "hashgraph.WireBlockSignature")
		return
	}
	st := wbs.Underlying().(*types.Struct)
	var names []string
	for i := 0; i < st.NumFields(); i++ {
		names = append(names, st.Field(i).Name())
	}
	sortStrings(names)
	r.Check(strings.Join(names, ",") == "Index,Signature", rule, "WireBlockSignature:fields", p.pos(wbs.Obj().Pos()), "", "no validator on the wire", "WireBlockSignature fields are {"+strings.Join(names, ",")+"}: a validator identity travels on the wire")

	fn := p.Func(HG, "WireEvent", "BlockSignatures")
	if fn == nil {
		r.Anchor(rule, "hashgraph.(*WireEvent).BlockSignatures")
	} else {
		fVal := p.Field(HG, "BlockSignature", "Validator")
		n := 0
		for _, w := range p.writersOf(fVal) {
			if w.Fn != fn {
				continue
			}
			n++
			r.Check(isParam(w.Val, fn, 1), rule, "WireEvent.BlockSignatures:Validator<-param", p.ipos(w.Instr), fnName(fn), "Validator is the function's parameter", "Validator filled from something else than the validator parameter")
		}
		if n == 0 {
			r.Fail(rule, "WireEvent.BlockSignatures:Validator<-param", p.pos(fn.Pos()), fnName(fn), "no store to BlockSignature.Validator")
		}
	}
	rw := p.Func(HG, "Hashgraph", "ReadWireInfo")
	if rw == nil {
		r.Anchor(rule, "hashgraph.(*Hashgraph).ReadWireInfo")
	} else {
		fCreator := p.Field(HG, "EventBody", "Creator")
		var creatorVal ssa.Value
		for _, w := range p.writersOf(fCreator) {
			if w.Fn == rw {
				creatorVal = w.Val
			}
		}
		cs := callsIn(rw, named(HG+".WireEvent.BlockSignatures"))
		if len(cs) == 0 || creatorVal == nil {
			r.Fail(rule, "ReadWireInfo:BlockSignatures(creator)", p.pos(rw.Pos()), fnName(rw), "ReadWireInfo does not build BlockSignatures / Creator")
		}
		for _, c := range cs {
			a := argN(c, 0)
			ok := a != nil && unwrap(a) == unwrap(creatorVal) && depOnCall(a, storeM("RepertoireByID"))
			r.Check(ok, rule, "ReadWireInfo:BlockSignatures(creator)", p.ipos(c), fnName(rw), "signatures attributed to the very value stored as Body.Creator (from RepertoireByID[CreatorID])", "block signatures are attributed to a value different from the event's creator")
		}
	}
	ife := p.Func(HG, "Hashgraph", "InsertFrameEvent")
	if ife != nil {
		set := p.reach([]*ssa.Function{ife}, nil)
		add := p.Func(HG, "SigPool", "Add")
		r.Check(add != nil && !set[add], rule, "InsertFrameEvent:no-PendingSignatures", p.pos(ife.Pos()), fnName(ife), "frame events do not feed the signature pool", "InsertFrameEvent reaches SigPool.Add (unverified frame events feed signatures)")
	}
}

func c09anchor(p *Prog, r *Report) { anchorRule(p, r, "C09.anchor") }

func anchorRule(p *Prog, r *Report, rule string) {
	r.Rule(rule, 2, "setAnchorBlock only under len(block.Signatures) > GetPeerSet(block.RoundReceived()).TrustCount() (strict) and (AnchorBlock==nil || block.Index() > *AnchorBlock); AnchorBlock written only by setAnchorBlock and Reset")
	fn := p.Func(HG, "Hashgraph", "SetAnchorBlock")
	if fn == nil {
		r.Anchor(rule, "hashgraph.(*Hashgraph).SetAnchorBlock")
		return
	}
	fAnchor := p.Field(HG, "Hashgraph", "AnchorBlock")
	block := paramByType(fn, 1, "Block")
	var actions []ssa.Instruction
	for _, c := range callsIn(fn, named(HG+".Hashgraph.setAnchorBlock")) {
		actions = append(actions, c)
	}
	for _, w := range p.writersOf(fAnchor) {
		if w.Fn == fn {
			actions = append(actions, w.Instr)
		}
	}
	// stores through the pointer (*h.AnchorBlock = i) written in place
	for _, b := range fn.Blocks {
		for _, in := range b.Instrs {
			if st, ok := in.(*ssa.Store); ok {
				if fv, _ := fieldOf(st.Addr); fv == fAnchor {
					if _, isFA := st.Addr.(*ssa.FieldAddr); !isFA {
						actions = append(actions, st)
					}
				}
			}
		}
	}
	if len(actions) == 0 {
		r.Fail(rule, "SetAnchorBlock:action", p.pos(fn.Pos()), fnName(fn), "no anchor update found")
	}
	qTrust := p.lift(func(l Lit) bool {
		a, b, strict, ok := cmpLit(l)
		if !ok || !strict {
			return false
		}
		if !flowsFromCall(b, named(PEER+".PeerSet.TrustCount"), 0) {
			return false
		}
		// the set is the one of the block's round
		okSet := dependsOn(b, func(x ssa.Value) bool {
			c, idx, ok := isCallTo(x, storeM("GetPeerSet"))
			return ok && (idx == 0 || idx == -1) && (depOnCall(lastArg(c), named(HG+".Block.RoundReceived")) || depOnField(lastArg(c), "RoundReceived")) && depOnValue(lastArg(c), block)
		})
		if !okSet {
			return false
		}
		s, isLen := isLenOf(a)
		return isLen && flowsFromField(s, "Signatures") && depOnValue(s, block)
	}, 1)
	qNil := func(l Lit) bool {
		v, isNil, ok := nilTest(l)
		if !ok || !isNil {
			return false
		}
		fv, _ := fieldOf(v)
		return fv == fAnchor
	}
	qAbove := func(l Lit) bool {
		a, b, strict, ok := cmpLit(l)
		if !ok || !strict {
			return false
		}
		return (depOnCall(a, named(HG+".Block.Index")) || depOnField(a, "Index")) && depOnValue(a, block) && depOnFieldVar(b, fAnchor)
	}
	for _, a := range actions {
		ok1, _ := p.allPaths(a, []Pred{qTrust}, all(1))
		ok2, _ := p.allPaths(a, []Pred{qNil, qAbove}, func(m uint32) bool { return m != 0 })
		r.Check(ok1, rule, "SetAnchorBlock:len(Signatures)>TrustCount", p.ipos(a), fnName(fn), "anchor raised only with strictly more than TrustCount signatures of the block round's set", "anchor update not guarded by len(block.Signatures) > peerSet.TrustCount() (strict, set of block.RoundReceived())")
		r.Check(ok2, rule, "SetAnchorBlock:monotone", p.ipos(a), fnName(fn), "anchor index only moves forward", "anchor update not guarded by AnchorBlock==nil || block.Index() > *AnchorBlock")
	}
	// SetAnchorBlock itself may write (every write in it is an action decided above)
	allowed := map[string]bool{"setAnchorBlock": true, "Reset": true, "SetAnchorBlock": true}
	var bad []string
	n := 0
	for _, w := range p.writersOf(fAnchor) {
		n++
		if !allowed[w.Fn.Name()] {
			bad = append(bad, fnName(w.Fn)+"@"+p.ipos(w.Instr))
		}
	}
	// stores through the pointer (*h.AnchorBlock = i)
	for _, f := range p.Mod {
		for _, b := range f.Blocks {
			for _, in := range b.Instrs {
				if st, ok := in.(*ssa.Store); ok {
					if fv, _ := fieldOf(st.Addr); fv == fAnchor {
						if _, isFA := st.Addr.(*ssa.FieldAddr); !isFA {
							n++
							if !allowed[f.Name()] {
								bad = append(bad, fnName(f)+"@"+p.ipos(in))
							}
						}
					}
				}
			}
		}
	}
	r.Check(len(bad) == 0 && n > 0, rule, "Hashgraph.AnchorBlock:writers", "-", "", fmt.Sprintf("%d writes, all in setAnchorBlock / Reset", n), "unexpected writer of AnchorBlock: "+strings.Join(bad, ", "))
	// setAnchorBlock called only from SetAnchorBlock
	sab := p.Func(HG, "Hashgraph", "setAnchorBlock")
	if sab != nil {
		var callers []string
		for _, e := range cgCallers(p, sab) {
			if e.Caller.Func != fn {
				callers = append(callers, fnName(e.Caller.Func))
			}
		}
		r.Check(len(callers) == 0, rule, "setAnchorBlock:callers", p.pos(sab.Pos()), fnName(sab), "only SetAnchorBlock calls setAnchorBlock", "setAnchorBlock also called from "+strings.Join(callers, ", "))
	}
}

func c09sign(p *Prog, r *Report) { signRule(p, r, "C09.sign") }

func signRule(p *Prog, r *Report, rule string) {
	r.Rule(rule, 3, "core.signBlock reachable only via core.commit; in commit it is preceded by a nil error of the proxy commit callback, by the stores of StateHash and receipts into the block, and by the membership test blockPeerSet.ByID[validator.ID()]; Block.Sign signs Body.Hash()")
	commit := p.Func(NODE, "core", "commit")
	sign := p.Func(NODE, "core", "signBlock")
	if commit == nil || sign == nil {
		r.Anchor(rule, "node.(*core).commit / signBlock")
		return
	}
	path := p.pathAvoiding(p.roots(), sign, func(f *ssa.Function) bool { return f == commit })
	r.Check(path == nil, rule, "signBlock:callers", p.pos(sign.Pos()), fnName(sign), "signBlock reachable only through core.commit", "signBlock reachable without commit: "+strings.Join(path, " -> "))
	fCb := p.Field(NODE, "core", "proxyCommitCallback")
	block := paramByType(commit, 1, "Block")
	qApp := func(l Lit) bool {
		v, isNil, ok := nilTest(l)
		if !ok || !isNil {
			return false
		}
		c, idx := callOf(v)
		return c != nil && idx == 1 && dynCallThroughField(c, fCb)
	}
	qMember := p.lift(func(l Lit) bool {
		lk, present, ok := lookupLit(l)
		if !ok || !present {
			return false
		}
		fv, base := fieldOf(lk.X)
		if fv == nil || (refName(fv) != "ByID" && refName(fv) != "ByPubKey") {
			return false
		}
		return dependsOn(base, func(x ssa.Value) bool {
			c, _, ok := isCallTo(x, storeM("GetPeerSet"))
			return ok && (depOnCall(lastArg(c), named(HG+".Block.RoundReceived")) || depOnField(lastArg(c), "RoundReceived"))
		}) && (depOnCall(lk.Index, named(NODE+".Validator.ID", NODE+".Validator.PublicKeyHex")))
	}, 1)
	cs := callsIn(commit, named(NODE+".core.signBlock"))
	if len(cs) == 0 {
		r.Fail(rule, "commit:signBlock", p.pos(commit.Pos()), fnName(commit), "commit does not call signBlock")
	}
	fSH := p.Field(HG, "BlockBody", "StateHash")
	fRc := p.Field(HG, "BlockBody", "InternalTransactionReceipts")
	for _, c := range cs {
		ok1, _ := p.allPaths(c, []Pred{qApp}, all(1))
		ok2, _ := p.allPaths(c, []Pred{qMember}, all(1))
		r.Check(ok1, rule, "commit:signBlock:after-app-ok", p.ipos(c), fnName(commit), "signs only blocks the application committed without error", "signBlock reachable although the proxy commit callback returned an error (or before it ran)")
		r.Check(ok2, rule, "commit:signBlock:member-of-block-set", p.ipos(c), fnName(commit), "signs only if the node belongs to the block round's set", "signBlock not guarded by membership of the validator in GetPeerSet(block.RoundReceived())")
		for _, fv := range []*types.Var{fSH, fRc} {
			dom := false
			for _, w := range p.writersOf(fv) {
				if w.Fn == commit && dominates(w.Instr, c) {
					// stored value comes from the commit response
					if dependsOn(w.Val, func(x ssa.Value) bool { cc, _ := callOf(x); return cc != nil && dynCallThroughField(cc, fCb) }) {
						dom = true
					}
				}
			}
			r.Check(dom, rule, "commit:signBlock:after-store-"+refName(fv), p.ipos(c), fnName(commit), refName(fv)+" from the application's response is in the block before it is signed", "block signed before "+refName(fv)+" of the commit response was stored into it")
		}
		r.Check(depOnValue(argN(c, 0), block), rule, "commit:signBlock:same-block", p.ipos(c), fnName(commit), "the committed block is the one signed", "signBlock applied to a different block")
	}
	bs := p.Func(HG, "Block", "Sign")
	if bs == nil {
		r.Anchor(rule, "hashgraph.(*Block).Sign")
		return
	}
	for _, c := range callsIn(bs, named(KEYS+".Sign")) {
		r.Check(flowsFromCall(argN(c, 1), named(HG+".BlockBody.Hash"), 0), rule, "Block.Sign:digest<-Body.Hash", p.ipos(c), fnName(bs), "the digest handed to the signer IS Body.Hash() (incl. state hash)", "Block.Sign does not hand Body.Hash() itself to keys.Sign (ECDSA keeps only the leftmost 32 bytes of a longer buffer: a prefix-then-hash buffer signs the constant prefix, and every signature verifies on every block)")
	}
}

// C09.reset: the block adopted by fast-forward is the one case where a whole signature map
// arrives from the network. Before hg.Reset stores it, the map must be replaced by one that is
// filled only under the membership test and Block.Verify==true.
func c09reset(p *Prog, r *Report) {
	const rule = "C09.reset"
	r.Rule(rule, 1, "core.fastForward replaces the received block's signature map by the verified member signatures before hg.Reset stores the block")
	fn := p.Func(NODE, "core", "fastForward")
	if fn == nil {
		r.Anchor(rule, "node.(*core).fastForward")
		return
	}
	fSig := p.Field(HG, "Block", "Signatures")
	resets := callsIn(fn, named(HG+".Hashgraph.Reset"))
	if len(resets) == 0 {
		r.Fail(rule, "fastForward:Reset", p.pos(fn.Pos()), fnName(fn), "no hg.Reset call")
		return
	}
	// candidate functions: fastForward itself and module functions it calls with the block before Reset
	cands := []*ssa.Function{fn}
	for _, b := range fn.Blocks {
		for _, in := range b.Instrs {
			if c, ok := in.(*ssa.Call); ok {
				if sf := c.Call.StaticCallee(); sf != nil && inModule(sf) && len(sf.Blocks) > 0 {
					for _, a := range c.Call.Args {
						if depOnParamType(a, "Block") && dominates(c, resets[0]) {
							cands = append(cands, sf)
						}
					}
				}
			}
		}
	}
	ok := false
	detail := "hg.Reset stores the block with the signature map exactly as the responder sent it: entries that do not verify, or whose signer is not a validator of the block's round, are recorded on the node's own copy of the block (confirmed: 3 valid + 2 garbage entries in, 5 recorded) and later served in its own fast-forward answers"
	for _, f := range cands {
		for _, w := range p.writersOf(fSig) {
			if w.Fn != f || w.Kind != "store" {
				continue
			}
			mk, isMk := unwrap(w.Val).(*ssa.MakeMap)
			if !isMk {
				// value loaded from a local holding a MakeMap
				flowsFrom(w.Val, func(x ssa.Value) bool {
					if m, ok := x.(*ssa.MakeMap); ok {
						mk, isMk = m, true
						return true
					}
					return false
				})
			}
			if !isMk {
				continue
			}
			if f == fn && !dominates(w.Instr, resets[0]) {
				continue
			}
			// every update of that map is guarded
			n, good := 0, true
			for _, b := range f.Blocks {
				for _, in := range b.Instrs {
					mu, isMu := in.(*ssa.MapUpdate)
					if !isMu || unwrap(mu.Map) != ssa.Value(mk) {
						continue
					}
					n++
					qMember := p.lift(func(l Lit) bool {
						lk, present, ok := lookupLit(l)
						if !ok || !present {
							return false
						}
						fv, _ := fieldOf(lk.X)
						return fv != nil && refName(fv) == "ByPubKey" && depOnCall(lk.Index, fullKeyIdent)
					}, 1)
					qVerify := p.lift(func(l Lit) bool { return resultLit(l, named(HG+".Block.Verify"), 0, true, nil) }, 1)
					g1, _ := p.allPaths(mu, []Pred{qMember}, all(1))
					g2, _ := p.allPaths(mu, []Pred{qVerify}, all(1))
					if !g1 || !g2 {
						good = false
						detail = "the rebuilt signature map is filled without the membership test or without Block.Verify==true"
					}
				}
			}
			if n > 0 && good {
				ok = true
			}
		}
	}
	r.Check(ok, rule, "fastForward:signatures-filtered-before-Reset", p.ipos(resets[0]), fnName(fn), "only verified member signatures are recorded on the adopted block", detail)
}
