package main

import (
	"fmt"
	"go/token"
	"go/types"
	"os"
	"sort"
	"strings"
	"time"

	"golang.org/x/tools/go/callgraph"
	"golang.org/x/tools/go/callgraph/cha"
	"golang.org/x/tools/go/callgraph/vta"
	"golang.org/x/tools/go/packages"
	"golang.org/x/tools/go/ssa"
	"golang.org/x/tools/go/ssa/ssautil"
)

const modPath = "github.com/mosaicnetworks/babble"

// Prog is one loaded configuration of the repository: type-checked packages,
// SSA form and a VTA call graph.
type Prog struct {
	sites      map[*ssa.Function][]ssa.CallInstruction // static call sites of module functions (built lazily)
	inlineMemo map[calleeKey][]uint32 // per top-level pathMasks call: masks a helper's success returns may carry
	inlining map[*ssa.Function]bool // helpers currently being looked into by the path engine (recursion guard)
	merged     map[string]bool // reference functions _x that now live inside their wrapper x
	forwards   map[string]string // reference function -> new helper that now holds its body (anchor forwarding)
	forwardedFrom map[*ssa.Function]string // the helper -> name of the reference function it stands for
	Inlined    []inlineNote // helpers unknown to the reference tree that were inlined (or kept, with the reason)
	InlineFail string
	Dir   string
	Tags  string
	Fset  *token.FileSet
	Pkgs  []*packages.Package
	ByPkg map[string]*packages.Package // import path => package (module packages only)
	SSA   *ssa.Program
	CG    *callgraph.Graph
	All   map[*ssa.Function]bool
	Mod   []*ssa.Function // every function (incl. closures, wrappers excluded) whose package is in the module

	LoadS, SSAS, CGS float64
	factCache        map[*ssa.Function]*FactInfo
	fieldStoreCache  map[*types.Var][]*FieldWrite
	fieldStoresBuilt bool
}

func loadPkgs(dir, tags string, overlay map[string][]byte) ([]*packages.Package, error) {
	env := append(os.Environ(),
		"GOFLAGS=-mod=mod", "GOPROXY=off", "GOSUMDB=off", "GOTOOLCHAIN=local", "GOWORK=off")
	cfg := &packages.Config{
		Mode:    packages.LoadAllSyntax,
		Dir:     dir,
		Env:     env,
		Tests:   false,
		Overlay: overlay,
	}
	if tags != "" {
		cfg.BuildFlags = []string{"-tags=" + tags}
	}
	pkgs, err := packages.Load(cfg, "./src/...", "./cmd/...")
	if err != nil {
		return nil, fmt.Errorf("packages.Load: %v", err)
	}
	if len(pkgs) == 0 {
		return nil, fmt.Errorf("no packages loaded from %s", dir)
	}
	var errs []string
	packages.Visit(pkgs, nil, func(p *packages.Package) {
		for _, e := range p.Errors {
			errs = append(errs, e.Error())
		}
	})
	if len(errs) > 0 {
		sort.Strings(errs)
		if len(errs) > 10 {
			errs = errs[:10]
		}
		return nil, fmt.Errorf("type-check errors: %s", strings.Join(errs, "; "))
	}
	return pkgs, nil
}

func loadProg(dir, tags string, needCG bool) (*Prog, error) {
	t0 := time.Now()
	pkgs, err := loadPkgs(dir, tags, nil)
	if err != nil {
		return nil, err
	}
	// functions that are not in the reference tree are inlined into their callers (inline.go)
	computeAliases(pkgs)
	var inlNotes []inlineNote
	inlFail := ""
	if os.Getenv("BBL_NO_INLINE") == "" {
		overlay := map[string][]byte{}
		for round := 0; round < 4; round++ {
			il := &inliner{fset: pkgs[0].Fset, counter: round * 1000}
			changed := il.round(pkgs, overlay)
			inlNotes = append(inlNotes, il.notes...)
			if changed == nil {
				break
			}
			next := map[string][]byte{}
			for k, v := range overlay {
				next[k] = v
			}
			for k, v := range changed {
				next[k] = v
			}
			pk2, err := loadPkgs(dir, tags, next)
			if err != nil {
				inlFail = err.Error()
				if os.Getenv("BBL_DEBUG_INLINE") != "" {
					for k, v := range changed {
						os.WriteFile("/tmp/bbl_inline_"+strings.ReplaceAll(strings.TrimPrefix(k, dir), "/", "_"), v, 0o644)
					}
				}
				break
			}
			overlay, pkgs = next, pk2
		}
	}
	p := &Prog{Dir: dir, Tags: tags, Pkgs: pkgs, ByPkg: map[string]*packages.Package{},
		factCache: map[*ssa.Function]*FactInfo{}, Inlined: inlNotes, InlineFail: inlFail}
	for _, pk := range pkgs {
		p.ByPkg[pk.PkgPath] = pk
		p.Fset = pk.Fset
	}
	p.LoadS = time.Since(t0).Seconds()

	t1 := time.Now()
	prog, _ := ssautil.AllPackages(pkgs, ssa.InstantiateGenerics)
	prog.Build()
	p.SSA = prog
	p.All = ssautil.AllFunctions(prog)
	for f := range p.All {
		// wrappers, thunks and bound-method closures only forward their
		// arguments; rules look at declared functions and closures
		if inModule(f) && (f.Synthetic == "" || f.Synthetic == "package initializer") {
			p.Mod = append(p.Mod, f)
		}
	}
	sort.Slice(p.Mod, func(i, j int) bool {
		a, b := p.Mod[i], p.Mod[j]
		if a.String() != b.String() {
			return a.String() < b.String()
		}
		return a.Pos() < b.Pos()
	})
	p.SSAS = time.Since(t1).Seconds()

	if needCG {
		t2 := time.Now()
		p.CG = vta.CallGraph(p.All, cha.CallGraph(prog))
		p.CGS = time.Since(t2).Seconds()
	}
	gProg = p
	return p, nil
}

func fnPkgPath(f *ssa.Function) string {
	for f.Parent() != nil {
		f = f.Parent()
	}
	if f.Pkg != nil {
		return f.Pkg.Pkg.Path()
	}
	if o := f.Object(); o != nil && o.Pkg() != nil {
		return o.Pkg().Path()
	}
	// wrappers / bound methods: use receiver's package
	if f.Signature != nil && f.Signature.Recv() != nil {
		if n := namedOf(f.Signature.Recv().Type()); n != nil && n.Obj().Pkg() != nil {
			return n.Obj().Pkg().Path()
		}
	}
	return ""
}

func inModule(f *ssa.Function) bool {
	pp := fnPkgPath(f)
	return pp == modPath || strings.HasPrefix(pp, modPath+"/")
}

func namedOf(t types.Type) *types.Named {
	for {
		switch tt := t.(type) {
		case *types.Pointer:
			t = tt.Elem()
		case *types.Named:
			return tt
		case *types.Alias:
			t = types.Unalias(tt)
		default:
			return nil
		}
	}
}

// Pkg returns the SSA package for a module-relative path such as "src/hashgraph".
func (p *Prog) Pkg(rel string) *ssa.Package {
	pk := p.ByPkg[modPath+"/"+rel]
	if pk == nil {
		return nil
	}
	return p.SSA.Package(pk.Types)
}

// Func resolves a function or method by module-relative package path, optional
// receiver type name and name. Returns nil if not found.
func (p *Prog) Func(rel, recv, name string) *ssa.Function {
	if f := p.func0(rel, recv, name); f != nil {
		return p.forwarded(f)
	}
	key := modPath + "/" + rel + "." + name
	if recv != "" {
		key = modPath + "/" + rel + "." + recv + "." + name
	}
	if nk, ok := fnAliasRev[key]; ok {
		return p.func0(rel, recv, nk[strings.LastIndex(nk, ".")+1:])
	}
	// a memoised predicate's compute function (_x) merged into its wrapper (x)
	if strings.HasPrefix(name, "_") && referenceFuncs[key] {
		if f := p.func0(rel, recv, name[1:]); f != nil {
			if p.merged == nil {
				p.merged = map[string]bool{}
			}
			p.merged[key] = true
			return f
		}
	}
	return nil
}

// forwarded: a reference function that has become a thin front for a NEW helper which the source-level
// inliner could not fold back (it defers, recovers, ...): `guard clauses; return h.newHelper(args)`.
// The body the rules were written against now lives in that helper, so the helper is the anchor. The
// front must be loop-free, make exactly one call to a module function that is not in the reference tree,
// and return that call's results unchanged on the path that reaches it. Recorded in the evidence.
func (p *Prog) forwarded(f *ssa.Function) *ssa.Function {
	for depth := 0; depth < 3; depth++ {
		if f == nil || len(f.Blocks) == 0 || len(naturalLoops(f)) > 0 {
			return f
		}
		var target *ssa.Function
		var call *ssa.Call
		n := 0
		for _, b := range f.Blocks {
			for _, in := range b.Instrs {
				c, ok := in.(*ssa.Call)
				if !ok {
					continue
				}
				callee := c.Common().StaticCallee()
				if callee == nil || !inModule(callee) || callee.Synthetic != "" {
					continue
				}
				o, isFn := callee.Object().(*types.Func)
				if !isFn || referenceFuncs[funcKey(o)] || fnAlias[funcKey(o)] != "" {
					continue
				}
				n++
				target, call = callee, c
			}
		}
		if n != 1 || target == nil {
			return f
		}
		// tail position: the block of the call ends in a return of the call's results
		ret, isRet := call.Block().Instrs[len(call.Block().Instrs)-1].(*ssa.Return)
		if !isRet {
			return f
		}
		for i, rv := range ret.Results {
			if c2, idx := callOf(rv); c2 != call || (idx != -1 && idx != i) {
				return f
			}
		}
		if p.forwards == nil {
			p.forwards = map[string]string{}
		}
		p.forwards[fnName(f)] = fnName(target)
		if p.forwardedFrom == nil {
			p.forwardedFrom = map[*ssa.Function]string{}
		}
		orig := f.Name()
		if o, ok := p.forwardedFrom[f]; ok {
			orig = o
		}
		p.forwardedFrom[target] = orig
		f = target
	}
	return f
}

func (p *Prog) func0(rel, recv, name string) *ssa.Function {
	sp := p.Pkg(rel)
	if sp == nil {
		return nil
	}
	if recv == "" {
		return sp.Func(name)
	}
	tn, ok := sp.Pkg.Scope().Lookup(recv).(*types.TypeName)
	if !ok {
		return nil
	}
	T := tn.Type()
	for _, t := range []types.Type{types.NewPointer(T), T} {
		ms := p.SSA.MethodSets.MethodSet(t)
		for i := 0; i < ms.Len(); i++ {
			sel := ms.At(i)
			if sel.Obj().Name() == name {
				if f := p.SSA.MethodValue(sel); f != nil {
					// prefer the declared method, not a wrapper
					if fo, ok := sel.Obj().(*types.Func); ok {
						if df := p.SSA.FuncValue(fo); df != nil {
							return df
						}
					}
					return f
				}
			}
		}
	}
	return nil
}

// Type returns the named type rel.name.
func (p *Prog) Type(rel, name string) *types.Named {
	pk := p.ByPkg[modPath+"/"+rel]
	if pk == nil {
		return nil
	}
	tn, ok := pk.Types.Scope().Lookup(name).(*types.TypeName)
	if !ok {
		return nil
	}
	n, _ := tn.Type().(*types.Named)
	return n
}

// Field returns the *types.Var of a struct field.
func (p *Prog) Field(rel, typ, field string) *types.Var {
	n := p.Type(rel, typ)
	if n == nil {
		return nil
	}
	st, ok := n.Underlying().(*types.Struct)
	if !ok {
		return nil
	}
	for i := 0; i < st.NumFields(); i++ {
		if st.Field(i).Name() == field {
			return st.Field(i)
		}
	}
	if nn, ok := fieldAliasRev[modPath+"/"+rel+"."+typ+"."+field]; ok {
		for i := 0; i < st.NumFields(); i++ {
			if st.Field(i).Name() == nn {
				return st.Field(i)
			}
		}
	}
	return nil
}

func (p *Prog) pos(pos token.Pos) string {
	if !pos.IsValid() {
		return "-"
	}
	ps := p.Fset.Position(pos)
	f := ps.Filename
	if strings.HasPrefix(f, p.Dir+"/") {
		f = f[len(p.Dir)+1:]
	}
	return fmt.Sprintf("%s:%d", f, ps.Line)
}

// instrPos returns a usable position for an instruction, falling back to the
// nearest positioned instruction in the block and finally to the function.
func (p *Prog) ipos(in ssa.Instruction) string {
	if in == nil {
		return "-"
	}
	if in.Pos().IsValid() {
		return p.pos(in.Pos())
	}
	if v, ok := in.(ssa.Value); ok {
		_ = v
	}
	b := in.Block()
	if b != nil {
		for _, x := range b.Instrs {
			if x.Pos().IsValid() {
				return p.pos(x.Pos())
			}
		}
		if b.Parent() != nil {
			return p.pos(b.Parent().Pos())
		}
	}
	return "-"
}

func fnName(f *ssa.Function) string {
	if f == nil {
		return "<nil>"
	}
	s := f.String()
	s = strings.ReplaceAll(s, modPath+"/", "")
	return s
}

// gProg: the program being analysed (one at a time); the value relations use it to cross calls.
var gProg *Prog

// callSitesOf: the static call sites (call, go, defer) of module function f inside the module.
func callSitesOf(f *ssa.Function) []ssa.CallInstruction {
	p := gProg
	if p == nil || f == nil {
		return nil
	}
	if p.sites == nil {
		p.sites = map[*ssa.Function][]ssa.CallInstruction{}
		for _, fn := range p.Mod {
			for _, b := range fn.Blocks {
				for _, in := range b.Instrs {
					if ci, ok := in.(ssa.CallInstruction); ok {
						if sc := ci.Common().StaticCallee(); sc != nil {
							p.sites[sc] = append(p.sites[sc], ci)
						}
					}
				}
			}
		}
	}
	return p.sites[f]
}

// moduleCallee: the statically known module function called by v's defining call (v is the call
// value or an Extract of it), and the result index.
func moduleCallee(v ssa.Value) (*ssa.Call, *ssa.Function, int) {
	c, idx := callOf(v)
	if c == nil {
		return nil, nil, 0
	}
	f := c.Call.StaticCallee()
	if f == nil || !inModule(f) || len(f.Blocks) == 0 {
		return nil, nil, 0
	}
	if idx < 0 {
		idx = 0
	}
	if idx >= f.Signature.Results().Len() {
		return nil, nil, 0
	}
	return c, f, idx
}

func paramIndex(pv *ssa.Parameter) int {
	for i, q := range pv.Parent().Params {
		if q == pv {
			return i
		}
	}
	return -1
}

// maxCallDepth bounds how many calls the value relations descend into / climb out of.
const maxCallDepth = 3
