package main

import (
	"os"
	"go/constant"
	"fmt"
	"go/token"
	"go/types"
	"sort"
	"strings"

	"golang.org/x/tools/go/ssa"
)

func init() {
	register(&propDef{
		ID: "C01", NeedCG: true,
		Meta: propMeta{Level: "other", Assumptions: commonAssumptions,
			Explanation: "Agreement itself (two honest nodes, any partial views) is the safety theorem of Hashgraph and is NOT decided. Decided are code-shape facts without which its hypotheses fail: " +
				"C01.thr (every comparison against SuperMajority() is count >= SM), C01.pair (at every quorum test the peer set is the one of the round whose witnesses are counted: _round, stronglySee calls, fame decision, round-received), " +
				"C01.see (ancestry comparisons on per-creator indexes are non-strict >=; the coordinate merge keeps the larger index), " +
				"C01.fame (fame is set only for an undecided witness, in a normal (non-coin) round, by a supermajority; COIN_ROUND_FREQ/ROOT_DEPTH are compile-time constants; Famous / decided have a single writer; a decided round stays decided), " +
				"C01.rr (round-received needs all witnesses of the round decided, every famous witness seeing the event, at least a supermajority of them; first such round only; search starts at round(x)+1), " +
				"C01.order (the consensus sort reads only Lamport timestamp and signature; Frame.Events is stored sorted), C01.inorder (rounds processed ascending, shared with C02.order), C01.roundonce (a decided round is turned into a block once, also across error exits: a node that delivers a round twice disagrees with its peers at every later index; shared with C02.once), C01.undecided (the search for the round received stops at the first round with undecided fame; it may go on only past a round i at or below the reset point of a fast-forwarded node, tested on i itself; shared with C04.undecided), C01.timestamp (a block's timestamp is a function of the decided round only: the median over the FAMOUS witnesses of the round received, written into the frame by GetFrame and into the block by NewBlock, by nobody else — the set of all witnesses a node happens to have registered differs between nodes; shared with C18.prov), C01.peers (a recorded validator set is never reordered or overwritten in place — by anybody, the HTTP service included: the peer-set hash a node writes into its blocks is computed over that slice; shared with C10.immutable), C01.sticky (WitnessesDecided consults the recorded flag before anything else can make it answer false, on every return; shared with C04.sticky). " +
				"NOT covered: correctness of the voting scheme itself, the coin, that `break VOTE_LOOP` is order-independent, LRU eviction of RoundInfo objects."},
		Rules: []ruleFunc{c01thr, c01pair, c01see, c01fame, c01rr, c01order, func(p *Prog, r *Report) { c02orderAs(p, r, "C01.inorder") }, func(p *Prog, r *Report) { onceRule(p, r, "C01.roundonce") }, c01peers, func(p *Prog, r *Report) { undecidedSkipRule(p, r, "C01.undecided") }, func(p *Prog, r *Report) { timestampRule(p, r, "C01.timestamp") }, func(p *Prog, r *Report) { mapPickRule(p, r, "C01.mappick", consensusFuncs) }, func(p *Prog, r *Report) { memberRule(p, r, "C01.member") }, func(p *Prog, r *Report) { stickyRule(p, r, "C01.sticky") }},
	})
	register(&propDef{
		ID: "C04", NeedCG: true,
		Meta: propMeta{Level: "other", Assumptions: commonAssumptions,
			Explanation: "Decides: C04.lamport (the value returned by _lamportTimestamp on success is max(-1, LT(self-parent) if present, LT(other-parent) if present and known) + 1, evaluated symbolically over the SSA in a max-plus domain: hence strictly greater than each known parent), " +
				"C04.sort (SortedFrameEvents.Less orders by Lamport timestamp first, with <, tie-break only on equality), " +
				"C04.batch (block transactions / internal transactions are the in-order concatenation over frame.Events of each event's own slice; frame events are createFrameEvent(h) for exactly the ReceivedEvents of the frame's round; ReceivedEvents is appended only under the round-received action), " +
				"C04.once (an event leaves the undetermined queue iff it was received; the queue is replaced by the remainder on the success exit; only InsertEvent appends to it; a committed round is never processed again). " +
				"C04.sticky (a round recorded as decided stays decided: WitnessesDecided consults the recorded flag before anything can make it answer false; shared with C01.sticky), C04.framedecided (Hashgraph.GetFrame computes AND stores; every call is for the round of an existing block, the last consensus round, or a round just found decided, and a pending round is marked Decided only after WitnessesDecided of that round answered true — a frame stored early would be what ProcessDecidedRounds commits later, without the events received since). " +
				"NOT decided: monotonicity of round-received along ancestry for actual DAGs (a theorem about lastAncestors maintenance, partly covered by C01.see)."},
		Rules: []ruleFunc{c04lamport, c04sort, c04batch, c04once, func(p *Prog, r *Report) { onceRule(p, r, "C04.roundonce") }, func(p *Prog, r *Report) { undecidedSkipRule(p, r, "C04.undecided") }, func(p *Prog, r *Report) { submitCopyRule(p, r, "C04.copy") }, func(p *Prog, r *Report) { stickyRule(p, r, "C04.sticky") }, func(p *Prog, r *Report) { frameDecidedRule(p, r, "C04.framedecided") }},
	})
}

// c01peers: the validator sets a node hashes into its blocks are never mutated in place (the rule
// of C10.immutable; an in-place reorder on one node makes its PeersHash / FrameHash diverge).
func c01peers(p *Prog, r *Report) { immutableRule(p, r, "C01.peers") }

func c02orderAs(p *Prog, r *Report, rule string) {
	// re-run C02.order's obligations under another rule id
	sub := newReport(r.Prop)
	sub.Config = r.Config
	c02order(p, sub)
	r.Rule(rule, 4, "rounds are processed in ascending order, an undecided round stops the walk (same obligations as C02.order)")
	for _, o := range sub.Obs {
		r.add(rule, o.Construct, o.Site, o.Fn, o.OK, o.Detail)
	}
}

/* ---------- C01.thr ---------- */

func c01thr(p *Prog, r *Report) {
	const rule = "C01.thr"
	r.Rule(rule, 6, "every comparison against SuperMajority() in the module is count >= SM (or count < SM on the rejecting edge)")
	smM := named(PEER + ".PeerSet.SuperMajority")
	ord := map[string]int{}
	n := 0
	for _, fn := range p.Mod {
		for _, b := range fn.Blocks {
			for _, in := range b.Instrs {
				bo, ok := in.(*ssa.BinOp)
				if !ok {
					continue
				}
				xS, yS := flowsFromCall(bo.X, smM, 0), flowsFromCall(bo.Y, smM, 0)
				if !xS && !yS {
					continue
				}
				n++
				ord[fn.Name()]++
				op := bo.Op
				if xS {
					switch op {
					case token.GTR:
						op = token.LSS
					case token.GEQ:
						op = token.LEQ
					case token.LSS:
						op = token.GTR
					case token.LEQ:
						op = token.GEQ
					}
				}
				r.Check(op == token.GEQ || op == token.LSS, rule, fmt.Sprintf("%s:cmp#%d", fn.Name(), ord[fn.Name()]), p.ipos(in), fnName(fn), "count >= SuperMajority()", fmt.Sprintf("quorum test uses operator %s (normalised: count %s SM) instead of >=", bo.Op, op))
			}
		}
	}
	if n == 0 {
		r.Fail(rule, "SuperMajority-comparisons", "-", "", "no comparison found")
	}
}

/* ---------- C01.pair ---------- */

// roundArgOfSet: v flows from Store.GetPeerSet(round) / Store.GetRound(round): returns the round argument.
func roundArgOf(v ssa.Value, m fnMatch) ssa.Value {
	var res ssa.Value
	flowsFrom(v, func(x ssa.Value) bool {
		c, idx, ok := isCallTo(x, m)
		if ok && (idx == 0 || idx == -1) {
			res = lastArg(c)
			return true
		}
		return false
	})
	return res
}

func sameRoundExpr(a, b ssa.Value) bool {
	if a == nil || b == nil {
		return false
	}
	a, b = unwrap(a), unwrap(b)
	if a == b {
		return true
	}
	ba, oka := a.(*ssa.BinOp)
	bb, okb := b.(*ssa.BinOp)
	if oka && okb && ba.Op == bb.Op && unwrap(ba.X) == unwrap(bb.X) {
		ka, ok1 := intConst(ba.Y)
		kb, ok2 := intConst(bb.Y)
		return ok1 && ok2 && ka == kb
	}
	// two loads of the same field (e.g. r.Index)
	if sameOrigin(a, b) {
		return true
	}
	return false
}

// witnessRoundOfLoop: the loop iterates Witnesses()/FamousWitnesses() of GetRound(A): returns A.
func witnessRoundOfSource(src ssa.Value) ssa.Value {
	if src == nil {
		return nil
	}
	var res ssa.Value
	flowsFrom(src, func(x ssa.Value) bool {
		c, _, ok := isCallTo(x, named(HG+".RoundInfo.Witnesses", HG+".RoundInfo.FamousWitnesses"))
		if !ok {
			return false
		}
		res = roundArgOf(recvOf(c), storeM("GetRound"))
		return true
	})
	return res
}

func describeRound(v ssa.Value) string {
	if v == nil {
		return "?"
	}
	v = unwrap(v)
	if bo, ok := v.(*ssa.BinOp); ok {
		return describeRound(bo.X) + " " + bo.Op.String() + " " + describeRound(bo.Y)
	}
	if c, ok := v.(*ssa.Const); ok {
		return c.Value.String()
	}
	if ph, ok := v.(*ssa.Phi); ok && ph.Comment != "" {
		return ph.Comment
	}
	if fv, _ := fieldOf(v); fv != nil {
		return "." + refName(fv)
	}
	if pv, ok := v.(*ssa.Parameter); ok {
		return pv.Name()
	}
	return v.Name()
}

func c01pair(p *Prog, r *Report) {
	const rule = "C01.pair"
	r.Rule(rule, 5, "the peer set at each quorum test is that of the round whose witnesses are counted")
	gpM, grM := storeM("GetPeerSet"), storeM("GetRound")
	smM := named(PEER + ".PeerSet.SuperMajority")
	// (1) stronglySee(x, w, set): w ranges over Witnesses() of GetRound(A); set = GetPeerSet(A)
	n := 0
	for _, fnn := range []string{"_round", "DecideFame"} {
		fn := p.Func(HG, "Hashgraph", fnn)
		if fn == nil {
			r.Anchor(rule, "Hashgraph."+fnn)
			continue
		}
		for i, c := range callsIn(fn, named(HG+".Hashgraph.stronglySee")) {
			n++
			setRound := roundArgOf(argN(c, 2), gpM)
			src, _ := loopSource(fn, c.Block())
			wRound := witnessRoundOfSource(src)
			ok := setRound != nil && wRound != nil && sameRoundExpr(setRound, wRound)
			r.Check(ok, rule, fmt.Sprintf("%s:stronglySee#%d:set-round==witness-round", fnn, i), p.ipos(c), fnName(fn), "strongly-see evaluated against the peer set of the witnesses' round ("+describeRound(setRound)+")",
				fmt.Sprintf("stronglySee is given the peer set of round %s while the witnesses come from round %s", describeRound(setRound), describeRound(wRound)))
		}
	}
	// (2) every SuperMajority comparison in the hashgraph consensus functions
	for _, fnn := range []string{"_round", "DecideFame", "DecideRoundReceived"} {
		fn := p.Func(HG, "Hashgraph", fnn)
		if fn == nil {
			r.Anchor(rule, "Hashgraph."+fnn)
			continue
		}
		loops := naturalLoops(fn)
		k := 0
		for _, b := range fn.Blocks {
			for _, in := range b.Instrs {
				bo, ok := in.(*ssa.BinOp)
				if !ok {
					continue
				}
				var smv, cnt ssa.Value
				if flowsFromCall(bo.Y, smM, 0) {
					smv, cnt = bo.Y, bo.X
				} else if flowsFromCall(bo.X, smM, 0) {
					smv, cnt = bo.X, bo.Y
				} else {
					continue
				}
				n++
				k++
				var smCall *ssa.Call
				flowsFrom(smv, func(x ssa.Value) bool { c, _, ok := isCallTo(x, smM); smCall = c; return ok })
				setRound := roundArgOf(recvOf(smCall), gpM)
				// the round whose witnesses are counted
				var wRound ssa.Value
				// innermost enclosing loop over a witness list
				var best *loopInfo
				for _, l := range loops {
					if !l.body[b] {
						continue
					}
					s, _ := loopSourceOf(fn, l)
					if wr := witnessRoundOfSource(s); wr != nil {
						if best == nil || len(l.body) < len(best.body) {
							best = l
							wRound = wr
						}
					}
				}
				if wRound == nil {
					// counter incremented / slice appended in a loop over a witness list
					for _, inc := range incrementsOf(cnt) {
						s, _ := loopSource(fn, inc.Block())
						if wr := witnessRoundOfSource(s); wr != nil {
							wRound = wr
						}
					}
					if x, isLen := isLenOf(cnt); isLen {
						dependsOn(x, func(y ssa.Value) bool {
							if ac, ok := y.(*ssa.Call); ok {
								if bi, isB := ac.Call.Value.(*ssa.Builtin); isB && bi.Name() == "append" {
									s, _ := loopSource(fn, ac.Block())
									if wr := witnessRoundOfSource(s); wr != nil {
										wRound = wr
										return true
									}
								}
							}
							return false
						})
					}
				}
				ok2 := setRound != nil && wRound != nil && sameRoundExpr(setRound, wRound)
				r.Check(ok2, rule, fmt.Sprintf("%s:quorum#%d:set-round==counted-round", fnn, k), p.ipos(in), fnName(fn), "quorum of round "+describeRound(setRound)+" tested against that round's peer set",
					fmt.Sprintf("the supermajority of the peer set of round %s is applied to witnesses of round %s", describeRound(setRound), describeRound(wRound)))
			}
		}
	}
	// (3) WitnessesDecided(set): the RoundInfo and the set belong to the same round
	for _, c := range p.callsAnywhere(named(HG + ".RoundInfo.WitnessesDecided")) {
		n++
		a := roundArgOf(recvOf(c), grM)
		b := roundArgOf(argN(c, 0), gpM)
		r.Check(a != nil && b != nil && sameRoundExpr(a, b), rule, c.Parent().Name()+":WitnessesDecided:same-round", p.ipos(c), fnName(c.Parent()), "round info and peer set of the same round", fmt.Sprintf("WitnessesDecided of round %s is evaluated against the peer set of round %s", describeRound(a), describeRound(b)))
	}
	if n == 0 {
		r.Fail(rule, "quorum-sites", "-", "", "no quorum site found")
	}
}

// loopSourceOf: the iteration source of a given loop.
func loopSourceOf(fn *ssa.Function, lp *loopInfo) (ssa.Value, bool) {
	for blk := range lp.body {
		for _, in := range blk.Instrs {
			if nx, ok := in.(*ssa.Next); ok {
				if rg, ok := nx.Iter.(*ssa.Range); ok {
					// only if this Next belongs to this loop's head region (innermost)
					if il := innermostLoop(naturalLoops(fn), blk); il != nil && il.head == lp.head {
						return rg.X, true
					}
				}
			}
		}
	}
	if n := len(lp.head.Instrs); n > 0 {
		if iff, ok := lp.head.Instrs[n-1].(*ssa.If); ok {
			if bo, ok := iff.Cond.(*ssa.BinOp); ok {
				for _, side := range []ssa.Value{bo.X, bo.Y} {
					if s, ok := isLenOf(side); ok {
						return s, true
					}
				}
			}
		}
	}
	return nil, false
}

/* ---------- C01.see ---------- */

func c01see(p *Prog, r *Report) {
	const rule = "C01.see"
	r.Rule(rule, 4, "ancestry is computed from per-creator indexes with non-strict >=; merging coordinates keeps the larger index")
	idx := func(v ssa.Value) bool {
		return flowsFromField(v, "Index") || flowsFromCall(v, named(HG+".Event.Index"), 0)
	}
	for _, spec := range []struct {
		fn       string
		hiField  string // the side that must be >=: derived from this map field
		loDesc   string
		loFields []string
	}{
		{"_ancestor", "lastAncestors", "the ancestor's own index", nil},
		{"_stronglySee", "lastAncestors", "firstDescendants", []string{"firstDescendants"}},
		{"_selfAncestor", "", "", nil},
	} {
		fn := p.Func(HG, "Hashgraph", spec.fn)
		if fn == nil {
			r.Anchor(rule, "Hashgraph."+spec.fn)
			continue
		}
		n := 0
		for _, b := range fn.Blocks {
			for _, in := range b.Instrs {
				bo, ok := in.(*ssa.BinOp)
				if !ok || !(idx(bo.X) && idx(bo.Y)) {
					continue
				}
				switch bo.Op {
				case token.GEQ, token.LEQ, token.GTR, token.LSS, token.EQL, token.NEQ:
				default:
					continue
				}
				n++
				hi, lo, op := bo.X, bo.Y, bo.Op
				if op == token.LEQ || op == token.LSS {
					hi, lo = lo, hi
					if op == token.LEQ {
						op = token.GEQ
					} else {
						op = token.GTR
					}
				}
				ok2 := op == token.GEQ
				detail := fmt.Sprintf("index comparison uses %s; 'x has y as (self-)ancestor' needs lastAncestor.Index >= y.Index (strict > drops the event itself / equal heights, == misses later descendants)", bo.Op)
				if ok2 && spec.hiField != "" {
					if !depOnField(hi, spec.hiField) {
						ok2 = false
						detail = "the larger side of the comparison is not x's " + spec.hiField + " entry"
					}
					for _, lf := range spec.loFields {
						if !depOnField(lo, lf) {
							ok2 = false
							detail = "the smaller side of the comparison is not y's " + lf + " entry"
						}
					}
				}
				r.Check(ok2, rule, spec.fn+":index-comparison", p.ipos(in), fnName(fn), "x."+spec.hiField+"[c].Index >= y index", detail)
			}
		}
		if n == 0 {
			r.Fail(rule, spec.fn+":index-comparison", p.pos(fn.Pos()), fnName(fn), "no index comparison found in "+spec.fn)
		}
	}
	// initEventCoordinates: overwrite only if absent or strictly smaller
	fn := p.Func(HG, "Hashgraph", "initEventCoordinates")
	if fn == nil {
		r.Anchor(rule, "Hashgraph.initEventCoordinates")
		return
	}
	loops := naturalLoops(fn)
	n := 0
	for _, b := range fn.Blocks {
		for _, in := range b.Instrs {
			mu, ok := in.(*ssa.MapUpdate)
			if !ok || innermostLoop(loops, b) == nil {
				continue
			}
			if fv, _ := fieldOf(mu.Map); fv == nil || refName(fv) != "lastAncestors" {
				continue
			}
			n++
			qAbsent := func(l Lit) bool {
				lk, present, ok := lookupLit(l)
				if !ok || present {
					return false
				}
				fv, _ := fieldOf(lk.X)
				return fv != nil && refName(fv) == "lastAncestors"
			}
			qLarger := func(l Lit) bool {
				a, bb, strict, ok := cmpLit(l) // a > bb
				if !ok || !strict {
					return false
				}
				// a: other parent's entry index (the value being written), bb: current entry
				return idx(a) && idx(bb) && depOnValue(mu.Value, rootIndexSource(a))
			}
			g, _ := p.allPaths(mu, []Pred{qAbsent, qLarger}, func(m uint32) bool { return m != 0 })
			r.Check(g, rule, "initEventCoordinates:merge-keeps-larger", p.ipos(mu), fnName(fn), "an entry is overwritten only by a strictly larger index (or when absent)", "the coordinate merge can replace an entry by a smaller or equal index: lastAncestors would under-approximate ancestry")
		}
	}
	if n == 0 {
		r.Fail(rule, "initEventCoordinates:merge-keeps-larger", p.pos(fn.Pos()), fnName(fn), "no merge of lastAncestors found")
	}
}

// rootIndexSource: the struct value whose Index field v reads (so that the written value can be tied to it).
func rootIndexSource(v ssa.Value) ssa.Value {
	v = unwrap(v)
	if f, ok := v.(*ssa.Field); ok {
		return f.X
	}
	if u, ok := v.(*ssa.UnOp); ok {
		if fa, ok := u.X.(*ssa.FieldAddr); ok {
			return fa.X
		}
	}
	return v
}

/* ---------- C01.fame ---------- */

func c01fame(p *Prog, r *Report) {
	const rule = "C01.fame"
	r.Rule(rule, 5, "fame set once, by a supermajority, in a normal round; constants; single writers; a decided round stays decided")
	fn := p.Func(HG, "Hashgraph", "DecideFame")
	if fn == nil {
		r.Anchor(rule, "Hashgraph.DecideFame")
		return
	}
	cs := callsIn(fn, named(HG+".RoundInfo.SetFame"))
	if len(cs) == 0 {
		r.Fail(rule, "DecideFame:SetFame", p.pos(fn.Pos()), fnName(fn), "DecideFame never sets fame")
	}
	for i, c := range cs {
		qUndecided := func(l Lit) bool { return resultLit(l, named(HG+".RoundInfo.IsDecided"), 0, false, nil) }
		qNormal := func(l Lit) bool {
			// mod > 0, or the equivalent mod != 0 (the remainder of a non-negative difference)
			if bo, isB := l.V.(*ssa.BinOp); isB && !l.Nil && (bo.Op == token.EQL || bo.Op == token.NEQ) {
				for _, pair := range [][2]ssa.Value{{bo.X, bo.Y}, {bo.Y, bo.X}} {
					if k, okc := intConst(pair[1]); okc && k == 0 && flowsFromCall(pair[0], named("math.Mod"), 0) {
						return (bo.Op == token.NEQ) == l.Pos
					}
				}
			}
			a, b, strict, ok := cmpLit(l)
			if !ok || !strict {
				return false
			}
			k, okc := intConst(b)
			return okc && k == 0 && flowsFromCall(a, named("math.Mod"), 0)
		}
		qSuper := func(l Lit) bool {
			_, b, strict, ok := cmpLit(l)
			return ok && !strict && flowsFromCall(b, named(PEER+".PeerSet.SuperMajority"), 0)
		}
		for k, q := range []Pred{qUndecided, qNormal, qSuper} {
			name := []string{"witness-undecided", "normal-round(diff mod COIN_ROUND_FREQ > 0)", "t>=SuperMajority"}[k]
			g, _ := p.allPaths(c, []Pred{q}, all(1))
			r.Check(g, rule, fmt.Sprintf("DecideFame:SetFame#%d:%s", i, name), p.ipos(c), fnName(fn), "guarded by "+name, "SetFame reachable without "+name)
		}
		// the fame value is the majority vote v, and the mod's operands are the round difference and the constant
		for _, mc := range callsIn(fn, named("math.Mod")) {
			a := mc.Common().Args
			_, isConst := a[1].(*ssa.Const)
			r.Check(isConst, rule, "DecideFame:coin-frequency-constant", p.ipos(mc), fnName(fn), "coin-round frequency is a compile-time constant", "the coin-round frequency is not a constant (nodes configured differently would disagree)")
		}
	}
	for _, cn := range []string{"COIN_ROUND_FREQ", "ROOT_DEPTH"} {
		pk := p.ByPkg[modPath+"/"+HG]
		_, isC := pk.Types.Scope().Lookup(cn).(*types.Const)
		r.Check(isC, rule, cn+":constant", "-", "", "identical on all nodes by construction", cn+" is no longer a constant")
	}
	// writers
	fFam := p.Field(HG, "roundEvent", "Famous")
	var bad []string
	for _, w := range p.writersOf(fFam) {
		if w.Fn.Name() != "SetFame" && !w.Fresh {
			bad = append(bad, fnName(w.Fn)+"@"+p.ipos(w.Instr))
		}
	}
	r.Check(fFam != nil && len(bad) == 0, rule, "roundEvent.Famous:writers", "-", "", "fame written only by SetFame", "other writers of Famous: "+strings.Join(bad, ", "))
	// SetFame callers: DecideFame only
	sf := p.Func(HG, "RoundInfo", "SetFame")
	if sf != nil {
		var oc []string
		for _, e := range cgCallers(p, sf) {
			if e.Caller.Func != fn && inModule(e.Caller.Func) && e.Caller.Func.Synthetic == "" {
				oc = append(oc, fnName(e.Caller.Func))
			}
		}
		r.Check(len(oc) == 0, rule, "SetFame:callers", p.pos(sf.Pos()), fnName(sf), "only DecideFame decides fame", "SetFame also called from "+strings.Join(oc, ", "))
	}
	fDec := p.Field(HG, "RoundInfo", "decided")
	wd := p.Func(HG, "RoundInfo", "WitnessesDecided")
	if fDec == nil || wd == nil {
		r.Anchor(rule, "RoundInfo.decided / WitnessesDecided")
		return
	}
	bad = nil
	for _, w := range p.writersOf(fDec) {
		if w.Fn != wd && !w.Fresh {
			bad = append(bad, fnName(w.Fn)+"@"+p.ipos(w.Instr))
		}
	}
	r.Check(len(bad) == 0, rule, "RoundInfo.decided:writers", "-", "", "written only by WitnessesDecided", "other writers: "+strings.Join(bad, ", "))
	// once decided, stays decided: every store to decided happens on paths where decided was false, and there is a `return true` under decided==true before any store
	okSticky := true
	for _, w := range p.writersOf(fDec) {
		if w.Fn != wd {
			continue
		}
		q := func(l Lit) bool {
			return !l.Pos && flowsFrom(l.V, func(x ssa.Value) bool { fv, _ := fieldOf(x); return fv == fDec })
		}
		if g, _ := p.allPaths(w.Instr, []Pred{q}, all(1)); !g {
			okSticky = false
		}
	}
	r.Check(okSticky, rule, "WitnessesDecided:decided-is-sticky", p.pos(wd.Pos()), fnName(wd), "the flag is recomputed only while it is false", "a decided round can be re-evaluated to undecided (late witnesses would reopen it and change which blocks are produced)")
	// undecided witness => false; count only decided witnesses
	okUndef := false
	for _, rp := range p.succRets(wd, boolFalse, 0) {
		if c, ok := rp.ret.Results[0].(*ssa.Const); ok && c.Value.String() == "false" {
			okUndef = true
		}
	}
	r.Check(okUndef, rule, "WitnessesDecided:undecided-witness-blocks", p.pos(wd.Pos()), fnName(wd), "any undecided witness makes the round undecided", "WitnessesDecided has no early false for an undecided witness")
}

/* ---------- undecided rounds in the round-received search ---------- */

// undecidedSkipRule: the search for the round received goes through the rounds in ascending order
// and must STOP at the first round whose fame is undecided. The only exception is a round at or
// below the reset point of a fast-forwarded node (never processed by DecideFame): the loop may go
// on past an undecided round i only under roundLowerBound != nil && *roundLowerBound >= i — with i
// the round being examined, not the event's own round (an event below the reset point would
// otherwise jump over undecided rounds above it and be received after its descendants).
func undecidedSkipRule(p *Prog, r *Report, rule string) {
	r.Rule(rule, 1, "DecideRoundReceived continues past an undecided round i only if *roundLowerBound >= i (i = the round examined)")
	fn := p.Func(HG, "Hashgraph", "DecideRoundReceived")
	fLB := p.Field(HG, "Hashgraph", "roundLowerBound")
	if fn == nil || fLB == nil {
		r.Anchor(rule, "Hashgraph.DecideRoundReceived / roundLowerBound")
		return
	}
	loops := naturalLoops(fn)
	n := 0
	for _, wdc := range callsIn(fn, named(HG+".RoundInfo.WitnessesDecided")) {
		wd, ok := wdc.(*ssa.Call)
		if !ok {
			continue
		}
		lp := innermostLoop(loops, wd.Block())
		if lp == nil {
			continue
		}
		roundVal := roundArgOf(recvOf(wd), storeM("GetRound"))
		if roundVal == nil {
			continue
		}
		n++
		qUndecided := func(l Lit) bool {
			return !l.Pos && !l.Nil && unwrap(l.V) == ssa.Value(wd)
		}
		qLB := func(l Lit) bool {
			a, b, strict, ok := cmpLit(l) // a >= b
			if !ok || strict {
				return false
			}
			return depOnFieldVar(a, fLB) && sameRoundExpr(b, roundVal)
		}
		okAll := true
		for _, latch := range lp.head.Preds {
			if !lp.body[latch] {
				continue
			}
			g, _ := p.allPathsEdge(latch, lp.head, []Pred{qUndecided, qLB}, func(m uint32) bool { return m&1 == 0 || m&2 != 0 })
			if !g {
				okAll = false
			}
		}
		// the converse (needed by a node that was reset from a frame): an undecided round AT OR BELOW the reset point —
		// such rounds are never processed by DecideFame again — does not end the search
		okConv, convAt := true, ""
		// from every edge on which the round is found undecided, the loop head stays reachable inside the loop: the search
		// CAN step over the round (under which condition it may is the other obligation). With `continue` turned into
		// `break` no such path exists.
		nU := 0
		for b := range lp.body {
			if len(b.Succs) != 2 {
				continue
			}
			for _, sx := range b.Succs {
				l, ok := edgeLit(b, sx)
				if !ok || !qUndecided(l) || !lp.body[sx] {
					continue
				}
				nU++
				back := false
				if sx == lp.head {
					back = true
				}
				forwardFromEdge(b, sx, func(cur *ssa.BasicBlock) bool {
					if back {
						return false
					}
					if cur == lp.head {
						back = true
						return false
					}
					return lp.body[cur]
				})
				if !back {
					okConv = false
					convAt = p.ipos(b.Instrs[len(b.Instrs)-1])
				}
			}
		}
		if nU == 0 {
			okConv, convAt = false, "no edge on which the round is undecided stays in the loop"
		}
		r.Check(okConv, rule, "DecideRoundReceived:undecided-round-below-the-reset-point-is-stepped-over", p.ipos(wd), fnName(fn), "an undecided round at or below the reset point does not end the search",
			"the search for a round-received can stop (at "+convAt+") at an undecided round i with *roundLowerBound >= i: after a fast-forward those rounds stay undecided for ever, so the events above the frame would never be received on the reset node while the other nodes commit them")
		r.Check(okAll, rule, "DecideRoundReceived:undecided-round-stops-the-search", p.ipos(wd), fnName(fn), "an undecided round ends the search unless it lies at or below the reset point",
			"the loop over rounds can continue past round i with undecided fame without *roundLowerBound >= i (i the round examined): an event can be received in a later round than its descendants, or before the fame that decides it")
	}
	if n == 0 {
		r.Fail(rule, "DecideRoundReceived:undecided-round-stops-the-search", p.pos(fn.Pos()), fnName(fn), "no WitnessesDecided test inside the loop over rounds")
	}
}

/* ---------- C01.rr ---------- */

func c01rr(p *Prog, r *Report) {
	const rule = "C01.rr"
	r.Rule(rule, 6, "round-received rule")
	fn := p.Func(HG, "Hashgraph", "DecideRoundReceived")
	if fn == nil {
		r.Anchor(rule, "Hashgraph.DecideRoundReceived")
		return
	}
	var actions []ssa.CallInstruction
	actions = append(actions, callsIn(fn, named(HG+".Event.SetRoundReceived"))...)
	actions = append(actions, callsIn(fn, named(HG+".RoundInfo.AddReceivedEvent"))...)
	if len(actions) < 2 {
		r.Fail(rule, "DecideRoundReceived:actions", p.pos(fn.Pos()), fnName(fn), "SetRoundReceived / AddReceivedEvent not found")
		return
	}
	qDecided := func(l Lit) bool { return resultLit(l, named(HG+".RoundInfo.WitnessesDecided"), 0, true, nil) }
	var sVal, fwsVal ssa.Value
	qAll := func(l Lit) bool {
		x, y, ok := eqLit(l)
		if !ok {
			return false
		}
		lx, ok1 := isLenOf(x)
		ly, ok2 := isLenOf(y)
		if !ok1 || !ok2 {
			return false
		}
		fx := flowsFromCall(lx, named(HG+".RoundInfo.FamousWitnesses"), 0)
		fy := flowsFromCall(ly, named(HG+".RoundInfo.FamousWitnesses"), 0)
		if fx == fy {
			return false
		}
		if fx {
			sVal, fwsVal = ly, lx
		} else {
			sVal, fwsVal = lx, ly
		}
		return true
	}
	qSuper := func(l Lit) bool {
		a, b, strict, ok := cmpLit(l)
		if !ok || strict || !flowsFromCall(b, named(PEER+".PeerSet.SuperMajority"), 0) {
			return false
		}
		_, isLen := isLenOf(a)
		return isLen
	}
	for _, a := range actions {
		name := calleeFunc(a.Common()).Name()
		for k, q := range []Pred{qDecided, qAll, qSuper} {
			what := []string{"WitnessesDecided", "len(seers)==len(famous witnesses)", "len(seers)>=SuperMajority"}[k]
			g, _ := p.allPaths(a, []Pred{q}, all(1))
			r.Check(g, rule, "DecideRoundReceived:"+name+":"+what, p.ipos(a), fnName(fn), "guarded by "+what, name+" reachable without "+what)
		}
	}
	// the round assigned is the round examined; same RoundInfo and set
	for _, a := range callsIn(fn, named(HG+".Event.SetRoundReceived")) {
		rr := argN(a, 0)
		var wdCall ssa.CallInstruction
		for _, c := range callsIn(fn, named(HG+".RoundInfo.WitnessesDecided")) {
			wdCall = c
		}
		ok := wdCall != nil && sameRoundExpr(rr, roundArgOf(recvOf(wdCall), storeM("GetRound")))
		r.Check(ok, rule, "DecideRoundReceived:round-assigned==round-examined", p.ipos(a), fnName(fn), "the event receives the round whose famous witnesses all see it", "the round number assigned is not the round whose witnesses were examined")
	}
	// seers appended only under see(w, x) == true, with w from the famous witnesses and x the event
	if sVal != nil {
		nApp := 0
		dependsOn(sVal, func(y ssa.Value) bool {
			ac, ok := y.(*ssa.Call)
			if !ok {
				return false
			}
			if bi, isB := ac.Call.Value.(*ssa.Builtin); !isB || bi.Name() != "append" {
				return false
			}
			nApp++
			q := func(l Lit) bool { return resultLit(l, named(HG+".Hashgraph.see"), 0, true, nil) }
			g, _ := p.allPaths(ac, []Pred{q}, all(1))
			src, _ := loopSource(fn, ac.Block())
			okSrc := src != nil && fwsVal != nil && (sameOrigin(src, fwsVal) || unwrap(src) == unwrap(fwsVal))
			r.Check(g && okSrc, rule, "DecideRoundReceived:seers<-see(w,x)", p.ipos(ac), fnName(fn), "a famous witness is counted only if it sees the event", "the set of seers is not built from exactly the famous witnesses w with see(w, x) true")
			return false
		})
		if nApp == 0 {
			r.Fail(rule, "DecideRoundReceived:seers<-see(w,x)", p.pos(fn.Pos()), fnName(fn), "seers are never collected")
		}
	} else {
		r.Fail(rule, "DecideRoundReceived:seers", p.pos(fn.Pos()), fnName(fn), "cannot identify the seers list")
	}
	// first such round only: after the action the loop over rounds is not re-entered for this event
	loops := naturalLoops(fn)
	for _, a := range callsIn(fn, named(HG+".RoundInfo.AddReceivedEvent")) {
		// the loop over rounds: its head holds the phi that is the round examined
		rv := roundArgOf(recvOf(a), storeM("GetRound"))
		var rl *loopInfo
		if ph, isPhi := unwrap(rv).(*ssa.Phi); isPhi {
			for _, l := range loops {
				if l.head == ph.Block() {
					rl = l
				}
			}
		}
		ok := rl != nil
		if ok {
			// from the action, the round loop's head must not be reachable except through an enclosing loop's head
			outer := map[*ssa.BasicBlock]bool{}
			for _, l := range loops {
				if l != rl && l.body[rl.head] {
					outer[l.head] = true
				}
			}
			forwardFrom(a.Block(), func(x *ssa.BasicBlock) bool {
				if !ok || outer[x] {
					return false
				}
				if x == rl.head {
					ok = false
					return false
				}
				return true
			})
		}
		r.Check(ok, rule, "DecideRoundReceived:first-round-only", p.ipos(a), fnName(fn), "the search stops at the first round that receives the event", "after receiving the event the loop over rounds continues: a later round could overwrite the round-received")
	}
	// the round loop starts at round(x)+1
	okStart := false
	for _, b := range fn.Blocks {
		for _, in := range b.Instrs {
			ph, ok := in.(*ssa.Phi)
			if !ok {
				continue
			}
			for ei, e := range ph.Edges {
				// the initial value: the edge entering the loop from outside
				if lp := innermostLoop(loops, ph.Block()); lp == nil || lp.head != ph.Block() || lp.body[ph.Block().Preds[ei]] {
					continue
				}
				if bo, ok := e.(*ssa.BinOp); ok && bo.Op == token.ADD {
					if k, okc := intConst(bo.Y); okc && k == 1 && unwrap(bo.X) != ssa.Value(ph) && flowsFromCall(bo.X, named(HG+".Hashgraph.round"), 0) {
						// this phi must be the round examined
						for _, c := range callsIn(fn, storeM("GetRound")) {
							if unwrap(lastArg(c)) == ssa.Value(ph) {
								okStart = true
							}
						}
					}
				}
			}
		}
	}
	r.Check(okStart, rule, "DecideRoundReceived:starts-at-round(x)+1", p.pos(fn.Pos()), fnName(fn), "rounds examined from round(x)+1 upwards", "the search for the receiving round does not start at round(x)+1")
	// an undecided round above the lower bound stops the search (break), it is not skipped
	okBreak := false
	for _, b := range fn.Blocks {
		if n := len(b.Instrs); n > 0 {
			if iff, ok := b.Instrs[n-1].(*ssa.If); ok {
				v, pos := stripNot(iff.Cond, true)
				if _, _, isWD := isCallTo(v, named(HG+".RoundInfo.WitnessesDecided")); isWD {
					undec := b.Succs[1]
					if !pos {
						undec = b.Succs[0]
					}
					lp := innermostLoop(loops, b)
					// from the undecided edge, when roundLowerBound == nil, the loop must be left
					if lp != nil && existsExitBeforeHead(undec, lp) {
						okBreak = true
					}
				}
			}
		}
	}
	r.Check(okBreak, rule, "DecideRoundReceived:undecided-round-stops", p.pos(fn.Pos()), fnName(fn), "an undecided round ends the search for this event", "an undecided round does not end the search: the event could be received in a later round first")
}

func leavesLoopOrReturns(b *ssa.BasicBlock, lp *loopInfo) bool {
	return leavesLoop(b, lp)
}

// existsExitBeforeHead: some path from b leaves the loop without passing its head.
func existsExitBeforeHead(b *ssa.BasicBlock, lp *loopInfo) bool {
	seen := map[*ssa.BasicBlock]bool{}
	stack := []*ssa.BasicBlock{b}
	for len(stack) > 0 {
		x := stack[len(stack)-1]
		stack = stack[:len(stack)-1]
		if seen[x] || x == lp.head {
			continue
		}
		seen[x] = true
		if !lp.body[x] {
			return true
		}
		stack = append(stack, x.Succs...)
	}
	return false
}

/* ---------- C01.order ---------- */

// localCarrier: a struct type declared inside a function (or anonymous): a carrier of values, not state of the module.
func localCarrier(t types.Type) bool {
	if pt, ok := t.Underlying().(*types.Pointer); ok {
		t = pt.Elem()
	}
	if n, ok := t.(*types.Named); ok {
		return n.Obj().Pkg() != nil && n.Obj().Parent() != n.Obj().Pkg().Scope()
	}
	_, isStruct := t.(*types.Struct)
	return isStruct
}

func fieldsRead(fn *ssa.Function) []string {
	set := map[string]bool{}
	for _, b := range fn.Blocks {
		for _, in := range b.Instrs {
			switch x := in.(type) {
			case *ssa.FieldAddr:
				if fv := fieldVar(x.X.Type(), x.Field); fv != nil && !localCarrier(x.X.Type()) {
					set[refName(fv)] = true
				}
			case *ssa.Field:
				if fv := fieldVar(x.X.Type(), x.Field); fv != nil && !localCarrier(x.X.Type()) {
					set[refName(fv)] = true
				}
			}
		}
	}
	var res []string
	for k := range set {
		res = append(res, k)
	}
	sort.Strings(res)
	return res
}

func c01order(p *Prog, r *Report) {
	const rule = "C01.order"
	r.Rule(rule, 2, "consensus order is local-state-free: SortedFrameEvents.Less reads only LamportTimestamp, Core and Signature; Frame.Events is stored after sort.Sort(SortedFrameEvents(...))")
	less := p.Func(HG, "SortedFrameEvents", "Less")
	if less == nil {
		r.Anchor(rule, "hashgraph.SortedFrameEvents.Less")
	} else {
		allowed := map[string]bool{"LamportTimestamp": true, "Core": true, "Signature": true, "Body": true}
		var bad []string
		for _, f := range fieldsRead(less) {
			if !allowed[f] {
				bad = append(bad, f)
			}
		}
		var badCalls []string
		for _, b := range less.Blocks {
			for _, in := range b.Instrs {
				if ci, ok := in.(ssa.CallInstruction); ok {
					f := calleeFunc(ci.Common())
					if f == nil {
						continue
					}
					switch shortName(f) {
					case KEYS + ".DecodeSignature", "math/big.Int.Cmp", "strings.Compare", "bytes.Compare":
					default:
						if _, isB := ci.Common().Value.(*ssa.Builtin); !isB {
							badCalls = append(badCalls, shortName(f))
						}
					}
				}
			}
		}
		r.Check(len(bad) == 0 && len(badCalls) == 0, rule, "SortedFrameEvents.Less:read-set", p.pos(less.Pos()), fnName(less), "reads {"+strings.Join(fieldsRead(less), ",")+"} only", fmt.Sprintf("the consensus comparator reads process-local or unexpected state: fields %v, calls %v", bad, badCalls))
	}
	gf := p.Func(HG, "Hashgraph", "GetFrame")
	if gf == nil {
		r.Anchor(rule, "Hashgraph.GetFrame")
		return
	}
	fEv := p.Field(HG, "Frame", "Events")
	n := 0
	for _, w := range p.writersOf(fEv) {
		if w.Fn != gf {
			continue
		}
		n++
		ok := false
		for _, c := range callsIn(gf, named("sort.Sort", "sort.Stable")) {
			a := c.Common().Args[0]
			mi, isMI := a.(*ssa.MakeInterface)
			if !isMI {
				continue
			}
			if nn := namedOf(mi.X.Type()); nn == nil || nn.Obj().Name() != "SortedFrameEvents" {
				continue
			}
			sorted := unwrap(mi.X)
			if dominates(c, w.Instr) && (sameOrigin(sorted, w.Val) || sameRoot(mi.X, w.Val) || unwrap(sorted) == unwrap(w.Val) ||
				flowsFromLocal(w.Val, func(x ssa.Value) bool { return x == sorted || x == unwrap(sorted) || sameOrigin(x, sorted) || sameRoot(x, mi.X) })) {
				ok = true
			}
		}
		r.Check(ok, rule, "GetFrame:Frame.Events-sorted", p.ipos(w.Instr), fnName(gf), "events are in consensus order when the frame is built", "Frame.Events is stored without sort.Sort(SortedFrameEvents(events)): the order would be the local arrival order of ReceivedEvents")
	}
	if n == 0 {
		r.Fail(rule, "GetFrame:Frame.Events-sorted", p.pos(gf.Pos()), fnName(gf), "GetFrame does not set Frame.Events")
	}
}

/* ---------- C04 ---------- */

type mpTerm struct {
	sym string
	off int64
}

// evalMaxPlus evaluates v to a set of terms whose maximum it is; phi merges must be max-patterns
// (if a > b {x = a}) or presence guards.
func (p *Prog) evalMaxPlus(v ssa.Value, depth int, notes *[]string) ([]mpTerm, bool) {
	if depth > 12 {
		return nil, false
	}
	v = unwrap(v)
	if k, ok := intConst(v); ok {
		return []mpTerm{{"const", k}}, true
	}
	if c, idx := callOf(v); c != nil && (idx == 0 || idx == -1) {
		f := calleeFunc(c.Common())
		if f != nil && (f.Name() == "lamportTimestamp" || f.Name() == "_lamportTimestamp") {
			arg := lastArg(c)
			switch {
			case flowsFromCall(arg, named(HG+".Event.SelfParent"), 0):
				return []mpTerm{{"LT(self-parent)", 0}}, true
			case flowsFromCall(arg, named(HG+".Event.OtherParent"), 0):
				return []mpTerm{{"LT(other-parent)", 0}}, true
			}
			return []mpTerm{{"LT(?)", 0}}, true
		}
		return nil, false
	}
	if bo, ok := v.(*ssa.BinOp); ok && (bo.Op == token.ADD || bo.Op == token.SUB) {
		if k, okc := intConst(bo.Y); okc {
			t, ok := p.evalMaxPlus(bo.X, depth+1, notes)
			if !ok {
				return nil, false
			}
			if bo.Op == token.SUB {
				k = -k
			}
			var res []mpTerm
			for _, x := range t {
				res = append(res, mpTerm{x.sym, x.off + k})
			}
			return res, true
		}
		return nil, false
	}
	if ph, ok := v.(*ssa.Phi); ok {
		var res []mpTerm
		// max-pattern check: if the block's idom ends in a comparison of two of the incoming values
		b := ph.Block()
		for i, e := range ph.Edges {
			t, ok := p.evalMaxPlus(e, depth+1, notes)
			if !ok {
				return nil, false
			}
			res = append(res, t...)
			// an edge guarded by "e > other" or "other > e" — verify orientation
			pr := b.Preds[i]
			for j, o := range ph.Edges {
				if j == i || unwrap(o) == unwrap(e) {
					continue
				}
				// does any comparison literal between e and o hold on this edge?
				qWrong := func(l Lit) bool { // e is strictly smaller than o, yet chosen
					a, bb, strict, ok := cmpLit(l)
					return ok && strict && unwrap(a) == unwrap(o) && unwrap(bb) == unwrap(e)
				}
				if g, _ := p.allPathsEdge(pr, b, []Pred{qWrong}, all(1)); g {
					*notes = append(*notes, "a merge keeps the smaller of two timestamps at "+p.ipos(ph))
					return nil, false
				}
			}
		}
		return res, true
	}
	return nil, false
}

func c04lamport(p *Prog, r *Report) {
	const rule = "C04.lamport"
	r.Rule(rule, 1, "Lamport timestamp = 1 + max(parents)")
	fn := p.Func(HG, "Hashgraph", "_lamportTimestamp")
	if fn == nil {
		r.Anchor(rule, "Hashgraph._lamportTimestamp")
		return
	}
	rets := p.succRets(fn, errNil, 1)
	if len(rets) == 0 {
		r.Fail(rule, "_lamportTimestamp:returns", p.pos(fn.Pos()), fnName(fn), "no success return")
	}
	for i, rp := range rets {
		var notes []string
		terms, ok := p.evalMaxPlus(rp.ret.Results[0], 0, &notes)
		set := map[string]int64{}
		for _, t := range terms {
			if old, seen := set[t.sym]; !seen || t.off > old {
				set[t.sym] = t.off
			}
		}
		var desc []string
		for s, o := range set {
			desc = append(desc, fmt.Sprintf("%s%+d", s, o))
		}
		sort.Strings(desc)
		good := ok && set["LT(self-parent)"] == 1 && set["LT(other-parent)"] == 1
		if _, has := set["LT(self-parent)"]; !has {
			good = false
		}
		if _, has := set["LT(other-parent)"]; !has {
			good = false
		}
		// the constant floor: MinInt32+1 (unknown other-parent) and -1+1
		for s := range set {
			if s == "LT(?)" {
				good = false
			}
		}
		detail := "value = max{" + strings.Join(desc, ", ") + "}"
		if !ok {
			detail = "the returned timestamp is not a max-plus form over the parents' timestamps; " + strings.Join(notes, "; ")
		} else if !good {
			detail += " — expected LT(self-parent)+1 and LT(other-parent)+1 among the terms: an event must be timestamped strictly after both known parents"
		}
		r.Check(good, rule, fmt.Sprintf("_lamportTimestamp:return#%d:1+max(parents)", i), p.ipos(rp.ret), fnName(fn), detail, detail)
	}
	// the max merge: the other-parent value replaces plt only when strictly greater
	okMax := false
	for _, b := range fn.Blocks {
		for _, in := range b.Instrs {
			if bo, ok := in.(*ssa.BinOp); ok && (bo.Op == token.GTR || bo.Op == token.LSS || bo.Op == token.GEQ || bo.Op == token.LEQ) {
				t1, ok1 := p.evalMaxPlus(bo.X, 0, &[]string{})
				t2, ok2 := p.evalMaxPlus(bo.Y, 0, &[]string{})
				if ok1 && ok2 && len(t1) > 0 && len(t2) > 0 {
					okMax = true
				}
			}
		}
	}
	r.Check(okMax, rule, "_lamportTimestamp:max-merge", p.pos(fn.Pos()), fnName(fn), "the two parents' timestamps are merged by comparison", "no comparison merges the parents' timestamps")
}

func c04sort(p *Prog, r *Report) {
	const rule = "C04.sort"
	r.Rule(rule, 1, "SortedFrameEvents.Less: when Lamport timestamps differ the result is a[i].LT < a[j].LT; the tie-break is reached only on equality")
	less := p.Func(HG, "SortedFrameEvents", "Less")
	if less == nil {
		r.Anchor(rule, "hashgraph.SortedFrameEvents.Less")
		return
	}
	isLT := func(v ssa.Value, par ssa.Value) bool {
		return flowsFromField(v, "LamportTimestamp") && depOnValue(v, par)
	}
	pi, pj := ssa.Value(less.Params[1]), ssa.Value(less.Params[2])
	qDiff := func(l Lit) bool {
		b, ok := l.V.(*ssa.BinOp)
		if !ok {
			return false
		}
		ne := (b.Op == token.NEQ && l.Pos) || (b.Op == token.EQL && !l.Pos)
		return ne && ((isLT(b.X, pi) && isLT(b.Y, pj)) || (isLT(b.X, pj) && isLT(b.Y, pi)))
	}
	qSame := func(l Lit) bool {
		b, ok := l.V.(*ssa.BinOp)
		if !ok {
			return false
		}
		eq := (b.Op == token.EQL && l.Pos) || (b.Op == token.NEQ && !l.Pos)
		return eq && ((isLT(b.X, pi) && isLT(b.Y, pj)) || (isLT(b.X, pj) && isLT(b.Y, pi)))
	}
	// ordering literals between the two timestamps
	cmpIJ := func(l Lit, wantStrict bool, iGreater bool) bool {
		a, b, strict, ok := cmpLit(l) // a > b (strict) or a >= b
		if !ok || strict != wantStrict {
			return false
		}
		if iGreater {
			return isLT(a, pi) && isLT(b, pj)
		}
		return isLT(a, pj) && isLT(b, pi)
	}
	qIltJ := func(l Lit) bool { return cmpIJ(l, true, false) }
	qIgtJ := func(l Lit) bool { return cmpIJ(l, true, true) }
	qIgeJ := func(l Lit) bool { return cmpIJ(l, false, true) }
	qIleJ := func(l Lit) bool { return cmpIJ(l, false, false) }
	preds := []Pred{qSame, qIltJ, qIgtJ, qIgeJ, qIleJ, qDiff}
	tie := func(m uint32) bool { return m&1 != 0 || (m&8 != 0 && m&16 != 0) }
	nLT, okLT, okTie := 0, true, true
	for _, b := range less.Blocks {
		ret, ok := b.Instrs[len(b.Instrs)-1].(*ssa.Return)
		if !ok || (b.Index != 0 && len(b.Preds) == 0) {
			continue
		}
		for _, rp := range retPointsOf(ret, 0) {
			v := rp.val
			hold := func(f func(uint32) bool) bool {
				g, _ := p.holdsAtRet(rp, preds, f)
				return g
			}
			if bo, isB := v.(*ssa.BinOp); isB && flowsFromField(bo.X, "LamportTimestamp") && flowsFromField(bo.Y, "LamportTimestamp") {
				// the comparison itself is returned
				nLT++
				lo, hi := bo.X, bo.Y
				switch bo.Op {
				case token.LSS:
				case token.GTR:
					lo, hi = hi, lo
				default:
					okLT = false
				}
				if !(isLT(lo, pi) && isLT(hi, pj)) {
					okLT = false
				}
				continue
			}
			if c, isC := v.(*ssa.Const); isC && c.Value != nil && c.Value.Kind() == constant.Bool {
				if constant.BoolVal(c.Value) {
					// true: i before j — only when LT_i < LT_j is established, or in the tie region
					if hold(func(m uint32) bool { return m&2 != 0 }) {
						nLT++
						continue
					}
				} else if hold(func(m uint32) bool { return m&4 != 0 }) {
					continue
				}
				if !hold(tie) {
					okLT = false
				}
				continue
			}
			// anything else is the tie-break
			if !hold(tie) {
				okTie = false
			}
		}
	}
	r.Check(nLT > 0 && okLT, rule, "SortedFrameEvents.Less:lamport-first", p.pos(less.Pos()), fnName(less), "different timestamps are ordered by a[i].LT < a[j].LT", "the comparator does not order by Lamport timestamp ascending first: an ancestor could be committed after its descendant")
	r.Check(okTie, rule, "SortedFrameEvents.Less:tie-break-only-on-equal", p.pos(less.Pos()), fnName(less), "the signature tie-break applies only to equal timestamps", "the tie-break can decide events with different Lamport timestamps")
}

func c04batch(p *Prog, r *Report) {
	const rule = "C04.batch"
	r.Rule(rule, 4, "payload provenance: block <- frame events in order; frame events <- ReceivedEvents of the round; ReceivedEvents appended only by the round-received action")
	nbf := p.Func(HG, "", "NewBlockFromFrame")
	if nbf == nil {
		r.Anchor(rule, "hashgraph.NewBlockFromFrame")
	} else {
		cs := callsIn(nbf, named(HG+".NewBlock"))
		for _, c := range cs {
			for k, spec := range []struct {
				arg    int
				getter string
			}{{4, "Transactions"}, {5, "InternalTransactions"}} {
				_ = k
				acc := argN(c, spec.arg)
				nApp, ok := 0, true
				detail := ""
				dependsOn(acc, func(y ssa.Value) bool {
					ac, isC := y.(*ssa.Call)
					if !isC {
						return false
					}
					if bi, isB := ac.Call.Value.(*ssa.Builtin); !isB || bi.Name() != "append" {
						return false
					}
					nApp++
					src, lp := loopSource(nbf, ac.Block())
					if src == nil || !flowsFromField(src, "Events") || !depOnParamType(src, "Frame") {
						ok = false
						detail = "the payload is not appended in a loop over frame.Events"
					}
					if !flowsFromCall(ac.Call.Args[1], named(HG+".Event."+spec.getter), 0) && !flowsFromField(ac.Call.Args[1], spec.getter) {
						ok = false
						detail = "what is appended is not the event's own " + spec.getter
					}
					// forward, single pass: the loop index only increases (range loop): reject reverse iteration
					if lp != nil && !isForwardRange(lp) {
						ok = false
						detail = "frame events are not traversed in ascending order"
					}
					// no condition filters events
					for _, l := range p.Facts(nbf).At(ac.Block()) {
						if lp != nil {
							if in, isIn := l.V.(ssa.Instruction); isIn && lp.body[in.Block()] && in.Block() != lp.head {
								// skipping an event whose slice is empty changes nothing
								if onlyLenOfGetter(l.V, spec.getter) {
									continue
								}
								ok = false
								detail = "an event's payload is appended only under a condition: some committed events would lose their transactions"
							}
						}
					}
					return false
				})
				if nApp != 1 {
					ok = false
					detail = fmt.Sprintf("expected exactly one append site for %s, found %d", spec.getter, nApp)
				}
				r.Check(ok, rule, "NewBlockFromFrame:"+spec.getter, p.ipos(c), fnName(nbf), "block "+spec.getter+" = concatenation of the frame events' own slices, in frame order", detail)
			}
		}
		if len(cs) == 0 {
			r.Fail(rule, "NewBlockFromFrame:NewBlock", p.pos(nbf.Pos()), fnName(nbf), "no NewBlock call")
		}
	}
	gf := p.Func(HG, "Hashgraph", "GetFrame")
	if gf != nil {
		rr := ssa.Value(gf.Params[1])
		n := 0
		for _, c := range callsIn(gf, named(HG+".Hashgraph.createFrameEvent")) {
			src, _ := loopSource(gf, c.Block())
			if src == nil || !flowsFromField(src, "ReceivedEvents") {
				continue // root construction
			}
			n++
			ok := dependsOn(src, func(x ssa.Value) bool {
				gc, _, isG := isCallTo(x, storeM("GetRound"))
				return isG && unwrap(lastArg(gc)) == rr
			})
			r.Check(ok, rule, "GetFrame:events<-ReceivedEvents(roundReceived)", p.ipos(c), fnName(gf), "the frame holds exactly the events received in its round", "frame events are not the ReceivedEvents of GetRound(roundReceived)")
		}
		if n == 0 {
			r.Fail(rule, "GetFrame:events<-ReceivedEvents(roundReceived)", p.pos(gf.Pos()), fnName(gf), "GetFrame does not build its events from ReceivedEvents")
		}
	}
	// ReceivedEvents writers
	fRE := p.Field(HG, "RoundInfo", "ReceivedEvents")
	var bad []string
	for _, w := range p.writersOf(fRE) {
		if w.Fn.Name() != "AddReceivedEvent" && !w.Fresh {
			bad = append(bad, fnName(w.Fn)+"@"+p.ipos(w.Instr))
		}
	}
	r.Check(fRE != nil && len(bad) == 0, rule, "RoundInfo.ReceivedEvents:writers", "-", "", "appended only by AddReceivedEvent", "other writers: "+strings.Join(bad, ", "))
	are := p.Func(HG, "RoundInfo", "AddReceivedEvent")
	if are != nil {
		var oc []string
		for _, e := range cgCallers(p, are) {
			if e.Caller.Func.Name() != "DecideRoundReceived" && inModule(e.Caller.Func) && e.Caller.Func.Synthetic == "" {
				oc = append(oc, fnName(e.Caller.Func))
			}
		}
		r.Check(len(oc) == 0, rule, "AddReceivedEvent:callers", p.pos(are.Pos()), fnName(are), "only DecideRoundReceived", "AddReceivedEvent also called from "+strings.Join(oc, ", "))
	}
}

// isForwardRange: the loop's index phi starts at -1 or 0 and is incremented by +1.
func isForwardRange(lp *loopInfo) bool {
	for _, in := range lp.head.Instrs {
		ph, ok := in.(*ssa.Phi)
		if !ok {
			continue
		}
		start, inc := false, false
		for _, e := range ph.Edges {
			if k, okc := intConst(e); okc && (k == -1 || k == 0) {
				start = true
			}
			if bo, isB := e.(*ssa.BinOp); isB && bo.Op == token.ADD {
				if k, okc := intConst(bo.Y); okc && k == 1 {
					inc = true
				}
			}
		}
		if start && inc {
			return true
		}
	}
	return false
}

func c04once(p *Prog, r *Report) {
	const rule = "C04.once"
	r.Rule(rule, 3, "an event is kept in the undetermined queue iff it was not received; the queue is replaced by the remainder; only InsertEvent appends to it")
	fn := p.Func(HG, "Hashgraph", "DecideRoundReceived")
	if fn == nil {
		r.Anchor(rule, "Hashgraph.DecideRoundReceived")
		return
	}
	fUE := p.Field(HG, "Hashgraph", "UndeterminedEvents")
	var action ssa.CallInstruction
	for _, c := range callsIn(fn, named(HG+".RoundInfo.AddReceivedEvent")) {
		action = c
	}
	var store *FieldWrite
	for _, w := range p.writersOf(fUE) {
		if w.Fn == fn {
			store = w
		}
	}
	if action == nil || store == nil {
		r.Fail(rule, "DecideRoundReceived:shape", p.pos(fn.Pos()), fnName(fn), "AddReceivedEvent call or replacement of UndeterminedEvents not found")
		return
	}
	// the appends that build the new queue
	nApp := 0
	dependsOn(store.Val, func(y ssa.Value) bool {
		ac, ok := y.(*ssa.Call)
		if !ok {
			return false
		}
		if bi, isB := ac.Call.Value.(*ssa.Builtin); !isB || bi.Name() != "append" {
			return false
		}
		// only appends inside the loop over the old queue
		src, _ := loopSource(fn, ac.Block())
		if src == nil || !flowsFrom(src, func(x ssa.Value) bool { fv, _ := fieldOf(x); return fv == fUE }) {
			return false
		}
		nApp++
		// (a) not reachable after the action within the same iteration; (b) reached on every path that skipped the action
		reach := blockReachesWithin(action.Block(), ac.Block(), fn, src)
		// find the boolean guard
		var guard *ssa.Phi
		for _, l := range p.Facts(fn).At(ac.Block()) {
			if ph, isPhi := l.V.(*ssa.Phi); isPhi && !l.Pos {
				guard = ph
			}
		}
		okGuard := guard != nil
		if okGuard {
			for i, e := range guard.Edges {
				c, isC := e.(*ssa.Const)
				if !isC {
					okGuard = false
					break
				}
				fromAction := action.Block().Dominates(guard.Block().Preds[i]) || action.Block() == guard.Block().Preds[i]
				isTrue := c.Value.String() == "true"
				if isTrue != fromAction {
					okGuard = false
				}
			}
		}
		_ = reach
		if !okGuard {
			// the same statement on feasible paths (jump threading over constant results): within one
			// iteration over the old queue, (a) the re-queue is not reachable after the action, and
			// (b) no iteration completes with neither the action nor the re-queue
			var outer *loopInfo
			for _, l := range naturalLoops(fn) {
				if !l.body[ac.Block()] {
					continue
				}
				if s2, ok := loopSourceOf(fn, l); ok && s2 != nil && flowsFrom(s2, func(x ssa.Value) bool { fv, _ := fieldOf(x); return fv == fUE }) {
					if outer == nil || len(l.body) > len(outer.body) {
						outer = l
					}
				}
			}
			if outer != nil && outer.body[action.Block()] {
				okA, okB := true, true
				forwardFrom(action.Block(), func(x *ssa.BasicBlock) bool {
					if x == outer.head || !outer.body[x] {
						return false
					}
					if x == ac.Block() {
						okA = false
						return false
					}
					return true
				})
				forwardFrom(outer.head, func(x *ssa.BasicBlock) bool {
					if x == action.Block() || x == ac.Block() || !outer.body[x] {
						return false
					}
					if x == outer.head {
						okB = false
						return false
					}
					return true
				})
				okGuard = okA && okB
				if os.Getenv("BBL_DEBUG") != "" {
					fmt.Fprintln(os.Stderr, "keep-iff: okA", okA, "okB", okB)
				}
			}
		}
		r.Check(okGuard, rule, "DecideRoundReceived:keep-iff-not-received", p.ipos(ac), fnName(fn), "an event is re-queued exactly when no round received it in this pass", "the condition under which an event stays in the undetermined queue is not 'not received': a received event could be kept (committed twice) or an unreceived one dropped (never committed)")
		// the value appended is the loop's event
		return false
	})
	if nApp == 0 {
		r.Fail(rule, "DecideRoundReceived:keep-iff-not-received", p.pos(fn.Pos()), fnName(fn), "the new undetermined queue is not built from the old one")
	}
	// replacement happens on the success exit only
	okRepl := true
	for _, rp := range p.succRets(fn, errNil, 0) {
		if !dominates(store.Instr, rp.ret) {
			okRepl = false
		}
	}
	r.Check(okRepl, rule, "DecideRoundReceived:queue-replaced-on-success", p.ipos(store.Instr), fnName(fn), "the queue is replaced by the remainder before the success return", "a success return is not preceded by the replacement of UndeterminedEvents")
	var bad []string
	for _, w := range p.writersOf(fUE) {
		switch w.Fn.Name() {
		case "InsertEvent", "DecideRoundReceived", "Reset":
		default:
			if !w.Fresh {
				bad = append(bad, fnName(w.Fn)+"@"+p.ipos(w.Instr))
			}
		}
	}
	r.Check(len(bad) == 0, rule, "Hashgraph.UndeterminedEvents:writers", "-", "", "written by InsertEvent (append), DecideRoundReceived (remainder), Reset", "other writers: "+strings.Join(bad, ", "))
}

func blockReachesWithin(from, to *ssa.BasicBlock, fn *ssa.Function, _ ssa.Value) bool {
	return blockReaches(from, to)
}

// onlyLenOfGetter: the condition compares len(e.<getter>()) with a constant.
func onlyLenOfGetter(v ssa.Value, getter string) bool {
	bo, ok := v.(*ssa.BinOp)
	if !ok {
		return false
	}
	for _, pr := range [][2]ssa.Value{{bo.X, bo.Y}, {bo.Y, bo.X}} {
		if x, isLen := isLenOf(pr[0]); isLen {
			if _, isC := intConst(pr[1]); isC && (flowsFromCall(x, named(HG+".Event."+getter), 0) || flowsFromField(x, getter)) {
				return true
			}
		}
	}
	return false
}

/* ---------- C01.sticky / C04.sticky / C03.sticky ---------- */

// stickyRule: a round whose fame was recorded as decided stays decided. WitnessesDecided may
// return only (a) knowing that the recorded flag was false on entry, or (b) knowing it true and
// returning true; and nothing else clears the flag.
func stickyRule(p *Prog, r *Report, rule string) {
	r.Rule(rule, 2, "RoundInfo.WitnessesDecided: every return is reached either with the recorded 'decided' flag known false on entry, or with it known true and the result true; the flag is written only there")
	fn := p.Func(HG, "RoundInfo", "WitnessesDecided")
	fD := p.Field(HG, "RoundInfo", "decided")
	if fn == nil || fD == nil || len(fn.Params) == 0 {
		r.Anchor(rule, "RoundInfo.WitnessesDecided / RoundInfo.decided")
		return
	}
	var stores []ssa.Instruction
	for _, w := range p.writersOf(fD) {
		if w.Fn == fn {
			stores = append(stores, w.Instr)
		}
	}
	// initial load: a read of the receiver's flag that no write in this function can precede
	initialLoad := func(v ssa.Value) bool {
		v = unwrap(v)
		fv, base := fieldOf(v)
		if fv != fD || base == nil || unwrap(base) != ssa.Value(fn.Params[0]) {
			return false
		}
		in, ok := v.(ssa.Instruction)
		if !ok {
			return false
		}
		for _, s := range stores {
			if canFollow(s, in) {
				return false
			}
		}
		return true
	}
	qT := func(l Lit) bool { return l.Pos && !l.Nil && initialLoad(l.V) }
	qF := func(l Lit) bool { return !l.Pos && !l.Nil && initialLoad(l.V) }
	preds := []Pred{qT, qF}
	// the flag is rewritten only where it is known false: a later read of it is still the entry value when that was true
	storesGuarded := true
	for _, s := range stores {
		if g, _ := p.allPaths(s, preds, func(m uint32) bool { return m&2 != 0 }); !g {
			storesGuarded = false
		}
	}
	n, okAll, where := 0, true, p.pos(fn.Pos())
	for _, b := range fn.Blocks {
		if len(b.Instrs) == 0 || (b.Index != 0 && len(b.Preds) == 0) {
			continue
		}
		ret, ok := b.Instrs[len(b.Instrs)-1].(*ssa.Return)
		if !ok {
			continue
		}
		for _, rp := range retPointsOf(ret, 0) {
			n++
			v := unwrap(rp.val)
			isTrue := false
			if c, isC := v.(*ssa.Const); isC && c.Value != nil && c.Value.Kind() == constant.Bool && constant.BoolVal(c.Value) {
				isTrue = true
			}
			if initialLoad(v) {
				// returning the recorded flag itself: true whenever it was true
				continue
			}
			if fv, base := fieldOf(v); fv == fD && base != nil && unwrap(base) == ssa.Value(fn.Params[0]) && storesGuarded {
				isTrue = true
			}
			g, _ := p.holdsAtRet(rp, preds, func(m uint32) bool { return m&2 != 0 || (m&1 != 0 && isTrue) })
			if !g {
				okAll = false
				where = p.ipos(ret)
			}
		}
	}
	r.Check(okAll && n > 0, rule, "WitnessesDecided:decided-stays-decided", where, fnName(fn),
		"every return knows the recorded flag false, or knows it true and returns true",
		"WitnessesDecided can return without having consulted the recorded 'decided' flag (or returns something other than true when it is set): a round already acted upon as decided can become undecided again when a late witness is inserted, and nodes that decided it at different times diverge")
	okW := true
	whereW := p.pos(fn.Pos())
	for _, w := range p.writersOf(fD) {
		if w.Fn != fn && !w.Fresh {
			okW = false
			whereW = p.ipos(w.Instr)
		}
	}
	r.Check(okW, rule, "RoundInfo.decided:single-writer", whereW, fnName(fn), "the flag is written only by WitnessesDecided (and on fresh values)", "the recorded 'decided' flag is written outside WitnessesDecided: a decided round can be reopened")
}

/* ---------- C04.framedecided / C13.framedecided / C02.framedecided ---------- */

// frameDecidedRule: Hashgraph.GetFrame computes a frame AND stores it; every later request for the
// round (ProcessDecidedRounds first of all) gets the stored one. It may therefore be asked only for
// a round whose content is final: the round of an existing block, or a round just found decided.
func frameDecidedRule(p *Prog, r *Report, rule string) {
	r.Rule(rule, 2, "every call of Hashgraph.GetFrame (which persists what it computes) is made for the round of an existing block, for the last consensus round, or after RoundInfo.WitnessesDecided of that very round answered true")
	gf := p.Func(HG, "Hashgraph", "GetFrame")
	if gf == nil {
		r.Anchor(rule, "Hashgraph.GetFrame")
		return
	}
	fPRD := p.Field(HG, "PendingRound", "Decided")
	upd := p.Func(HG, "PendingRoundsCache", "Update")
	if fPRD == nil || upd == nil {
		r.Anchor(rule, "PendingRound.Decided / PendingRoundsCache.Update")
		return
	}
	sites := callSitesOf(gf)
	n := 0
	for _, cs := range sites {
		c, ok := cs.(*ssa.Call)
		if !ok {
			r.Fail(rule, "GetFrame:caller", p.ipos(cs), fnName(cs.Parent()), "GetFrame is started by go/defer")
			continue
		}
		fn := c.Parent()
		n++
		arg := lastArg(c)
		final := flowsFromLocal(arg, func(x ssa.Value) bool {
			if cc, idx, isC := isCallTo(x, named(HG+".Block.RoundReceived")); isC && cc != nil && idx <= 0 {
				return true
			}
			if fv, _ := fieldOf(x); fv != nil && refName(fv) == "LastConsensusRound" {
				return true
			}
			// *h.LastConsensusRound, possibly through a local copy of the pointer
			if u, isU := x.(*ssa.UnOp); isU && u.Op == token.MUL {
				if _, isPtr := u.X.Type().Underlying().(*types.Pointer); isPtr {
					return flowsFromLocal(u.X, func(y ssa.Value) bool {
						fv, _ := fieldOf(y)
						return fv != nil && refName(fv) == "LastConsensusRound"
					})
				}
			}
			return false
		})
		if !final {
			// ... or the pending-round record of that round is marked Decided (see the provenance below)
			_, argBase := fieldOf(arg)
			qMarked := func(l Lit) bool {
				if !l.Pos || l.Nil || argBase == nil {
					return false
				}
				fv, base := fieldOf(l.V)
				return fv != nil && fv == fPRD && base != nil && unwrap(base) == unwrap(argBase)
			}
			final, _ = p.allPaths(c, []Pred{witnessesDecidedOf(arg), qMarked}, func(m uint32) bool { return m != 0 })
		}
		r.Check(final, rule, "GetFrame:only-for-a-final-round", p.ipos(c), fnName(fn), "the round is that of a block, the last consensus round, or was just found decided",
			"Hashgraph.GetFrame is called for a round that is not known to be decided: the partial frame it computes is stored, ProcessDecidedRounds later takes the stored frame instead of the real one, and the events of that round are never committed although their descendants are")
	}
	if n == 0 {
		r.Fail(rule, "GetFrame:only-for-a-final-round", p.pos(gf.Pos()), fnName(gf), "no call site of Hashgraph.GetFrame found")
	}
	// provenance of the Decided mark: set only by PendingRoundsCache.Update, which is given only
	// rounds appended after WitnessesDecided of that round answered true
	okMark, whereM, detail := true, p.pos(upd.Pos()), ""
	for _, w := range p.writersOf(fPRD) {
		if w.Fn == upd {
			continue
		}
		if c, isC := w.Val.(*ssa.Const); isC && c.Value != nil && c.Value.Kind() == constant.Bool && !constant.BoolVal(c.Value) {
			continue
		}
		okMark, whereM, detail = false, p.ipos(w.Instr), "PendingRound.Decided is set outside PendingRoundsCache.Update"
	}
	nApp := 0
	for _, cs := range callSitesOf(upd) {
		arg := lastArg(cs)
		seen := map[ssa.Value]bool{}
		var walk func(v ssa.Value)
		walk = func(v ssa.Value) {
			v = unwrap(v)
			if v == nil || seen[v] {
				return
			}
			seen[v] = true
			switch x := v.(type) {
			case *ssa.Phi:
				for _, e := range x.Edges {
					walk(e)
				}
			case *ssa.UnOp:
				if al, isAl := x.X.(*ssa.Alloc); isAl && x.Op == token.MUL {
					for _, st := range storedThrough(al) {
						if st.Addr == ssa.Value(al) {
							walk(st.Val)
						}
					}
					return
				}
				okMark, whereM, detail = false, p.ipos(cs), "the list given to Update is not built locally"
			case *ssa.Slice:
				if al, isAl := x.X.(*ssa.Alloc); isAl {
					if len(storedThrough(al)) == 0 {
						return // empty literal
					}
				}
				walk(x.X)
			case *ssa.Alloc, *ssa.MakeSlice:
			case *ssa.Const:
			case *ssa.Call:
				bi, isB := x.Call.Value.(*ssa.Builtin)
				if !isB || bi.Name() != "append" || len(x.Call.Args) != 2 {
					okMark, whereM, detail = false, p.ipos(x), "the list given to Update comes from a call other than append"
					return
				}
				walk(x.Call.Args[0])
				sl, isSl := x.Call.Args[1].(*ssa.Slice)
				var al *ssa.Alloc
				if isSl {
					al, _ = sl.X.(*ssa.Alloc)
				}
				if al == nil {
					okMark, whereM, detail = false, p.ipos(x), "a whole list is appended to the decided rounds"
					return
				}
				for _, st := range storedThrough(al) {
					nApp++
					if g, _ := p.allPaths(x, []Pred{witnessesDecidedOf(st.Val)}, all(1)); !g {
						okMark, whereM, detail = false, p.ipos(x), "a round is listed as decided without WitnessesDecided of that round having answered true"
					}
				}
			default:
				okMark, whereM, detail = false, p.ipos(cs), "the list given to Update is not built locally"
			}
		}
		walk(arg)
	}
	if okMark && nApp == 0 {
		okMark, detail = false, "no round is ever marked decided"
	}
	r.Check(okMark, rule, "PendingRound.Decided:only-after-WitnessesDecided", whereM, fnName(upd), "a pending round is marked decided only after WitnessesDecided of that round answered true", detail+": ProcessDecidedRounds would compute, store and commit the frame of a round whose fame is still open")
}

// witnessesDecidedOf: the literal "WitnessesDecided() of the RoundInfo fetched for round v answered true".
func witnessesDecidedOf(v ssa.Value) Pred {
	return func(l Lit) bool {
		if !l.Pos || l.Nil {
			return false
		}
		wd, idx, isC := isCallTo(l.V, named(HG+".RoundInfo.WitnessesDecided"))
		if !isC || idx > 0 {
			return false
		}
		rv := roundArgOf(recvOf(wd), storeM("GetRound"))
		return rv != nil && sameRoundExpr(rv, v)
	}
}
