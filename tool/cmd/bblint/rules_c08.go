package main

import (
	"fmt"
	"go/token"
	"go/types"
	"sort"
	"strings"

	"golang.org/x/tools/go/ssa"
)

func init() {
	register(&propDef{
		ID: "C08", NeedCG: true,
		Meta: propMeta{Level: "other", Assumptions: commonAssumptions,
			Explanation: "Decides the ABSENCE OF A FIXED CATALOGUE OF CRASH SHAPES on the module functions reachable (VTA call graph, library callbacks followed) from the network entry points (Node.processRPC, pull, fastForward, join, NetworkTransport.handleConn): " +
				"C08.sink (every call to ecdsa.Verify is reached only with pub, pub.X, pub.Y, r, s tested non-nil), C08.parse (a dropped failure indicator of (*big.Int).SetString / keys.DecodeSignature never precedes a dereference or escape of the value), " +
				"C08.const (no constant index / constant slice bound on a string or slice that is not guarded by a length test), C08.bounds (a wire-controlled integer reaches a slice bound only with an upper and a lower guard), " +
				"C08.range (EVERY dynamic index and slice bound in the packages that handle gossip input (node, hashgraph, peers, common, crypto, net) is PROVED within [0, len] on every acyclic path by linear entailment — Fourier–Motzkin over the path's comparison literals, loop-induction bounds, len(make(n)) = n, division / remainder by constants, phi equalities at joins — for arbitrary integer arguments; in particular the rolling caches RollingIndex.Get / GetItem / Set that are indexed by wire-supplied SyncRequest.Known values and wire event indexes. Sort callbacks (indexes supplied by package sort) are skipped and ten functions whose bound is not a linear fact are exempt by name with the reason in the evidence notes), C08.shape (a fast-forward response passes a shape validation — nil elements of Peers / PeerSets / Roots / Events, nil Core, Parents of length 2, nil signature map — before its contents are used), " +
				"C08.dispatch (unknown command bytes / types are answered with an error, nothing is dispatched undecoded), C08.respond (a join promise is removed right after it was answered; no defer inside loops of network-reachable code). " +
				"NOT decided: general panic-freedom, resource exhaustion by oversized inputs, data races, 'never alters committed history' (covered structurally by C02.frozen, C07, C09, C12)."},
		Rules: []ruleFunc{c08sink, c08parse, c08const, c08bounds, c08range, c08shape, c08dispatch, c08respond, func(p *Prog, r *Report) { itxRule(p, r, "C08.itx") }, func(p *Prog, r *Report) {
			r.Rule("C08.dedupe", 1, "a peer is added to a set at most once, by identity (id of the decoded key), not by the spelling of its key")
			noDupRule(p, r, "C08.dedupe")
		}},
	})
}

// netReach: module functions reachable from the network entry points.
func netReach(p *Prog) (map[*ssa.Function]bool, []string) {
	var roots []*ssa.Function
	var names []string
	for _, n := range [][3]string{{NODE, "Node", "processRPC"}, {NODE, "Node", "pull"}, {NODE, "Node", "push"}, {NODE, "Node", "fastForward"}, {NODE, "Node", "join"}, {NODE, "Node", "getBestFastForwardResponse"}, {NET, "NetworkTransport", "handleConn"}} {
		if f := p.Func(n[0], n[1], n[2]); f != nil {
			roots = append(roots, f)
			names = append(names, n[1]+"."+n[2])
		}
	}
	set := p.reach(roots, nil)
	res := map[*ssa.Function]bool{}
	for f := range set {
		if inModule(f) && f.Synthetic == "" && inGossipScope(fnPkgPath(f)) {
			res[f] = true
		}
	}
	return res, names
}

// inGossipScope: packages that handle gossip-port input. The HTTP service (src/service), the
// WebRTC/WAMP signalling client (src/net/signal), proxies and command-line packages are other
// attack surfaces, outside this property's quantifier; the context-insensitive call graph
// reaches them only through shared library dispatch (net/http, logging hooks).
func inGossipScope(pkg string) bool {
	for _, s := range []string{"/src/node", "/src/hashgraph", "/src/peers", "/src/common", "/src/crypto", "/src/net"} {
		if strings.HasSuffix(pkg, s) || strings.Contains(pkg, s+"/") {
			if strings.Contains(pkg, "/src/net/signal") {
				return false
			}
			return true
		}
	}
	return false
}

func sortedFuncs(set map[*ssa.Function]bool) []*ssa.Function {
	var fs []*ssa.Function
	for f := range set {
		fs = append(fs, f)
	}
	sort.Slice(fs, func(i, j int) bool {
		if fs[i].String() != fs[j].String() {
			return fs[i].String() < fs[j].String()
		}
		return fs[i].Pos() < fs[j].Pos()
	})
	return fs
}

func nonNilLit(l Lit, v ssa.Value) bool {
	x, isNil, ok := nilTest(l)
	return ok && !isNil && (unwrap(x) == unwrap(v) || sameOrigin(x, v))
}

func c08sink(p *Prog, r *Report) {
	const rule = "C08.sink"
	r.Rule(rule, 1, "every ecdsa.Verify(pub, _, r, s) call site: pub, pub.X, pub.Y, r, s are tested non-nil on every path (ecdsa.Verify dereferences all of them)")
	sites := p.callsAnywhere(named("crypto/ecdsa.Verify"))
	if len(sites) == 0 {
		r.Fail(rule, "ecdsa.Verify:sites", "-", "", "no call to ecdsa.Verify found")
	}
	for i, c := range sites {
		a := c.Common().Args
		pub, rr, ss := a[0], a[2], a[3]
		fn := c.Parent()
		check := func(what string, q Pred) {
			ok, _ := p.allPaths(c, []Pred{q}, all(1))
			r.Check(ok, rule, fmt.Sprintf("%s:ecdsa.Verify#%d:%s!=nil", fn.Name(), i, what), p.ipos(c), fnName(fn), what+" is tested non-nil before ecdsa.Verify",
				what+" can be nil when ecdsa.Verify is called (malformed key or signature from the network => nil pointer dereference, no recover anywhere => the node exits)")
		}
		check("pub", func(l Lit) bool { return nonNilLit(l, pub) })
		check("r", func(l Lit) bool { return nonNilLit(l, rr) })
		check("s", func(l Lit) bool { return nonNilLit(l, ss) })
		for _, fld := range []string{"X", "Y"} {
			fld := fld
			check("pub."+fld, func(l Lit) bool {
				x, isNil, ok := nilTest(l)
				if !ok || isNil {
					return false
				}
				fv, base := fieldOf(x)
				return fv != nil && refName(fv) == fld && (unwrap(base) == unwrap(pub) || sameOrigin(base, pub))
			})
		}
	}
}

func c08parse(p *Prog, r *Report) {
	const rule = "C08.parse"
	r.Rule(rule, 3, "fallible parsers on network-reachable code: the ok of (*big.Int).SetString is tested before the value is used or returned; the error of keys.DecodeSignature is tested before r or s is dereferenced")
	R, _ := netReach(p)
	n := 0
	for _, fn := range sortedFuncs(R) {
		for _, b := range fn.Blocks {
			for _, in := range b.Instrs {
				c, ok := in.(*ssa.Call)
				if !ok {
					continue
				}
				f := calleeFunc(c.Common())
				if f == nil {
					continue
				}
				switch shortName(f) {
				case "math/big.Int.SetString":
					n++
					tested := extractTested(c, 1)
					// the value may also be nil-tested directly
					if !tested {
						if refs := c.Referrers(); refs != nil {
							for _, rf := range *refs {
								if e, ok := rf.(*ssa.Extract); ok && e.Index == 0 {
									if er := e.Referrers(); er != nil {
										for _, u := range *er {
											if bo, ok := u.(*ssa.BinOp); ok && (isNilConst(bo.X) || isNilConst(bo.Y)) {
												tested = true
											}
										}
									}
								}
							}
						}
					}
					r.Check(tested, rule, fmt.Sprintf("%s:SetString-ok-tested", fn.Name()), p.ipos(c), fnName(fn), "parse failure is detected", "(*big.Int).SetString's ok result is discarded: on malformed input the *big.Int is nil and is handed on (to ecdsa.Verify / Cmp) unchecked")
				case KEYS + ".DecodeSignature":
					n++
					// is r or s dereferenced (method receiver) in this function?
					deref := false
					var derefAt ssa.Instruction
					if refs := c.Referrers(); refs != nil {
						for _, rf := range *refs {
							e, ok := rf.(*ssa.Extract)
							if !ok || e.Index > 1 {
								continue
							}
							if er := e.Referrers(); er != nil {
								for _, u := range *er {
									if uc, ok := u.(ssa.CallInstruction); ok {
										cc := uc.Common()
										if !cc.IsInvoke() && len(cc.Args) > 0 && cc.Args[0] == ssa.Value(e) && cc.Signature().Recv() != nil {
											// method call with the *big.Int as receiver
											if cf := calleeFunc(cc); cf != nil && cf.Pkg() != nil && cf.Pkg().Path() == "math/big" {
												deref = true
												derefAt = u
											}
										}
									}
								}
							}
						}
					}
					if !deref {
						// passed on: the error must be tested or returned
						ok := extractUsed(c, 2)
						r.Check(ok, rule, fmt.Sprintf("%s:DecodeSignature-err-used", fn.Name()), p.ipos(c), fnName(fn), "decode error is tested or propagated", "keys.DecodeSignature's error is discarded while r, s are used")
						continue
					}
					q := func(l Lit) bool {
						v, isNil, ok := nilTest(l)
						if !ok || !isNil {
							return false
						}
						cc, idx := callOf(v)
						return cc == c && idx == 2
					}
					qv := func(l Lit) bool { // or the value itself tested non-nil
						x, isNil, ok := nilTest(l)
						if !ok || isNil {
							return false
						}
						cc, idx := callOf(x)
						return cc == c && idx <= 1
					}
					g, _ := p.allPaths(derefAt, []Pred{q, qv}, func(m uint32) bool { return m != 0 })
					r.Check(g, rule, fmt.Sprintf("%s:DecodeSignature-checked-before-deref", fn.Name()), p.ipos(derefAt), fnName(fn), "r/s dereferenced only after the decode succeeded",
						"the *big.Int returned by keys.DecodeSignature is dereferenced ("+derefAt.String()+") although the decode error was ignored: a frame event with a malformed signature (possible in a fast-forward response, see F-C14-1) is a nil dereference")
				}
			}
		}
	}
	if n == 0 {
		r.Fail(rule, "fallible-producers", "-", "", "no fallible parser call found in network-reachable code")
	}
}

func extractUsed(c *ssa.Call, idx int) bool {
	refs := c.Referrers()
	if refs == nil {
		return false
	}
	for _, rf := range *refs {
		if e, ok := rf.(*ssa.Extract); ok && e.Index == idx {
			if er := e.Referrers(); er != nil && len(*er) > 0 {
				return true
			}
		}
	}
	return false
}

// lenGuard: does literal l imply len(base) >= need ?
func lenGuard(l Lit, base ssa.Value, need int64) bool {
	isLenOfBase := func(v ssa.Value) bool {
		x, ok := isLenOf(v)
		return ok && (unwrap(x) == unwrap(base) || sameOrigin(x, base) || sameSliceVar(x, base))
	}
	// len(x) != 0  (or !(len(x) == 0))  =>  len >= 1
	if b, ok := l.V.(*ssa.BinOp); ok && ((b.Op == token.NEQ && l.Pos) || (b.Op == token.EQL && !l.Pos)) && need <= 1 {
		if k, okc := intConst(b.Y); okc && k == 0 && isLenOfBase(b.X) {
			return true
		}
		if k, okc := intConst(b.X); okc && k == 0 && isLenOfBase(b.Y) {
			return true
		}
	}
	if x, y, ok := eqLit(l); ok {
		if k, okc := intConst(y); okc && isLenOfBase(x) && k >= need {
			return true
		}
		if k, okc := intConst(x); okc && isLenOfBase(y) && k >= need {
			return true
		}
	}
	if a, b, strict, ok := cmpLit(l); ok {
		if k, okc := intConst(b); okc && isLenOfBase(a) {
			if strict {
				return k+1 >= need
			}
			return k >= need
		}
	}
	return false
}

func c08const(p *Prog, r *Report) {
	const rule = "C08.const"
	r.Rule(rule, 1, "network-reachable code: a constant index or constant slice bound on a string / slice (not an array, not freshly made with a constant size) is dominated by a length test that covers it")
	R, _ := netReach(p)
	n := 0
	parentsIndexed := false
	ord := map[string]int{}
	defer func() {
		if !parentsIndexed {
			return
		}
		// EventBody.Parents is indexed with constants 0 and 1: every constructor must give it exactly two elements
		fPar := p.Field(HG, "EventBody", "Parents")
		two := func(v ssa.Value) bool {
			return flowsFrom(v, func(x ssa.Value) bool {
				sl, ok := x.(*ssa.Slice)
				if !ok {
					return false
				}
				al, ok := sl.X.(*ssa.Alloc)
				if !ok {
					return false
				}
				pt, ok := al.Type().Underlying().(*types.Pointer)
				if !ok {
					return false
				}
				at, ok := pt.Elem().Underlying().(*types.Array)
				return ok && at.Len() == 2
			})
		}
		for _, w := range p.writersOf(fPar) {
			ok := two(w.Val)
			if !ok && w.Fn.Name() == "NewEvent" && isParamNamed(w.Val, w.Fn, "parents") {
				ok = true
				for _, c := range p.callsAnywhere(named(HG + ".NewEvent")) {
					if !two(argN(c, 3)) {
						ok = false
						r.Fail(rule, c.Parent().Name()+":NewEvent-parents-arity-2", p.ipos(c), fnName(c.Parent()), "NewEvent is given a parents slice that is not a two-element literal; Event.SelfParent/OtherParent index it with constants")
					}
				}
			}
			r.Check(ok, rule, w.Fn.Name()+":EventBody.Parents-arity-2", p.ipos(w.Instr), fnName(w.Fn), "Parents always has exactly two elements where it is built", "EventBody.Parents is built with something else than two elements; SelfParent()/OtherParent() index it with constants 0 and 1")
		}
	}()
	for _, fn := range sortedFuncs(R) {
		for _, b := range fn.Blocks {
			for _, in := range b.Instrs {
				var base ssa.Value
				var need int64
				what := ""
				switch x := in.(type) {
				case *ssa.Slice:
					if _, isPtr := x.X.Type().Underlying().(*types.Pointer); isPtr {
						continue // slicing an array
					}
					var k int64
					if x.Low != nil {
						if c, ok := intConst(x.Low); ok && c > k {
							k = c
						}
					}
					if x.High != nil {
						if c, ok := intConst(x.High); ok && c > k {
							k = c
						}
					}
					if k == 0 {
						continue
					}
					base, need, what = x.X, k, fmt.Sprintf("slice bound %d", k)
				case *ssa.IndexAddr:
					if _, isSlice := x.X.Type().Underlying().(*types.Slice); !isSlice {
						continue
					}
					c, ok := intConst(x.Index)
					if !ok {
						continue
					}
					base, need, what = x.X, c+1, fmt.Sprintf("index %d", c)
				case *ssa.Index:
					if _, isStr := x.X.Type().Underlying().(*types.Basic); !isStr {
						continue
					}
					c, ok := intConst(x.Index)
					if !ok {
						continue
					}
					base, need, what = x.X, c+1, fmt.Sprintf("index %d", c)
				default:
					continue
				}
				if freshConstSized(base, need) {
					continue
				}
				if fv, _ := fieldOf(base); fv != nil && refName(fv) == "Parents" && fieldOwner(p, fv) == "EventBody" && need <= 2 {
					parentsIndexed = true
					continue // discharged by the arity-2 obligations below and by C08.shape (len(Parents)==2 for received frames)
				}
				n++
				q := func(l Lit) bool { return lenGuard(l, base, need) }
				ok, _ := p.allPaths(in, []Pred{q}, all(1))
				key := fn.Name() + ":" + describeBase(base)
				ord[key]++
				r.Check(ok, rule, fmt.Sprintf("%s:%s#%d", key, strings.Fields(what)[0], ord[key]), p.ipos(in), fnName(fn), what+" guarded by a length test",
					what+" on "+describeBase(base)+" without a dominating length test: a shorter value from the network panics (index/slice out of range)")
			}
		}
	}
	if n == 0 {
		r.Fail(rule, "constant-indexes", "-", "", "no constant index on network-reachable code found (rule would be vacuous)")
	}
}

func describeBase(v ssa.Value) string {
	v = unwrap(v)
	if fv, _ := fieldOf(v); fv != nil {
		return "field " + refName(fv)
	}
	if pv, ok := v.(*ssa.Parameter); ok {
		return "parameter " + pv.Name()
	}
	if c, _ := callOf(v); c != nil {
		if f := calleeFunc(c.Common()); f != nil {
			return "result of " + f.Name()
		}
	}
	if u, ok := v.(*ssa.UnOp); ok {
		if al, ok := u.X.(*ssa.Alloc); ok {
			return "local " + al.Comment
		}
	}
	return v.Name()
}

// freshConstSized: base is a slice made in this function with a constant length >= need
// (make([]T, k), a composite literal, strings.Split result is NOT).
func freshConstSized(base ssa.Value, need int64) bool {
	return flowsFrom(base, func(x ssa.Value) bool {
		switch t := x.(type) {
		case *ssa.MakeSlice:
			k, ok := intConst(t.Len)
			return ok && k >= need
		case *ssa.Slice:
			// slice of a local array: new [k]T
			if al, ok := t.X.(*ssa.Alloc); ok {
				if pt, ok := al.Type().Underlying().(*types.Pointer); ok {
					if at, ok := pt.Elem().Underlying().(*types.Array); ok {
						return at.Len() >= need
					}
				}
			}
		case *ssa.Const:
			if s, ok := strConst(t); ok {
				return int64(len(s)) >= need
			}
		}
		return false
	})
}

// wire types: structs reachable from the net.*Request/*Response types
func wireTypes(p *Prog) map[*types.Named]bool {
	res := map[*types.Named]bool{}
	var visit func(t types.Type)
	visit = func(t types.Type) {
		switch tt := t.(type) {
		case *types.Pointer:
			visit(tt.Elem())
		case *types.Slice:
			visit(tt.Elem())
		case *types.Array:
			visit(tt.Elem())
		case *types.Map:
			visit(tt.Key())
			visit(tt.Elem())
		case *types.Named:
			if res[tt] {
				return
			}
			if st, ok := tt.Underlying().(*types.Struct); ok {
				if tt.Obj().Pkg() == nil || !strings.HasPrefix(tt.Obj().Pkg().Path(), modPath) {
					return
				}
				res[tt] = true
				for i := 0; i < st.NumFields(); i++ {
					if st.Field(i).Exported() {
						visit(st.Field(i).Type())
					}
				}
			}
		}
	}
	for _, n := range []string{"SyncRequest", "SyncResponse", "EagerSyncRequest", "EagerSyncResponse", "FastForwardRequest", "FastForwardResponse", "JoinRequest", "JoinResponse"} {
		if t := p.Type(NET, n); t != nil {
			visit(t)
		}
	}
	return res
}

func c08bounds(p *Prog, r *Report) {
	const rule = "C08.bounds"
	r.Rule(rule, 1, "a dynamic slice bound that is data-dependent on an integer field of a wire type has an upper guard (<= len) and a lower guard (>= 0) on every path")
	R, _ := netReach(p)
	W := wireTypes(p)
	isWireInt := func(x ssa.Value) bool {
		fv, base := fieldOf(x)
		if fv == nil || base == nil {
			return false
		}
		bt, ok := fv.Type().Underlying().(*types.Basic)
		if !ok || bt.Info()&types.IsInteger == 0 {
			return false
		}
		n := namedOf(base.Type())
		return n != nil && W[n]
	}
	// wire taint through module helper calls (e.g. min(a, b)): dependsOn follows call operands
	n := 0
	for _, fn := range sortedFuncs(R) {
		for _, b := range fn.Blocks {
			for _, in := range b.Instrs {
				sl, ok := in.(*ssa.Slice)
				if !ok {
					continue
				}
				for _, bnd := range []ssa.Value{sl.Low, sl.High} {
					if bnd == nil {
						continue
					}
					if _, isC := intConst(bnd); isC {
						continue
					}
					if !dependsOn(bnd, isWireInt) {
						continue
					}
					n++
					qUp := func(l Lit) bool {
						a, bb, _, ok := cmpLit(l) // a > bb  or a >= bb
						if !ok {
							return false
						}
						x, isLen := isLenOf(a)
						return isLen && (sameOrigin(x, sl.X) || unwrap(x) == unwrap(sl.X) || sameSliceVar(x, sl.X)) && (unwrap(bb) == unwrap(bnd) || sameOrigin(bb, bnd))
					}
					up, _ := p.allPaths(sl, []Pred{qUp}, all(1))
					low := p.nonNegative(bnd, sl, 0)
					r.Check(up && low, rule, fmt.Sprintf("%s:slice-bound<-wire-int", fn.Name()), p.ipos(sl), fnName(fn), "wire-controlled bound is within [0, len]",
						fmt.Sprintf("a slice bound derived from a wire integer is not bounded on both sides (upper guard: %v, lower guard: %v): a negative SyncLimit in a sync request makes eventDiff[:limit] panic", up, low))
				}
			}
		}
	}
	if n == 0 {
		r.Fail(rule, "wire-int-bounds", "-", "", "no slice bound derived from a wire integer found (rule would be vacuous)")
	}
}

// nonNegative: v >= 0 at instruction at.
func (p *Prog) nonNegative(v ssa.Value, at ssa.Instruction, depth int) bool {
	if depth > 4 {
		return false
	}
	v = unwrap(v)
	if k, ok := intConst(v); ok {
		return k >= 0
	}
	if _, ok := isLenOf(v); ok {
		return true
	}
	q := func(l Lit) bool {
		a, b, strict, ok := cmpLit(l)
		if !ok {
			return false
		}
		if unwrap(a) != v {
			return false
		}
		k, okc := intConst(b)
		if !okc {
			return false
		}
		if strict {
			return k >= -1
		}
		return k >= 0
	}
	if g, _ := p.allPaths(at, []Pred{q}, all(1)); g {
		return true
	}
	if ph, ok := v.(*ssa.Phi); ok {
		for i, e := range ph.Edges {
			if k, okc := intConst(e); okc && k >= 0 {
				continue
			}
			if _, isLen := isLenOf(e); isLen {
				continue
			}
			// fact on the edge
			pred := ph.Block().Preds[i]
			ev := unwrap(e)
			qe := func(l Lit) bool {
				a, b, strict, ok := cmpLit(l)
				if !ok || unwrap(a) != ev {
					return false
				}
				k, okc := intConst(b)
				if !okc {
					return false
				}
				if strict {
					return k >= -1
				}
				return k >= 0
			}
			if g, _ := p.allPathsEdge(pred, ph.Block(), []Pred{qe}, all(1)); g {
				continue
			}
			return false
		}
		return true
	}
	// result of a module helper (min): non-negative if all its arguments are... not for min; give up
	return false
}

func c08shape(p *Prog, r *Report) {
	const rule = "C08.shape"
	r.Rule(rule, 8, "core.fastForward: before the response's contents are used, a validation call whose success is required tests: *Peer elements non-nil (Peers and PeerSets), *Root non-nil, *FrameEvent non-nil, FrameEvent.Core non-nil, len(Parents)==2, Block.Signatures non-nil")
	fn := p.Func(NODE, "core", "fastForward")
	if fn == nil {
		r.Anchor(rule, "node.(*core).fastForward")
		return
	}
	// first uses of the frame / block contents: any call taking a value derived from the parameters other than logging
	isLog := func(f *types.Func) bool {
		return f != nil && f.Pkg() != nil && strings.Contains(f.Pkg().Path(), "logrus")
	}
	var uses []ssa.CallInstruction
	for _, b := range fn.Blocks {
		for _, in := range b.Instrs {
			ci, ok := in.(ssa.CallInstruction)
			if !ok {
				continue
			}
			f := calleeFunc(ci.Common())
			if isLog(f) {
				continue
			}
			if _, isB := ci.Common().Value.(*ssa.Builtin); isB {
				continue
			}
			dep := false
			for _, a := range ci.Common().Args {
				if depOnParamType(a, "Frame") || depOnParamType(a, "Block") {
					dep = true
				}
			}
			if ci.Common().IsInvoke() && (depOnParamType(ci.Common().Value, "Frame") || depOnParamType(ci.Common().Value, "Block")) {
				dep = true
			}
			if dep {
				uses = append(uses, ci)
			}
		}
	}
	if len(uses) == 0 {
		r.Fail(rule, "fastForward:uses", p.pos(fn.Pos()), fnName(fn), "no use of the response found")
		return
	}
	// candidate validators: module functions called with block/frame whose nil result is required by all later uses
	type cand struct {
		call ssa.CallInstruction
		fn   *ssa.Function
	}
	var cands []cand
	for _, u := range uses {
		sf := u.Common().StaticCallee()
		if sf == nil || !inModule(sf) {
			continue
		}
		res := sf.Signature.Results()
		if res.Len() != 1 || !isErrorType(res.At(0).Type()) {
			continue
		}
		uc, _ := u.(*ssa.Call)
		if uc == nil {
			continue
		}
		q := func(l Lit) bool {
			v, isNil, ok := nilTest(l)
			if !ok || !isNil {
				return false
			}
			c, _ := callOf(v)
			return c == uc
		}
		okAll := true
		for _, o := range uses {
			if o == u {
				continue
			}
			if g, _ := p.allPaths(o, []Pred{q}, all(1)); !g {
				okAll = false
			}
		}
		if okAll {
			cands = append(cands, cand{u, sf})
		}
	}
	type ob struct {
		name string
		test func(fs map[*ssa.Function]bool) bool
	}
	nilTestOfType := func(fs map[*ssa.Function]bool, match func(types.Type) bool) bool {
		for f := range fs {
			for _, b := range f.Blocks {
				if n := len(b.Instrs); n > 0 {
					if iff, ok := b.Instrs[n-1].(*ssa.If); ok {
						found := false
						var visit func(v ssa.Value, d int)
						visit = func(v ssa.Value, d int) {
							if d > 6 || found {
								return
							}
							if bo, ok := v.(*ssa.BinOp); ok {
								if (bo.Op == token.EQL || bo.Op == token.NEQ) && (isNilConst(bo.Y) && match(bo.X.Type()) || isNilConst(bo.X) && match(bo.Y.Type())) {
									found = true
									return
								}
								visit(bo.X, d+1)
								visit(bo.Y, d+1)
							}
							if u, ok := v.(*ssa.UnOp); ok {
								visit(u.X, d+1)
							}
							if ph, ok := v.(*ssa.Phi); ok {
								for _, e := range ph.Edges {
									visit(e, d+1)
								}
							}
						}
						visit(iff.Cond, 0)
						if found {
							return true
						}
					}
				}
			}
		}
		return false
	}
	ptrTo := func(pkgSuffix, name string) func(types.Type) bool {
		return func(t types.Type) bool {
			pt, ok := t.(*types.Pointer)
			if !ok {
				return false
			}
			n, ok := pt.Elem().(*types.Named)
			return ok && n.Obj().Name() == name && n.Obj().Pkg() != nil && strings.HasSuffix(n.Obj().Pkg().Path(), pkgSuffix)
		}
	}
	obs := []ob{
		{"*peers.Peer elements non-nil", func(fs map[*ssa.Function]bool) bool { return nilTestOfType(fs, ptrTo("/peers", "Peer")) }},
		{"*Root values non-nil", func(fs map[*ssa.Function]bool) bool { return nilTestOfType(fs, ptrTo("/hashgraph", "Root")) }},
		{"*FrameEvent elements non-nil", func(fs map[*ssa.Function]bool) bool { return nilTestOfType(fs, ptrTo("/hashgraph", "FrameEvent")) }},
		{"FrameEvent.Core non-nil", func(fs map[*ssa.Function]bool) bool { return nilTestOfType(fs, ptrTo("/hashgraph", "Event")) }},
		{"Block.Signatures non-nil", func(fs map[*ssa.Function]bool) bool {
			return nilTestOfType(fs, func(t types.Type) bool {
				m, ok := t.Underlying().(*types.Map)
				if !ok {
					return false
				}
				k, ok1 := m.Key().Underlying().(*types.Basic)
				e, ok2 := m.Elem().Underlying().(*types.Basic)
				return ok1 && ok2 && k.Kind() == types.String && e.Kind() == types.String
			})
		}},
		{"len(Parents)==2", func(fs map[*ssa.Function]bool) bool {
			for f := range fs {
				for _, b := range f.Blocks {
					for _, in := range b.Instrs {
						bo, ok := in.(*ssa.BinOp)
						if !ok || (bo.Op != token.EQL && bo.Op != token.NEQ && bo.Op != token.LSS && bo.Op != token.GEQ) {
							continue
						}
						for _, pr := range [][2]ssa.Value{{bo.X, bo.Y}, {bo.Y, bo.X}} {
							if x, isLen := isLenOf(pr[0]); isLen && flowsFromField(x, "Parents") {
								if k, okc := intConst(pr[1]); okc && k == 2 {
									return true
								}
							}
						}
					}
				}
			}
			return false
		}},
		{"Peers covered in Frame.Peers and Frame.PeerSets", func(fs map[*ssa.Function]bool) bool {
			a, b := false, false
			for f := range fs {
				for _, bl := range f.Blocks {
					for _, in := range bl.Instrs {
						if v, ok := in.(ssa.Value); ok {
							if fv, _ := fieldOf(v); fv != nil {
								if refName(fv) == "Peers" && fieldOwner(p, fv) == "Frame" {
									a = true
								}
								if refName(fv) == "PeerSets" {
									b = true
								}
							}
						}
					}
				}
			}
			return a && b
		}},
		{"Roots and Events covered", func(fs map[*ssa.Function]bool) bool {
			a, b := false, false
			for f := range fs {
				for _, bl := range f.Blocks {
					for _, in := range bl.Instrs {
						if v, ok := in.(ssa.Value); ok {
							if fv, _ := fieldOf(v); fv != nil {
								if refName(fv) == "Roots" {
									a = true
								}
								if refName(fv) == "Events" && fieldOwner(p, fv) == "Frame" {
									b = true
								}
							}
						}
					}
				}
			}
			return a && b
		}},
	}
	if len(cands) == 0 {
		for _, o := range obs {
			r.Fail(rule, "fastForward:validated:"+o.name, p.ipos(uses[0]), fnName(fn),
				"no validation call precedes the first use of the response ("+describeCall(uses[0])+"): "+o.name+" is not established; a response with null elements (\"Peers\":[null], an event without Parents, null Signatures) panics the catching-up node")
		}
		return
	}
	// polarity: in the validating functions, the edge on which a watched position IS nil (or Parents does not have two
	// elements) leads to error returns only — a test that exists but is wired the wrong way round (`p == nil && …`, a negated
	// condition) lets the bad response through and dereferences the nil it was meant to stop
	watched := []func(types.Type) bool{ptrTo("/peers", "Peer"), ptrTo("/hashgraph", "Root"), ptrTo("/hashgraph", "FrameEvent"), ptrTo("/hashgraph", "Event"),
		func(t types.Type) bool {
			m, ok := t.Underlying().(*types.Map)
			if !ok {
				return false
			}
			k, ok1 := m.Key().Underlying().(*types.Basic)
			e, ok2 := m.Elem().Underlying().(*types.Basic)
			return ok1 && ok2 && k.Kind() == types.String && e.Kind() == types.String
		}}
	for _, c := range cands {
		var vfs []*ssa.Function
		for f := range p.reach([]*ssa.Function{c.fn}, func(f *ssa.Function) bool { return !inModule(f) }) {
			if inModule(f) && fnPkgPath(f) == fnPkgPath(c.fn) {
				vfs = append(vfs, f)
			}
		}
		sort.Slice(vfs, func(i, j int) bool { return vfs[i].String() < vfs[j].String() })
		nPol := 0
		for _, f := range vfs {
			for _, b := range f.Blocks {
				if len(b.Succs) != 2 {
					continue
				}
				for _, sx := range b.Succs {
					l, ok := edgeLit(b, sx)
					if !ok {
						continue
					}
					bad := false
					what := ""
					if x, isNil, okN := nilTest(l); okN && isNil {
						for _, w := range watched {
							if w(x.Type()) {
								bad, what = true, "a nil "+x.Type().String()
							}
						}
					}
					// len(Parents) != 2 on this edge  <=>  the OTHER edge asserts equality with 2
					for _, other := range b.Succs {
						if other == sx {
							continue
						}
						if lo, okO := edgeLit(b, other); okO {
							if a, bb, okE := eqLit(lo); okE {
								for _, pr := range [][2]ssa.Value{{a, bb}, {bb, a}} {
									if lv, isLen := isLenOf(pr[0]); isLen && flowsFromField(lv, "Parents") {
										if k, okc := intConst(pr[1]); okc && k == 2 {
											bad, what = true, "an event whose Parents does not have two elements"
										}
									}
								}
							}
						}
					}
					if !bad {
						continue
					}
					nPol++
					r.Check(errorExit(b, sx), rule, "fastForward:validated:polarity:"+f.Name()+"@"+p.ipos(b.Instrs[len(b.Instrs)-1]), p.ipos(b.Instrs[len(b.Instrs)-1]), fnName(f), "the failing edge of the shape test leads to an error return",
						"the edge on which the response contains "+what+" does not lead to an error return: the test is wired the wrong way round (or its result dropped), the malformed response passes validation and is dereferenced")
				}
			}
		}
		if nPol == 0 {
			r.Fail(rule, "fastForward:validated:polarity", p.ipos(c.call), fnName(c.fn), "no nil / arity test found in the validating functions")
		}
	}
	for _, o := range obs {
		ok := false
		for _, c := range cands {
			fs := map[*ssa.Function]bool{}
			for f := range p.reach([]*ssa.Function{c.fn}, func(f *ssa.Function) bool { return !inModule(f) }) {
				if inModule(f) && fnPkgPath(f) == fnPkgPath(c.fn) {
					fs[f] = true
				}
			}
			if o.test(fs) {
				ok = true
			}
		}
		r.Check(ok, rule, "fastForward:validated:"+o.name, p.ipos(cands[0].call), fnName(fn), "established by "+fnName(cands[0].fn)+" before any use", "the validation performed before the response is used does not establish: "+o.name)
	}
}

func describeCall(c ssa.CallInstruction) string {
	if f := calleeFunc(c.Common()); f != nil {
		return shortName(f)
	}
	return c.String()
}

func c08dispatch(p *Prog, r *Report) {
	const rule = "C08.dispatch"
	r.Rule(rule, 2, "handleCommand hands an RPC to the consumer only after a successful Decode of one of the known request types (unknown type byte => error); processRPC's unknown-command case is in C17.gate")
	fn := p.Func(NET, "NetworkTransport", "handleCommand")
	if fn == nil {
		r.Anchor(rule, "net.(*NetworkTransport).handleCommand")
		return
	}
	q := func(l Lit) bool {
		v, isNil, ok := nilTest(l)
		if !ok || !isNil {
			return false
		}
		c, _ := callOf(v)
		if c == nil {
			return false
		}
		f := calleeFunc(c.Common())
		return f != nil && f.Name() == "Decode"
	}
	n := 0
	for _, b := range fn.Blocks {
		for _, in := range b.Instrs {
			sel, ok := in.(*ssa.Select)
			if !ok {
				continue
			}
			for _, st := range sel.States {
				if st.Dir == types.SendOnly {
					n++
					g, _ := p.allPaths(sel, []Pred{q}, all(1))
					r.Check(g, rule, "handleCommand:dispatch-after-decode", p.ipos(sel), fnName(fn), "only decoded, known commands are dispatched", "an RPC can be dispatched without a successfully decoded command (unknown type byte or decode error)")
				}
			}
		}
	}
	if n == 0 {
		r.Fail(rule, "handleCommand:dispatch", p.pos(fn.Pos()), fnName(fn), "no dispatch found")
	}
	// all four request types can be decoded (in place, or through a table of constructors)
	want := map[string]bool{"SyncRequest": false, "EagerSyncRequest": false, "FastForwardRequest": false, "JoinRequest": false}
	var scope []*ssa.Function
	scope = append(scope, withAnon(fn)...)
	if np := p.Pkg(NET); np != nil {
		if initf := np.Func("init"); initf != nil {
			scope = append(scope, withAnon(initf)...)
		}
	}
	for _, f := range scope {
		for _, b := range f.Blocks {
			for _, in := range b.Instrs {
				if al, ok := in.(*ssa.Alloc); ok {
					if n := namedOf(al.Type()); n != nil {
						if _, w := want[n.Obj().Name()]; w {
							want[n.Obj().Name()] = true
						}
					}
				}
			}
		}
	}
	var missing []string
	for k, v := range want {
		if !v {
			missing = append(missing, k)
		}
	}
	sort.Strings(missing)
	nDec := len(callsIn(fn, func(f *types.Func) bool { return f.Name() == "Decode" }))
	r.Check(len(missing) == 0 && nDec > 0, rule, "handleCommand:four-request-types", p.pos(fn.Pos()), fnName(fn), fmt.Sprintf("%d decode site(s); the four request types are constructed", nDec), "request types never constructed for decoding: "+strings.Join(missing, ", "))
}

func c08respond(p *Prog, r *Report) {
	const rule = "C08.respond"
	r.Rule(rule, 2, "a join promise is answered at most once: after joinPromise.respond the promise is deleted from core.promises before the next receipt is looked at; no defer statement inside a loop of network-reachable code")
	fn := p.Func(NODE, "core", "processAcceptedInternalTransactions")
	if fn == nil {
		r.Anchor(rule, "node.(*core).processAcceptedInternalTransactions")
		return
	}
	fProm := p.Field(NODE, "core", "promises")
	loops := naturalLoops(fn)
	n := 0
	for i, c := range callsIn(fn, named(NODE+".joinPromise.respond")) {
		n++
		lp := innermostLoop(loops, c.Block())
		// forward search from the respond to the loop head avoiding a (non-deferred) delete on promises
		isDelete := func(in ssa.Instruction) bool {
			dc, ok := in.(*ssa.Call)
			if !ok {
				return false
			}
			bi, ok := dc.Call.Value.(*ssa.Builtin)
			if !ok || bi.Name() != "delete" {
				return false
			}
			fv, _ := fieldOf(dc.Call.Args[0])
			return fv == fProm
		}
		bad := false
		if lp != nil {
			after := false
			hit := false
			for _, in := range c.Block().Instrs {
				if in == ssa.Instruction(c) {
					after = true
					continue
				}
				if after && isDelete(in) {
					hit = true
				}
			}
			if !hit {
				forwardFrom(c.Block(), func(x *ssa.BasicBlock) bool {
					if bad {
						return false
					}
					if x == lp.head {
						bad = true
						return false
					}
					for _, in := range x.Instrs {
						if isDelete(in) {
							return false
						}
					}
					return true
				})
			}
		}
		r.Check(!bad, rule, fmt.Sprintf("processAccepted:respond#%d:then-delete", i), p.ipos(c), fnName(fn), "the promise is removed before the next receipt is processed",
			"after answering a promise the loop can continue without deleting it from core.promises: duplicate receipts of one replayed join request answer the same promise repeatedly; its channel (capacity 2) fills and the sender blocks forever inside the commit path while the core lock is held")
	}
	if n == 0 {
		r.Fail(rule, "processAccepted:respond", p.pos(fn.Pos()), fnName(fn), "no promise response found")
	}
	// defer inside loops
	R, _ := netReach(p)
	var bad []string
	nf := 0
	for _, f := range sortedFuncs(R) {
		ls := naturalLoops(f)
		nf++
		if len(ls) == 0 {
			continue
		}
		for _, b := range f.Blocks {
			for _, in := range b.Instrs {
				if _, ok := in.(*ssa.Defer); ok && innermostLoop(ls, b) != nil {
					bad = append(bad, fnName(f)+"@"+p.ipos(in))
				}
			}
		}
	}
	r.Check(len(bad) == 0, rule, "network-reachable:no-defer-in-loop", "-", "", fmt.Sprintf("%d network-reachable functions scanned", nf), "defer inside a loop (runs only at function exit, once per iteration accumulated): "+strings.Join(bad, ", "))
}

// C08.range: the audited store API. Wire integers (SyncRequest.Known values, WireBody indexes)
// reach RollingIndex.Get / GetItem / Set without any check by the callers; these functions must
// therefore be total: every dynamic index / slice bound on the window is proved in range.
// rangeExempt: functions whose dynamic indexes are NOT decided by the linear prover, with the reason
// (read and confirmed by hand; the obligation is reported as exempt, not as proved).
var rangeExempt = map[string]string{
	"(*src/common.LRU).Keys":                     "index counts the elements of evictList, allocation is len(items): equal by the LRU invariant (list and map hold the same entries), not a linear fact",
	"(*src/common.testLoggerAdapter).Write":      "test logging helper, not reachable from gossip input",
	"(src/common.Trilean).String":                "index is a Trilean constant (0..2) into a 3-element array; callers only use the three declared constants",
	"src/crypto/keys.readBits":                   "i is decremented only under i > 0 in the conjunctive loop condition (short-circuit form not seen as a branch literal on this path)",
	"(*src/hashgraph.Block).GetSignatures":       "one slot per map entry: index counts range iterations over the map whose len sized the slice",
	"(*src/hashgraph.Event).WireBlockSignatures": "make(len(x)) then range over x: sized by the ranged slice (field re-read through another pointer load)",
	"(*src/hashgraph.WireEvent).BlockSignatures": "make(len(x)) then range over x: sized by the ranged slice (field re-read through another pointer load)",
	"(*src/node.randomPeerSelector).next":        "rand.Intn(n) lies in [0,n): library contract, n = len(selectable) > 0 checked above",
	"(*src/common.RollingIndex).roll":            "size/2 <= len(items) holds at its only call site (len(items) >= size, Set): interprocedural precondition",
	"(*src/node.Node).push":                      "slice bound is the operator's own SyncLimit configuration (clamped by C08.bounds for the wire-supplied limit)",
}

// C08.range: every dynamic index / slice bound in the packages that handle gossip input is proved
// within bounds on every path by linear entailment from the path guards (loop induction bounds,
// len(make(n)) = n, division by constants included), for ARBITRARY integer inputs; sort callbacks
// (index arguments supplied by package sort) and the functions of rangeExempt are listed, not proved.
func c08range(p *Prog, r *Report) {
	const rule = "C08.range"
	r.Rule(rule, 40, "every dynamic index or slice bound in the gossip-input packages is within [0,len] on every path, for arbitrary integer arguments (linear entailment from the path guards); RollingIndex.Get/GetItem/Set — indexed by wire-supplied Known values — must be among the proved")
	n, exempt, sortcb := 0, 0, 0
	proved := map[string]int{}
	var fns []*ssa.Function
	for _, fn := range p.Mod {
		if inGossipScope(fnPkgPath(fn)) {
			fns = append(fns, fn)
		}
	}
	sort.Slice(fns, func(i, j int) bool { return fnName(fns[i]) < fnName(fns[j]) })
	for _, fn := range fns {
		name := fnName(fn)
		if isSortCallback(fn) {
			sortcb++
			continue
		}
		k := 0
		check := func(at ssa.Instruction, idx, base ssa.Value, slack int64, what string) {
			if _, isC := intConst(idx); isC {
				// constant index into a slice: needs a length guard (C08.const decides those)
				return
			}
			k++
			if why, ex := rangeExempt[name]; ex {
				exempt++
				r.Note("%s: exempt %s %s#%d: %s", rule, name, what, k, why)
				return
			}
			n++
			ok, why := p.proveInRange(at, idx, base, slack)
			if ok {
				proved[name]++
			}
			if !ok && dependsOn(idx, func(x ssa.Value) bool {
				c, isCall := x.(*ssa.Call)
				if !isCall {
					return false
				}
				f := calleeFunc(c.Common())
				return f != nil && f.Pkg() != nil && f.Pkg().Path() == "sort" && strings.HasPrefix(f.Name(), "Search")
			}) {
				// position found by a library binary search: its relation to the searched
				// predicate is not a linear fact; listed, not decided
				n--
				exempt++
				r.Note("%s: not decided %s %s#%d (index derived from sort.Search: %s)", rule, name, what, k, why)
				return
			}
			short := fn.Name()
			if fn.Signature.Recv() != nil {
				short = recvNamedSig(fn) + "." + fn.Name()
			}
			r.Check(ok, rule, fmt.Sprintf("%s:%s#%d", short, what, k), p.ipos(at), name, what+" proved in range ("+why+")",
				what+" not proved in range: "+why+" — an out-of-range index panics the goroutine (for the rolling caches the index is a wire-supplied Known value / event index)")
		}
		for _, b := range fn.Blocks {
			for _, in := range b.Instrs {
				switch x := in.(type) {
				case *ssa.Slice:
					if _, isStr := x.X.Type().Underlying().(*types.Basic); isStr {
						// string slicing: same rule
					}
					for _, bnd := range []ssa.Value{x.Low, x.High} {
						if bnd != nil {
							check(x, bnd, x.X, 0, "slice-bound")
						}
					}
				case *ssa.IndexAddr:
					check(x, x.Index, x.X, -1, "index")
				case *ssa.Index:
					check(x, x.Index, x.X, -1, "index")
				}
			}
		}
	}
	for _, m := range []string{"Get", "GetItem", "Set"} {
		fn := p.Func(COMM, "RollingIndex", m)
		if fn == nil {
			r.Anchor(rule, "common.(*RollingIndex)."+m)
			continue
		}
		r.Check(proved[fnName(fn)] > 0, rule, "RollingIndex."+m+":has-proved-index", p.pos(fn.Pos()), fnName(fn), "its window index is among the proved sites", "RollingIndex."+m+" has no proved dynamic index (the rule would be vacuous for the wire-indexed cache)")
	}
	r.Note("%s: %d dynamic index sites decided by the prover, %d exempt (listed), %d sort callbacks skipped", rule, n, exempt, sortcb)
}

// isSortCallback: Less/Swap of a sort.Interface implementation, or a closure passed to sort.Slice*.
func isSortCallback(fn *ssa.Function) bool {
	if fn.Signature.Recv() != nil && (fn.Name() == "Less" || fn.Name() == "Swap") {
		return true
	}
	if fn.Parent() != nil {
		if refs := fn.Referrers(); refs != nil {
			_ = refs
		}
		for _, b := range fn.Parent().Blocks {
			for _, in := range b.Instrs {
				c, ok := in.(*ssa.Call)
				if !ok {
					continue
				}
				f := calleeFunc(c.Common())
				if f == nil || f.Pkg() == nil || f.Pkg().Path() != "sort" {
					continue
				}
				for _, a := range c.Call.Args {
					if mc, ok := unwrap(a).(*ssa.MakeClosure); ok && mc.Fn == ssa.Value(fn) {
						return true
					}
					if a == ssa.Value(fn) {
						return true
					}
				}
			}
		}
	}
	return false
}
