package main

import (
	"encoding/json"
	"flag"
	"fmt"
	"os"
	"path/filepath"
	"sort"
	"strconv"
	"strings"
	"time"
)

type ruleFunc func(p *Prog, r *Report)

type propDef struct {
	ID     string
	Meta   propMeta
	Rules  []ruleFunc
	NeedCG bool
	// Thorough-only rules (run in addition in the thorough tier)
	Thorough []ruleFunc
}

var registry = map[string]*propDef{}

func register(d *propDef) { registry[d.ID] = d }

var commonAssumptions = []string{
	"go/types, go/ssa (x/tools v0.29.0) and the VTA call graph faithfully represent /repo's current source (Tests=false, build tags as listed under coverage.configs)",
	"no unsafe, cgo or reflection-based dispatch in module packages other than net/rpc registration (asserted: module packages import neither unsafe nor C)",
	"anchors are resolved by qualified name; a renamed anchor fails the check (rule=anchor-unresolved) instead of passing vacuously",
	"library summaries: sort.Sort/Slice permute in place using the comparator; encoding/json serialises exactly the exported untagged fields; ugorji codec with Canonical=true sorts map keys; ecdsa.Verify dereferences pub.X, r, s; (*big.Int).SetString returns (nil,false) on failure; elliptic.Unmarshal returns (nil,nil) on failure; a badger Txn becomes visible atomically at Commit",
}

func main() {
	repo := flag.String("repo", "/repo", "repository root")
	prop := flag.String("property", "", "property id (C01..C20) or 'all'")
	tier := flag.String("tier", "quick", "quick|thorough")
	evid := flag.String("evidence", "", "evidence file to write")
	knownPath := flag.String("known", "", "known findings file")
	list := flag.Bool("list", false, "list registered properties")
	dumpF := flag.Bool("dump-fields", false, "print the struct fields of the module (reference list for renamed fields)")
	dump := flag.Bool("dump-funcs", false, "print the key of every function declared in the module (reference list for the inliner)")
	dumpSSA := flag.String("dump-ssa", "", "debugging: print the SSA form (as analysed, after inlining) of the functions whose name contains this string")
	flag.Parse()
	if *dumpSSA != "" {
		p, err := loadProg(*repo, "", false)
		if err != nil {
			fmt.Fprintln(os.Stderr, err)
			os.Exit(2)
		}
		for _, fn := range p.Mod {
			if strings.Contains(fn.String(), *dumpSSA) {
				fn.WriteTo(os.Stdout)
			}
		}
		return
	}
	if *dumpF {
		pkgs, err := loadPkgs(*repo, "", nil)
		if err != nil {
			fmt.Fprintln(os.Stderr, err)
			os.Exit(2)
		}
		for _, l := range dumpFields(pkgs) {
			fmt.Println(l)
		}
		return
	}
	if *dump {
		pkgs, err := loadPkgs(*repo, "", nil)
		if err != nil {
			fmt.Fprintln(os.Stderr, err)
			os.Exit(2)
		}
		seen := map[string]bool{}
		for _, tags := range []string{"", "mobile"} {
			if tags != "" {
				if pkgs, err = loadPkgs(*repo, tags, nil); err != nil {
					fmt.Fprintln(os.Stderr, err)
					os.Exit(2)
				}
			}
			for _, k := range dumpFuncs(pkgs) {
				if !seen[k] {
					seen[k] = true
					fmt.Println(k)
				}
			}
		}
		return
	}

	if *list {
		var ids []string
		for k := range registry {
			ids = append(ids, k)
		}
		sort.Strings(ids)
		for _, k := range ids {
			fmt.Println(k)
		}
		return
	}
	if t := os.Getenv("VERIF_TIER"); t == "quick" || t == "thorough" {
		*tier = t
	}
	seed := 0
	if s := os.Getenv("VERIF_SEED"); s != "" {
		if v, err := strconv.Atoi(s); err == nil {
			seed = v
		}
	}
	if *prop == "all" {
		os.Exit(runAll(*repo, *tier, *evid, *knownPath, seed))
	}
	d := registry[*prop]
	if d == nil {
		fmt.Fprintf(os.Stderr, "unknown property %q\n", *prop)
		os.Exit(2)
	}
	abs, _ := filepath.Abs(*repo)
	start := time.Now()
	known, err := loadFindings(*knownPath)
	if err != nil {
		fmt.Printf("VIOLATION property=%s replay=%s rule=analyser-failure detail=cannot read known findings: %v\n", d.ID, *evid, err)
		os.Exit(1)
	}
	r := newReport(d.ID)
	configs := []string{""}
	if *tier == "thorough" {
		configs = append(configs, "mobile")
	}
	var cfgInfo []map[string]interface{}
	exit := 0
	func() {
		defer func() {
			if e := recover(); e != nil {
				r.Fail("analyser-failure", "panic", "-", "", fmt.Sprintf("rule=analyser-panic: %v", e))
			}
		}()
		for _, tags := range configs {
			p, err := loadProg(abs, tags, true)
			if err != nil {
				r.Fail("analyser-failure", "load:"+tags, "-", "", "rule=load-failure: "+err.Error())
				continue
			}
			r.Config = tags
			if tags == "" {
				r.Config = "default"
			}
			if bad := p.forbiddenImports(); len(bad) > 0 {
				r.Fail("analyser-failure", "imports", "-", "", fmt.Sprintf("module packages import unsafe/C: %v", bad))
			}
			for _, rf := range d.Rules {
				rf(p, r)
			}
			if *tier == "thorough" {
				for _, rf := range d.Thorough {
					rf(p, r)
				}
			}
			r.finishRules()
			cfgInfo = append(cfgInfo, map[string]interface{}{
				"tags": tags, "packages": len(p.Pkgs), "functions_total": len(p.All), "functions_module": len(p.Mod),
				"callgraph": "VTA over CHA (golang.org/x/tools/go/callgraph/vta)", "load_s": p.LoadS, "ssa_s": p.SSAS, "callgraph_s": p.CGS,
				"functions_not_in_reference_tree": p.Inlined, "inlining_failed": p.InlineFail, "renamed_anchors": append([]string{}, aliasNotes...), "forwarded_anchors": p.forwards,
			})
			if p.InlineFail != "" {
				r.Note("source-level inlining of new helpers failed (%s): analysed without it", p.InlineFail)
			}
		}
	}()
	cov := map[string]interface{}{"configs": cfgInfo}
	if st := os.Getenv("SELFTEST_OUT"); st != "" {
		if b, err := os.ReadFile(st); err == nil {
			var res []map[string]interface{}
			if json.Unmarshal(b, &res) == nil {
				nOK, nSkip := 0, 0
				for _, x := range res {
					switch x["status"] {
					case "ok":
						nOK++
					case "skipped":
						nSkip++
					}
				}
				cov["checker_selftest"] = map[string]interface{}{
					"what":     "each stored mutant (one broken rule instance, compiling) applied to a scratch copy of the current tree must make exactly its rule fire; each benign variant must stay silent",
					"variants": len(res), "ok": nOK, "skipped_anchor_text_gone": nSkip, "results": res,
				}
			}
		}
	}
	exit = r.finish(d.Meta, *tier, seed, time.Since(start).Seconds(), cov, known, *evid)
	os.Exit(exit)
}

func (p *Prog) forbiddenImports() []string {
	var bad []string
	for path, pk := range p.ByPkg {
		if len(path) < len(modPath) || path[:len(modPath)] != modPath {
			continue
		}
		for ip := range pk.Imports {
			if ip == "unsafe" || ip == "C" {
				bad = append(bad, path+" imports "+ip)
			}
		}
	}
	sort.Strings(bad)
	return bad
}

// runAll: every registered property over ONE loaded program per configuration (used by the
// patch tester: 19 properties in the time of one). evidDir receives <id>.json.
func runAll(repo, tier, evidDir, knownPath string, seed int) int {
	abs, _ := filepath.Abs(repo)
	known, err := loadFindings(knownPath)
	if err != nil {
		fmt.Printf("VIOLATION property=all replay=- rule=analyser-failure detail=cannot read known findings: %v\n", err)
		return 1
	}
	var ids []string
	for k := range registry {
		ids = append(ids, k)
	}
	sort.Strings(ids)
	reports := map[string]*Report{}
	for _, id := range ids {
		reports[id] = newReport(id)
	}
	configs := []string{""}
	if tier == "thorough" {
		configs = append(configs, "mobile")
	}
	start := time.Now()
	for _, tags := range configs {
		p, err := loadProg(abs, tags, true)
		for _, id := range ids {
			r, d := reports[id], registry[id]
			if err != nil {
				r.Fail("analyser-failure", "load:"+tags, "-", "", "rule=load-failure: "+err.Error())
				continue
			}
			r.Config = tags
			if tags == "" {
				r.Config = "default"
			}
			func() {
				defer func() {
					if e := recover(); e != nil {
						r.Fail("analyser-failure", "panic", "-", "", fmt.Sprintf("rule=analyser-panic: %v", e))
					}
				}()
				for _, rf := range d.Rules {
					rf(p, r)
				}
				if tier == "thorough" {
					for _, rf := range d.Thorough {
						rf(p, r)
					}
				}
				r.finishRules()
			}()
		}
	}
	exit := 0
	for _, id := range ids {
		ev := ""
		if evidDir != "" {
			os.MkdirAll(evidDir, 0o755)
			ev = filepath.Join(evidDir, id+".json")
		}
		if reports[id].finish(registry[id].Meta, tier, seed, time.Since(start).Seconds(), map[string]interface{}{"mode": "all-properties-one-load"}, known, ev) != 0 {
			exit = 1
		}
	}
	return exit
}
