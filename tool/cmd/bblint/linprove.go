package main

import (
	"go/constant"
	"fmt"
	"go/token"
	"go/types"
	"math/big"
	"os"
	"sort"
	"strings"

	"golang.org/x/tools/go/ssa"
)

// Linear entailment over path guards (a bounds-check prover in the style of a compiler's
// prove pass, evaluated on every acyclic path): integer variables are SSA leaves (parameters,
// field loads — unified per (object, field) —, len of such values); constraints are
// "linear form >= 0"; infeasibility is decided by Fourier–Motzkin elimination over the
// rationals with integer tightening of strict inequalities (sound for refutation: no rational
// solution implies no integer solution).

type linForm struct {
	c map[string]*big.Rat // variable -> coefficient
	k *big.Rat            // constant
}

func newLin() *linForm { return &linForm{c: map[string]*big.Rat{}, k: new(big.Rat)} }

func (a *linForm) clone() *linForm {
	b := newLin()
	for v, x := range a.c {
		b.c[v] = new(big.Rat).Set(x)
	}
	b.k.Set(a.k)
	return b
}

func (a *linForm) addScaled(b *linForm, s *big.Rat) *linForm {
	r := a.clone()
	for v, x := range b.c {
		t := new(big.Rat).Mul(x, s)
		if old, ok := r.c[v]; ok {
			t.Add(t, old)
		}
		if t.Sign() == 0 {
			delete(r.c, v)
		} else {
			r.c[v] = t
		}
	}
	r.k.Add(r.k, new(big.Rat).Mul(b.k, s))
	return r
}

func (a *linForm) String() string {
	var vs []string
	for v := range a.c {
		vs = append(vs, v)
	}
	sort.Strings(vs)
	var parts []string
	for _, v := range vs {
		parts = append(parts, a.c[v].RatString()+"*"+v)
	}
	parts = append(parts, a.k.RatString())
	return strings.Join(parts, " + ")
}

type linEnv struct {
	names map[ssa.Value]string
	lens  map[string]bool // variables that are lengths (>= 0)
	n     int
	// side facts discovered while translating values: each entry is a list of alternatives
	// (case split), each alternative a conjunction of "form >= 0"
	side [][][]*linForm
	divs map[ssa.Value]string // x / k quotient variables (one per SSA division)
	phis map[ssa.Value]bool
	// representative load of each (object, field) value class
	loadRep map[string]*ssa.UnOp
}

func newLinEnv() *linEnv {
	return &linEnv{names: map[ssa.Value]string{}, lens: map[string]bool{}, divs: map[ssa.Value]string{}, phis: map[ssa.Value]bool{}}
}

func linConst(k int64) *linForm            { r := newLin(); r.k.SetInt64(k); return r }
func linVar(n string) *linForm             { r := newLin(); r.c[n] = big.NewRat(1, 1); return r }
func (a *linForm) sub(b *linForm) *linForm { return a.addScaled(b, big.NewRat(-1, 1)) }
func (a *linForm) plus(k int64) *linForm   { r := a.clone(); r.k.Add(r.k, big.NewRat(k, 1)); return r }

// quotient: the linear variable standing for x / k (k > 0 constant, Go truncated division), with
// its defining facts registered as a case split on the sign of x.
func (e *linEnv) quotient(div ssa.Value, x ssa.Value, k int64, depth int) *linForm {
	for old, n := range e.divs {
		if ob, ok := old.(*ssa.BinOp); ok {
			if ok2, _ := intConst(ob.Y); ok2 == k && sameOrigin(ob.X, x) {
				return linVar(n)
			}
		}
	}
	e.n++
	n := fmt.Sprintf("q%d", e.n)
	e.divs[div] = n
	lx := e.toLin(x, depth+1)
	q := linVar(n)
	kq := newLin().addScaled(q, big.NewRat(k, 1))
	rem := lx.sub(kq) // x - k*q
	// x >= 0: 0 <= rem <= k-1 ; x <= -1: -(k-1) <= rem <= 0
	altPos := []*linForm{lx.clone(), rem.clone(), newLin().sub(rem).plus(k - 1)}
	altNeg := []*linForm{newLin().sub(lx).plus(-1), rem.plus(k - 1), newLin().sub(rem)}
	e.side = append(e.side, [][]*linForm{altPos, altNeg})
	return q
}

// inductionFacts: phi = [init, phi + c, phi + c', …] gives phi >= init (all c > 0) or phi <= init (all c < 0).
func (e *linEnv) inductionFacts(ph *ssa.Phi, depth int) {
	if e.phis[ph] {
		return
	}
	e.phis[ph] = true
	var init ssa.Value
	sign := 0
	for _, ed := range ph.Edges {
		if bo, ok := ed.(*ssa.BinOp); ok && (bo.Op == token.ADD || bo.Op == token.SUB) && bo.X == ssa.Value(ph) {
			c, okc := intConst(bo.Y)
			if !okc || c == 0 {
				return
			}
			if bo.Op == token.SUB {
				c = -c
			}
			sg := 1
			if c < 0 {
				sg = -1
			}
			if sign != 0 && sign != sg {
				return
			}
			sign = sg
			continue
		}
		if dependsOn(ed, func(x ssa.Value) bool { return x == ssa.Value(ph) }) {
			return
		}
		if init != nil && init != ed {
			if a, oka := intConst(init); oka {
				if b, okb := intConst(ed); okb && a == b {
					continue
				}
			}
			return
		}
		init = ed
	}
	if init == nil || sign == 0 {
		return
	}
	li := e.toLin(init, depth+1)
	me := linVar(e.varName(ph))
	if sign > 0 {
		e.side = append(e.side, [][]*linForm{{me.sub(li)}})
	} else {
		e.side = append(e.side, [][]*linForm{{li.sub(me)}})
	}
}

func (e *linEnv) varName(v ssa.Value) string {
	v = unwrap(v)
	if n, ok := e.names[v]; ok {
		return n
	}
	name := ""
	// load of a local (possibly captured) variable that is assigned exactly once: the assigned value
	if u, ok := v.(*ssa.UnOp); ok && u.Op == token.MUL {
		var al *ssa.Alloc
		switch a := u.X.(type) {
		case *ssa.Alloc:
			al = a
		case *ssa.FreeVar:
			if b, ok := freeVarBinding(a).(*ssa.Alloc); ok {
				al = b
			}
		}
		if al != nil {
			if st := capturedStores(al); len(st) == 1 {
				n := e.varName(st[0])
				e.names[v] = n
				return n
			}
		}
	}
	// a field of a struct carried in a local variable with a single possible source: that source
	if sal, fidx, ok := localFieldLoad(v); ok {
		if srcs := localStructFieldSources(sal, fidx, 0); len(srcs) == 1 {
			n := e.varName(srcs[0])
			e.names[v] = n
			return n
		}
	}
	// field load: loads of the same field of the same object denote the same value when no write
	// to that field (a store, or a call to a module function that stores to it) can execute
	// between them
	if u, ok := v.(*ssa.UnOp); ok && u.Op == token.MUL {
		if fa, ok := u.X.(*ssa.FieldAddr); ok {
			if fv := fieldVar(fa.X.Type(), fa.Field); fv != nil {
				base := "." + refName(fv) + "@" + e.varName(fa.X)
				name = base
				for k := 0; ; k++ {
					cand := base
					if k > 0 {
						cand = fmt.Sprintf("%s~%d", base, k)
					}
					rep, used := e.loadRep[cand]
					if !used {
						if e.loadRep == nil {
							e.loadRep = map[string]*ssa.UnOp{}
						}
						e.loadRep[cand] = u
						name = cand
						break
					}
					if !fieldWrittenBetween(rep, u, fv) && !fieldWrittenBetween(u, rep, fv) {
						name = cand
						break
					}
				}
			}
		}
	}
	// the address of a field: named structurally, so that two evaluations of &x.f agree
	if fa, ok := v.(*ssa.FieldAddr); ok {
		if fv := fieldVar(fa.X.Type(), fa.Field); fv != nil {
			name = "&" + refName(fv) + "@" + e.varName(fa.X)
		}
	}
	if x, isLen := isLenOf(v); isLen {
		name = "len(" + e.varName(x) + ")"
		e.lens[name] = true
	}
	if pv, ok := v.(*ssa.Parameter); ok {
		name = pv.Name()
	}
	if name == "" {
		e.n++
		name = fmt.Sprintf("%s#%d", v.Name(), e.n)
	}
	// a value of an unsigned integer type is >= 0 by its type (widening conversions are looked through by toLin)
	if bt, isB := v.Type().Underlying().(*types.Basic); isB && bt.Info()&types.IsUnsigned != 0 {
		e.lens[name] = true
	}
	e.names[v] = name
	return name
}

// toLin: linear form of an integer SSA value.
func (e *linEnv) toLin(v ssa.Value, depth int) *linForm {
	v0 := v
	if c, ok := v.(*ssa.Convert); ok {
		if b, isB := c.Type().Underlying().(*types.Basic); isB && b.Info()&types.IsInteger != 0 {
			if b2, isB2 := c.X.Type().Underlying().(*types.Basic); isB2 && b2.Info()&types.IsInteger != 0 {
				return e.toLin(c.X, depth+1)
			}
		}
	}
	if k, ok := intConst(v); ok {
		r := newLin()
		r.k.SetInt64(k)
		return r
	}
	// len(make([]T, n)) = n
	if x, isLen := isLenOf(unwrap(v)); isLen && depth < 12 {
		if ms := e.makeOf(x); ms != nil {
			return e.toLin(ms.Len, depth+1)
		}
	}
	if depth < 12 {
		if bo, ok := v.(*ssa.BinOp); ok {
			switch bo.Op {
			case token.ADD:
				return e.toLin(bo.X, depth+1).addScaled(e.toLin(bo.Y, depth+1), big.NewRat(1, 1))
			case token.SUB:
				return e.toLin(bo.X, depth+1).addScaled(e.toLin(bo.Y, depth+1), big.NewRat(-1, 1))
			case token.QUO:
				if k, okc := intConst(bo.Y); okc && k > 0 {
					return e.quotient(bo, bo.X, k, depth)
				}
			case token.REM:
				if k, okc := intConst(bo.Y); okc && k > 0 {
					q := e.quotient(bo, bo.X, k, depth)
					return e.toLin(bo.X, depth+1).sub(newLin().addScaled(q, big.NewRat(k, 1)))
				}
			case token.MUL:
				if k, okc := intConst(bo.Y); okc {
					return newLin().addScaled(e.toLin(bo.X, depth+1), big.NewRat(k, 1))
				}
				if k, okc := intConst(bo.X); okc {
					return newLin().addScaled(e.toLin(bo.Y, depth+1), big.NewRat(k, 1))
				}
			}
		}
	}
	if ph, ok := unwrap(v0).(*ssa.Phi); ok && depth < 12 {
		e.inductionFacts(ph, depth)
	}
	// library contract: 0 <= sort.Search(n, f) <= n
	if c, ok := unwrap(v0).(*ssa.Call); ok && depth < 12 && !e.phis[c] {
		if f := calleeFunc(c.Common()); f != nil && f.Pkg() != nil && f.Pkg().Path() == "sort" && f.Name() == "Search" && len(c.Call.Args) == 2 {
			e.phis[c] = true
			me := linVar(e.varName(c))
			n := e.toLin(c.Call.Args[0], depth+1)
			e.side = append(e.side, [][]*linForm{{me.clone(), n.sub(me)}})
		}
	}
	r := newLin()
	r.c[e.varName(v0)] = big.NewRat(1, 1)
	return r
}

// geq0 constraints from a comparison "x op y" asserted with polarity pos. A disequality yields two alternatives.
func (e *linEnv) fromCmp(bo *ssa.BinOp, pos bool) [][]*linForm {
	if b, ok := bo.X.Type().Underlying().(*types.Basic); !ok || b.Info()&types.IsInteger == 0 {
		return nil
	}
	x, y := e.toLin(bo.X, 0), e.toLin(bo.Y, 0)
	one := newLin()
	one.k.SetInt64(1)
	ge := func(a, b *linForm) *linForm { return a.addScaled(b, big.NewRat(-1, 1)) } // a - b >= 0
	gt := func(a, b *linForm) *linForm {
		return a.addScaled(b, big.NewRat(-1, 1)).addScaled(one, big.NewRat(-1, 1))
	} // a - b - 1 >= 0
	op := bo.Op
	if !pos {
		switch op {
		case token.LSS:
			op = token.GEQ
		case token.LEQ:
			op = token.GTR
		case token.GTR:
			op = token.LEQ
		case token.GEQ:
			op = token.LSS
		case token.EQL:
			op = token.NEQ
		case token.NEQ:
			op = token.EQL
		}
	}
	switch op {
	case token.GEQ:
		return [][]*linForm{{ge(x, y)}}
	case token.GTR:
		return [][]*linForm{{gt(x, y)}}
	case token.LEQ:
		return [][]*linForm{{ge(y, x)}}
	case token.LSS:
		return [][]*linForm{{gt(y, x)}}
	case token.EQL:
		return [][]*linForm{{ge(x, y), ge(y, x)}}
	case token.NEQ:
		return [][]*linForm{{gt(x, y)}, {gt(y, x)}}
	}
	return nil
}

// infeasible: the system {f >= 0} has no rational solution (Fourier–Motzkin).
func infeasible(cons []*linForm) bool {
	cur := cons
	for iter := 0; iter < 40; iter++ {
		// constant contradictions
		var vars = map[string]bool{}
		for _, f := range cur {
			if len(f.c) == 0 && f.k.Sign() < 0 {
				return true
			}
			for v := range f.c {
				vars[v] = true
			}
		}
		if len(vars) == 0 {
			return false
		}
		// pick the variable with the fewest pos*neg products
		best, bestCost := "", -1
		for v := range vars {
			p, n := 0, 0
			for _, f := range cur {
				if c, ok := f.c[v]; ok {
					if c.Sign() > 0 {
						p++
					} else {
						n++
					}
				}
			}
			cost := p * n
			if bestCost < 0 || cost < bestCost || (cost == bestCost && v < best) {
				best, bestCost = v, cost
			}
		}
		var pos, neg, rest []*linForm
		for _, f := range cur {
			c, ok := f.c[best]
			switch {
			case !ok:
				rest = append(rest, f)
			case c.Sign() > 0:
				pos = append(pos, f)
			default:
				neg = append(neg, f)
			}
		}
		for _, a := range pos {
			for _, b := range neg {
				// a: ca*v + ra >= 0 (ca>0), b: cb*v + rb >= 0 (cb<0): combine (-cb)*a + ca*b
				ca, cb := a.c[best], b.c[best]
				comb := newLin().addScaled(a, new(big.Rat).Neg(cb)).addScaled(b, ca)
				delete(comb.c, best)
				rest = append(rest, comb)
			}
		}
		if len(rest) > 4000 {
			return false // give up: not proved
		}
		cur = rest
	}
	return false
}

// pathConstraintSets enumerates acyclic paths from the entry to instruction at and returns, per
// path, the alternatives of constraint sets implied by the branch literals (capped).
func (p *Prog) pathConstraintSets(at ssa.Instruction, e *linEnv, cap int) ([][]*linForm, bool) {
	fn := at.Parent()
	target := at.Block()
	var res [][]*linForm
	complete := true
	cameFrom := map[*ssa.BasicBlock]*ssa.BasicBlock{} // predecessor of each block on the path being walked
	var walk func(b *ssa.BasicBlock, onPath map[*ssa.BasicBlock]bool, alts [][]*linForm)
	walk = func(b *ssa.BasicBlock, onPath map[*ssa.BasicBlock]bool, alts [][]*linForm) {
		if len(res) > cap {
			complete = false
			return
		}
		if b == target {
			res = append(res, alts...)
			return
		}
		onPath[b] = true
		for _, s := range b.Succs {
			if onPath[s] {
				continue // acyclic paths only (loops: first iteration facts are not assumed)
			}
			na := alts
			if l, ok := edgeLit(b, s); ok {
				cs, feasible := condOnPath(e, l.V, l.Pos, cameFrom, 0)
				if !feasible {
					continue // a boolean phi that is constant along this path decides the branch the other way
				}
				if cs != nil {
					var out [][]*linForm
					for _, base := range alts {
						for _, alt := range cs {
							n := append(append([]*linForm{}, base...), alt...)
							out = append(out, n)
						}
					}
					na = out
				}
			}
			// integer phis of a join block that is not a loop header take the value of the edge followed
			if !isLoopHeader(s) {
				pi := -1
				for k, pr := range s.Preds {
					if pr == b {
						if pi >= 0 {
							pi = -2 // two edges from the same predecessor: ambiguous
							break
						}
						pi = k
					}
				}
				if pi >= 0 {
					var eqs []*linForm
					for _, in := range s.Instrs {
						ph, ok := in.(*ssa.Phi)
						if !ok {
							break
						}
						if bt, isB := ph.Type().Underlying().(*types.Basic); !isB || bt.Info()&types.IsInteger == 0 {
							continue
						}
						d := linVar(e.varName(ph)).sub(e.toLin(ph.Edges[pi], 0))
						eqs = append(eqs, d, newLin().sub(d))
					}
					if len(eqs) > 0 {
						var out [][]*linForm
						for _, base := range na {
							out = append(out, append(append([]*linForm{}, base...), eqs...))
						}
						na = out
					}
				}
			}
			if blockReaches(s, target) || s == target {
				cameFrom[s] = b
				walk(s, onPath, na)
				delete(cameFrom, s)
			}
		}
		delete(onPath, b)
	}
	_ = fn
	walk(fn.Blocks[0], map[*ssa.BasicBlock]bool{}, [][]*linForm{{}})
	return res, complete
}

// proveInRange: on every path to instruction at, lo <= idx and idx <= hiLen + slack where hiLen = len(base).
// slack = -1 for an index (idx <= len-1), 0 for a slice bound (idx <= len).
func (p *Prog) proveInRange(at ssa.Instruction, idx ssa.Value, base ssa.Value, slack int64) (bool, string) {
	e := newLinEnv()
	li := e.toLin(idx, 0)
	// len(base) as a variable
	lenName := "len(" + e.varName(base) + ")"
	e.lens[lenName] = true
	ll := newLin()
	ll.c[lenName] = big.NewRat(1, 1)
	if ms := e.makeOf(base); ms != nil {
		ll = e.toLin(ms.Len, 0)
		lenName = "len(make)=" + ll.String()
	}
	// an array (or pointer to array): the length is the constant of its type
	bt := base.Type().Underlying()
	if pt, isP := bt.(*types.Pointer); isP {
		bt = pt.Elem().Underlying()
	}
	if at, isArr := bt.(*types.Array); isArr {
		ll = newLin()
		ll.k.SetInt64(at.Len())
		lenName = fmt.Sprintf("array length %d", at.Len())
	}
	sets, complete := p.pathConstraintSets(at, e, 3000)
	if !complete {
		return false, "too many paths"
	}
	if len(sets) == 0 {
		return true, "unreachable"
	}
	one := newLin()
	one.k.SetInt64(1)
	// side facts (division case splits, induction bounds) multiply the constraint sets
	for changed := true; changed; {
		changed = false
		nside := len(e.side)
		for _, alts := range e.side[:nside] {
			var out [][]*linForm
			for _, base := range sets {
				for _, alt := range alts {
					out = append(out, append(append([]*linForm{}, base...), alt...))
				}
			}
			sets = out
		}
		e.side = e.side[nside:]
		if len(e.side) > 0 {
			changed = true
		}
		if len(sets) > 20000 {
			return false, "too many case splits"
		}
	}
	for _, cs := range sets {
		axioms := append([]*linForm{}, cs...)
		for ln := range e.lens {
			a := newLin()
			a.c[ln] = big.NewRat(1, 1)
			axioms = append(axioms, a)
		}
		// negation of (idx >= 0): -idx - 1 >= 0
		negLo := newLin().addScaled(li, big.NewRat(-1, 1)).addScaled(one, big.NewRat(-1, 1))
		if !infeasible(append(append([]*linForm{}, axioms...), negLo)) {
			if os.Getenv("BBL_DEBUG_LIN") != "" {
				for _, a := range axioms {
					fmt.Fprintln(os.Stderr, "  AX", a.String(), ">= 0")
				}
				fmt.Fprintln(os.Stderr, "  NEG", negLo.String())
			}
			return false, "cannot prove " + li.String() + " >= 0 from the guards on some path"
		}
		// negation of (idx <= len + slack): idx - len - slack - 1 >= 0
		negHi := li.addScaled(ll, big.NewRat(-1, 1))
		negHi.k.Add(negHi.k, big.NewRat(-slack-1, 1))
		if !infeasible(append(append([]*linForm{}, axioms...), negHi)) {
			if os.Getenv("BBL_DEBUG_LIN") != "" {
				for _, a := range axioms {
					fmt.Fprintln(os.Stderr, "  AX", a.String(), ">= 0")
				}
				fmt.Fprintln(os.Stderr, "  NEGHI", negHi.String())
			}
			return false, "cannot prove " + li.String() + " <= " + lenName + fmt.Sprintf("%+d", slack) + " from the guards on some path"
		}
	}
	return true, fmt.Sprintf("%d paths", len(sets))
}

// makeOf: x is (a single-assignment local holding) a make([]T, n) whose length is never changed.
func (e *linEnv) makeOf(x ssa.Value) *ssa.MakeSlice {
	x = unwrap(x)
	if ms, ok := x.(*ssa.MakeSlice); ok {
		return ms
	}
	if u, ok := x.(*ssa.UnOp); ok && u.Op == token.MUL {
		var al *ssa.Alloc
		switch a := u.X.(type) {
		case *ssa.Alloc:
			al = a
		case *ssa.FreeVar:
			if b, ok := freeVarBinding(a).(*ssa.Alloc); ok {
				al = b
			}
		}
		if al != nil {
			if st := capturedStores(al); len(st) == 1 {
				if ms, ok := unwrap(st[0]).(*ssa.MakeSlice); ok {
					return ms
				}
			}
		}
	}
	return nil
}

func isLoopHeader(b *ssa.BasicBlock) bool {
	for _, p := range b.Preds {
		if b.Dominates(p) {
			return true
		}
	}
	return false
}

// fieldWrittenBetween: can a write to field fv execute after load a and before load b (same function)?
func fieldWrittenBetween(a, b *ssa.UnOp, fv *types.Var) bool {
	fn := a.Parent()
	if fn == nil || b.Parent() != fn {
		return true
	}
	var writers map[*ssa.Function]bool
	for _, blk := range fn.Blocks {
		for _, in := range blk.Instrs {
			w := false
			switch x := in.(type) {
			case *ssa.Store:
				if f, _ := fieldOfAddr(x.Addr); f == fv {
					w = true
				}
			case ssa.CallInstruction:
				if sc := x.Common().StaticCallee(); sc != nil && inModule(sc) && gProg != nil {
					if writers == nil {
						writers = map[*ssa.Function]bool{}
						for _, fw := range gProg.writersOf(fv) {
							writers[fw.Fn] = true
						}
					}
					if writers[sc] {
						w = true
					}
				}
			}
			if w && canFollow(a, in) && canFollow(in, b) {
				return true
			}
		}
	}
	return false
}

func fieldOfAddr(addr ssa.Value) (*types.Var, ssa.Value) {
	if fa, ok := addr.(*ssa.FieldAddr); ok {
		return fieldVar(fa.X.Type(), fa.Field), fa.X
	}
	return nil, nil
}

// condOnPath: what the assertion "v is pos" contributes on the path being walked: the constraints
// of a comparison; for a boolean phi (the value form of && / || that a switch case or an assigned
// condition produces) the operand selected by the edge through which the path entered the phi's
// block. A constant operand of the wrong polarity makes the edge infeasible.
func condOnPath(e *linEnv, v ssa.Value, pos bool, cameFrom map[*ssa.BasicBlock]*ssa.BasicBlock, depth int) ([][]*linForm, bool) {
	v, pos = stripNot(v, pos)
	switch x := v.(type) {
	case *ssa.BinOp:
		return e.fromCmp(x, pos), true
	case *ssa.Const:
		if x.Value != nil && x.Value.Kind() == constant.Bool {
			return nil, constant.BoolVal(x.Value) == pos
		}
	case *ssa.Phi:
		if depth > 6 {
			return nil, true
		}
		pr, ok := cameFrom[x.Block()]
		if !ok {
			return nil, true
		}
		idx := -1
		for k, q := range x.Block().Preds {
			if q == pr {
				if idx >= 0 {
					return nil, true
				}
				idx = k
			}
		}
		if idx < 0 {
			return nil, true
		}
		return condOnPath(e, x.Edges[idx], pos, cameFrom, depth+1)
	}
	return nil, true
}
