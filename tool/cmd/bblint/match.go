package main

import (
	"go/token"
	"go/types"

	"golang.org/x/tools/go/ssa"
)

// eqLit: the literal asserts x == y, through ==, !=, reflect.DeepEqual,
// bytes.Equal or bytes.Compare(..)==0.
func eqLit(l Lit) (ssa.Value, ssa.Value, bool) {
	if b, ok := l.V.(*ssa.BinOp); ok {
		if (b.Op == token.EQL && l.Pos) || (b.Op == token.NEQ && !l.Pos) {
			// bytes.Compare(a,b) == 0
			if k, ok := intConst(b.Y); ok && k == 0 {
				if c, _, ok := isCallTo(b.X, named("bytes.Compare")); ok {
					return c.Call.Args[0], c.Call.Args[1], true
				}
			}
			return b.X, b.Y, true
		}
		return nil, nil, false
	}
	if l.Pos {
		if c, _, ok := isCallTo(l.V, named("reflect.DeepEqual", "bytes.Equal")); ok {
			return c.Call.Args[0], c.Call.Args[1], true
		}
	}
	return nil, nil, false
}

// cmpLit normalises an ordering literal to "a > b" (strict=true) or "a >= b"
// (strict=false) asserted true.
func cmpLit(l Lit) (a, b ssa.Value, strict bool, ok bool) {
	bo, isB := l.V.(*ssa.BinOp)
	if !isB {
		return nil, nil, false, false
	}
	op := bo.Op
	x, y := bo.X, bo.Y
	if !l.Pos {
		switch op {
		case token.GTR:
			op = token.LEQ
		case token.GEQ:
			op = token.LSS
		case token.LSS:
			op = token.GEQ
		case token.LEQ:
			op = token.GTR
		default:
			return nil, nil, false, false
		}
	}
	switch op {
	case token.GTR:
		return x, y, true, true
	case token.GEQ:
		return x, y, false, true
	case token.LSS:
		return y, x, true, true
	case token.LEQ:
		return y, x, false, true
	}
	return nil, nil, false, false
}

// lookupLit: the literal is the comma-ok of a map lookup; returns the lookup
// and whether it asserts presence.
func lookupLit(l Lit) (*ssa.Lookup, bool, bool) {
	e, ok := l.V.(*ssa.Extract)
	if !ok || e.Index != 1 {
		return nil, false, false
	}
	lk, ok := e.Tuple.(*ssa.Lookup)
	if !ok || !lk.CommaOk {
		return nil, false, false
	}
	return lk, l.Pos, true
}

// flowsFrom: v IS (a copy of) a value satisfying pred — only value-preserving
// steps are followed: conversions, phi merges, loads of locals, whole-slice
// expressions. Arithmetic, len, and calls are not crossed (unlike dependsOn).
func flowsFrom(v ssa.Value, pred func(ssa.Value) bool) bool { return flowsFromOpt(v, pred, true) }

// flowsFromLocal: same, but a parameter of the function the walk started in is a leaf (the
// callers' arguments are not looked at).
func flowsFromLocal(v ssa.Value, pred func(ssa.Value) bool) bool { return flowsFromOpt(v, pred, false) }

func flowsFromOpt(v ssa.Value, pred func(ssa.Value) bool, climb bool) bool {
	type key struct {
		v   ssa.Value
		top ssa.CallInstruction
	}
	seen := map[key]bool{}
	var walk func(ssa.Value, []ssa.CallInstruction, int) bool
	walk = func(x ssa.Value, stack []ssa.CallInstruction, up int) bool {
		if x == nil {
			return false
		}
		var top ssa.CallInstruction
		if len(stack) > 0 {
			top = stack[len(stack)-1]
		}
		if seen[key{x, top}] {
			return false
		}
		seen[key{x, top}] = true
		x = unwrap(x)
		if pred(x) {
			return true
		}
		switch t := x.(type) {
		case *ssa.Phi:
			for _, e := range t.Edges {
				if walk(e, stack, up) {
					return true
				}
			}
		case *ssa.UnOp:
			if t.Op == token.MUL {
				var al *ssa.Alloc
				switch a := t.X.(type) {
				case *ssa.Alloc:
					al = a
				case *ssa.FreeVar:
					if b, ok := freeVarBinding(a).(*ssa.Alloc); ok {
						al = b
					}
				}
				if al != nil {
					for _, val := range capturedStores(al) {
						if walk(val, stack, up) {
							return true
						}
					}
				}
				// a field of a struct carried in a local variable
				if sal, fidx, ok := localFieldLoad(t); ok {
					for _, val := range localStructFieldSources(sal, fidx, 0) {
						if walk(val, stack, up) {
							return true
						}
					}
				}
			}
		case *ssa.FreeVar:
			if b := freeVarBinding(t); b != nil {
				return walk(b, stack, up)
			}
		case *ssa.Slice:
			if t.Low == nil && t.High == nil {
				return walk(t.X, stack, up)
			}
		case *ssa.Parameter:
			// the value is whatever the caller passed: the call we descended through, or
			// (unknown context) every static call site in the module
			idx := paramIndex(t)
			if idx < 0 {
				return false
			}
			if len(stack) > 0 {
				c := stack[len(stack)-1]
				if args := c.Common().Args; c.Common().StaticCallee() == t.Parent() && idx < len(args) {
					return walk(args[idx], stack[:len(stack)-1], up)
				}
				return false
			}
			if up >= maxCallDepth || !climb {
				return false
			}
			for _, c := range callSitesOf(t.Parent()) {
				if args := c.Common().Args; idx < len(args) {
					if walk(args[idx], nil, up+1) {
						return true
					}
				}
			}
		case *ssa.Call, *ssa.Extract:
			// the result of a module helper IS one of the values it returns
			if c, h, idx := moduleCallee(x); h != nil && len(stack) < maxCallDepth {
				for _, b := range h.Blocks {
					if ret, ok := b.Instrs[len(b.Instrs)-1].(*ssa.Return); ok && idx < len(ret.Results) {
						if walk(ret.Results[idx], append(append([]ssa.CallInstruction{}, stack...), c), up) {
							return true
						}
					}
				}
			}
		}
		return false
	}
	return walk(v, nil, 0)
}

// capturedStores: every value stored directly into local al, in its function and in the
// closures that capture it.
func capturedStores(al *ssa.Alloc) []ssa.Value {
	var res []ssa.Value
	refs := al.Referrers()
	if refs == nil {
		return nil
	}
	for _, r := range *refs {
		switch x := r.(type) {
		case *ssa.Store:
			if x.Addr == al {
				res = append(res, x.Val)
			}
		case *ssa.MakeClosure:
			fn, ok := x.Fn.(*ssa.Function)
			if !ok {
				continue
			}
			for i, b := range x.Bindings {
				if b != ssa.Value(al) || i >= len(fn.FreeVars) {
					continue
				}
				fv := fn.FreeVars[i]
				if fr := fv.Referrers(); fr != nil {
					for _, u := range *fr {
						if st, ok := u.(*ssa.Store); ok && st.Addr == ssa.Value(fv) {
							res = append(res, st.Val)
						}
					}
				}
			}
		}
	}
	return res
}

func flowsFromCall(v ssa.Value, m fnMatch, idx int) bool {
	return flowsFrom(v, func(x ssa.Value) bool {
		_, i, ok := isCallTo(x, m)
		return ok && (i == idx || (i == -1 && idx == 0))
	})
}

func flowsFromField(v ssa.Value, names ...string) bool {
	return flowsFrom(v, func(x ssa.Value) bool {
		fv, _ := fieldOf(x)
		if fv == nil {
			return false
		}
		for _, n := range names {
			if refName(fv) == n {
				return true
			}
		}
		return false
	})
}

func depOnField(v ssa.Value, names ...string) bool {
	return dependsOn(v, func(x ssa.Value) bool {
		fv, _ := fieldOf(x)
		if fv == nil {
			return false
		}
		for _, n := range names {
			if refName(fv) == n {
				return true
			}
		}
		return false
	})
}

func depOnFieldVar(v ssa.Value, f *types.Var) bool {
	return dependsOn(v, func(x ssa.Value) bool { fv, _ := fieldOf(x); return fv != nil && fv == f })
}

func depOnCall(v ssa.Value, m fnMatch) bool {
	return dependsOn(v, func(x ssa.Value) bool { _, _, ok := isCallTo(x, m); return ok })
}

func depOnCallIdx(v ssa.Value, m fnMatch, idx int) bool {
	return dependsOn(v, func(x ssa.Value) bool {
		_, i, ok := isCallTo(x, m)
		return ok && (i == idx || (i == -1 && idx == 0))
	})
}

func depOnValue(v ssa.Value, w ssa.Value) bool {
	return dependsOn(v, func(x ssa.Value) bool { return x == w })
}

// lastArg returns the last argument of a call (robust to receiver / invoke mode).
func lastArg(c ssa.CallInstruction) ssa.Value {
	a := c.Common().Args
	if len(a) == 0 {
		return nil
	}
	return a[len(a)-1]
}

// recvOf returns the receiver value of a method call.
func recvOf(c ssa.CallInstruction) ssa.Value {
	cc := c.Common()
	if cc.IsInvoke() {
		return cc.Value
	}
	if len(cc.Args) > 0 && cc.Signature().Recv() != nil {
		return cc.Args[0]
	}
	return nil
}

// argN returns the n-th declared parameter's argument (0-based, excluding receiver).
func argN(c ssa.CallInstruction, n int) ssa.Value {
	cc := c.Common()
	off := 0
	if !cc.IsInvoke() && cc.Signature().Recv() != nil {
		off = 1
	}
	if off+n < len(cc.Args) {
		return cc.Args[off+n]
	}
	return nil
}

// isLenOf: v is len(x); returns x.
func isLenOf(v ssa.Value) (ssa.Value, bool) {
	c, ok := unwrap(v).(*ssa.Call)
	if !ok {
		return nil, false
	}
	b, ok := c.Call.Value.(*ssa.Builtin)
	if !ok || b.Name() != "len" || len(c.Call.Args) != 1 {
		return nil, false
	}
	return c.Call.Args[0], true
}

// dynCallThroughField: c calls a function value loaded from struct field f.
func dynCallThroughField(c ssa.CallInstruction, f *types.Var) bool {
	cc := c.Common()
	if cc.IsInvoke() || cc.StaticCallee() != nil {
		return false
	}
	fv, _ := fieldOf(cc.Value)
	return fv != nil && fv == f
}

// checkAll evaluates "every path to at satisfies formula over preds" and also
// works for return points.
func (p *Prog) holdsAtRet(rp retPoint, preds []Pred, formula func(uint32) bool) (bool, uint32) {
	if rp.pred != nil {
		return p.allPathsEdge(rp.pred, rp.ret.Block(), preds, formula)
	}
	return p.allPaths(rp.ret, preds, formula)
}

// callsAnywhere lists call sites matching m in all module functions.
func (p *Prog) callsAnywhere(m fnMatch) []ssa.CallInstruction {
	var res []ssa.CallInstruction
	for _, fn := range p.Mod {
		res = append(res, callsIn(fn, m)...)
	}
	return res
}

// incrementsOf: the "+1" instructions that feed counter value a (a loop-carried
// phi or a local alloc).
func incrementsOf(a ssa.Value) []*ssa.BinOp {
	var res []*ssa.BinOp
	seen := map[ssa.Value]bool{}
	var walk func(ssa.Value)
	walk = func(x ssa.Value) {
		if x == nil || seen[x] {
			return
		}
		seen[x] = true
		switch t := x.(type) {
		case *ssa.Phi:
			for _, e := range t.Edges {
				walk(e)
			}
		case *ssa.BinOp:
			if t.Op == token.ADD {
				if k, ok := intConst(t.Y); ok && k == 1 {
					res = append(res, t)
					walk(t.X)
					return
				}
				if k, ok := intConst(t.X); ok && k == 1 {
					res = append(res, t)
					walk(t.Y)
					return
				}
			}
		case *ssa.UnOp:
			if t.Op == token.MUL {
				if al, ok := t.X.(*ssa.Alloc); ok {
					if refs := al.Referrers(); refs != nil {
						for _, r := range *refs {
							if st, ok := r.(*ssa.Store); ok && st.Addr == al {
								walk(st.Val)
							}
						}
					}
				}
			}
		case *ssa.Convert:
			walk(t.X)
		case *ssa.ChangeType:
			walk(t.X)
		case *ssa.Call, *ssa.Extract:
			// a counter computed by a module helper: the increments are the helper's
			if _, h, idx := moduleCallee(x); h != nil {
				for _, b := range h.Blocks {
					if ret, ok := b.Instrs[len(b.Instrs)-1].(*ssa.Return); ok && idx < len(ret.Results) {
						walk(ret.Results[idx])
					}
				}
			}
		}
	}
	walk(a)
	return res
}

// loopSource: what does the innermost loop containing block b iterate over?
// Returns the ranged-over value (map/slice/string) or nil.
func loopSource(fn *ssa.Function, b *ssa.BasicBlock) (ssa.Value, *loopInfo) {
	fn = b.Parent() // the block may belong to a helper the value was traced into
	lp := innermostLoop(naturalLoops(fn), b)
	if lp == nil {
		return nil, nil
	}
	// map / string range: a Next instruction in the loop whose iterator is a Range
	for blk := range lp.body {
		for _, in := range blk.Instrs {
			if nx, ok := in.(*ssa.Next); ok {
				if rg, ok := nx.Iter.(*ssa.Range); ok {
					return rg.X, lp
				}
			}
		}
	}
	// slice range: head condition "i < len(s)"
	if n := len(lp.head.Instrs); n > 0 {
		if iff, ok := lp.head.Instrs[n-1].(*ssa.If); ok {
			if bo, ok := iff.Cond.(*ssa.BinOp); ok {
				for _, side := range []ssa.Value{bo.X, bo.Y} {
					if s, ok := isLenOf(side); ok {
						return s, lp
					}
				}
			}
		}
	}
	return nil, lp
}

// commonOrigin: a and b are (copies of) one value: their value-preserving provenance chains
// (conversions, phis, single-assignment locals, bound helper parameters and results) meet in a
// non-constant value.
func commonOrigin(a, b ssa.Value) bool {
	if sameOrigin(a, b) {
		return true
	}
	parentOf := func(v ssa.Value) *ssa.Function {
		switch x := v.(type) {
		case ssa.Instruction:
			return x.Parent()
		case *ssa.Parameter:
			return x.Parent()
		case *ssa.FreeVar:
			return x.Parent()
		}
		return nil
	}
	home := parentOf(a)
	collect := func(v ssa.Value) map[ssa.Value]bool {
		m := map[ssa.Value]bool{}
		flowsFromLocal(v, func(x ssa.Value) bool {
			// only values of the function the comparison is made in: two calls of one helper are
			// two values, whatever the helper returns
			if _, isC := x.(*ssa.Const); !isC && (home == nil || parentOf(x) == home) {
				m[x] = true
			}
			return false
		})
		return m
	}
	ma := collect(a)
	for x := range collect(b) {
		if ma[x] {
			return true
		}
	}
	return false
}

// localStructFieldSources: the values that field idx of the struct held in local variable al (or of
// struct value sv) may hold: stores into the field address, and whole-struct assignments traced back
// to their own field stores (composite literals, copies between locals, helper results, phis).
func localStructFieldSources(al *ssa.Alloc, idx int, depth int) []ssa.Value {
	var res []ssa.Value
	if al == nil || depth > 4 {
		return nil
	}
	refs := al.Referrers()
	if refs == nil {
		return nil
	}
	for _, r := range *refs {
		switch x := r.(type) {
		case *ssa.FieldAddr:
			if x.X == ssa.Value(al) && x.Field == idx {
				if fr := x.Referrers(); fr != nil {
					for _, u := range *fr {
						if st, ok := u.(*ssa.Store); ok && st.Addr == ssa.Value(x) {
							res = append(res, st.Val)
						}
					}
				}
			}
		case *ssa.Store:
			if x.Addr == ssa.Value(al) {
				res = append(res, structValueFieldSources(x.Val, idx, depth+1)...)
			}
		}
	}
	return res
}

func structValueFieldSources(sv ssa.Value, idx int, depth int) []ssa.Value {
	if sv == nil || depth > 4 {
		return nil
	}
	switch t := sv.(type) {
	case *ssa.UnOp:
		if t.Op == token.MUL {
			if al, ok := t.X.(*ssa.Alloc); ok {
				return localStructFieldSources(al, idx, depth+1)
			}
		}
	case *ssa.Phi:
		var res []ssa.Value
		for _, e := range t.Edges {
			res = append(res, structValueFieldSources(e, idx, depth+1)...)
		}
		return res
	case *ssa.Call, *ssa.Extract:
		if _, h, ri := moduleCallee(sv); h != nil {
			var res []ssa.Value
			for _, b := range h.Blocks {
				if ret, ok := b.Instrs[len(b.Instrs)-1].(*ssa.Return); ok && ri < len(ret.Results) {
					res = append(res, structValueFieldSources(ret.Results[ri], idx, depth+1)...)
				}
			}
			return res
		}
	}
	return nil
}

// localFieldLoad: v loads field idx of a struct held in a local variable.
func localFieldLoad(v ssa.Value) (*ssa.Alloc, int, bool) {
	u, ok := v.(*ssa.UnOp)
	if !ok || u.Op != token.MUL {
		return nil, 0, false
	}
	fa, ok := u.X.(*ssa.FieldAddr)
	if !ok {
		return nil, 0, false
	}
	al, ok := fa.X.(*ssa.Alloc)
	if !ok {
		return nil, 0, false
	}
	if _, isStruct := al.Type().(*types.Pointer).Elem().Underlying().(*types.Struct); !isStruct {
		return nil, 0, false
	}
	return al, fa.Field, true
}

// resolveLocalValue: a value read back from a single-assignment local variable, or from a field of
// a struct held in a local variable with a single possible source, is that source.
func resolveLocalValue(v ssa.Value) ssa.Value {
	for i := 0; i < 6; i++ {
		v = unwrap(v)
		if al, idx, ok := localFieldLoad(v); ok {
			if srcs := localStructFieldSources(al, idx, 0); len(srcs) == 1 {
				v = srcs[0]
				continue
			}
		}
		if u, ok := v.(*ssa.UnOp); ok && u.Op == token.MUL {
			if al, isAl := u.X.(*ssa.Alloc); isAl {
				if st := capturedStores(al); len(st) == 1 {
					v = st[0]
					continue
				}
			}
		}
		break
	}
	return v
}

// allSources: every source of v (through conversions, phis and single-function locals) satisfies
// pred; arithmetic or any other producer is a failing source.
func allSources(v ssa.Value, pred func(ssa.Value) bool) bool {
	seen := map[ssa.Value]bool{}
	var walk func(x ssa.Value, depth int) bool
	walk = func(x ssa.Value, depth int) bool {
		x = unwrap(x)
		if seen[x] {
			return true
		}
		seen[x] = true
		if depth > 12 {
			return false
		}
		if pred(x) {
			return true
		}
		// a field of a struct carried in a local variable / a struct value: the values that field may hold
		if al, idx, ok := localFieldLoad(x); ok {
			srcs := localStructFieldSources(al, idx, 0)
			for _, sv := range srcs {
				if !walk(sv, depth+1) {
					return false
				}
			}
			return len(srcs) > 0
		}
		if fx, ok := x.(*ssa.Field); ok {
			srcs := structValueFieldSources(fx.X, fx.Field, 0)
			for _, sv := range srcs {
				if !walk(sv, depth+1) {
					return false
				}
			}
			return len(srcs) > 0
		}
		switch t := x.(type) {
		case *ssa.Phi:
			for _, e := range t.Edges {
				if !walk(e, depth+1) {
					return false
				}
			}
			return len(t.Edges) > 0
		case *ssa.UnOp:
			if t.Op == token.MUL {
				if al, ok := t.X.(*ssa.Alloc); ok {
					st := capturedStores(al)
					for _, sv := range st {
						if !walk(sv, depth+1) {
							return false
						}
					}
					return len(st) > 0
				}
			}
		case *ssa.Slice:
			// the varargs array of append(xs, a, b): its elements
			if al, ok := t.X.(*ssa.Alloc); ok {
				sts := storedThrough(al)
				for _, st := range sts {
					if !walk(st.Val, depth+1) {
						return false
					}
				}
				return len(sts) > 0
			}
		}
		return false
	}
	return walk(v, 0)
}
