package main

import (
	"fmt"
	"go/constant"
	"go/token"
	"go/types"
	"math/big"

	"golang.org/x/tools/go/ssa"
)

// QA is an eventually periodic quasi-affine function of one non-negative
// integer n:  for n < N0 the explicit table small[n]; for n >= N0, writing
// n = P*q + r (0 <= r < P):  v(n) = A[r]*q + B[r].  Coefficients are exact
// rationals. Boolean functions use 0/1.
const qaN0 = 48

type QA struct {
	small []*big.Rat
	P     int
	A, B  []*big.Rat
}

func rat(i int64) *big.Rat { return new(big.Rat).SetInt64(i) }

func qaConst(c *big.Rat) *QA {
	q := &QA{P: 1, A: []*big.Rat{rat(0)}, B: []*big.Rat{new(big.Rat).Set(c)}}
	for i := 0; i < qaN0; i++ {
		q.small = append(q.small, new(big.Rat).Set(c))
	}
	return q
}

func qaIdent() *QA {
	q := &QA{P: 1, A: []*big.Rat{rat(1)}, B: []*big.Rat{rat(0)}}
	for i := 0; i < qaN0; i++ {
		q.small = append(q.small, rat(int64(i)))
	}
	return q
}

// At evaluates the closed form / table at n.
func (x *QA) At(n int) *big.Rat {
	if n < qaN0 {
		return x.small[n]
	}
	q, r := n/x.P, n%x.P
	v := new(big.Rat).Mul(x.A[r], rat(int64(q)))
	return v.Add(v, x.B[r])
}

func gcd(a, b int) int {
	for b != 0 {
		a, b = b, a%b
	}
	return a
}

// refine re-expresses x with period k*P.
func (x *QA) refine(k int) *QA {
	if k == 1 {
		return x
	}
	np := x.P * k
	y := &QA{small: x.small, P: np, A: make([]*big.Rat, np), B: make([]*big.Rat, np)}
	for rp := 0; rp < np; rp++ {
		r := rp % x.P
		off := rp / x.P
		y.A[rp] = new(big.Rat).Mul(x.A[r], rat(int64(k)))
		b := new(big.Rat).Mul(x.A[r], rat(int64(off)))
		y.B[rp] = b.Add(b, x.B[r])
	}
	return y
}

func align(x, y *QA) (*QA, *QA) {
	l := x.P / gcd(x.P, y.P) * y.P
	return x.refine(l / x.P), y.refine(l / y.P)
}

func qaBin(x, y *QA, f func(a, b *big.Rat) *big.Rat, lin bool, fa func(ax, ay *big.Rat) *big.Rat) *QA {
	x, y = align(x, y)
	z := &QA{P: x.P, A: make([]*big.Rat, x.P), B: make([]*big.Rat, x.P)}
	for i := 0; i < qaN0; i++ {
		z.small = append(z.small, f(x.small[i], y.small[i]))
	}
	for r := 0; r < x.P; r++ {
		z.A[r] = fa(x.A[r], y.A[r])
		z.B[r] = f(x.B[r], y.B[r])
	}
	return z
}

func qaAdd(x, y *QA) *QA {
	add := func(a, b *big.Rat) *big.Rat { return new(big.Rat).Add(a, b) }
	return qaBin(x, y, add, true, add)
}
func qaSub(x, y *QA) *QA {
	sub := func(a, b *big.Rat) *big.Rat { return new(big.Rat).Sub(a, b) }
	return qaBin(x, y, sub, true, sub)
}

func (x *QA) isConst() (*big.Rat, bool) {
	for r := 0; r < x.P; r++ {
		if x.A[r].Sign() != 0 || x.B[r].Cmp(x.B[0]) != 0 {
			return nil, false
		}
	}
	for _, s := range x.small {
		if s.Cmp(x.B[0]) != 0 {
			return nil, false
		}
	}
	return x.B[0], true
}

func qaScale(x *QA, c *big.Rat) *QA {
	z := &QA{P: x.P, A: make([]*big.Rat, x.P), B: make([]*big.Rat, x.P)}
	for _, s := range x.small {
		z.small = append(z.small, new(big.Rat).Mul(s, c))
	}
	for r := 0; r < x.P; r++ {
		z.A[r] = new(big.Rat).Mul(x.A[r], c)
		z.B[r] = new(big.Rat).Mul(x.B[r], c)
	}
	return z
}

func ratFloor(a *big.Rat) *big.Rat {
	n, d := a.Num(), a.Denom()
	q := new(big.Int)
	m := new(big.Int)
	q.DivMod(n, d, m) // Euclidean: m >= 0, so q = floor
	return new(big.Rat).SetInt(q)
}
func ratCeil(a *big.Rat) *big.Rat {
	f := ratFloor(a)
	if f.Cmp(a) == 0 {
		return f
	}
	return f.Add(f, rat(1))
}
func ratTrunc(a *big.Rat) *big.Rat {
	if a.Sign() >= 0 {
		return ratFloor(a)
	}
	return ratCeil(a)
}

// qaRound applies floor / ceil / trunc. For n >= N0 the period is refined so
// that A*q is an integer for every q; trunc additionally needs a sign that is
// uniform (value >= 0 for all q >= q0, or <= 0).
func qaRound(x *QA, mode string) (*QA, error) {
	// refine by the lcm of the denominators of A
	k := 1
	for r := 0; r < x.P; r++ {
		d := int(x.A[r].Denom().Int64())
		k = k / gcd(k, d) * d
	}
	x = x.refine(k)
	z := &QA{P: x.P, A: make([]*big.Rat, x.P), B: make([]*big.Rat, x.P)}
	rf := map[string]func(*big.Rat) *big.Rat{"floor": ratFloor, "ceil": ratCeil, "trunc": ratTrunc}[mode]
	for _, s := range x.small {
		z.small = append(z.small, rf(s))
	}
	for r := 0; r < x.P; r++ {
		if !x.A[r].IsInt() {
			return nil, fmt.Errorf("non-integer slope after refinement")
		}
		z.A[r] = new(big.Rat).Set(x.A[r])
		switch mode {
		case "floor":
			z.B[r] = ratFloor(x.B[r])
		case "ceil":
			z.B[r] = ratCeil(x.B[r])
		case "trunc":
			// value at first q of the closed-form range
			q0 := (qaN0 - r + x.P - 1) / x.P
			v0 := new(big.Rat).Add(new(big.Rat).Mul(x.A[r], rat(int64(q0))), x.B[r])
			switch {
			case x.B[r].IsInt():
				z.B[r] = new(big.Rat).Set(x.B[r])
			case x.A[r].Sign() >= 0 && v0.Sign() >= 0:
				z.B[r] = ratFloor(x.B[r])
			case x.A[r].Sign() <= 0 && v0.Sign() <= 0:
				z.B[r] = ratCeil(x.B[r])
			default:
				return nil, fmt.Errorf("truncation of a value whose sign is not uniform")
			}
		}
	}
	return z, nil
}

// qaCmp returns the 0/1 function (x op y); error if not uniformly decidable
// per residue class beyond N0.
func qaCmp(x, y *QA, op token.Token) (*QA, error) {
	d := qaSub(x, y)
	z := &QA{P: d.P, A: make([]*big.Rat, d.P), B: make([]*big.Rat, d.P)}
	test := func(v *big.Rat) bool {
		s := v.Sign()
		switch op {
		case token.GTR:
			return s > 0
		case token.GEQ:
			return s >= 0
		case token.LSS:
			return s < 0
		case token.LEQ:
			return s <= 0
		case token.EQL:
			return s == 0
		case token.NEQ:
			return s != 0
		}
		return false
	}
	b2r := func(b bool) *big.Rat {
		if b {
			return rat(1)
		}
		return rat(0)
	}
	for _, s := range d.small {
		z.small = append(z.small, b2r(test(s)))
	}
	for r := 0; r < d.P; r++ {
		q0 := (qaN0 - r + d.P - 1) / d.P
		v0 := new(big.Rat).Add(new(big.Rat).Mul(d.A[r], rat(int64(q0))), d.B[r])
		a := d.A[r].Sign()
		var res bool
		switch {
		case a == 0:
			res = test(v0)
		case a > 0: // increasing: sign can only go up
			if v0.Sign() > 0 {
				res = test(v0)
			} else {
				return nil, fmt.Errorf("comparison changes truth value beyond n=%d (residue %d mod %d)", qaN0, r, d.P)
			}
		default:
			if v0.Sign() < 0 {
				res = test(v0)
			} else {
				return nil, fmt.Errorf("comparison changes truth value beyond n=%d (residue %d mod %d)", qaN0, r, d.P)
			}
		}
		z.A[r] = rat(0)
		z.B[r] = b2r(res)
	}
	return z, nil
}

func qaITE(c, x, y *QA) *QA {
	c, x = align(c, x)
	c, y = align(c, y)
	x, y = align(x, y)
	c, x = align(c, x)
	z := &QA{P: c.P, A: make([]*big.Rat, c.P), B: make([]*big.Rat, c.P)}
	for i := 0; i < qaN0; i++ {
		if c.small[i].Sign() != 0 {
			z.small = append(z.small, x.small[i])
		} else {
			z.small = append(z.small, y.small[i])
		}
	}
	for r := 0; r < c.P; r++ {
		if c.B[r].Sign() != 0 {
			z.A[r], z.B[r] = x.A[r], x.B[r]
		} else {
			z.A[r], z.B[r] = y.A[r], y.B[r]
		}
	}
	return z
}

// qaHolds: does the 0/1 function c hold for every n >= from?
func qaHolds(c *QA, from int) (bool, int) {
	for n := from; n < qaN0; n++ {
		if c.small[n].Sign() == 0 {
			return false, n
		}
	}
	for r := 0; r < c.P; r++ {
		if c.B[r].Sign() == 0 {
			q0 := (qaN0 - r + c.P - 1) / c.P
			return false, q0*c.P + r
		}
	}
	return true, 0
}

func (x *QA) String() string {
	s := fmt.Sprintf("n<%d: table; n=%dq+r:", qaN0, x.P)
	for r := 0; r < x.P; r++ {
		s += fmt.Sprintf(" r=%d: %sq+%s;", r, x.A[r].RatString(), x.B[r].RatString())
	}
	s += " first values:"
	for n := 0; n < 10; n++ {
		s += " " + x.small[n].RatString()
	}
	return s
}

/* ---------- evaluation of SSA values ---------- */

type qaEval struct {
	p       *Prog
	nFields map[*types.Var]bool // len(field) == n
	nValues map[ssa.Value]bool  // values that ARE n (e.g. len of the analysed slice)
	depth   int
	trace   []string
}

type qaErr struct {
	at  ssa.Value
	msg string
}

func (e *qaErr) Error() string { return e.msg }

func (e *qaEval) fail(v ssa.Value, f string, a ...interface{}) error {
	return &qaErr{at: v, msg: fmt.Sprintf(f, a...)}
}

func (e *qaEval) eval(v ssa.Value) (*QA, error) {
	if e.nValues[v] {
		return qaIdent(), nil
	}
	switch x := v.(type) {
	case *ssa.Const:
		if x.Value == nil {
			return nil, e.fail(v, "nil constant")
		}
		switch x.Value.Kind() {
		case constant.Int:
			i, ok := constant.Int64Val(x.Value)
			if !ok {
				return nil, e.fail(v, "constant out of range")
			}
			return qaConst(rat(i)), nil
		case constant.Float:
			r, ok := new(big.Rat).SetString(x.Value.ExactString())
			if !ok {
				return nil, e.fail(v, "float constant")
			}
			return qaConst(r), nil
		}
		return nil, e.fail(v, "unsupported constant %s", x)
	case *ssa.Convert:
		in, err := e.eval(x.X)
		if err != nil {
			return nil, err
		}
		from, to := x.X.Type().Underlying().(*types.Basic), x.Type().Underlying().(*types.Basic)
		if from == nil || to == nil {
			return nil, e.fail(v, "unsupported conversion")
		}
		if to.Info()&types.IsInteger != 0 && from.Info()&types.IsFloat != 0 {
			return qaRound(in, "trunc")
		}
		return in, nil // int->float (exact below 2^53), int->int (no overflow assumed)
	case *ssa.ChangeType:
		return e.eval(x.X)
	case *ssa.BinOp:
		l, err := e.eval(x.X)
		if err != nil {
			return nil, err
		}
		r, err := e.eval(x.Y)
		if err != nil {
			return nil, err
		}
		isFloat := false
		if b, ok := x.Type().Underlying().(*types.Basic); ok && b.Info()&types.IsFloat != 0 {
			isFloat = true
		}
		switch x.Op {
		case token.ADD:
			return qaAdd(l, r), nil
		case token.SUB:
			return qaSub(l, r), nil
		case token.MUL:
			if c, ok := l.isConst(); ok {
				return qaScale(r, c), nil
			}
			if c, ok := r.isConst(); ok {
				return qaScale(l, c), nil
			}
			return nil, e.fail(v, "product of two non-constant values")
		case token.QUO:
			c, ok := r.isConst()
			if !ok || c.Sign() == 0 {
				return nil, e.fail(v, "division by a non-constant or zero")
			}
			d := qaScale(l, new(big.Rat).Inv(c))
			if isFloat {
				return d, nil
			}
			return qaRound(d, "trunc")
		case token.REM:
			c, ok := r.isConst()
			if !ok || c.Sign() == 0 {
				return nil, e.fail(v, "modulo by a non-constant or zero")
			}
			d, err := qaRound(qaScale(l, new(big.Rat).Inv(c)), "trunc")
			if err != nil {
				return nil, err
			}
			return qaSub(l, qaScale(d, c)), nil
		case token.GTR, token.GEQ, token.LSS, token.LEQ, token.EQL, token.NEQ:
			return qaCmp(l, r, x.Op)
		}
		return nil, e.fail(v, "unsupported operator %s", x.Op)
	case *ssa.UnOp:
		if x.Op == token.NOT {
			in, err := e.eval(x.X)
			if err != nil {
				return nil, err
			}
			return qaSub(qaConst(rat(1)), in), nil
		}
		if x.Op == token.SUB {
			in, err := e.eval(x.X)
			if err != nil {
				return nil, err
			}
			return qaScale(in, rat(-1)), nil
		}
		if x.Op == token.MUL {
			return e.evalLoad(x)
		}
	case *ssa.Call:
		if bi, ok := x.Call.Value.(*ssa.Builtin); ok && bi.Name() == "len" {
			if fv, _ := fieldOf(x.Call.Args[0]); fv != nil && e.nFields[fv] {
				return qaIdent(), nil
			}
			if e.nValues[x.Call.Args[0]] {
				return qaIdent(), nil
			}
			return nil, e.fail(v, "len of something that is not the analysed set")
		}
		f := calleeFunc(x.Common())
		if f != nil {
			switch shortName(f) {
			case "math.Ceil", "math.Floor":
				in, err := e.eval(x.Call.Args[0])
				if err != nil {
					return nil, err
				}
				if f.Name() == "Ceil" {
					return qaRound(in, "ceil")
				}
				return qaRound(in, "floor")
			}
		}
		if sf := x.Call.StaticCallee(); sf != nil && inModule(sf) && len(sf.Blocks) > 0 && e.depth < 3 {
			// inline a pure accessor: no parameters besides the receiver
			if sf.Signature.Params().Len() == 0 && sf.Signature.Results().Len() == 1 {
				e.depth++
				defer func() { e.depth-- }()
				return e.evalReturn(sf)
			}
		}
		return nil, e.fail(v, "call to %v has no summary", x.Call.Value)
	case *ssa.Phi:
		return e.evalPhi(x)
	}
	return nil, e.fail(v, "unsupported value %T %s", v, v)
}

// evalReturn: the value returned by fn (single result), joining all returns (must agree).
func (e *qaEval) evalReturn(fn *ssa.Function) (*QA, error) {
	// two returns under one two-way branch (`if c { return x }; return y`): if-then-else of the two values
	var rets []*ssa.Return
	for _, b := range fn.Blocks {
		if b.Index != 0 && len(b.Preds) == 0 {
			continue
		}
		if ret, ok := b.Instrs[len(b.Instrs)-1].(*ssa.Return); ok {
			rets = append(rets, ret)
		}
	}
	if len(rets) == 2 {
		d := rets[0].Block()
		for d != nil && !d.Dominates(rets[1].Block()) {
			d = d.Idom()
		}
		if d != nil && len(d.Succs) == 2 {
			if iff, ok := d.Instrs[len(d.Instrs)-1].(*ssa.If); ok {
				side := func(b *ssa.BasicBlock) int {
					for k, sx := range d.Succs {
						if sx == b || sx.Dominates(b) {
							return k
						}
					}
					return -1
				}
				s0, s1 := side(rets[0].Block()), side(rets[1].Block())
				if s0 >= 0 && s1 >= 0 && s0 != s1 {
					c, err := e.eval(iff.Cond)
					if err == nil {
						v0, err0 := e.eval(rets[0].Results[0])
						v1, err1 := e.eval(rets[1].Results[0])
						if err0 == nil && err1 == nil {
							if s0 == 0 {
								return qaITE(c, v0, v1), nil
							}
							return qaITE(c, v1, v0), nil
						}
					}
				}
			}
		}
	}
	var res *QA
	for _, b := range fn.Blocks {
		if b.Index != 0 && len(b.Preds) == 0 {
			continue
		}
		ret, ok := b.Instrs[len(b.Instrs)-1].(*ssa.Return)
		if !ok {
			continue
		}
		v, err := e.eval(ret.Results[0])
		if err != nil {
			return nil, err
		}
		if res == nil {
			res = v
		} else if !qaEqual(res, v, 0) {
			return nil, e.fail(ret.Results[0], "returns of %s disagree", fn.Name())
		}
	}
	if res == nil {
		return nil, fmt.Errorf("no return in %s", fn.Name())
	}
	return res, nil
}

func qaEqual(x, y *QA, from int) bool {
	c, err := qaCmp(x, y, token.EQL)
	if err != nil {
		return false
	}
	ok, _ := qaHolds(c, from)
	return ok
}

// evalLoad handles *p where p is (a) a local Alloc, (b) a pointer loaded from a
// struct field (memo idiom: the field is written in the same function with the
// address of a local).
func (e *qaEval) evalLoad(u *ssa.UnOp) (*QA, error) {
	switch ptr := u.X.(type) {
	case *ssa.Alloc:
		return e.allocValueAt(ptr, u)
	case *ssa.UnOp:
		if ptr.Op == token.MUL {
			if fa, ok := ptr.X.(*ssa.FieldAddr); ok {
				fv := fieldVar(fa.X.Type(), fa.Field)
				// all stores to this field in the module must be in this function (memo written only by its getter)
				var res *QA
				n := 0
				for _, w := range e.p.writersOf(fv) {
					if w.Fn != u.Parent() {
						// other writers (e.g. a cache reset to nil) are fine only if they store nil
						if c, ok := w.Val.(*ssa.Const); ok && c.Value == nil {
							continue
						}
						return nil, e.fail(u, "memo field %s is also written in %s", fv.Name(), w.Fn.Name())
					}
					st, ok := w.Instr.(*ssa.Store)
					if !ok {
						return nil, e.fail(u, "unsupported write to memo field")
					}
					al, ok := st.Val.(*ssa.Alloc)
					if !ok {
						return nil, e.fail(u, "memo field is assigned something else than the address of a local")
					}
					v, err := e.allocValueAt(al, st)
					if err != nil {
						return nil, err
					}
					n++
					if res == nil {
						res = v
					} else if !qaEqual(res, v, 0) {
						return nil, e.fail(u, "memo stores disagree")
					}
				}
				if n == 0 {
					return nil, e.fail(u, "memo field %s is never written", fv.Name())
				}
				return res, nil
			}
		}
	}
	return nil, e.fail(u, "unsupported load %s", u)
}

// allocValueAt: the value held by local alloc just before instruction at.
func (e *qaEval) allocValueAt(al *ssa.Alloc, at ssa.Instruction) (*QA, error) {
	fn := al.Parent()
	// last store in a block
	lastIn := func(b *ssa.BasicBlock, before ssa.Instruction) *ssa.Store {
		var last *ssa.Store
		for _, in := range b.Instrs {
			if in == before {
				break
			}
			if st, ok := in.(*ssa.Store); ok && st.Addr == al {
				last = st
			}
		}
		return last
	}
	if st := lastIn(at.Block(), at); st != nil {
		return e.eval(st.Val)
	}
	var valueAtEntry func(b *ssa.BasicBlock, depth int) (*QA, error)
	valueAtExit := func(b *ssa.BasicBlock, depth int) (*QA, error) {
		if st := lastIn(b, nil); st != nil {
			return e.eval(st.Val)
		}
		return valueAtEntry(b, depth)
	}
	valueAtEntry = func(b *ssa.BasicBlock, depth int) (*QA, error) {
		if depth > 8 {
			return nil, fmt.Errorf("control flow too deep for local %s", al.Comment)
		}
		switch len(b.Preds) {
		case 0:
			// the entry block: a local that was not assigned yet holds its zero value
			// (`var count int` whose address is taken later)
			if bt, isB := al.Type().(*types.Pointer).Elem().Underlying().(*types.Basic); isB && bt.Info()&types.IsNumeric != 0 {
				return qaConst(new(big.Rat)), nil
			}
			return nil, fmt.Errorf("local %s read before being written", al.Comment)
		case 1:
			return valueAtExit(b.Preds[0], depth+1)
		case 2:
			d := b.Idom()
			if d == nil {
				return nil, fmt.Errorf("no dominator")
			}
			iff, ok := d.Instrs[len(d.Instrs)-1].(*ssa.If)
			if !ok {
				return nil, fmt.Errorf("join without a two-way branch")
			}
			c, err := e.eval(iff.Cond)
			if err != nil {
				return nil, err
			}
			var vt, vf *QA
			for _, pr := range b.Preds {
				v, err := valueAtExit(pr, depth+1)
				if err != nil {
					return nil, err
				}
				onTrue := pr == d && d.Succs[0] == b || (pr != d && d.Succs[0].Dominates(pr))
				onFalse := pr == d && d.Succs[1] == b || (pr != d && d.Succs[1].Dominates(pr))
				switch {
				case onTrue && !onFalse:
					vt = v
				case onFalse && !onTrue:
					vf = v
				default:
					return nil, fmt.Errorf("unsupported join shape")
				}
			}
			if vt == nil || vf == nil {
				return nil, fmt.Errorf("unsupported join shape")
			}
			return qaITE(c, vt, vf), nil
		}
		return nil, fmt.Errorf("join of %d paths", len(b.Preds))
	}
	_ = fn
	return valueAtEntry(at.Block(), 0)
}

func (e *qaEval) evalPhi(ph *ssa.Phi) (*QA, error) {
	b := ph.Block()
	if len(ph.Edges) != 2 {
		return nil, e.fail(ph, "phi with %d edges", len(ph.Edges))
	}
	d := b.Idom()
	iff, ok := d.Instrs[len(d.Instrs)-1].(*ssa.If)
	if !ok {
		return nil, e.fail(ph, "phi not controlled by a two-way branch")
	}
	c, err := e.eval(iff.Cond)
	if err != nil {
		return nil, err
	}
	var vt, vf *QA
	for i, pr := range b.Preds {
		v, err := e.eval(ph.Edges[i])
		if err != nil {
			return nil, err
		}
		onTrue := pr == d && d.Succs[0] == b || (pr != d && d.Succs[0].Dominates(pr))
		if onTrue {
			vt = v
		} else {
			vf = v
		}
	}
	if vt == nil || vf == nil {
		return nil, e.fail(ph, "unsupported phi shape")
	}
	return qaITE(c, vt, vf), nil
}
