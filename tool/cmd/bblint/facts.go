package main

import (
	"fmt"
	"go/constant"
	"go/token"
	"go/types"
	"strings"

	"golang.org/x/tools/go/ssa"
)

// Lit is a branch literal: condition value V (negations stripped) holds with
// polarity Pos.
type Lit struct {
	V   ssa.Value
	Pos bool
	// Nil marks a synthetic literal "V == nil" (Pos) / "V != nil" (!Pos),
	// implied by a helper returning V as its error result.
	Nil bool
}

// FactInfo holds, for every basic block of a function, the set of literals
// that hold on EVERY path from the entry to the start of that block
// (forward must-dataflow; handles loops by fixpoint from top).
type FactInfo struct {
	fn    *ssa.Function
	lits  []Lit       // universe
	index map[Lit]int // lit -> bit
	in    [][]bool    // per block
}

func stripNot(v ssa.Value, pos bool) (ssa.Value, bool) {
	for {
		u, ok := v.(*ssa.UnOp)
		if ok && u.Op == token.NOT {
			v = u.X
			pos = !pos
			continue
		}
		// x == true, x == false, x != true, x != false
		if b, ok := v.(*ssa.BinOp); ok && (b.Op == token.EQL || b.Op == token.NEQ) {
			var other ssa.Value
			var cv bool
			found := false
			if c, ok := b.Y.(*ssa.Const); ok && c.Value != nil && c.Value.Kind() == constant.Bool {
				other, cv, found = b.X, constant.BoolVal(c.Value), true
			} else if c, ok := b.X.(*ssa.Const); ok && c.Value != nil && c.Value.Kind() == constant.Bool {
				other, cv, found = b.Y, constant.BoolVal(c.Value), true
			}
			if found {
				same := (b.Op == token.EQL) == cv // asserts other when the comparison is true
				v = other
				if !same {
					pos = !pos
				}
				continue
			}
		}
		return v, pos
	}
}

func (p *Prog) Facts(fn *ssa.Function) *FactInfo {
	if fi, ok := p.factCache[fn]; ok {
		return fi
	}
	fi := &FactInfo{fn: fn, index: map[Lit]int{}}
	// universe: each If condition in both polarities
	for _, b := range fn.Blocks {
		if n := len(b.Instrs); n > 0 {
			if iff, ok := b.Instrs[n-1].(*ssa.If); ok {
				v, pos := stripNot(iff.Cond, true)
				for _, l := range []Lit{{V: v, Pos: pos}, {V: v, Pos: !pos}} {
					if _, ok := fi.index[l]; !ok {
						fi.index[l] = len(fi.lits)
						fi.lits = append(fi.lits, l)
					}
				}
			}
		}
	}
	nb := len(fn.Blocks)
	nl := len(fi.lits)
	fi.in = make([][]bool, nb)
	for i := range fi.in {
		fi.in[i] = make([]bool, nl)
		if i != 0 {
			for j := range fi.in[i] {
				fi.in[i][j] = true // top
			}
		}
	}
	reach := make([]bool, nb)
	if nb > 0 {
		reach[0] = true
	}
	changed := true
	for changed {
		changed = false
		for _, b := range fn.Blocks {
			if b.Index == 0 {
				continue
			}
			// meet over reachable predecessors
			newIn := make([]bool, nl)
			first := true
			anyReach := false
			for _, pr := range b.Preds {
				if !reach[pr.Index] {
					continue
				}
				anyReach = true
				out := make([]bool, nl)
				copy(out, fi.in[pr.Index])
				// a condition re-evaluated in pr (loop) invalidates the fact
				// about its previous evaluation
				for j, l := range fi.lits {
					if in, ok := l.V.(ssa.Instruction); ok && in.Block() == pr {
						out[j] = false
					}
				}
				// edge literal
				if n := len(pr.Instrs); n > 0 {
					if iff, ok := pr.Instrs[n-1].(*ssa.If); ok && len(pr.Succs) == 2 && pr.Succs[0] != pr.Succs[1] {
						v, pos := stripNot(iff.Cond, true)
						if pr.Succs[0] == b {
							out[fi.index[Lit{V: v, Pos: pos}]] = true
						} else if pr.Succs[1] == b {
							out[fi.index[Lit{V: v, Pos: !pos}]] = true
						}
					}
				}
				if first {
					copy(newIn, out)
					first = false
				} else {
					for j := range newIn {
						newIn[j] = newIn[j] && out[j]
					}
				}
			}
			if !anyReach {
				continue
			}
			if !reach[b.Index] {
				reach[b.Index] = true
				changed = true
			}
			for j := range newIn {
				if fi.in[b.Index][j] != newIn[j] {
					fi.in[b.Index] = newIn
					changed = true
					break
				}
			}
		}
	}
	p.factCache[fn] = fi
	return fi
}

// At returns the literals that hold at the start of block b on every path.
func (fi *FactInfo) At(b *ssa.BasicBlock) []Lit {
	var res []Lit
	for j, on := range fi.in[b.Index] {
		if on {
			res = append(res, fi.lits[j])
		}
	}
	return res
}

/* ---------- small SSA matchers ---------- */

func isNilConst(v ssa.Value) bool {
	c, ok := v.(*ssa.Const)
	return ok && c.Value == nil
}

func intConst(v ssa.Value) (int64, bool) {
	c, ok := v.(*ssa.Const)
	if !ok || c.Value == nil {
		return 0, false
	}
	if c.Value.Kind() == constant.Int {
		i, ok := constant.Int64Val(c.Value)
		return i, ok
	}
	if c.Value.Kind() == constant.Float {
		f, _ := constant.Float64Val(c.Value)
		if f == float64(int64(f)) {
			return int64(f), true
		}
	}
	return 0, false
}

func strConst(v ssa.Value) (string, bool) {
	c, ok := v.(*ssa.Const)
	if !ok || c.Value == nil || c.Value.Kind() != constant.String {
		return "", false
	}
	return constant.StringVal(c.Value), true
}

// nilTest decodes a literal of the form (x == nil) / (x != nil): returns the
// tested value and whether the literal asserts that it IS nil.
func nilTest(l Lit) (ssa.Value, bool, bool) {
	if l.Nil {
		return l.V, l.Pos, true
	}
	b, ok := l.V.(*ssa.BinOp)
	if !ok || (b.Op != token.EQL && b.Op != token.NEQ) {
		return nil, false, false
	}
	var x ssa.Value
	if isNilConst(b.Y) {
		x = b.X
	} else if isNilConst(b.X) {
		x = b.Y
	} else {
		return nil, false, false
	}
	isNil := (b.Op == token.EQL) == l.Pos
	return x, isNil, true
}

// unwrap strips value-preserving conversions.
func unwrap(v ssa.Value) ssa.Value {
	for {
		switch x := v.(type) {
		case *ssa.ChangeType:
			v = x.X
		case *ssa.ChangeInterface:
			v = x.X
		case *ssa.MakeInterface:
			v = x.X
		case *ssa.Convert:
			v = x.X
		default:
			return v
		}
	}
}

// callOf returns the call instruction that produced v (directly or via
// Extract), and the tuple index (-1 if v is the call value itself).
func callOf(v ssa.Value) (*ssa.Call, int) {
	v = unwrap(v)
	switch x := v.(type) {
	case *ssa.Call:
		return x, -1
	case *ssa.Extract:
		if c, ok := x.Tuple.(*ssa.Call); ok {
			return c, x.Index
		}
	}
	return nil, 0
}

// calleeName returns a canonical name for the callee of a call:
// static: types.Func.FullName(); invoke: "(iface).Method" FullName.
func calleeFunc(c *ssa.CallCommon) *types.Func {
	if c.IsInvoke() {
		return c.Method
	}
	if f := c.StaticCallee(); f != nil {
		if o, ok := f.Object().(*types.Func); ok {
			return o
		}
		// instantiated / wrapper
		if f.Origin() != nil {
			if o, ok := f.Origin().Object().(*types.Func); ok {
				return o
			}
		}
	}
	return nil
}

// Callee matcher: by short name "pkgrel.Recv.Name" or "pkgrel.Name"; for
// library functions "path.Name" / "path.Recv.Name".
type fnMatch func(*types.Func) bool

func shortName(f *types.Func) string {
	if f == nil {
		return ""
	}
	if len(fnAlias) > 0 {
		if rk, ok := fnAlias[funcKey(f)]; ok {
			return strings.TrimPrefix(rk, modPath+"/")
		}
	}
	pkg := ""
	if f.Pkg() != nil {
		pkg = f.Pkg().Path()
		if len(pkg) > len(modPath) && pkg[:len(modPath)+1] == modPath+"/" {
			pkg = pkg[len(modPath)+1:]
		}
	}
	sig, _ := f.Type().(*types.Signature)
	if sig != nil && sig.Recv() != nil {
		if n := namedOf(sig.Recv().Type()); n != nil {
			return pkg + "." + n.Obj().Name() + "." + f.Name()
		}
		// interface method declared in an unnamed interface
		return pkg + ".?." + f.Name()
	}
	return pkg + "." + f.Name()
}

func named(names ...string) fnMatch {
	set := map[string]bool{}
	for _, n := range names {
		set[n] = true
	}
	return func(f *types.Func) bool { return set[shortName(f)] }
}

// callsIn lists the call instructions (Call, Go, Defer) in fn whose callee matches.
func callsIn(fn *ssa.Function, m fnMatch) []ssa.CallInstruction {
	var res []ssa.CallInstruction
	for _, b := range fn.Blocks {
		for _, in := range b.Instrs {
			if ci, ok := in.(ssa.CallInstruction); ok {
				if f := calleeFunc(ci.Common()); f != nil && m(f) {
					res = append(res, ci)
				}
			}
		}
	}
	return res
}

// isCallTo: is v (modulo Extract/conversions) the result of a call matching m?
func isCallTo(v ssa.Value, m fnMatch) (*ssa.Call, int, bool) {
	c, idx := callOf(v)
	if c == nil {
		return nil, 0, false
	}
	f := calleeFunc(c.Common())
	if f == nil || !m(f) {
		return nil, 0, false
	}
	return c, idx, true
}

// fieldOf: if v is a load of (or address of) struct field, return the field var and base.
func fieldOf(v ssa.Value) (*types.Var, ssa.Value) {
	v = unwrap(v)
	switch x := v.(type) {
	case *ssa.UnOp:
		if x.Op == token.MUL {
			if fa, ok := x.X.(*ssa.FieldAddr); ok {
				return fieldVar(fa.X.Type(), fa.Field), fa.X
			}
		}
	case *ssa.FieldAddr:
		return fieldVar(x.X.Type(), x.Field), x.X
	case *ssa.Field:
		return fieldVar(x.X.Type(), x.Field), x.X
	}
	return nil, nil
}

func fieldVar(t types.Type, idx int) *types.Var {
	for {
		switch tt := t.(type) {
		case *types.Pointer:
			t = tt.Elem()
			continue
		case *types.Named:
			t = tt.Underlying()
			continue
		case *types.Alias:
			t = types.Unalias(tt)
			continue
		}
		break
	}
	st, ok := t.(*types.Struct)
	if !ok || idx >= st.NumFields() {
		return nil
	}
	return st.Field(idx)
}

// dependsOn: does v transitively depend (within its function) on a value
// satisfying pred? Follows operands, loads from local Allocs to their stores,
// and phi edges. Bounded by a visited set.
func dependsOnX(v ssa.Value, pred func(ssa.Value) bool) bool {
	type key struct {
		v   ssa.Value
		top ssa.CallInstruction
	}
	seen := map[key]bool{}
	var walk func(ssa.Value, int, []ssa.CallInstruction, int) bool
	walk = func(x ssa.Value, depth int, stack []ssa.CallInstruction, up int) bool {
		if x == nil || depth > 200 {
			return false
		}
		var top ssa.CallInstruction
		if len(stack) > 0 {
			top = stack[len(stack)-1]
		}
		if seen[key{x, top}] {
			return false
		}
		seen[key{x, top}] = true
		if pred(x) {
			return true
		}
		switch t := x.(type) {
		case *ssa.FreeVar:
			// captured variable: continue in the enclosing function at the closure's binding
			if b := freeVarBinding(t); b != nil {
				return walk(b, depth+1, stack, up)
			}
			return false
		case *ssa.Alloc:
			// values stored into this local (also through element / field addresses:
			// composite literals and varargs arrays are built that way)
			for _, st := range storedThrough(t) {
				if walk(st.Val, depth+1, stack, up) {
					return true
				}
			}
			return false
		case *ssa.Parameter:
			idx := paramIndex(t)
			if idx < 0 {
				return false
			}
			if len(stack) > 0 {
				c := stack[len(stack)-1]
				if args := c.Common().Args; c.Common().StaticCallee() == t.Parent() && idx < len(args) {
					return walk(args[idx], depth+1, stack[:len(stack)-1], up)
				}
				return false
			}
			if up >= maxCallDepth {
				return false
			}
			for _, c := range callSitesOf(t.Parent()) {
				if args := c.Common().Args; idx < len(args) {
					if walk(args[idx], depth+1, nil, up+1) {
						return true
					}
				}
			}
			return false
		case *ssa.Call, *ssa.Extract:
			// the result of a module helper depends on what the helper returns (in addition to
			// the operands followed below)
			if c, h, idx := moduleCallee(x); h != nil && len(stack) < maxCallDepth {
				for _, b := range h.Blocks {
					if ret, ok := b.Instrs[len(b.Instrs)-1].(*ssa.Return); ok && idx < len(ret.Results) {
						if walk(ret.Results[idx], depth+1, append(append([]ssa.CallInstruction{}, stack...), c), up) {
							return true
						}
					}
				}
			}
		}
		if in, ok := x.(ssa.Instruction); ok {
			for _, op := range in.Operands(nil) {
				if op != nil && *op != nil {
					if walk(*op, depth+1, stack, up) {
						return true
					}
				}
			}
		}
		// elements stored into a slice/array/map built locally
		switch t := x.(type) {
		case *ssa.Slice:
			return walk(t.X, depth+1, stack, up)
		}
		return false
	}
	return walk(v, 0, nil, 0)
}

// dependsOn: intraprocedural version (operands, loads from local Allocs to their stores, phi
// edges, captured variables); calls are crossed only from result to arguments. Used where a rule
// enumerates the sites that build a value, or decides a taint that must not leak across objects.
func dependsOn(v ssa.Value, pred func(ssa.Value) bool) bool {
	seen := map[ssa.Value]bool{}
	var walk func(ssa.Value, int) bool
	walk = func(x ssa.Value, depth int) bool {
		if x == nil || seen[x] || depth > 200 {
			return false
		}
		seen[x] = true
		if pred(x) {
			return true
		}
		// a field of a struct held in a local variable depends on what was stored into THAT field
		// (and on whole-struct assignments), not on its sibling fields
		if al, idx, ok := localFieldLoad(x); ok {
			if srcs := localStructFieldSources(al, idx, 0); len(srcs) > 0 {
				for _, sv := range srcs {
					if walk(sv, depth+1) {
						return true
					}
				}
				return false
			}
		}
		switch t := x.(type) {
		case *ssa.FreeVar:
			if b := freeVarBinding(t); b != nil {
				return walk(b, depth+1)
			}
			return false
		case *ssa.Alloc:
			for _, st := range storedThrough(t) {
				if walk(st.Val, depth+1) {
					return true
				}
			}
			return false
		}
		if in, ok := x.(ssa.Instruction); ok {
			for _, op := range in.Operands(nil) {
				if op != nil && *op != nil {
					if walk(*op, depth+1) {
						return true
					}
				}
			}
		}
		switch t := x.(type) {
		case *ssa.Slice:
			return walk(t.X, depth+1)
		}
		return false
	}
	return walk(v, 0)
}

// storesInto returns the values stored through addresses derived from base
// (IndexAddr / FieldAddr chains) within fn — used to look inside locally
// constructed composite literals.
func storedThrough(base ssa.Value) []*ssa.Store {
	var res []*ssa.Store
	seen := map[ssa.Value]bool{}
	var walk func(ssa.Value)
	walk = func(a ssa.Value) {
		if seen[a] {
			return
		}
		seen[a] = true
		refs := a.Referrers()
		if refs == nil {
			return
		}
		for _, r := range *refs {
			switch x := r.(type) {
			case *ssa.Store:
				if x.Addr == a {
					res = append(res, x)
				}
			case *ssa.FieldAddr:
				if x.X == a {
					walk(x)
				}
			case *ssa.IndexAddr:
				if x.X == a {
					walk(x)
				}
			case *ssa.Slice:
				if x.X == a {
					walk(x)
				}
			}
		}
	}
	walk(base)
	return res
}

// isParamOfType: x is a function parameter (or captured variable) whose
// (pointer-stripped) named type is called name.
func isParamOfType(x ssa.Value, name string) bool {
	switch x.(type) {
	case *ssa.Parameter, *ssa.FreeVar:
	default:
		return false
	}
	n := namedOf(x.Type())
	return n != nil && n.Obj().Name() == name
}

func depOnParamType(v ssa.Value, name string) bool {
	return dependsOn(v, func(x ssa.Value) bool { return isParamOfType(x, name) })
}

// dominates reports whether instruction a dominates instruction b (same function).
func dominates(a, b ssa.Instruction) bool {
	ba, bb := a.Block(), b.Block()
	if ba == bb {
		for _, in := range ba.Instrs {
			if in == a {
				return true
			}
			if in == b {
				return false
			}
		}
		return false
	}
	if ba.Dominates(bb) {
		return true
	}
	// every FEASIBLE path (jump threading over constant phi operands) to b passes through a's block
	return ba.Parent() == bb.Parent() && len(ba.Parent().Blocks) > 0 && !reachesAvoiding(ba.Parent().Blocks[0], bb, ba)
}

// reachesAvoiding: target is reachable from block from (inclusive) without entering block avoid,
// along feasible edges (jump threading).
func reachesAvoiding(from, target, avoid *ssa.BasicBlock) bool {
	if from == avoid {
		return false
	}
	if from == target {
		return true
	}
	found := false
	forwardFrom(from, func(x *ssa.BasicBlock) bool {
		if found || x == avoid {
			return false
		}
		if x == target {
			found = true
			return false
		}
		return true
	})
	return found
}

// reachableFrom reports whether block 'to' is reachable from block 'from' (CFG).
func blockReaches(from, to *ssa.BasicBlock) bool {
	seen := map[*ssa.BasicBlock]bool{}
	stack := []*ssa.BasicBlock{from}
	for len(stack) > 0 {
		b := stack[len(stack)-1]
		stack = stack[:len(stack)-1]
		for _, s := range b.Succs {
			if s == to {
				return true
			}
			if !seen[s] {
				seen[s] = true
				stack = append(stack, s)
			}
		}
	}
	return false
}

// canFollow: can instruction b execute after instruction a on some path?
func canFollow(a, b ssa.Instruction) bool {
	if a.Block() == b.Block() {
		ia, ib := -1, -1
		for i, in := range a.Block().Instrs {
			if in == a {
				ia = i
			}
			if in == b {
				ib = i
			}
		}
		if ia < ib {
			return true
		}
		return blockReaches(a.Block(), a.Block())
	}
	return blockReaches(a.Block(), b.Block())
}

// allFuncsWithAnon returns fn and all nested closures.
func withAnon(fn *ssa.Function) []*ssa.Function {
	res := []*ssa.Function{fn}
	for _, a := range fn.AnonFuncs {
		res = append(res, withAnon(a)...)
	}
	return res
}

func recvNamed(f *types.Func) string {
	sig, _ := f.Type().(*types.Signature)
	if sig != nil && sig.Recv() != nil {
		if n := namedOf(sig.Recv().Type()); n != nil {
			return n.Obj().Name()
		}
	}
	return ""
}

// freeVarBinding returns the value bound to a closure's free variable where the closure is created.
func freeVarBinding(fv *ssa.FreeVar) ssa.Value {
	fn := fv.Parent()
	if fn == nil || fn.Parent() == nil {
		return nil
	}
	idx := -1
	for i, f := range fn.FreeVars {
		if f == fv {
			idx = i
		}
	}
	if idx < 0 {
		return nil
	}
	for _, b := range fn.Parent().Blocks {
		for _, in := range b.Instrs {
			if mc, ok := in.(*ssa.MakeClosure); ok && mc.Fn == ssa.Value(fn) && idx < len(mc.Bindings) {
				return mc.Bindings[idx]
			}
		}
	}
	return nil
}

// forwardFrom explores the CFG forward from the successors of block from (as if leaving it),
// with jump threading (a block entered through an edge on which the phi it branches on is a constant
// is left through the decided successor only). visit(x) returns true to continue past x.
func forwardFrom(from *ssa.BasicBlock, visit func(x *ssa.BasicBlock) bool) {
	forwardFromEdge(from, nil, visit)
}

// forwardFromEdge: same, starting with the single edge from->only (all successors when only is nil).
func forwardFromEdge(from, only *ssa.BasicBlock, visit func(x *ssa.BasicBlock) bool) {
	// state: block, successor forced by the entering edge, and through which predecessor the most
	// recent join blocks (that define a branch-relevant phi) were entered
	type join struct {
		b    *ssa.BasicBlock
		pidx int
	}
	type st struct {
		b      *ssa.BasicBlock
		forced int
		env    string
	}
	type item struct {
		st
		joins []join
	}
	seen := map[st]bool{}
	var stack []item
	envKey := func(js []join) string {
		k := ""
		for _, j := range js {
			k += fmt.Sprintf("%d:%d,", j.b.Index, j.pidx)
		}
		return k
	}
	hasBranchPhi := func(b *ssa.BasicBlock) bool {
		for _, in := range b.Instrs {
			ph, ok := in.(*ssa.Phi)
			if !ok {
				break
			}
			if bt, isB := ph.Type().Underlying().(*types.Basic); isB && bt.Kind() == types.Bool {
				return true
			}
			if isErrorType(ph.Type()) {
				return true
			}
			if _, isP := ph.Type().Underlying().(*types.Pointer); isP {
				return true
			}
		}
		return false
	}
	first := true
	push := func(pred *ssa.BasicBlock, forced int, joins []join) {
		for i, s := range pred.Succs {
			if forced >= 0 && len(pred.Succs) == 2 && i != forced {
				continue
			}
			if first && only != nil && s != only {
				continue
			}
			js := joins
			if len(s.Preds) > 1 && hasBranchPhi(s) {
				pidx := -1
				for k, pr := range s.Preds {
					if pr == pred {
						if pidx >= 0 {
							pidx = -2
							break
						}
						pidx = k
					}
				}
				var nj []join
				for _, j := range joins {
					if j.b != s {
						nj = append(nj, j)
					}
				}
				if pidx >= 0 {
					nj = append(nj, join{s, pidx})
				}
				if len(nj) > 4 {
					nj = nj[len(nj)-4:]
				}
				js = nj
			}
			f := -1
			if k, ok := decidedSucc(pred, s); ok {
				f = k
			} else if k, ok := decidedByJoins(s, func(b *ssa.BasicBlock) (int, bool) {
				for _, j := range js {
					if j.b == b {
						return j.pidx, true
					}
				}
				return 0, false
			}); ok {
				f = k
			}
			stack = append(stack, item{st{s, f, envKey(js)}, js})
		}
	}
	push(from, -1, nil)
	first = false
	for len(stack) > 0 {
		x := stack[len(stack)-1]
		stack = stack[:len(stack)-1]
		if seen[x.st] {
			continue
		}
		seen[x.st] = true
		if visit(x.b) {
			push(x.b, x.forced, x.joins)
		}
	}
}

// decidedByJoins: block s branches on a phi defined in an EARLIER join block; entered lets the
// search say through which predecessor that join was entered on the current path.
func decidedByJoins(s *ssa.BasicBlock, entered func(*ssa.BasicBlock) (int, bool)) (int, bool) {
	n := len(s.Instrs)
	if n == 0 || len(s.Succs) != 2 {
		return 0, false
	}
	iff, ok := s.Instrs[n-1].(*ssa.If)
	if !ok {
		return 0, false
	}
	v, pos := stripNot(iff.Cond, true)
	l := Lit{V: v, Pos: true}
	ph := subjectPhi(l)
	if ph == nil || ph.Block() == s {
		return 0, false
	}
	pidx, ok := entered(ph.Block())
	if !ok || pidx >= len(ph.Edges) {
		return 0, false
	}
	e := ph.Edges[pidx]
	// literal true / false about ph given operand e
	for k, lit := range []Lit{{V: v, Pos: true}, {V: v, Pos: false}} {
		if feasible, decided := constLit(lit, ph, e); decided && feasible {
			// lit holds: cond == (lit.Pos == pos ? true : false)
			condTrue := (k == 0) == pos
			if condTrue {
				return 0, true
			}
			return 1, true
		}
	}
	return 0, false
}

// paramByType: parameter idx of fn if its type is (a pointer to / slice of) the named type; otherwise
// the first parameter of that type (a signature that gained or lost another parameter keeps working);
// nil if there is none.
func paramByType(fn *ssa.Function, idx int, typeName string) ssa.Value {
	is := func(pv *ssa.Parameter) bool {
		t := pv.Type()
		if sl, ok := t.Underlying().(*types.Slice); ok {
			t = sl.Elem()
		}
		n := namedOf(t)
		return n != nil && n.Obj().Name() == typeName
	}
	if idx < len(fn.Params) && is(fn.Params[idx]) {
		return fn.Params[idx]
	}
	for _, pv := range fn.Params {
		if is(pv) {
			return pv
		}
	}
	if idx < len(fn.Params) {
		return fn.Params[idx]
	}
	return nil
}
