package main

import (
	"fmt"
	"go/types"
	"reflect"
	"sort"
	"strings"

	"golang.org/x/tools/go/ssa"
)

func init() {
	register(&propDef{
		ID: "C15", NeedCG: true,
		Meta: propMeta{Level: "other", Assumptions: commonAssumptions,
			Explanation: "Hash identity is decided as agreement between writers' and readers' field tables: C15.wire (closed world: EVERY exported field of EventBody — the hash pre-image — is rebuilt by ReadWireInfo, verbatim from the same-named WireBody field that ToWire fills from the same EventBody field, or by one of the three declared substitutions: Parents via the store, Creator via the repertoire, BlockSignatures' validator = creator; Signature carried verbatim), " +
				"C15.db (each of Body, Signature, creatorID, otherParentCreatorID, selfParentIndex, otherParentIndex, topologicalIndex, lastAncestors, firstDescendants is copied by MarshalDB into one wrapper field and copied back from that same field by UnmarshalDB), " +
				"C15.caches (hash/hex/creator/id/peerSet cache fields are unexported — never serialised — and written only by their lazy getters), " +
				"C15.frame (no json tag hides or renames a field of a transported type, none has a custom MarshalJSON; Frame.Hash = SHA256(Frame.Marshal()) with a canonical handle; EventBody/BlockBody hashes are SHA256 of their Marshal). " +
				"C15.roll (wire parents are resolved by (creator, index) through the per-participant rolling window: when it rolls it keeps a suffix, so position index-oldest still names the event of that index; shared with C16.roll), C15.firstround (which validators get a root in a frame depends on their first round, which must not depend on the order in which a frame's peer-set map is replayed; shared with C13.resetorder), C15.shared (the hashed payload slices of an existing event / block / frame are never reordered or overwritten in place: the memoised hash would no longer be the hash of the content; shared with C02.shared), C15.keyarg (wire parents are resolved, when they left the in-memory window, through the database by (participant, index): the key's integer component is that index verbatim, so the resolved parent is the referenced event and the rebuilt hash is the signed one), C15.digest (each hash is SHA256 over Marshal() of the receiver itself — not of a partial copy —, Marshal encodes the receiver, no exported field is tag-hidden). NOT decided: nil-vs-empty slice behaviour of the two JSON libraries for arbitrary values (a value-level round-trip question)."},
		Rules: []ruleFunc{c15wire, c15db, c15caches, c15frame, func(p *Prog, r *Report) {
			digestRule(p, r, "C15.digest", []string{"EventBody", "BlockBody", "Frame", "InternalTransactionBody", "Root"})
		}, func(p *Prog, r *Report) { keyArgRule(p, r, "C15.keyarg") }, func(p *Prog, r *Report) { sharedSliceRule(p, r, "C15.shared") }, func(p *Prog, r *Report) { firstRoundRule(p, r, "C15.firstround") }, func(p *Prog, r *Report) { rollRule(p, r, "C15.roll") }},
	})
}

// compositeStores: field => value stored, for stores into a struct allocated in fn whose type is named typ.
func compositeStores(fn *ssa.Function, typ string) map[string]ssa.Value {
	res := map[string]ssa.Value{}
	for _, b := range fn.Blocks {
		for _, in := range b.Instrs {
			st, ok := in.(*ssa.Store)
			if !ok {
				continue
			}
			fa, ok := st.Addr.(*ssa.FieldAddr)
			if !ok {
				continue
			}
			n := namedOf(fa.X.Type())
			if n == nil || n.Obj().Name() != typ {
				continue
			}
			fv := fieldVar(fa.X.Type(), fa.Field)
			if fv != nil {
				res[refName(fv)] = st.Val
			}
		}
	}
	return res
}

func structFields(n *types.Named) []*types.Var {
	st, ok := n.Underlying().(*types.Struct)
	if !ok {
		return nil
	}
	var res []*types.Var
	for i := 0; i < st.NumFields(); i++ {
		res = append(res, st.Field(i))
	}
	return res
}

func c15wire(p *Prog, r *Report) {
	const rule = "C15.wire"
	r.Rule(rule, 7, "EventBody (hash pre-image) <-> WireBody field tables")
	eb := p.Type(HG, "EventBody")
	wb := p.Type(HG, "WireBody")
	rw := p.Func(HG, "Hashgraph", "ReadWireInfo")
	tw := p.Func(HG, "Event", "ToWire")
	if eb == nil || wb == nil || rw == nil || tw == nil {
		r.Anchor(rule, "EventBody / WireBody / ReadWireInfo / ToWire")
		return
	}
	wireFields := map[string]bool{}
	for _, f := range structFields(wb) {
		wireFields[f.Name()] = true
	}
	built := compositeStores(rw, "EventBody")
	sent := compositeStores(tw, "WireBody")
	subst := map[string]func(v ssa.Value) bool{
		"Parents": func(v ssa.Value) bool { return depOnCall(v, storeM("ParticipantEvent")) },
		"Creator": func(v ssa.Value) bool { return depOnCall(v, storeM("RepertoireByID")) && depOnField(v, "CreatorID") },
		"BlockSignatures": func(v ssa.Value) bool {
			return flowsFromCall(v, named(HG+".WireEvent.BlockSignatures"), 0)
		},
	}
	for _, f := range structFields(eb) {
		if !f.Exported() {
			continue
		}
		name := f.Name()
		v, ok := built[name]
		if !ok {
			r.Fail(rule, "ReadWireInfo:EventBody."+name, p.pos(rw.Pos()), fnName(rw), "exported field EventBody."+name+" is part of the signed hash pre-image but is not rebuilt by ReadWireInfo: an event loses it on the wire and its hash (and signature) changes at the receiver")
			continue
		}
		if chk, isSub := subst[name]; isSub {
			r.Check(chk(v), rule, "ReadWireInfo:EventBody."+name, p.ipos(valueInstr(v, rw)), fnName(rw), "rebuilt by the declared substitution", "EventBody."+name+" is not rebuilt by its declared substitution (store lookup / repertoire / creator attribution)")
		} else {
			okV := verbatimFromField(rw, v, name) && depOnParamType(v, "WireEvent")
			r.Check(okV && wireFields[name], rule, "ReadWireInfo:EventBody."+name, p.ipos(valueInstr(v, rw)), fnName(rw), "verbatim from WireBody."+name, "EventBody."+name+" is not taken verbatim from the same-named wire field (it is rebuilt or copied: a copy that does not preserve nil vs empty elements changes the JSON pre-image, hence the hash and the validity of the creator's signature)")
			// and ToWire sends it from the same field
			sv, okS := sent[name]
			okT := okS && flowsFromField(sv, name)
			r.Check(okT, rule, "ToWire:WireBody."+name, p.pos(tw.Pos()), fnName(tw), "filled from EventBody."+name, "WireBody."+name+" is not filled from EventBody."+name+" by ToWire")
		}
	}
	// wire-only bookkeeping fields of EventBody must be unexported (not in the pre-image)
	for _, priv := range []string{"creatorID", "otherParentCreatorID", "selfParentIndex", "otherParentIndex"} {
		found := false
		for _, f := range structFields(eb) {
			if f.Name() == priv {
				found = true
			}
		}
		r.Check(found, rule, "EventBody."+priv+":unexported", p.pos(eb.Obj().Pos()), "", "wire bookkeeping is outside the hash pre-image", "EventBody."+priv+" no longer exists as an unexported field")
	}
	// ToWire: substitution inputs
	for wf, src := range map[string]string{"SelfParentIndex": "selfParentIndex", "OtherParentCreatorID": "otherParentCreatorID", "OtherParentIndex": "otherParentIndex", "CreatorID": "creatorID"} {
		sv, ok := sent[wf]
		r.Check(ok && flowsFromField(sv, src), rule, "ToWire:WireBody."+wf, p.pos(tw.Pos()), fnName(tw), "filled from EventBody."+src, "WireBody."+wf+" is not filled from EventBody."+src)
		// and ReadWireInfo resolves through the same wire field
	}
	// Signature
	evB := compositeStores(rw, "Event")
	r.Check(evB["Signature"] != nil && flowsFromField(evB["Signature"], "Signature") && depOnParamType(evB["Signature"], "WireEvent"), rule, "ReadWireInfo:Event.Signature", p.pos(rw.Pos()), fnName(rw), "signature carried verbatim", "Event.Signature is not the wire event's signature")
	weS := compositeStores(tw, "WireEvent")
	r.Check(weS["Signature"] != nil && flowsFromField(weS["Signature"], "Signature"), rule, "ToWire:WireEvent.Signature", p.pos(tw.Pos()), fnName(tw), "signature sent verbatim", "WireEvent.Signature is not the event's signature")
	// the pre-image really is the JSON of the whole body: EventBody has no MarshalJSON, Hash = SHA256(Marshal)
	h := p.Func(HG, "EventBody", "Hash")
	if h != nil {
		ok := false
		for _, b := range h.Blocks {
			if ret, isRet := b.Instrs[len(b.Instrs)-1].(*ssa.Return); isRet {
				if depOnCall(ret.Results[0], named("src/crypto.SHA256")) && depOnCall(ret.Results[0], named(HG+".EventBody.Marshal")) {
					ok = true
				}
			}
		}
		r.Check(ok, rule, "EventBody.Hash:SHA256(Marshal)", p.pos(h.Pos()), fnName(h), "hash over the JSON of the body", "EventBody.Hash is not SHA256 of EventBody.Marshal()")
	}
}

func valueInstr(v ssa.Value, fn *ssa.Function) ssa.Instruction {
	if in, ok := v.(ssa.Instruction); ok {
		return in
	}
	if len(fn.Blocks) > 0 && len(fn.Blocks[0].Instrs) > 0 {
		return fn.Blocks[0].Instrs[0]
	}
	return nil
}

func c15db(p *Prog, r *Report) {
	const rule = "C15.db"
	r.Rule(rule, 9, "MarshalDB / UnmarshalDB copy the same fields through the same wrapper fields")
	m := p.Func(HG, "Event", "MarshalDB")
	u := p.Func(HG, "Event", "UnmarshalDB")
	if m == nil || u == nil {
		r.Anchor(rule, "Event.MarshalDB / UnmarshalDB")
		return
	}
	// wrapper field -> source event field (MarshalDB)
	src := map[string]string{}
	for w, v := range compositeStores(m, "eventWrapper") {
		if fv, _ := fieldOf(unwrap(v)); fv != nil {
			src[w] = refName(fv)
		} else {
			// loaded through a chain: find the innermost field
			dependsOn(v, func(x ssa.Value) bool {
				if fv, _ := fieldOf(x); fv != nil && src[w] == "" {
					src[w] = refName(fv)
				}
				return false
			})
		}
	}
	// event field -> wrapper field (UnmarshalDB)
	back := map[string]string{}
	for _, typ := range []string{"Event", "EventBody"} {
		for f, v := range compositeStores(u, typ) {
			dependsOn(v, func(x ssa.Value) bool {
				if fv, _ := fieldOf(x); fv != nil && fieldOwner(p, fv) == "eventWrapper" && back[f] == "" {
					back[f] = refName(fv)
				}
				return false
			})
		}
	}
	need := []string{"Body", "Signature", "creatorID", "otherParentCreatorID", "selfParentIndex", "otherParentIndex", "topologicalIndex", "lastAncestors", "firstDescendants"}
	for _, f := range need {
		w := ""
		for wk, s := range src {
			if s == f {
				w = wk
			}
		}
		ok := w != "" && back[f] == w
		r.Check(ok, rule, "Event."+f+":db-round-trip", p.pos(u.Pos()), fnName(u), "saved as eventWrapper."+w+" and restored from it",
			fmt.Sprintf("field %s is saved as eventWrapper.%q but restored from eventWrapper.%q: after a reload from the database the event differs (wire form / topological order / ancestry coordinates are lost)", f, w, back[f]))
	}
	// no two event fields share a wrapper field
	seen := map[string]string{}
	for w, s := range src {
		_ = w
		_ = s
	}
	for f, w := range back {
		if prev, dup := seen[w]; dup && prev != f {
			r.Fail(rule, "eventWrapper."+w+":shared", p.pos(u.Pos()), fnName(u), "two event fields ("+prev+", "+f+") are restored from the same wrapper field")
		}
		seen[w] = f
	}
	// both use encoding/json on the wrapper
	okJ := len(callsIn(m, named("encoding/json.Marshal"))) > 0 && len(callsIn(u, named("encoding/json.Unmarshal"))) > 0
	r.Check(okJ, rule, "MarshalDB~UnmarshalDB:json", p.pos(m.Pos()), fnName(m), "same codec on both sides", "MarshalDB and UnmarshalDB do not use the same JSON codec")
}

func c15caches(p *Prog, r *Report) {
	const rule = "C15.caches"
	r.Rule(rule, 8, "cache fields are unexported and written only by their lazy getters")
	type spec struct {
		pkg, typ, field string
		writers         []string
	}
	specs := []spec{
		{HG, "Event", "creator", []string{"Creator"}}, {HG, "Event", "hash", []string{"Hash"}}, {HG, "Event", "hex", []string{"Hex"}},
		{HG, "Block", "hash", []string{"Hash"}}, {HG, "Block", "hex", []string{"Hex"}}, {HG, "Block", "peerSet", []string{"NewBlock"}},
		{PEER, "PeerSet", "hash", []string{"Hash", "clearCache"}}, {PEER, "PeerSet", "hex", []string{"Hex", "clearCache"}},
		{PEER, "Peer", "id", []string{"ID"}},
	}
	for _, s := range specs {
		f := p.Field(s.pkg, s.typ, s.field)
		if f == nil {
			r.Anchor(rule, s.typ+"."+s.field)
			continue
		}
		allowed := map[string]bool{}
		for _, w := range s.writers {
			allowed[w] = true
		}
		var bad []string
		for _, w := range p.writersOf(f) {
			if !allowed[w.Fn.Name()] {
				bad = append(bad, fnName(w.Fn)+"@"+p.ipos(w.Instr))
			}
		}
		r.Check(!f.Exported() && len(bad) == 0, rule, s.typ+"."+s.field, p.pos(f.Pos()), "", "unexported, written only by "+strings.Join(s.writers, "/"), fmt.Sprintf("cache field %s.%s exported=%v, other writers: %v — a decoded or copied object could carry a stale hash", s.typ, s.field, f.Exported(), bad))
	}
	// lazy getters compute from the content: Event.Hash <- Body.Hash, Block.Hash <- Marshal, Hex <- Hash
	for _, g := range []struct {
		typ, m string
		dep    fnMatch
	}{
		{"Event", "Hash", named(HG + ".EventBody.Hash")}, {"Event", "Hex", named(HG + ".Event.Hash")},
		{"Event", "Creator", named(COMM + ".EncodeToString")}, {"Block", "Hex", named(HG + ".Block.Hash")},
	} {
		fn := p.Func(HG, g.typ, g.m)
		if fn == nil {
			r.Anchor(rule, g.typ+"."+g.m)
			continue
		}
		r.Check(len(callsIn(fn, g.dep)) > 0, rule, g.typ+"."+g.m+":computed-from-content", p.pos(fn.Pos()), fnName(fn), "memo filled from the object's content", g.typ+"."+g.m+" no longer derives its cached value from the content")
	}
}

func c15frame(p *Prog, r *Report) {
	const rule = "C15.frame"
	r.Rule(rule, 10, "transported types: no hiding/renaming json tags, no custom MarshalJSON; Frame.Hash = SHA256(canonical Marshal)")
	transported := [][2]string{{HG, "Frame"}, {HG, "Root"}, {HG, "FrameEvent"}, {HG, "Event"}, {HG, "EventBody"}, {HG, "Block"}, {HG, "BlockBody"}, {HG, "BlockSignature"},
		{HG, "InternalTransaction"}, {HG, "InternalTransactionBody"}, {HG, "InternalTransactionReceipt"}, {HG, "WireEvent"}, {HG, "WireBody"}, {HG, "WireBlockSignature"}, {PEER, "Peer"}}
	for _, t := range transported {
		n := p.Type(t[0], t[1])
		if n == nil {
			r.Anchor(rule, t[1])
			continue
		}
		st, ok := n.Underlying().(*types.Struct)
		if !ok {
			continue
		}
		var bad []string
		for i := 0; i < st.NumFields(); i++ {
			tag := reflect.StructTag(st.Tag(i))
			for _, k := range []string{"json", "codec"} {
				if v, ok := tag.Lookup(k); ok && st.Field(i).Exported() {
					bad = append(bad, st.Field(i).Name()+" `"+k+":\""+v+"\"`")
				}
			}
		}
		custom := false
		for _, m := range []string{"MarshalJSON", "UnmarshalJSON", "CodecEncodeSelf", "CodecDecodeSelf", "MarshalText", "UnmarshalText"} {
			for _, tt := range []types.Type{n, types.NewPointer(n)} {
				if obj, _, _ := types.LookupFieldOrMethod(tt, true, n.Obj().Pkg(), m); obj != nil {
					if _, isF := obj.(*types.Func); isF {
						custom = true
					}
				}
			}
		}
		sort.Strings(bad)
		r.Check(len(bad) == 0 && !custom, rule, t[1]+":plain-json", p.pos(n.Obj().Pos()), "", "all exported fields serialised under their own names by both JSON libraries", fmt.Sprintf("type %s: tags %v custom-marshaller=%v — the transport encoding and the hashed encoding of this type can diverge", t[1], bad, custom))
	}
	for _, spec := range []struct{ typ, marshal string }{{"Frame", "Marshal"}, {"BlockBody", "Marshal"}} {
		h := p.Func(HG, spec.typ, "Hash")
		if h == nil {
			r.Anchor(rule, spec.typ+".Hash")
			continue
		}
		ok := false
		for _, b := range h.Blocks {
			if ret, isRet := b.Instrs[len(b.Instrs)-1].(*ssa.Return); isRet && len(ret.Results) > 0 {
				if depOnCall(ret.Results[0], named("src/crypto.SHA256")) && depOnCall(ret.Results[0], named(HG+"."+spec.typ+"."+spec.marshal)) {
					ok = true
				}
			}
		}
		r.Check(ok, rule, spec.typ+".Hash:SHA256(Marshal)", p.pos(h.Pos()), fnName(h), "hash over the type's own Marshal", spec.typ+".Hash is not SHA256 of "+spec.typ+"."+spec.marshal+"()")
	}
	canonRule(p, r, rule)
}

// canonRule: the codec handle used by Frame.Marshal / RoundInfo.Marshal has Canonical stored true before NewEncoder.
func canonRule(p *Prog, r *Report, rule string) {
	for _, typ := range []string{"Frame", "RoundInfo"} {
		fn := p.Func(HG, typ, "Marshal")
		if fn == nil {
			r.Anchor(rule, typ+".Marshal")
			continue
		}
		encs := callsIn(fn, named("github.com/ugorji/go/codec.NewEncoder"))
		if len(encs) == 0 {
			r.Fail(rule, typ+".Marshal:canonical", p.pos(fn.Pos()), fnName(fn), typ+".Marshal does not use the codec encoder (canonical sorted-key encoding)")
			continue
		}
		for _, e := range encs {
			h := argN(e, 1)
			ok := false
			// a store of constant true into field Canonical of the handle, dominating NewEncoder, and no later store of false
			for _, b := range fn.Blocks {
				for _, in := range b.Instrs {
					st, isSt := in.(*ssa.Store)
					if !isSt {
						continue
					}
					fv, base := fieldOf(st.Addr)
					if fv == nil || refName(fv) != "Canonical" {
						continue
					}
					if !(depOnValue(h, base) || sameOrigin(unwrap(h), base) || depOnValue(base, unwrap(h)) || rootAllocOf(base) == rootAllocOf(unwrap(h))) {
						continue
					}
					c, isC := st.Val.(*ssa.Const)
					if isC && c.Value != nil && c.Value.String() == "true" && dominates(st, e) {
						ok = true
					}
					if isC && c.Value != nil && c.Value.String() == "false" {
						ok = false
					}
				}
			}
			r.Check(ok, rule, typ+".Marshal:canonical", p.ipos(e), fnName(fn), "map keys are emitted sorted (Canonical=true)", typ+".Marshal encodes without Canonical=true: maps (Roots, PeerSets, CreatedEvents) are emitted in iteration order and the hash depends on who computed it")
		}
	}
}

func rootAllocOf(v ssa.Value) ssa.Value {
	for i := 0; i < 8 && v != nil; i++ {
		switch x := unwrap(v).(type) {
		case *ssa.Alloc:
			return x
		case *ssa.FieldAddr:
			v = x.X
		case *ssa.UnOp:
			v = x.X
		case *ssa.MakeInterface:
			v = x.X
		default:
			return unwrap(v)
		}
	}
	return v
}

// verbatimFromField: every value-preserving path of v ends in a load of the named field. A value
// rebuilt with make/append (a copy) is accepted only if the function tests an ELEMENT of that
// field for nil (a nil-preserving copy); the common idioms append([]byte(nil), x...) and
// make+copy turn empty into nil or nil into empty and change the JSON encoding.
func verbatimFromField(fn *ssa.Function, v ssa.Value, name string) bool {
	allField := true
	anyField := false
	seen := map[ssa.Value]bool{}
	var walk func(x ssa.Value)
	walk = func(x ssa.Value) {
		x = unwrap(x)
		if seen[x] {
			return
		}
		seen[x] = true
		if fv, _ := fieldOf(x); fv != nil && refName(fv) == name {
			anyField = true
			return
		}
		switch t := x.(type) {
		case *ssa.Phi:
			for _, e := range t.Edges {
				walk(e)
			}
			return
		case *ssa.UnOp:
			if al, ok := t.X.(*ssa.Alloc); ok {
				for _, val := range capturedStores(al) {
					walk(val)
				}
				return
			}
		}
		allField = false
	}
	walk(v)
	if anyField && allField {
		return true
	}
	if !anyField {
		return false
	}
	// a copy: accept only with an element-level nil test
	for _, b := range fn.Blocks {
		if n := len(b.Instrs); n > 0 {
			if iff, ok := b.Instrs[n-1].(*ssa.If); ok {
				cv, _ := stripNot(iff.Cond, true)
				if bo, ok := cv.(*ssa.BinOp); ok && (isNilConst(bo.X) || isNilConst(bo.Y)) {
					el := bo.X
					if isNilConst(bo.X) {
						el = bo.Y
					}
					// an element of the field: loaded through an IndexAddr on it
					if u, ok := unwrap(el).(*ssa.UnOp); ok {
						if ia, ok := u.X.(*ssa.IndexAddr); ok && flowsFromField(ia.X, name) {
							return true
						}
					}
				}
			}
		}
	}
	return false
}
