package main

import (
	"fmt"
	"go/token"
	"go/types"
	"math/big"
	"strings"

	"golang.org/x/tools/go/ssa"
)

func init() {
	register(&propDef{
		ID: "C19", NeedCG: true,
		Meta: propMeta{Level: "proof", Assumptions: append([]string{
			"integer arithmetic does not overflow; n < 2^53 on the float64 path of TrustCount (exact conversion)",
			"len(PeerSet.Peers) == len(PeerSet.ByPubKey) == n (sets built from a duplicate-free start by WithNewPeer/WithRemovedPeer; WithNewPeer refuses duplicates by ID — checked by C19.use)",
		}, commonAssumptions...),
			Explanation: "Static proof for ALL n >= 1, by abstract interpretation of the SSA of PeerSet.SuperMajority / TrustCount / Len in the domain of eventually periodic quasi-affine functions (explicit table below n=48, closed form A_r*q+B_r per residue class beyond): " +
				"C19.sm: SuperMajority(n) = floor(2n/3)+1 (least integer > 2n/3), 2*SM-n > n/3, SM - f > f with f = ceil(n/3)-1, SM <= n; C19.trust: T(n) >= floor(n/3), T(1)=0, T(n)>=1 for n>=2, T(n) >= f(n), T(n) < n; " +
				"C19.use: every comparison against TrustCount() in the module is strict (count > T), every one against SuperMajority() is count >= SM; the memo fields are written only by their getters; Peers/ByPubKey/ByID are written only by NewPeerSet/initMaps/Unmarshal; WithNewPeer refuses an existing ID. " +
				"C19.anchor (every update of the anchor block — the first and every later one — is guarded by len(Signatures) > TrustCount of the block round's set; shared with C09.anchor). " +
				"Nothing is executed: equalities and inequalities between closed forms are decided by comparing coefficients per residue class and the finite table."},
		Rules: []ruleFunc{c19sm, c19trust, c19use, func(p *Prog, r *Report) { signRule(p, r, "C19.sign") }, func(p *Prog, r *Report) { memberRule(p, r, "C19.member") }, func(p *Prog, r *Report) { anchorRule(p, r, "C19.anchor") }},
	})
}

func newPeerSetEval(p *Prog) *qaEval {
	e := &qaEval{p: p, nFields: map[*types.Var]bool{}, nValues: map[ssa.Value]bool{}}
	for _, f := range []string{"ByPubKey", "Peers", "ByID"} {
		if fv := p.Field(PEER, "PeerSet", f); fv != nil {
			e.nFields[fv] = true
		}
	}
	return e
}

// expected closed forms
func qaFloorDiv(k, d int64) *QA { // floor(k*n/d)
	x := qaScale(qaIdent(), new(big.Rat).SetFrac64(k, d))
	r, _ := qaRound(x, "floor")
	return r
}
func qaCeilDiv(k, d int64) *QA {
	x := qaScale(qaIdent(), new(big.Rat).SetFrac64(k, d))
	r, _ := qaRound(x, "ceil")
	return r
}

func (r *Report) qaCheck(rule, construct, site, fn string, c *QA, err error, from int, okMsg, failMsg string) {
	if err != nil {
		r.Fail(rule, construct, site, fn, "rule=arith-undecided: "+err.Error())
		return
	}
	ok, w := qaHolds(c, from)
	if ok {
		r.Ok(rule, construct, site, fn, okMsg)
	} else {
		r.Fail(rule, construct, site, fn, fmt.Sprintf("%s; counterexample n=%d", failMsg, w))
	}
}

func c19sm(p *Prog, r *Report) {
	const rule = "C19.sm"
	r.Rule(rule, 5, "SuperMajority() == floor(2n/3)+1 for all n >= 1 and the quorum-intersection inequalities")
	fn := p.Func(PEER, "PeerSet", "SuperMajority")
	if fn == nil {
		r.Anchor(rule, "peers.(*PeerSet).SuperMajority")
		return
	}
	e := newPeerSetEval(p)
	sm, err := e.evalReturn(fn)
	site := p.pos(fn.Pos())
	if err != nil {
		msg := err.Error()
		if qe, ok := err.(*qaErr); ok && qe.at != nil {
			if in, ok := qe.at.(ssa.Instruction); ok {
				msg += " at " + p.ipos(in)
			}
		}
		r.Fail(rule, "SuperMajority:closed-form", site, fnName(fn), "rule=arith-undecided: "+msg)
		return
	}
	r.Note("SuperMajority abstract value: %s", sm)
	want := qaAdd(qaFloorDiv(2, 3), qaConst(rat(1)))
	c, err := qaCmp(sm, want, token.EQL)
	r.qaCheck(rule, "SuperMajority==floor(2n/3)+1", site, fnName(fn), c, err, 1, "closed form equals floor(2n/3)+1 for every n >= 1 (table n<48 + 3 residue classes)", "SuperMajority differs from floor(2n/3)+1 (the least integer > 2n/3)")
	n := qaIdent()
	// strictly greater than 2n/3, and minimal
	c, err = qaCmp(sm, qaScale(n, big.NewRat(2, 3)), token.GTR)
	r.qaCheck(rule, "SuperMajority>2n/3", site, fnName(fn), c, err, 1, "SM(n) > 2n/3", "SuperMajority is not strictly greater than 2n/3")
	c, err = qaCmp(qaSub(sm, qaConst(rat(1))), qaScale(n, big.NewRat(2, 3)), token.LEQ)
	r.qaCheck(rule, "SuperMajority-1<=2n/3", site, fnName(fn), c, err, 1, "SM(n) is the least such integer", "SuperMajority is not the least integer above 2n/3")
	// two supermajorities share more than n/3
	c, err = qaCmp(qaSub(qaScale(sm, rat(2)), n), qaScale(n, big.NewRat(1, 3)), token.GTR)
	r.qaCheck(rule, "2*SM-n>n/3", site, fnName(fn), c, err, 1, "any two supermajorities share more than n/3 validators", "two supermajorities may share no more than n/3 validators")
	// honest majority inside a supermajority: f = ceil(n/3)-1 faulty
	f := qaSub(qaCeilDiv(1, 3), qaConst(rat(1)))
	c, err = qaCmp(qaSub(sm, f), f, token.GTR)
	r.qaCheck(rule, "SM-f>f", site, fnName(fn), c, err, 1, "a supermajority contains a majority of honest validators when fewer than n/3 are faulty", "a supermajority may not contain an honest majority")
	c, err = qaCmp(sm, n, token.LEQ)
	r.qaCheck(rule, "SM<=n", site, fnName(fn), c, err, 1, "the threshold is attainable", "SuperMajority exceeds n")
}

func c19trust(p *Prog, r *Report) { trustRule(p, r, "C19.trust") }

func trustRule(p *Prog, r *Report, rule string) {
	r.Rule(rule, 5, "TrustCount(): k > T(n) implies k > n/3; T(1)=0; T(n)>=1 for n>=2; T(n) >= f(n); T(n) < n")
	fn := p.Func(PEER, "PeerSet", "TrustCount")
	if fn == nil {
		r.Anchor(rule, "peers.(*PeerSet).TrustCount")
		return
	}
	e := newPeerSetEval(p)
	t, err := e.evalReturn(fn)
	site := p.pos(fn.Pos())
	if err != nil {
		msg := err.Error()
		if qe, ok := err.(*qaErr); ok && qe.at != nil {
			if in, ok := qe.at.(ssa.Instruction); ok {
				msg += " at " + p.ipos(in)
			}
		}
		r.Fail(rule, "TrustCount:closed-form", site, fnName(fn), "rule=arith-undecided: "+msg)
		return
	}
	r.Note("TrustCount abstract value: %s", t)
	n := qaIdent()
	c, err := qaCmp(t, qaFloorDiv(1, 3), token.GEQ)
	r.qaCheck(rule, "T>=floor(n/3)", site, fnName(fn), c, err, 1, "k > T(n) implies k > n/3", "more than TrustCount signatures need not be more than n/3")
	c, err = qaCmp(t, qaConst(rat(0)), token.EQL)
	if err == nil {
		ok := c.small[1].Sign() != 0
		r.Check(ok, rule, "T(1)==0", site, fnName(fn), "a single signature suffices for n = 1", "TrustCount(1) != 0: a single-validator network could never trust a block")
	} else {
		// equality need not be uniform beyond N0; only n=1 matters
		r.Check(t.small[1].Sign() == 0, rule, "T(1)==0", site, fnName(fn), "a single signature suffices for n = 1", "TrustCount(1) != 0")
	}
	c, err = qaCmp(t, qaConst(rat(1)), token.GEQ)
	r.qaCheck(rule, "T>=1 for n>=2", site, fnName(fn), c, err, 2, "a single signature suffices only for n = 1", "a single signature is enough for some n >= 2")
	f := qaSub(qaCeilDiv(1, 3), qaConst(rat(1)))
	c, err = qaCmp(t, f, token.GEQ)
	r.qaCheck(rule, "T>=f", site, fnName(fn), c, err, 1, "more than T(n) distinct signers include an honest one", "a trusted block may have only faulty signers")
	c, err = qaCmp(t, n, token.LSS)
	r.qaCheck(rule, "T<n", site, fnName(fn), c, err, 1, "trust is attainable", "TrustCount >= n: no block could ever be trusted")
}

func c19use(p *Prog, r *Report) { thresholdUseRule(p, r, "C19.use") }

func thresholdUseRule(p *Prog, r *Report, rule string) {
	r.Rule(rule, 8, "every comparison with TrustCount() is strict (count > T), every comparison with SuperMajority() is count >= SM; memo fields written only by their getters; PeerSet.Peers/ByPubKey/ByID written only by NewPeerSet/initMaps/Unmarshal; WithNewPeer refuses an existing ID")
	tcM := named(PEER + ".PeerSet.TrustCount")
	smM := named(PEER + ".PeerSet.SuperMajority")
	nT, nS := 0, 0
	ord := map[string]int{}
	for _, fn := range p.Mod {
		for _, b := range fn.Blocks {
			for _, in := range b.Instrs {
				bo, ok := in.(*ssa.BinOp)
				if !ok {
					continue
				}
				xT, yT := flowsFromCall(bo.X, tcM, 0), flowsFromCall(bo.Y, tcM, 0)
				xS, yS := flowsFromCall(bo.X, smM, 0), flowsFromCall(bo.Y, smM, 0)
				if !(xT || yT || xS || yS) {
					continue
				}
				key := fn.Name()
				ord[key]++
				cons := fmt.Sprintf("%s:cmp#%d", key, ord[key])
				// normalise to  count OP threshold
				op := bo.Op
				if xT || xS { // threshold on the left: flip
					switch op {
					case token.GTR:
						op = token.LSS
					case token.GEQ:
						op = token.LEQ
					case token.LSS:
						op = token.GTR
					case token.LEQ:
						op = token.GEQ
					}
				}
				if xT || yT {
					nT++
					ok := op == token.GTR || op == token.LEQ
					r.Check(ok, rule, cons+":TrustCount-strict", p.ipos(in), fnName(fn), "count > TrustCount() / count <= TrustCount()", fmt.Sprintf("TrustCount() is compared with operator %s (after normalisation: count %s T); only the strict forms > / <= decide 'more than a third'", bo.Op, op))
				} else {
					nS++
					ok := op == token.GEQ || op == token.LSS
					r.Check(ok, rule, cons+":SuperMajority-nonstrict", p.ipos(in), fnName(fn), "count >= SuperMajority() / count < SuperMajority()", fmt.Sprintf("SuperMajority() is compared with operator %s (after normalisation: count %s SM); the threshold is already the least integer above 2n/3, so only >= / < are right", bo.Op, op))
				}
			}
		}
	}
	// any other use of the thresholds (arithmetic on them) is suspicious
	for _, c := range p.callsAnywhere(named(PEER+".PeerSet.TrustCount", PEER+".PeerSet.SuperMajority")) {
		v := c.Value()
		if v == nil {
			continue
		}
		if refs := v.Referrers(); refs != nil {
			for _, u := range *refs {
				if bo, ok := u.(*ssa.BinOp); ok {
					switch bo.Op {
					case token.ADD, token.SUB, token.MUL, token.QUO, token.REM:
						r.Fail(rule, c.Parent().Name()+":threshold-arithmetic", p.ipos(bo), fnName(c.Parent()), "arithmetic on a quorum threshold ("+bo.Op.String()+"): the comparison no longer uses the proven closed form")
					}
				}
			}
		}
	}
	if nT < 2 || nS < 5 {
		r.Note("C19.use: %d TrustCount comparisons (3 confirmed by hand), %d SuperMajority comparisons (6 confirmed by hand)", nT, nS)
	}
	if nT == 0 || nS == 0 {
		r.Fail(rule, "threshold-comparisons", "-", "", "no comparison against TrustCount()/SuperMajority() found")
	}
	// memo fields
	for _, spec := range [][2]string{{"superMajority", "SuperMajority"}, {"trustCount", "TrustCount"}} {
		f := p.Field(PEER, "PeerSet", spec[0])
		if f == nil {
			r.Anchor(rule, "PeerSet."+spec[0])
			continue
		}
		var bad []string
		for _, w := range p.writersOf(f) {
			if w.Fn.Name() == spec[1] {
				continue
			}
			if c, ok := w.Val.(*ssa.Const); ok && c.Value == nil {
				continue // reset to nil forces recomputation
			}
			bad = append(bad, fnName(w.Fn)+"@"+p.ipos(w.Instr))
		}
		r.Check(len(bad) == 0, rule, "PeerSet."+spec[0]+":writers", "-", "", "memo written only by "+spec[1]+" (or reset to nil)", "memo field written elsewhere: "+strings.Join(bad, ", "))
	}
	for _, name := range []string{"Peers", "ByPubKey", "ByID"} {
		f := p.Field(PEER, "PeerSet", name)
		if f == nil {
			r.Anchor(rule, "PeerSet."+name)
			continue
		}
		allowed := map[string]bool{"NewPeerSet": true, "initMaps": true, "Unmarshal": true}
		var bad []string
		for _, w := range p.writersOf(f) {
			if allowed[w.Fn.Name()] {
				continue
			}
			// construction of a NEW set in another function: the object is allocated there; if it
			// starts as a struct copy of an existing set, every memoised value must be reset
			if w.Fresh {
				if missing := staleMemoAfterCopy(p, w); len(missing) == 0 {
					continue
				} else {
					bad = append(bad, fnName(w.Fn)+"@"+p.ipos(w.Instr)+" (copied set keeps "+strings.Join(missing, ", ")+")")
					continue
				}
			}
			bad = append(bad, fnName(w.Fn)+"@"+p.ipos(w.Instr))
		}
		r.Check(len(bad) == 0, rule, "PeerSet."+name+":writers", "-", "", "immutable after construction", "PeerSet."+name+" mutated after construction (memoised thresholds and hash would go stale): "+strings.Join(bad, ", "))
	}
	noDupRule(p, r, rule)
}

// staleMemoAfterCopy: w writes a field of a PeerSet allocated in w.Fn. If that object was
// initialised by copying another PeerSet (`cp := *old`), returns the memo fields that are not reset
// to their zero value in the function.
func staleMemoAfterCopy(p *Prog, w *FieldWrite) []string {
	st, ok := w.Instr.(*ssa.Store)
	if !ok {
		return nil
	}
	fa, ok := st.Addr.(*ssa.FieldAddr)
	if !ok {
		return nil
	}
	al, ok := fa.X.(*ssa.Alloc)
	if !ok {
		return []string{"(object not a local allocation)"}
	}
	copied := false
	reset := map[string]bool{}
	if refs := al.Referrers(); refs != nil {
		for _, rf := range *refs {
			switch x := rf.(type) {
			case *ssa.Store:
				if x.Addr == ssa.Value(al) {
					copied = true
				}
			case *ssa.FieldAddr:
				fv := fieldVar(al.Type(), x.Field)
				if fv == nil {
					continue
				}
				if fr := x.Referrers(); fr != nil {
					for _, u := range *fr {
						if s2, isSt := u.(*ssa.Store); isSt && s2.Addr == ssa.Value(x) {
							if c, isC := s2.Val.(*ssa.Const); isC && (c.Value == nil || c.Value.String() == `""`) {
								reset[fv.Name()] = true
							}
						}
					}
				}
			}
		}
	}
	if !copied {
		return nil
	}
	var missing []string
	for _, m := range []string{"hash", "hex", "superMajority", "trustCount"} {
		if f := p.Field(PEER, "PeerSet", m); f != nil && !reset[f.Name()] {
			missing = append(missing, m)
		}
	}
	return missing
}

// noDupRule: WithNewPeer appends the new peer only if it is not already a member BY IDENTITY (ByID,
// keyed by the id derived from the decoded key bytes). The string-keyed ByPubKey map distinguishes
// two spellings of one key: a peer added twice keeps len(Peers) != Len(), and a lone validator's
// peer selector ends up with no selectable peer (rand.Intn(0) panics the gossip loop).
func noDupRule(p *Prog, r *Report, rule string) {
	wnp := p.Func(PEER, "PeerSet", "WithNewPeer")
	if wnp == nil {
		r.Anchor(rule, "peers.(*PeerSet).WithNewPeer")
		return
	}
	n := 0
	for _, b := range wnp.Blocks {
		for _, in := range b.Instrs {
			c, ok := in.(*ssa.Call)
			if !ok {
				continue
			}
			if bi, isB := c.Call.Value.(*ssa.Builtin); isB && bi.Name() == "append" {
				// the append that adds the new peer (a copy of the existing list is not concerned)
				if len(c.Call.Args) < 2 || len(wnp.Params) < 2 || !dependsOn(c.Call.Args[1], func(x ssa.Value) bool { return x == ssa.Value(wnp.Params[1]) }) {
					continue
				}
				n++
				q := func(l Lit) bool {
					lk, present, ok := lookupLit(l)
					if !ok || present {
						return false
					}
					fv, _ := fieldOf(lk.X)
					return fv != nil && refName(fv) == "ByID"
				}
				g, _ := p.allPaths(c, []Pred{q}, all(1))
				r.Check(g, rule, "WithNewPeer:no-duplicates", p.ipos(c), fnName(wnp), "a peer already in the set — by id, whatever the spelling of its key — is not appended again", "WithNewPeer can append a peer that is already present: len(Peers) != Len() and TrustCount's n > 1 test uses the wrong count")
			}
		}
	}
	if n == 0 {
		r.Fail(rule, "WithNewPeer:no-duplicates", p.pos(wnp.Pos()), fnName(wnp), "no append found in WithNewPeer")
	}
}
