package main

import (
	"fmt"
	"go/token"
	"go/types"
	"math/big"
	"regexp"
	"sort"
	"strconv"
	"strings"

	"golang.org/x/tools/go/ssa"
)

func init() {
	register(&propDef{
		ID: "C16", NeedCG: true,
		Meta: propMeta{Level: "other", Assumptions: commonAssumptions,
			Explanation: "Decides: C16.readthrough (BadgerStore.GetEvent/GetBlock/GetRoot/ParticipantEvents/ParticipantEvent ask the in-memory store first and, on its error, the corresponding db getter whose result is what is returned), " +
				"C16.writethrough (BadgerStore.SetEvent/SetBlock/SetFrame/SetRound/SetPeerSet/Reset: every success return is reached only in maintenance mode or after the db writer succeeded — no other condition may skip the write; the in-memory write precedes the db write), " +
				"C16.keys (dbSetX and dbGetX build their key with the same key function; every key function is used by a writer and a reader; integer components are zero-padded to >= 9 digits so that key order is numeric order), " +
				"C16.topo (the topological listing has no gaps: InsertEvent consumes a topological index only after Store.SetEvent stored the event under it; dbSetEvents writes the key of exactly that index; Bootstrap reads consecutive keys), " +
				"C16.fields (every field of a persisted type is serialised by its codec — exported, untagged — or is a listed cache that is recomputed; on the pinned tree RoundInfo.decided / queued are neither: known finding F-C16-2), C16.codec (dbSetX marshals with T.Marshal[DB] and dbGetX unmarshals with the matching T.Unmarshal[DB] of the same type), C16.sibling (thorough: the mobile store equals badger_store.go modulo the import path). " +
				"C16.commit (every success return of a dbSet* writer is reached after its transaction committed — no \"unchanged, skip the write\" shortcut on a memoised hash; shared with C11.commit). " +
				"NOT decided: behaviour after eviction and reopen as a value-level map model; durability; the five dropped store errors reported by errcheck in hashgraph (read one by one: none loses persisted content on this property's paths)."},
		Rules:    []ruleFunc{c16readthrough, c16writethrough, c16keys, c16codec, func(p *Prog, r *Report) { topoRule(p, r, "C16.topo") }, c16fields, c16lru, func(p *Prog, r *Report) { keyArgRule(p, r, "C16.keyarg") }, func(p *Prog, r *Report) { replayRule(p, r, "C16.replay") }, c16errs, c16roll, c16dbguard, func(p *Prog, r *Report) { commitRule(p, r, "C16.commit") }},
		Thorough: []ruleFunc{siblingRule("C16.sibling")},
	})
}

func isDbMethod(f *types.Func, prefix string) bool {
	return f != nil && recvNamed(f) == "BadgerStore" && strings.HasPrefix(f.Name(), prefix)
}

func c16readthrough(p *Prog, r *Report) {
	const rule = "C16.readthrough"
	r.Rule(rule, 5, "cache first, then DB: the db getter is called exactly on the in-memory getter's error and its result is returned")
	for _, name := range []string{"GetEvent", "GetBlock", "GetRoot", "ParticipantEvents", "ParticipantEvent"} {
		fn := p.Func(HG, "BadgerStore", name)
		if fn == nil {
			r.Anchor(rule, "hashgraph.(*BadgerStore)."+name)
			continue
		}
		mem := callsIn(fn, named(HG+".InmemStore."+name))
		var db []ssa.CallInstruction
		for _, c := range callsIn(fn, func(f *types.Func) bool { return isDbMethod(f, "db") }) {
			db = append(db, c)
		}
		ok := len(mem) == 1 && len(db) >= 1
		detail := fmt.Sprintf("in-memory calls=%d db calls=%d", len(mem), len(db))
		if ok {
			mc := mem[0].(*ssa.Call)
			q := func(l Lit) bool {
				v, isNil, okk := nilTest(l)
				if !okk || isNil {
					return false
				}
				c, idx := callOf(v)
				return c == mc && idx == 1
			}
			for _, d := range db {
				if g, _ := p.allPaths(d, []Pred{q}, all(1)); !g {
					ok = false
					detail = "the db getter is not called exactly on the in-memory getter's error"
				}
			}
			// a value that comes from the cache alone may be returned only when the cache lookup succeeded
			qMemOK := func(l Lit) bool {
				v, isNil, okk := nilTest(l)
				if !okk || !isNil {
					return false
				}
				c, idx := callOf(v)
				return c == mc && idx == 1
			}
			fromDb := func(v ssa.Value) bool {
				for _, d := range db {
					if dv, isV := d.(*ssa.Call); isV && depOnValue(v, dv) {
						return true
					}
				}
				return false
			}
			for _, b := range fn.Blocks {
				ret, isRet := b.Instrs[len(b.Instrs)-1].(*ssa.Return)
				if !isRet || (b.Index != 0 && len(b.Preds) == 0) {
					continue
				}
				v := ret.Results[0]
				if ph, isPhi := v.(*ssa.Phi); isPhi && ph.Block() == b {
					for i, e := range ph.Edges {
						if fromDb(e) {
							continue
						}
						if g, _ := p.allPathsEdge(b.Preds[i], b, []Pred{qMemOK}, all(1)); !g {
							ok = false
							detail = "the cached value can be returned although the in-memory lookup failed (no fall-back to the database on that path): an evicted item is reported missing"
						}
					}
				} else if !fromDb(v) {
					if g, _ := p.allPaths(ret, []Pred{qMemOK}, all(1)); !g {
						ok = false
						detail = "the cached value can be returned although the in-memory lookup failed"
					}
				}
			}
			// the cache hit is served by some return, the database's answer by some return (the checks
			// above decide on which paths); nothing else is returned
			served, dbServed := false, false
			for _, b := range fn.Blocks {
				if ret, isRet := b.Instrs[len(b.Instrs)-1].(*ssa.Return); isRet && (b.Index == 0 || len(b.Preds) > 0) {
					v := ret.Results[0]
					m, d := depOnValue(v, mc), fromDb(v)
					if m {
						served = true
					}
					if d {
						dbServed = true
					}
					if !m && !d {
						if c, isC := v.(*ssa.Const); !isC || !c.IsNil() {
							ok = false
							detail = "a returned value comes neither from the in-memory getter nor from the database"
						}
					}
				}
			}
			if !served {
				ok = false
				detail = "the returned value does not come from the in-memory getter"
			}
			if !dbServed {
				ok = false
				detail = "the db getter's result is not returned: an item evicted from the cache is no longer readable"
			}
		}
		r.Check(ok, rule, "BadgerStore."+name, p.pos(fn.Pos()), fnName(fn), "read-through to the database on a cache miss", detail)
	}
}

func c16writethrough(p *Prog, r *Report) {
	const rule = "C16.writethrough"
	r.Rule(rule, 6, "every success return of a BadgerStore setter is reached only in maintenance mode or after its db writer returned nil; the in-memory write comes first")
	for _, name := range []string{"SetEvent", "SetBlock", "SetFrame", "SetRound", "SetPeerSet", "Reset"} {
		fn := p.Func(HG, "BadgerStore", name)
		if fn == nil {
			r.Anchor(rule, "hashgraph.(*BadgerStore)."+name)
			continue
		}
		isDbSet := func(f *types.Func) bool { return isDbMethod(f, "dbSet") }
		qMaint := func(l Lit) bool { return l.Pos && flowsFromField(l.V, "maintenanceMode") }
		qDb := func(l Lit) bool { _, ok := errNilLit(l, isDbSet); return ok }
		rets := p.succRets(fn, errNil, 0)
		if len(rets) == 0 {
			r.Fail(rule, "BadgerStore."+name+":returns", p.pos(fn.Pos()), fnName(fn), "no success return")
			continue
		}
		ok := true
		detail := ""
		for _, rp := range rets {
			// `return s.dbSetX(...)`: success of the method is success of the writer
			if rp.pred == nil {
				if c, _ := callOf(rp.ret.Results[0]); c != nil {
					if f := calleeFunc(c.Common()); isDbSet(f) {
						continue
					}
				}
			}
			g, _ := p.holdsAtRet(rp, []Pred{qMaint, qDb}, func(m uint32) bool { return m != 0 })
			if !g {
				ok = false
				detail = "success return at " + p.ipos(rp.ret) + " is reachable outside maintenance mode without a successful db write (the value lives only in the cache and is lost on eviction / restart)"
			}
		}
		// db writes present at all, and after the in-memory write succeeded
		dbs := callsIn(fn, isDbSet)
		if len(dbs) == 0 {
			ok = false
			detail = "no db writer is called"
		}
		memM := named(HG + ".InmemStore." + name)
		qMem := func(l Lit) bool { _, okk := errNilLit(l, memM); return okk }
		for _, d := range dbs {
			if g, _ := p.allPaths(d, []Pred{qMem}, all(1)); !g {
				ok = false
				detail = "db write at " + p.ipos(d) + " is not preceded by a successful in-memory write"
			}
		}
		r.Check(ok, rule, "BadgerStore."+name, p.pos(fn.Pos()), fnName(fn), "write-through: cache, then database, error propagated", detail)
	}
}

var padVerb = regexp.MustCompile(`%0(\d+)d`)

func c16keys(p *Prog, r *Report) {
	const rule = "C16.keys"
	r.Rule(rule, 8, "key pairing between writers and readers, zero-padded integer components")
	hgPkg := p.Pkg(HG)
	if hgPkg == nil {
		r.Anchor(rule, "package hashgraph")
		return
	}
	// key functions: package-level funcs named *Key returning []byte
	keyFns := map[string]*ssa.Function{}
	for name, m := range hgPkg.Members {
		if f, ok := m.(*ssa.Function); ok && strings.HasSuffix(name, "Key") && f.Signature.Results().Len() == 1 {
			if s, ok := f.Signature.Results().At(0).Type().(*types.Slice); ok {
				if b, ok := s.Elem().(*types.Basic); ok && b.Kind() == types.Byte {
					keyFns[name] = f
				}
			}
		}
	}
	if len(keyFns) < 6 {
		r.Fail(rule, "key-functions", "-", "", fmt.Sprintf("only %d key functions found", len(keyFns)))
	}
	// format check
	var names []string
	for n := range keyFns {
		names = append(names, n)
	}
	sort.Strings(names)
	for _, n := range names {
		f := keyFns[n]
		hasInt := false
		for _, pa := range f.Params {
			if b, ok := pa.Type().Underlying().(*types.Basic); ok && b.Info()&types.IsInteger != 0 {
				hasInt = true
			}
		}
		okFmt := true
		detail := "no integer component"
		for _, c := range callsIn(f, named("fmt.Sprintf")) {
			format, isConst := strConst(c.Common().Args[0])
			if !isConst {
				okFmt = false
				detail = "format string is not a constant"
				continue
			}
			if hasInt {
				m := padVerb.FindAllStringSubmatch(format, -1)
				if len(m) == 0 {
					okFmt = false
					detail = "integer component not zero-padded (format " + strconv.Quote(format) + "): lexicographic key order would differ from numeric order"
				}
				for _, mm := range m {
					w, _ := strconv.Atoi(mm[1])
					if w < 9 {
						okFmt = false
						detail = "zero padding narrower than 9 digits in " + strconv.Quote(format)
					} else {
						detail = "format " + strconv.Quote(format)
					}
				}
				if strings.Count(format, "%d") > 0 {
					okFmt = false
					detail = "unpadded %d in " + strconv.Quote(format)
				}
			}
		}
		r.Check(okFmt, rule, n+":format", p.pos(f.Pos()), fnName(f), detail, detail)
	}
	// who uses which key function for Set / Get
	writers, readers := map[string][]string{}, map[string][]string{}
	usesOf := func(fn *ssa.Function) (set, get map[string]bool) {
		set, get = map[string]bool{}, map[string]bool{}
		for _, f := range withAnon(fn) {
			for _, b := range f.Blocks {
				for _, in := range b.Instrs {
					ci, ok := in.(ssa.CallInstruction)
					if !ok {
						continue
					}
					cf := calleeFunc(ci.Common())
					var isSet, isGet bool
					switch {
					case isBadgerTxnMethod(cf, "Set"):
						isSet = true
					case isBadgerTxnMethod(cf, "Get"):
						isGet = true
					default:
						continue
					}
					key := argN(ci, 0)
					matched := false
					for n := range keyFns {
						n := n
						if flowsFrom(key, func(x ssa.Value) bool {
							c, _ := callOf(x)
							if c == nil {
								return false
							}
							sf := c.Call.StaticCallee()
							return sf == keyFns[n]
						}) {
							matched = true
							if isSet {
								set[n] = true
							} else {
								get[n] = true
							}
						}
					}
					if !matched {
						// the event record itself: key = []byte(event hex)
						k := "<event-hash>"
						if isSet {
							set[k] = true
						}
						if isGet {
							get[k] = true
						}
					}
				}
			}
		}
		return
	}
	perFn := map[string][2]map[string]bool{}
	for _, fn := range p.Mod {
		if fn.Parent() != nil || recvNamedSig(fn) != "BadgerStore" || !strings.HasPrefix(fn.Name(), "db") {
			continue
		}
		s, g := usesOf(fn)
		perFn[fn.Name()] = [2]map[string]bool{s, g}
		for k := range s {
			writers[k] = append(writers[k], fn.Name())
		}
		for k := range g {
			readers[k] = append(readers[k], fn.Name())
		}
	}
	for _, n := range append(names, "<event-hash>") {
		w, rd := writers[n], readers[n]
		sort.Strings(w)
		sort.Strings(rd)
		ok := len(w) > 0 && len(rd) > 0
		if len(w) > 0 && len(rd) == 0 && keyFns[n] != nil {
			// read by prefix scan: an iterator Seek on the constant prefix the key function also uses
			if pfx := prefixScanReader(p, keyFns[n]); pfx != "" {
				ok = true
				rd = []string{pfx}
			}
		}
		r.Check(ok, rule, n+":written-and-read", "-", "", "written by "+strings.Join(w, ",")+"; read by "+strings.Join(rd, ","), fmt.Sprintf("key function %s: writers=%v readers=%v — records written under it are never read back (or read but never written)", n, w, rd))
	}
	// dbSetX / dbGetX pairs use the same key functions
	for _, x := range []string{"Block", "Frame", "Round", "PeerSet", "Root"} {
		s, okS := perFn["dbSet"+x]
		g, okG := perFn["dbGet"+x]
		if !okS || !okG {
			r.Anchor(rule, "BadgerStore.dbSet"+x+"/dbGet"+x)
			continue
		}
		ks, kg := keysOf(s[0]), keysOf(g[1])
		r.Check(ks == kg && ks != "", rule, "dbSet"+x+"~dbGet"+x+":same-key", "-", "", "both use "+ks, "dbSet"+x+" writes under {"+ks+"} but dbGet"+x+" reads {"+kg+"}")
	}
	// events: dbSetEvents writes hash, topo, participant; readers use the same functions with the same arguments' meaning
	if s, ok := perFn["dbSetEvents"]; ok {
		want := "<event-hash>,participantEventKey,topologicalEventKey"
		r.Check(keysOf(s[0]) == want, rule, "dbSetEvents:three-records", "-", "", "writes {"+want+"}", "dbSetEvents writes {"+keysOf(s[0])+"} instead of {"+want+"}")
	}
	for fnName, want := range map[string]string{"dbGetEvent": "<event-hash>", "dbParticipantEvents": "participantEventKey", "dbParticipantEvent": "participantEventKey", "dbTopologicalEvents": "<event-hash>,topologicalEventKey"} {
		if g, ok := perFn[fnName]; ok {
			r.Check(keysOf(g[1]) == want, rule, fnName+":reads", "-", "", "reads {"+want+"}", fnName+" reads {"+keysOf(g[1])+"} instead of {"+want+"}")
		} else {
			r.Anchor(rule, "BadgerStore."+fnName)
		}
	}
}

func keysOf(m map[string]bool) string {
	var ks []string
	for k := range m {
		ks = append(ks, k)
	}
	sort.Strings(ks)
	return strings.Join(ks, ",")
}

func c16codec(p *Prog, r *Report) {
	const rule = "C16.codec"
	r.Rule(rule, 7, "each dbSetX marshals with T.Marshal / T.MarshalDB and the paired reader unmarshals with the matching method of the same type")
	pairs := [][2]string{{"dbSetBlock", "dbGetBlock"}, {"dbSetFrame", "dbGetFrame"}, {"dbSetRound", "dbGetRound"}, {"dbSetPeerSet", "dbGetPeerSet"}, {"dbSetRoot", "dbGetRoot"}, {"dbSetRepertoire", "dbGetRepertoire"}, {"dbSetEvents", "dbGetEvent"}, {"dbSetEvents", "dbTopologicalEvents"}}
	codecOf := func(fn *ssa.Function, prefix string) []string {
		var res []string
		for _, f := range withAnon(fn) {
			for _, b := range f.Blocks {
				for _, in := range b.Instrs {
					if ci, ok := in.(ssa.CallInstruction); ok {
						if cf := calleeFunc(ci.Common()); cf != nil && strings.HasPrefix(cf.Name(), prefix) && recvNamed(cf) != "" && cf.Pkg() != nil && strings.HasPrefix(cf.Pkg().Path(), modPath) {
							res = append(res, recvNamed(cf)+"."+strings.TrimPrefix(cf.Name(), prefix))
						}
					}
				}
			}
		}
		sort.Strings(res)
		return res
	}
	for _, pr := range pairs {
		w := p.Func(HG, "BadgerStore", pr[0])
		g := p.Func(HG, "BadgerStore", pr[1])
		if w == nil || g == nil {
			r.Anchor(rule, "BadgerStore."+pr[0]+"/"+pr[1])
			continue
		}
		mw, mg := codecOf(w, "Marshal"), codecOf(g, "Unmarshal")
		ok := len(mw) > 0 && strings.Join(mw, ",") == strings.Join(mg, ",")
		r.Check(ok, rule, pr[0]+"~"+pr[1], p.pos(g.Pos()), fnName(g), "encoder/decoder pair: "+strings.Join(mw, ","), fmt.Sprintf("%s marshals with %v but %s unmarshals with %v (suffix after Marshal/Unmarshal must agree: plain vs DB form, same type)", pr[0], mw, pr[1], mg))
	}
}

// prefixScanReader: a BadgerStore db function seeks an iterator on a constant prefix that is
// also a constant argument of the key function's Sprintf.
func prefixScanReader(p *Prog, keyFn *ssa.Function) string {
	consts := map[string]bool{}
	for _, c := range callsIn(keyFn, named("fmt.Sprintf")) {
		for _, a := range c.Common().Args[1:] {
			dependsOn(a, func(x ssa.Value) bool {
				if s, ok := strConst(x); ok && s != "" {
					consts[s] = true
				}
				return false
			})
		}
	}
	for _, fn := range p.Mod {
		if recvNamedSig(fn) != "BadgerStore" && (fn.Parent() == nil || recvNamedSig(fn.Parent()) != "BadgerStore") {
			continue
		}
		for _, b := range fn.Blocks {
			for _, in := range b.Instrs {
				ci, ok := in.(ssa.CallInstruction)
				if !ok {
					continue
				}
				cf := calleeFunc(ci.Common())
				if cf == nil || cf.Name() != "Seek" || recvNamed(cf) != "Iterator" {
					continue
				}
				found := ""
				dependsOn(argN(ci, 0), func(x ssa.Value) bool {
					if s, ok := strConst(x); ok && consts[s] {
						found = s
						return true
					}
					return false
				})
				if found != "" {
					top := fn
					for top.Parent() != nil {
						top = top.Parent()
					}
					return top.Name() + " (prefix scan on " + found + ")"
				}
			}
		}
	}
	return ""
}

// topoRule: the counter behind the topo_<n> keys is advanced only once the event carrying that
// number has been stored. Otherwise a single failed insertion after the increment leaves a hole in
// the key sequence, and Bootstrap — which reads consecutive keys until one is missing — silently
// drops every later event.
func topoRule(p *Prog, r *Report, rule string) {
	r.Rule(rule, 2, "no gaps in the topological listing: counter advanced only after the event was stored under its index")
	fn := p.Func(HG, "Hashgraph", "InsertEvent")
	fCnt := p.Field(HG, "Hashgraph", "topologicalIndex")
	fEv := p.Field(HG, "Event", "topologicalIndex")
	if fn == nil || fCnt == nil || fEv == nil {
		r.Anchor(rule, "InsertEvent / topologicalIndex")
		return
	}
	q := p.lift(func(l Lit) bool { _, ok := errNilLit(l, storeM("SetEvent")); return ok }, 1)
	n := 0
	for _, w := range p.writersOf(fCnt) {
		if w.Fn != fn {
			continue
		}
		n++
		g, _ := p.allPaths(w.Instr, []Pred{q}, all(1))
		r.Check(g, rule, "InsertEvent:counter-advanced-after-SetEvent", p.ipos(w.Instr), fnName(fn), "the index is consumed only by a stored event",
			"Hashgraph.topologicalIndex is incremented before Store.SetEvent succeeded: when the insertion then fails (store fault, wire-info error) the index is burnt, the next event is stored under topo_<n+1>, and Bootstrap — reading consecutive keys until one is missing — loses every event after the hole (confirmed: one injected SetEvent fault, 8 events inserted, 1 recovered after restart)")
	}
	if n == 0 {
		r.Fail(rule, "InsertEvent:counter-advanced-after-SetEvent", p.pos(fn.Pos()), fnName(fn), "InsertEvent does not advance the topological counter")
	}
	// the event is numbered from the counter before it is stored
	m := 0
	for _, w := range p.writersOf(fEv) {
		if w.Fn != fn {
			continue
		}
		m++
		okVal := flowsFrom(w.Val, func(x ssa.Value) bool { fv, _ := fieldOf(x); return fv == fCnt })
		okBefore := false
		for _, c := range callsIn(fn, storeM("SetEvent")) {
			if dominates(w.Instr, c) {
				okBefore = true
			}
		}
		r.Check(okVal && okBefore, rule, "InsertEvent:event-numbered-before-store", p.ipos(w.Instr), fnName(fn), "the event carries the counter's value when it is stored", "the event's topological index is not taken from the counter before Store.SetEvent")
	}
	if m == 0 {
		r.Fail(rule, "InsertEvent:event-numbered-before-store", p.pos(fn.Pos()), fnName(fn), "InsertEvent does not number the event")
	}
	// other writers of the counter: Reset only
	var bad []string
	for _, w := range p.writersOf(fCnt) {
		if w.Fn != fn && w.Fn.Name() != "Reset" && !w.Fresh {
			bad = append(bad, fnName(w.Fn)+"@"+p.ipos(w.Instr))
		}
	}
	r.Check(len(bad) == 0, rule, "Hashgraph.topologicalIndex:writers", "-", "", "written by InsertEvent and Reset only", "other writers: "+strings.Join(bad, ", "))
}

// C16.fields: what is written decodes to the identical value only if every field of the persisted
// type goes through the codec. Unexported fields are dropped by encoding/json and ugorji codec;
// they must be caches recomputed on demand (table below, one reason each).
func c16fields(p *Prog, r *Report) {
	const rule = "C16.fields"
	r.Rule(rule, 6, "every field of a persisted type is serialised or is a listed derived cache")
	derived := map[string]map[string]string{
		"Block":      {"hash": "lazy cache of Hash()", "hex": "lazy cache of Hex()", "peerSet": "rebuilt from PeersHash consumers; only set by NewBlock"},
		"Peer":       {"id": "lazy cache of ID()"},
		"PeerSet":    {"ByPubKey": "rebuilt by initMaps in Unmarshal", "ByID": "rebuilt by initMaps in Unmarshal", "hash": "lazy cache", "hex": "lazy cache", "superMajority": "lazy cache", "trustCount": "lazy cache"},
		"Frame":      {},
		"Root":       {},
		"RoundInfo":  {},
		"roundEvent": {},
		"FrameEvent": {},
		"BlockBody":  {},
	}
	for _, t := range [][2]string{{HG, "Block"}, {HG, "BlockBody"}, {HG, "Frame"}, {HG, "FrameEvent"}, {HG, "Root"}, {HG, "RoundInfo"}, {HG, "roundEvent"}, {PEER, "Peer"}, {PEER, "PeerSet"}} {
		n := p.Type(t[0], t[1])
		if n == nil {
			r.Anchor(rule, t[1])
			continue
		}
		st := n.Underlying().(*types.Struct)
		for i := 0; i < st.NumFields(); i++ {
			f := st.Field(i)
			tag := st.Tag(i)
			hidden := !f.Exported() || strings.Contains(tag, `json:"-"`)
			if !hidden {
				continue
			}
			why, ok := derived[t[1]][refName(f)]
			r.Check(ok, rule, t[1]+"."+refName(f)+":serialised-or-derived", p.pos(f.Pos()), "", "not serialised, recomputed: "+why,
				"field "+t[1]+"."+refName(f)+" is part of a persisted value but is dropped by the codec (unexported / hidden) and is not a recomputed cache: a "+t[1]+" read back from the database differs from the one written")
		}
	}
}

// C16.lru: write-through only helps if the cache takes the new value. For a key already cached,
// LRU.Add must store its value parameter into the existing entry on every path.
func c16lru(p *Prog, r *Report) {
	const rule = "C16.lru"
	r.Rule(rule, 1, "LRU.Add replaces the value of a key that is already cached")
	fn := p.Func(COMM, "LRU", "Add")
	if fn == nil {
		r.Anchor(rule, "common.(*LRU).Add")
		return
	}
	val := ssa.Value(fn.Params[2])
	// every return reached with the key present passes a store of the value parameter into an entry
	qPresent := func(l Lit) bool {
		if lk, present, ok := lookupLit(l); ok && present {
			fv, _ := fieldOf(lk.X)
			return fv != nil && refName(fv) == "items"
		}
		// or via Get/Peek/Contains on the same cache
		if l.Pos {
			if c, idx := callOf(l.V); c != nil {
				if f := calleeFunc(c.Common()); f != nil && recvNamed(f) == "LRU" && (idx == 1 || f.Name() == "Contains") {
					return true
				}
			}
		}
		return false
	}
	var stores []ssa.Instruction
	for _, b := range fn.Blocks {
		for _, in := range b.Instrs {
			if st, ok := in.(*ssa.Store); ok && unwrap(st.Val) == val {
				if fv, _ := fieldOf(st.Addr); fv != nil && refName(fv) == "value" {
					stores = append(stores, st)
				}
			}
		}
	}
	n := 0
	for _, b := range fn.Blocks {
		ret, ok := b.Instrs[len(b.Instrs)-1].(*ssa.Return)
		if !ok || (b.Index != 0 && len(b.Preds) == 0) {
			continue
		}
		// is this return on the "already present" side?
		pi := p.pathMasks(fn, []Pred{qPresent})
		presentPath := false
		for m := range pi.in[b.Index] {
			if pi.predMask(m)&1 != 0 {
				presentPath = true
			}
		}
		if !presentPath {
			continue
		}
		n++
		ok2 := false
		for _, st := range stores {
			if dominates(st, ret) {
				ok2 = true
			}
		}
		r.Check(ok2, rule, "LRU.Add:existing-key-gets-new-value", p.ipos(ret), fnName(fn), "the entry of an existing key is overwritten with the new value", "LRU.Add returns for an already-cached key without storing the new value: the in-memory store keeps serving the old object (e.g. a block without its latest signatures) while the database holds the new one, until eviction or restart")
	}
	if n == 0 {
		r.Fail(rule, "LRU.Add:existing-key-gets-new-value", p.pos(fn.Pos()), fnName(fn), "no 'key already present' path found in LRU.Add")
	}
}

// keyArgExempt: functions in which an integer key component is legitimately computed (with the reason).
var keyArgExempt = map[string]string{
	"dbParticipantEvents": "range listing 'events with index > skip': the scan starts at skip+1 and advances by one",
	"dbTopologicalEvents": "range listing: the scan advances by one from the requested start",
}

// C16.keyarg: a record is read under the key it was written under only if the integer component
// of the key is the index itself: in every point getter / setter of the persistent store the
// integer handed to a *Key function is a parameter, a field or a getter result used VERBATIM —
// never an arithmetic expression (an off-by-one silently returns the neighbouring record).
func keyArgRule(p *Prog, r *Report, rule string) {
	r.Rule(rule, 10, "the integer component of every database key is the index itself (parameter, field or getter used verbatim), except the two range scans")
	hgPkg := p.Pkg(HG)
	if hgPkg == nil {
		r.Anchor(rule, "package hashgraph")
		return
	}
	isKeyFn := func(f *types.Func) bool {
		if f == nil || f.Pkg() == nil || !strings.HasSuffix(f.Pkg().Path(), "/"+HG) || !strings.HasSuffix(f.Name(), "Key") {
			return false
		}
		sig := f.Type().(*types.Signature)
		if sig.Recv() != nil || sig.Results().Len() != 1 {
			return false
		}
		s, ok := sig.Results().At(0).Type().(*types.Slice)
		if !ok {
			return false
		}
		b, ok := s.Elem().(*types.Basic)
		return ok && b.Kind() == types.Byte
	}
	n := 0
	for _, fn := range p.Mod {
		if !strings.HasSuffix(fnPkgPath(fn), "/"+HG) {
			continue
		}
		top := fn
		for top.Parent() != nil {
			top = top.Parent()
		}
		for _, b := range fn.Blocks {
			for _, in := range b.Instrs {
				ci, ok := in.(ssa.CallInstruction)
				if !ok || !isKeyFn(calleeFunc(ci.Common())) {
					continue
				}
				for ai, a := range ci.Common().Args {
					bt, isB := a.Type().Underlying().(*types.Basic)
					if !isB || bt.Info()&types.IsInteger == 0 {
						continue
					}
					n++
					construct := fmt.Sprintf("%s:%s#arg%d", top.Name(), calleeFunc(ci.Common()).Name(), ai)
					if why, ex := keyArgExempt[top.Name()]; ex {
						r.Ok(rule, construct, p.ipos(in), fnName(fn), "range scan ("+why+")")
						continue
					}
					// verbatim: no arithmetic anywhere on the value-preserving chain
					arith := flowsFromLocal(a, func(x ssa.Value) bool {
						bo, isBin := x.(*ssa.BinOp)
						return isBin && bo.Op != token.EQL
					})
					r.Check(!arith, rule, construct, p.ipos(in), fnName(fn), "key built from the index itself",
						"the integer component of the database key is computed (arithmetic on the index) in a point lookup / write: the record of a neighbouring index is read or overwritten — e.g. ReadWireInfo resolving a parent through the database after it left the in-memory window gets the creator's NEXT event, a different hash and an invalid signature")
				}
			}
		}
	}
	if n == 0 {
		r.Fail(rule, "key-sites", "-", "", "no database key with an integer component found")
	}
}

// storeErrExempt: store mutations whose error is deliberately not looked at (function:callee -> reason).
var storeErrExempt = map[string]string{
	"DivideRounds:SetEvent":      "re-stores an event whose round / timestamp were just computed; both are recomputed by every replay (the event itself was stored by InsertEvent, whose error is checked)",
	"Bootstrap:SetPeerSet":       "re-seeds the in-memory genesis set read back from the database at the start of the replay; a collision only means it is already there",
	"NewBadgerStore:SetPeerSet":  "seeds the in-memory genesis set of a freshly created store (cannot collide)",
	"LoadBadgerStore:SetPeerSet": "re-seeds the in-memory set read back from the database",
	"SetPeerSet:addParticipant":  "in-memory bookkeeping of a participant already validated",
}

// C16.errs: a failed write is never silently taken for a successful one: the error returned by a
// mutating Store method (and by the db* writers underneath) is used — tested, returned or logged —
// at every call site; it is not discarded.
func c16errs(p *Prog, r *Report) {
	const rule = "C16.errs"
	r.Rule(rule, 20, "the error of every mutating store call is used (not discarded)")
	isMut := func(f *types.Func) bool {
		if f == nil || f.Pkg() == nil || !strings.HasSuffix(f.Pkg().Path(), "/"+HG) {
			return false
		}
		sig, _ := f.Type().(*types.Signature)
		if sig == nil || sig.Recv() == nil || sig.Results().Len() == 0 || !isErrorType(sig.Results().At(sig.Results().Len()-1).Type()) {
			return false
		}
		rn := recvNamed(f)
		if rn != "Store" && rn != "InmemStore" && rn != "BadgerStore" {
			return false
		}
		n := f.Name()
		return strings.HasPrefix(n, "Set") || strings.HasPrefix(n, "Add") || strings.HasPrefix(n, "dbSet") || n == "Reset" || strings.HasPrefix(n, "addParticipant")
	}
	n := 0
	// resolve the anchors of the exemption table first, so that a function whose body moved into a new
	// helper is known under its reference name
	for k := range storeErrExempt {
		name := k[:strings.Index(k, ":")]
		p.Func(HG, "Hashgraph", name)
		p.Func(HG, "BadgerStore", name)
		p.Func(HG, "", name)
	}
	for _, fn := range p.Mod {
		pp := fnPkgPath(fn)
		if !strings.HasSuffix(pp, "/"+HG) && !strings.HasSuffix(pp, "/"+NODE) {
			continue
		}
		top := fn
		for top.Parent() != nil {
			top = top.Parent()
		}
		for _, b := range fn.Blocks {
			for _, in := range b.Instrs {
				c, ok := in.(*ssa.Call)
				if !ok {
					continue
				}
				f := calleeFunc(c.Common())
				if !isMut(f) {
					continue
				}
				n++
				used := c.Referrers() != nil && len(*c.Referrers()) > 0
				topName := top.Name()
				if o, ok := p.forwardedFrom[top]; ok {
					topName = o
				}
				key := topName + ":" + f.Name()
				if why, ex := storeErrExempt[key]; ex && !used {
					r.Ok(rule, key, p.ipos(c), fnName(fn), "error not looked at by design: "+why)
					continue
				}
				r.Check(used, rule, key, p.ipos(c), fnName(fn), "error used", "the error returned by "+recvNamed(f)+"."+f.Name()+" is discarded: a failed write (full disk, closed database, key collision) is taken for a successful one and the in-memory state runs ahead of what was recorded")
			}
		}
	}
	if n == 0 {
		r.Fail(rule, "store-mutations", "-", "", "no mutating store call found")
	}
}

// C16.roll: the rolling window keeps the most recent items. Get / GetItem / Set compute positions
// from lastIndex and len(items) on the assumption that items ends with the item of index lastIndex
// and has no gaps: when the window is full, roll() must keep a SUFFIX of the list — a reslice
// items[k:], a copy of it into a fresh list, or an in-place shift copy(items, items[k:]) followed by
// items[:len(items)-k] (checked as an identity of linear forms) — never a prefix or a shorter tail.
func c16roll(p *Prog, r *Report) { rollRule(p, r, "C16.roll") }

func rollRule(p *Prog, r *Report, rule string) {
	r.Rule(rule, 1, "RollingIndex.roll keeps a suffix of the window (the newest items, up to the last one)")
	fn := p.Func(COMM, "RollingIndex", "roll")
	fItems := p.Field(COMM, "RollingIndex", "items")
	if fn == nil || fItems == nil {
		r.Anchor(rule, "common.(*RollingIndex).roll / items")
		return
	}
	isItems := func(v ssa.Value) bool { fv, _ := fieldOf(unwrap(v)); return fv == fItems }
	suffixOf := func(v ssa.Value) (ssa.Value, bool) { // v = items[k:]  -> k
		sl, ok := unwrap(v).(*ssa.Slice)
		if !ok || sl.High != nil || sl.Low == nil || !isItems(sl.X) {
			return nil, false
		}
		return sl.Low, true
	}
	n := 0
	for _, w := range p.writersOf(fItems) {
		if w.Fn != fn || w.Kind != "store" {
			continue
		}
		n++
		ok, why := false, "the new window is not a suffix of the old one"
		val := resolveLocalValue(w.Val)
		if _, isSuf := suffixOf(val); isSuf {
			ok = true
		}
		if c, isCall := val.(*ssa.Call); isCall && !ok {
			if bi, isB := c.Call.Value.(*ssa.Builtin); isB && bi.Name() == "append" && len(c.Call.Args) == 2 {
				fresh := false
				switch d := resolveLocalValue(c.Call.Args[0]).(type) {
				case *ssa.MakeSlice:
					if k, okc := intConst(d.Len); okc && k == 0 {
						fresh = true
					}
				case *ssa.Const:
					fresh = d.IsNil()
				}
				if _, isSuf := suffixOf(resolveLocalValue(c.Call.Args[1])); isSuf && fresh {
					ok = true
				}
			}
		}
		if sl, isSl := val.(*ssa.Slice); isSl && !ok && sl.Low == nil && sl.High != nil && isItems(sl.X) {
			// in-place shift: a dominating copy(items, items[k:]) and High == len(items) - k
			for _, b := range fn.Blocks {
				for _, in := range b.Instrs {
					c, isCall := in.(*ssa.Call)
					if !isCall {
						continue
					}
					bi, isB := c.Call.Value.(*ssa.Builtin)
					if !isB || bi.Name() != "copy" || len(c.Call.Args) != 2 || !isItems(c.Call.Args[0]) || !dominates(c, w.Instr) {
						continue
					}
					k, isSuf := suffixOf(resolveLocalValue(c.Call.Args[1]))
					if !isSuf {
						continue
					}
					e := newLinEnv()
					lenItems := linVar("len(" + e.varName(sl.X) + ")")
					d := e.toLin(sl.High, 0).sub(lenItems).addScaled(e.toLin(k, 0), big.NewRat(1, 1))
					if len(d.c) == 0 && d.k.Sign() == 0 {
						ok = true
					} else {
						why = "after shifting the tail down by k the window is cut to a length that is not len(items)-k (difference: " + d.String() + "): the newest items are dropped, positions computed from lastIndex then name other events"
					}
				}
			}
		}
		r.Check(ok, rule, "RollingIndex.roll:keeps-suffix", p.ipos(w.Instr), fnName(fn), "the window keeps items[k:]", why+" — per-participant listings served from the cache are shifted or gapped, silently (no error, so no fallback to the database)")
	}
	if n == 0 {
		r.Fail(rule, "RollingIndex.roll:keeps-suffix", p.pos(fn.Pos()), fnName(fn), "roll does not assign the window")
	}
}

// C16.dbguard: whether a record still has to be written to the database is decided on the
// DATABASE's answer. A db writer that runs only when a cache-first getter (BadgerStore.GetX /
// InmemStore.GetX) failed is skipped whenever the value sits in the cache — which, for values the
// store has just put there itself, is always: the record never reaches the disk.
func c16dbguard(p *Prog, r *Report) {
	const rule = "C16.dbguard"
	r.Rule(rule, 10, "no database write is conditional on the failure of a cache-first lookup")
	n := 0
	for _, fn := range p.Mod {
		if recvNamedSig(fn) != "BadgerStore" {
			continue
		}
		for _, c := range callsIn(fn, func(f *types.Func) bool { return isDbMethod(f, "dbSet") }) {
			n++
			q := func(l Lit) bool {
				v, isNil, ok := nilTest(l)
				if !ok || isNil {
					return false
				}
				gc, _ := callOf(v)
				if gc == nil {
					return false
				}
				f := calleeFunc(gc.Common())
				if f == nil || !strings.HasPrefix(f.Name(), "Get") {
					return false
				}
				rn := recvNamed(f)
				return rn == "BadgerStore" || rn == "InmemStore" || rn == "Store"
			}
			g, _ := p.allPaths(c, []Pred{q}, all(1))
			r.Check(!g, rule, fn.Name()+":"+calleeFunc(c.Common()).Name(), p.ipos(c), fnName(fn), "not conditional on a cache miss",
				"the database write runs only when a cache-first getter failed: a value that is already in the in-memory store (e.g. the Roots SetPeerSet has just created there) is never written to the database and is gone after the store is closed and reopened")
		}
	}
	if n == 0 {
		r.Fail(rule, "db-writers", "-", "", "no db writer call found in BadgerStore")
	}
}
