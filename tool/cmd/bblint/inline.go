package main

// Source-level inlining of helpers that did not exist in the reference tree.
//
// The rules bind to functions of the reference tree by qualified name (the anchors). A refactoring
// that moves part of an anchor's body into a NEW helper function would hide that part from every
// intraprocedural rule. Before the SSA form is built, every call to a module function that is not
// in the embedded list of reference functions is therefore inlined into its caller at source level
// (go/packages overlay): the helper's body becomes a labelled `switch { default: … }` block in which
// each `return` is an assignment to result temporaries followed by `break label`, so that go/ssa
// builds the same control-flow graph the code had before the extraction. `//line` directives keep
// every diagnostic position pointing at the original file and line. Helpers whose every use was
// inlined are dropped (they would otherwise be unreachable roots). Calls that cannot be inlined
// safely (defer/recover/labels in the helper, variadic or generic helpers, recursion, a call under
// a short-circuit operator or in a loop/switch header, name capture) are left alone.

import (
	"bytes"
	_ "embed"
	"fmt"
	"go/ast"
	"go/token"
	"go/types"
	"os"
	"sort"
	"strings"

	"golang.org/x/tools/go/packages"
)

//go:embed reference_funcs.txt
var referenceFuncsTxt string

var referenceFuncs = func() map[string]bool {
	m := map[string]bool{}
	for _, l := range strings.Split(referenceFuncsTxt, "\n") {
		l = strings.TrimSpace(l)
		if l != "" && !strings.HasPrefix(l, "#") {
			parts := strings.SplitN(l, "\t", 2)
			m[parts[0]] = true
			if len(parts) == 2 {
				referenceSigs[parts[0]] = parts[1]
			}
		}
	}
	return m
}()

func funcKey(f *types.Func) string {
	pkg := ""
	if f.Pkg() != nil {
		pkg = f.Pkg().Path()
	}
	sig, _ := f.Type().(*types.Signature)
	if sig != nil && sig.Recv() != nil {
		t := sig.Recv().Type()
		if pt, ok := t.(*types.Pointer); ok {
			t = pt.Elem()
		}
		if n, ok := t.(*types.Named); ok {
			return pkg + "." + n.Obj().Name() + "." + f.Name()
		}
		return pkg + ".?." + f.Name()
	}
	return pkg + "." + f.Name()
}

// dumpFuncs prints the key of every function declared in the module packages (reference list).
func dumpFuncs(pkgs []*packages.Package) []string {
	var res []string
	for _, pk := range pkgs {
		if !strings.HasPrefix(pk.PkgPath, modPath) {
			continue
		}
		for _, f := range pk.Syntax {
			for _, d := range f.Decls {
				if fd, ok := d.(*ast.FuncDecl); ok {
					if o, ok := pk.TypesInfo.Defs[fd.Name].(*types.Func); ok {
						res = append(res, funcKey(o)+"\t"+sigString(o))
					}
				}
			}
		}
	}
	sort.Strings(res)
	return res
}

type inlineNote struct {
	Helper string
	Sites  int
	Kept   bool
	Why    string
}

type textEdit struct {
	start, end int // byte offsets in the file
	text       string
}

type inliner struct {
	fset    *token.FileSet
	counter int
	notes   []inlineNote
}

// inlineNewHelpers computes one round of inlining over the loaded packages and returns the new
// contents of the files it changed (nil when nothing was inlined).
func (il *inliner) round(pkgs []*packages.Package, current map[string][]byte) map[string][]byte {
	out := map[string][]byte{}
	for _, pk := range pkgs {
		if !strings.HasPrefix(pk.PkgPath, modPath) || pk.TypesInfo == nil {
			continue
		}
		il.roundPkg(pk, current, out)
	}
	if len(out) == 0 {
		return nil
	}
	return out
}

type helperInfo struct {
	obj  *types.Func
	decl *ast.FuncDecl
	file *ast.File
	uses int
}

func (il *inliner) roundPkg(pk *packages.Package, current, out map[string][]byte) {
	info := pk.TypesInfo
	helpers := map[*types.Func]*helperInfo{}
	for _, f := range pk.Syntax {
		for _, d := range f.Decls {
			fd, ok := d.(*ast.FuncDecl)
			if !ok || fd.Body == nil {
				continue
			}
			o, ok := info.Defs[fd.Name].(*types.Func)
			if !ok || referenceFuncs[funcKey(o)] || fnAlias[funcKey(o)] != "" || fd.Name.Name == "init" || fd.Name.Name == "main" {
				continue
			}
			if why := il.unsuitable(fd, o, info); why != "" {
				il.notes = append(il.notes, inlineNote{Helper: funcKey(o), Kept: true, Why: why})
				continue
			}
			helpers[o] = &helperInfo{obj: o, decl: fd, file: f}
		}
	}
	if len(helpers) == 0 {
		return
	}
	for id, o := range info.Uses {
		if fo, ok := o.(*types.Func); ok {
			if h := helpers[fo]; h != nil {
				_ = id
				h.uses++
			}
		}
	}
	edits := map[string][]textEdit{}
	inlined := map[*types.Func]int{}
	for _, f := range pk.Syntax {
		fname := il.fset.Position(f.Pos()).Filename
		src := il.source(fname, current)
		if src == nil {
			continue
		}
		tf := il.fset.File(f.Pos())
		for _, d := range f.Decls {
			fd, ok := d.(*ast.FuncDecl)
			if !ok || fd.Body == nil {
				continue
			}
			if o, ok := info.Defs[fd.Name].(*types.Func); ok && helpers[o] != nil {
				continue // the helper itself is handled when its own callers are done (next round)
			}
			il.visitLists(fd.Body, func(list []ast.Stmt, i int, elseOf *ast.IfStmt) {
				var st ast.Stmt
				if elseOf != nil {
					st = elseOf.Else
				} else {
					st = list[i]
				}
				call, h := il.findCall(st, info, helpers)
				if call == nil {
					return
				}
				// no overlap with an edit already chosen in this file
				s0, e0 := tf.Offset(st.Pos()), tf.Offset(st.End())
				for _, e := range edits[fname] {
					if s0 < e.end && e.start < e0 {
						return
					}
				}
				txt, ok := il.expand(pk, f, fname, src, tf, st, call, h, current)
				if !ok {
					return
				}
				edits[fname] = append(edits[fname], textEdit{s0, e0, txt})
				inlined[h.obj]++
			})
		}
	}
	// helpers whose every use was inlined are removed
	for o, n := range inlined {
		h := helpers[o]
		note := inlineNote{Helper: funcKey(o), Sites: n}
		if n == h.uses {
			fname := il.fset.Position(h.file.Pos()).Filename
			tf := il.fset.File(h.file.Pos())
			src := il.source(fname, current)
			start := h.decl.Pos()
			if h.decl.Doc != nil {
				start = h.decl.Doc.Pos()
			}
			s0, e0 := tf.Offset(start), tf.Offset(h.decl.End())
			overlap := false
			for _, e := range edits[fname] {
				if s0 < e.end && e.start < e0 {
					overlap = true
				}
			}
			if !overlap && src != nil {
				blank := strings.Repeat("\n", bytes.Count(src[s0:e0], []byte("\n")))
				edits[fname] = append(edits[fname], textEdit{s0, e0, blank})
			} else {
				note.Kept = true
			}
		} else {
			note.Kept = true
			note.Why = fmt.Sprintf("%d of %d uses inlined", n, h.uses)
		}
		il.notes = append(il.notes, note)
	}
	for fname, es := range edits {
		src := il.source(fname, current)
		sort.Slice(es, func(i, j int) bool { return es[i].start > es[j].start })
		buf := append([]byte{}, src...)
		for _, e := range es {
			buf = append(buf[:e.start], append([]byte(e.text), buf[e.end:]...)...)
		}
		out[fname] = buf
	}
}

func (il *inliner) source(fname string, current map[string][]byte) []byte {
	if b, ok := current[fname]; ok {
		return b
	}
	b, err := os.ReadFile(fname)
	if err != nil {
		return nil
	}
	return b
}

// unsuitable: reasons not to inline a helper at all.
func (il *inliner) unsuitable(fd *ast.FuncDecl, o *types.Func, info *types.Info) string {
	sig := o.Type().(*types.Signature)
	if sig.Variadic() {
		return "variadic"
	}
	if sig.TypeParams() != nil || sig.RecvTypeParams() != nil {
		return "generic"
	}
	why := ""
	ast.Inspect(fd.Body, func(n ast.Node) bool {
		switch x := n.(type) {
		case *ast.FuncLit:
			return false
		case *ast.DeferStmt:
			why = "contains defer"
		case *ast.LabeledStmt:
			why = "contains labels"
		case *ast.BranchStmt:
			if x.Tok == token.GOTO {
				why = "contains goto"
			}
		case *ast.CallExpr:
			if id, ok := x.Fun.(*ast.Ident); ok && id.Name == "recover" {
				why = "calls recover"
			}
			var callee types.Object
			switch f := x.Fun.(type) {
			case *ast.Ident:
				callee = info.Uses[f]
			case *ast.SelectorExpr:
				callee = info.Uses[f.Sel]
			}
			if callee == types.Object(o) {
				why = "recursive"
			}
		}
		return true
	})
	return why
}

// visitLists calls fn for every statement that is an element of a statement list (block, case or
// comm clause) below n, including inside function literals, and for every `else if` statement.
func (il *inliner) visitLists(n ast.Node, fn func(list []ast.Stmt, i int, elseOf *ast.IfStmt)) {
	ast.Inspect(n, func(x ast.Node) bool {
		var list []ast.Stmt
		switch b := x.(type) {
		case *ast.BlockStmt:
			list = b.List
		case *ast.CaseClause:
			list = b.Body
		case *ast.CommClause:
			list = b.Body
		case *ast.IfStmt:
			if _, ok := b.Else.(*ast.IfStmt); ok {
				fn(nil, 0, b)
			}
		}
		for i := range list {
			fn(list, i, nil)
		}
		return true
	})
}

// findCall: a call to a new helper inside statement st at a position from which it can be hoisted
// in front of the statement without changing what is evaluated.
func (il *inliner) findCall(st ast.Stmt, info *types.Info, helpers map[*types.Func]*helperInfo) (*ast.CallExpr, *helperInfo) {
	var roots []ast.Node
	switch s := st.(type) {
	case *ast.ExprStmt:
		roots = []ast.Node{s.X}
	case *ast.AssignStmt:
		for _, e := range s.Rhs {
			roots = append(roots, e)
		}
	case *ast.ReturnStmt:
		for _, e := range s.Results {
			roots = append(roots, e)
		}
	case *ast.DeclStmt:
		if gd, ok := s.Decl.(*ast.GenDecl); ok && gd.Tok == token.VAR && len(gd.Specs) == 1 {
			if vs, ok := gd.Specs[0].(*ast.ValueSpec); ok {
				for _, e := range vs.Values {
					roots = append(roots, e)
				}
			}
		}
	case *ast.IfStmt:
		if s.Init != nil {
			if c, h := il.findCall(s.Init, info, helpers); c != nil {
				return c, h
			}
		}
		roots = []ast.Node{s.Cond}
	case *ast.SendStmt:
		roots = []ast.Node{s.Chan, s.Value}
	case *ast.IncDecStmt:
		return nil, nil
	default:
		return nil, nil
	}
	var found *ast.CallExpr
	var fh *helperInfo
	for _, r := range roots {
		var walk func(n ast.Node) bool
		walk = func(n ast.Node) bool {
			if found != nil || n == nil {
				return false
			}
			switch x := n.(type) {
			case *ast.FuncLit:
				return false
			case *ast.BinaryExpr:
				if x.Op == token.LAND || x.Op == token.LOR {
					// only the left operand is evaluated unconditionally
					ast.Inspect(x.X, walk)
					return false
				}
			case *ast.CallExpr:
				var callee types.Object
				switch f := x.Fun.(type) {
				case *ast.Ident:
					callee = info.Uses[f]
				case *ast.SelectorExpr:
					callee = info.Uses[f.Sel]
				}
				if fo, ok := callee.(*types.Func); ok {
					if h := helpers[fo]; h != nil {
						found, fh = x, h
						return false
					}
				}
			}
			return true
		}
		ast.Inspect(r, walk)
	}
	return found, fh
}

func (il *inliner) text(src []byte, tf *token.File, from, to token.Pos) string {
	return string(src[tf.Offset(from):tf.Offset(to)])
}

// expand builds the replacement text for statement st with call (to helper h) inlined.
func (il *inliner) expand(pk *packages.Package, file *ast.File, fname string, src []byte, tf *token.File, st ast.Stmt, call *ast.CallExpr, h *helperInfo, current map[string][]byte) (string, bool) {
	info := pk.TypesInfo
	sig := h.obj.Type().(*types.Signature)
	hfname := il.fset.Position(h.file.Pos()).Filename
	hsrc := il.source(hfname, current)
	htf := il.fset.File(h.file.Pos())
	if hsrc == nil {
		return "", false
	}
	il.counter++
	pfx := fmt.Sprintf("_inl%d_", il.counter)
	label := fmt.Sprintf("_inl%d", il.counter)

	// --- name capture: every free identifier of the helper body must mean the same at the call site
	scope := pk.Types.Scope().Innermost(call.Pos())
	fileImports := map[string]string{} // path -> local name in the caller's file
	for _, im := range file.Imports {
		path := strings.Trim(im.Path.Value, `"`)
		name := ""
		if im.Name != nil {
			name = im.Name.Name
		} else if pn, ok := info.Implicits[im].(*types.PkgName); ok {
			name = pn.Name()
		}
		if name == "." || name == "_" {
			continue
		}
		fileImports[path] = name
	}
	var extraImports []string
	okNames := true
	ast.Inspect(h.decl, func(n ast.Node) bool {
		id, isID := n.(*ast.Ident)
		if !isID || !okNames {
			return true
		}
		o := info.Uses[id]
		if o == nil {
			return true
		}
		switch oo := o.(type) {
		case *types.PkgName:
			path := oo.Imported().Path()
			if fileImports[path] == oo.Name() {
				return true
			}
			if _, has := fileImports[path]; has {
				okNames = false // imported under another name
				return true
			}
			if scope != nil {
				if _, other := scope.LookupParent(oo.Name(), call.Pos()); other != nil {
					okNames = false
					return true
				}
			}
			fileImports[path] = oo.Name()
			extraImports = append(extraImports, fmt.Sprintf("import %s %q", oo.Name(), path))
		default:
			if o.Parent() == pk.Types.Scope() || o.Parent() == types.Universe {
				if scope != nil {
					if _, at := scope.LookupParent(id.Name, call.Pos()); at != o {
						okNames = false
					}
				}
			}
		}
		return true
	})
	if !okNames {
		il.notes = append(il.notes, inlineNote{Helper: funcKey(h.obj), Kept: true, Why: "identifier captured at call site " + il.fset.Position(call.Pos()).String()})
		return "", false
	}
	if len(extraImports) > 0 {
		// adding imports to the caller's file is done by a separate edit at the package clause;
		// keep it simple: refuse (the helper lives in a file with other imports)
		il.notes = append(il.notes, inlineNote{Helper: funcKey(h.obj), Kept: true, Why: "needs imports missing in the caller's file"})
		return "", false
	}
	qual := func(p *types.Package) string {
		if p == pk.Types {
			return ""
		}
		if n, ok := fileImports[p.Path()]; ok {
			return n
		}
		okNames = false
		return p.Name()
	}
	tstr := func(t types.Type) string { return types.TypeString(t, qual) }

	var pre strings.Builder
	callerLine := func(pos token.Pos) string {
		p := il.fset.Position(pos)
		return fmt.Sprintf("\n//line %s:%d\n", p.Filename, p.Line)
	}
	// --- arguments into caller-level temporaries
	type bind struct{ name, typ, tmp string }
	var binds []bind
	nTmp := 0
	newTmp := func() string { nTmp++; return fmt.Sprintf("%sa%d", pfx, nTmp) }
	if sig.Recv() != nil {
		sel, ok := call.Fun.(*ast.SelectorExpr)
		if !ok {
			return "", false
		}
		if s := info.Selections[sel]; s == nil || len(s.Index()) != 1 {
			return "", false
		}
		rt := sig.Recv().Type()
		xt := info.TypeOf(sel.X)
		xtxt := il.text(src, tf, sel.X.Pos(), sel.X.End())
		switch {
		case types.Identical(xt, rt):
		case isPtrTo(rt, xt):
			xtxt = "&" + xtxt
		case isPtrTo(xt, rt):
			xtxt = "*" + xtxt
		default:
			return "", false
		}
		tmp := newTmp()
		fmt.Fprintf(&pre, "var %s %s = %s\n", tmp, tstr(rt), xtxt)
		name := "_"
		if h.decl.Recv != nil && len(h.decl.Recv.List) == 1 && len(h.decl.Recv.List[0].Names) == 1 {
			name = h.decl.Recv.List[0].Names[0].Name
		}
		binds = append(binds, bind{name, tstr(rt), tmp})
	}
	if len(call.Args) != sig.Params().Len() {
		return "", false // f(g()) spreading
	}
	for i, a := range call.Args {
		pv := sig.Params().At(i)
		tmp := newTmp()
		fmt.Fprintf(&pre, "var %s %s = %s\n", tmp, tstr(pv.Type()), il.text(src, tf, a.Pos(), a.End()))
		name := pv.Name()
		if name == "" {
			name = "_"
		}
		binds = append(binds, bind{name, tstr(pv.Type()), tmp})
	}
	// --- result temporaries
	nres := sig.Results().Len()
	var rnames []string
	for i := 0; i < nres; i++ {
		rn := fmt.Sprintf("%sr%d", pfx, i)
		rnames = append(rnames, rn)
		fmt.Fprintf(&pre, "var %s %s\n", rn, tstr(sig.Results().At(i).Type()))
	}
	if !okNames {
		return "", false
	}
	// --- the body
	var named []string
	for i := 0; i < nres; i++ {
		if n := sig.Results().At(i).Name(); n != "" && n != "_" {
			named = append(named, n)
		} else {
			named = append(named, "")
		}
	}
	hasNamed := false
	for _, n := range named {
		if n != "" {
			hasNamed = true
		}
	}
	assignNamed := func() string {
		if nres == 0 || !hasNamed {
			return ""
		}
		var l, r []string
		for i, n := range named {
			if n != "" {
				l = append(l, rnames[i])
				r = append(r, n)
			}
		}
		return strings.Join(l, ", ") + " = " + strings.Join(r, ", ") + "; "
	}
	var bodyEdits []textEdit
	nRet := 0
	bodyStart, bodyEnd := htf.Offset(h.decl.Body.Lbrace)+1, htf.Offset(h.decl.Body.Rbrace)
	ast.Inspect(h.decl.Body, func(n ast.Node) bool {
		switch x := n.(type) {
		case *ast.FuncLit:
			return false
		case *ast.ReturnStmt:
			nRet++
			var t string
			if len(x.Results) == 0 {
				t = "{ " + assignNamed() + "break " + label + " }"
			} else {
				var rs []string
				for _, e := range x.Results {
					rs = append(rs, string(hsrc[htf.Offset(e.Pos()):htf.Offset(e.End())]))
				}
				t = "{ " + strings.Join(rnames, ", ") + " = " + strings.Join(rs, ", ") + "; break " + label + " }"
			}
			bodyEdits = append(bodyEdits, textEdit{htf.Offset(x.Pos()), htf.Offset(x.End()), t})
		}
		return true
	})
	sort.Slice(bodyEdits, func(i, j int) bool { return bodyEdits[i].start > bodyEdits[j].start })
	body := append([]byte{}, hsrc[bodyStart:bodyEnd]...)
	for _, e := range bodyEdits {
		s, t := e.start-bodyStart, e.end-bodyStart
		body = append(body[:s], append([]byte(e.text), body[t:]...)...)
	}
	hpos := il.fset.Position(h.decl.Body.Lbrace)
	var blk strings.Builder
	if nRet > 0 {
		fmt.Fprintf(&blk, "%s:\n", label)
	}
	blk.WriteString("switch {\ndefault:\n")
	for _, b := range binds {
		if b.name == "_" {
			fmt.Fprintf(&blk, "_ = %s\n", b.tmp)
			continue
		}
		fmt.Fprintf(&blk, "var %s %s = %s\n_ = %s\n", b.name, b.typ, b.tmp, b.name)
	}
	for i, n := range named {
		if n != "" {
			fmt.Fprintf(&blk, "var %s %s\n_ = %s\n", n, tstr(sig.Results().At(i).Type()), n)
		}
	}
	// the body text starts right after the helper's opening brace: same line
	fmt.Fprintf(&blk, "\n//line %s:%d\n", hpos.Filename, hpos.Line)
	blk.Write(body)
	if nres > 0 && hasNamed {
		// falling off the end is impossible with results; nothing to add
	}
	blk.WriteString("\n}\n")

	// --- the original statement with the call replaced by the results
	repl := strings.Join(rnames, ", ")
	stmtText := func(from, to token.Pos) string {
		s0, e0 := tf.Offset(from), tf.Offset(to)
		c0, c1 := tf.Offset(call.Pos()), tf.Offset(call.End())
		if c0 < s0 || c1 > e0 {
			return string(src[s0:e0])
		}
		return string(src[s0:c0]) + repl + string(src[c1:e0])
	}
	var out strings.Builder
	switch s := st.(type) {
	case *ast.IfStmt:
		out.WriteString("{\n")
		inInit := s.Init != nil && s.Init.Pos() <= call.Pos() && call.End() <= s.Init.End()
		if s.Init != nil && !inInit {
			out.WriteString(callerLine(s.Init.Pos()))
			out.WriteString(string(src[tf.Offset(s.Init.Pos()):tf.Offset(s.Init.End())]))
			out.WriteString("\n")
		}
		out.WriteString(pre.String())
		out.WriteString(blk.String())
		if inInit {
			if nres == 0 {
				return "", false
			}
			out.WriteString(callerLine(s.Init.Pos()))
			out.WriteString(stmtText(s.Init.Pos(), s.Init.End()))
			out.WriteString("\n")
		}
		out.WriteString(callerLine(s.Cond.Pos()))
		out.WriteString("if " + stmtText(s.Cond.Pos(), s.Cond.End()) + " ")
		out.WriteString(string(src[tf.Offset(s.Body.Pos()):tf.Offset(s.End())]))
		out.WriteString("\n}")
		out.WriteString(callerLine(s.End()))
		// callerLine(s.End()) names the line on which the statement ended: text that follows on
		// that line keeps its line number
	case *ast.ExprStmt:
		out.WriteString(pre.String())
		out.WriteString(blk.String())
		if ast.Expr(call) == s.X {
			for _, rn := range rnames {
				fmt.Fprintf(&out, "_ = %s\n", rn)
			}
		} else {
			if nres == 0 {
				return "", false
			}
			out.WriteString(callerLine(st.Pos()))
			out.WriteString(stmtText(st.Pos(), st.End()))
		}
		out.WriteString(callerLine(st.End()))
	default:
		if nres == 0 {
			return "", false
		}
		out.WriteString(pre.String())
		out.WriteString(blk.String())
		out.WriteString(callerLine(st.Pos()))
		out.WriteString(stmtText(st.Pos(), st.End()))
		out.WriteString(callerLine(st.End()))
	}
	return out.String(), true
}

func isPtrTo(p, t types.Type) bool {
	pt, ok := p.(*types.Pointer)
	return ok && types.Identical(pt.Elem(), t)
}
