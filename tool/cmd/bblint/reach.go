package main

import (
	"go/token"
	"go/types"
	"sort"

	"golang.org/x/tools/go/callgraph"
	"golang.org/x/tools/go/ssa"
)

// reach returns every function reachable from the given roots in the call
// graph (library nodes are traversed so that callbacks are followed).
// stop(f) == true prevents expansion below f (f itself is included).
func (p *Prog) reach(roots []*ssa.Function, stop func(*ssa.Function) bool) map[*ssa.Function]bool {
	seen := map[*ssa.Function]bool{}
	var stack []*ssa.Function
	for _, r := range roots {
		if r != nil && !seen[r] {
			seen[r] = true
			stack = append(stack, r)
		}
	}
	for len(stack) > 0 {
		f := stack[len(stack)-1]
		stack = stack[:len(stack)-1]
		if stop != nil && stop(f) {
			continue
		}
		n := p.CG.Nodes[f]
		if n == nil {
			continue
		}
		for _, e := range n.Out {
			c := e.Callee.Func
			if !seen[c] {
				seen[c] = true
				stack = append(stack, c)
			}
		}
		// closures defined in f are reachable if f is (they are created
		// there); VTA resolves their invocation, but a closure stored and
		// called from library code may be missed — include them.
		for _, a := range f.AnonFuncs {
			if !seen[a] {
				seen[a] = true
				stack = append(stack, a)
			}
		}
	}
	return seen
}

// reverseReach returns the set of functions from which some target is
// reachable without passing through (expanding above) a gate. Gates that call
// the target are included in the result but not expanded.
func (p *Prog) reverseReach(targets []*ssa.Function, gate func(*ssa.Function) bool) map[*ssa.Function]bool {
	seen := map[*ssa.Function]bool{}
	var stack []*ssa.Function
	for _, t := range targets {
		if t != nil && !seen[t] {
			seen[t] = true
			stack = append(stack, t)
		}
	}
	for len(stack) > 0 {
		f := stack[len(stack)-1]
		stack = stack[:len(stack)-1]
		if gate != nil && gate(f) {
			continue
		}
		var callers []*ssa.Function
		if n := p.CG.Nodes[f]; n != nil {
			for _, e := range n.In {
				callers = append(callers, e.Caller.Func)
			}
		}
		// a closure is "called" by the function that creates it
		if f.Parent() != nil {
			callers = append(callers, f.Parent())
		}
		for _, c := range callers {
			if !seen[c] {
				seen[c] = true
				stack = append(stack, c)
			}
		}
	}
	return seen
}

// roots returns the module functions that have no caller among module
// functions (exported API, goroutine targets, main, handlers registered by
// reflection). Closures count as called by their parent.
func (p *Prog) roots() []*ssa.Function {
	var res []*ssa.Function
	for _, f := range p.Mod {
		if f.Parent() != nil || f.Synthetic != "" {
			continue
		}
		has := false
		if n := p.CG.Nodes[f]; n != nil {
			for _, e := range n.In {
				c := e.Caller.Func
				if c != f && inModule(c) && c.Synthetic == "" {
					has = true
					break
				}
			}
		}
		if !has {
			res = append(res, f)
		}
	}
	return res
}

// pathAvoiding searches a call path from any root to target that does not
// pass through a gate; returns the path (function names) or nil.
func (p *Prog) pathAvoiding(roots []*ssa.Function, target *ssa.Function, gate func(*ssa.Function) bool) []string {
	parent := map[*ssa.Function]*ssa.Function{}
	seen := map[*ssa.Function]bool{}
	var queue []*ssa.Function
	for _, r := range roots {
		if !seen[r] && !(gate != nil && gate(r)) {
			seen[r] = true
			queue = append(queue, r)
		}
	}
	for len(queue) > 0 {
		f := queue[0]
		queue = queue[1:]
		if f == target {
			var path []string
			for x := f; x != nil; x = parent[x] {
				path = append([]string{fnName(x)}, path...)
			}
			return path
		}
		var next []*ssa.Function
		if n := p.CG.Nodes[f]; n != nil {
			for _, e := range n.Out {
				next = append(next, e.Callee.Func)
			}
		}
		next = append(next, f.AnonFuncs...)
		for _, c := range next {
			if seen[c] || (gate != nil && gate(c)) {
				continue
			}
			seen[c] = true
			parent[c] = f
			queue = append(queue, c)
		}
	}
	return nil
}

func sortedFnNames(set map[*ssa.Function]bool, filter func(*ssa.Function) bool) []string {
	var res []string
	for f := range set {
		if filter == nil || filter(f) {
			res = append(res, fnName(f))
		}
	}
	sort.Strings(res)
	return res
}

// implementations returns the module functions implementing interface method
// named name on interface type iface.
func (p *Prog) implementations(iface *types.Named, name string) []*ssa.Function {
	var res []*ssa.Function
	it, ok := iface.Underlying().(*types.Interface)
	if !ok {
		return nil
	}
	for _, pk := range p.Pkgs {
		sc := pk.Types.Scope()
		for _, n := range sc.Names() {
			tn, ok := sc.Lookup(n).(*types.TypeName)
			if !ok || tn.IsAlias() {
				continue
			}
			T := tn.Type()
			if types.IsInterface(T) {
				continue
			}
			for _, t := range []types.Type{T, types.NewPointer(T)} {
				if types.Implements(t, it) {
					ms := p.SSA.MethodSets.MethodSet(t)
					if sel := ms.Lookup(tn.Pkg(), name); sel != nil {
						if fo, ok := sel.Obj().(*types.Func); ok {
							if f := p.SSA.FuncValue(fo); f != nil {
								res = append(res, f)
							}
						}
					}
					break
				}
			}
		}
	}
	sort.Slice(res, func(i, j int) bool { return res[i].String() < res[j].String() })
	// dedupe
	var out []*ssa.Function
	for i, f := range res {
		if i == 0 || res[i-1] != f {
			out = append(out, f)
		}
	}
	return out
}

/* ---------- field writes ---------- */

// FieldWrite is one instruction that writes a struct field (or updates the
// map / slice element reachable through it).
type FieldWrite struct {
	Field *types.Var
	Fn    *ssa.Function
	Instr ssa.Instruction
	Val   ssa.Value // value stored (nil for map updates: see Instr)
	Fresh bool      // base object allocated in the same function (construction, not mutation)
	Kind  string    // "store" | "mapupdate" | "elemstore"
}

func isFreshBase(v ssa.Value) bool {
	for {
		switch x := v.(type) {
		case *ssa.Alloc:
			return true
		case *ssa.FieldAddr:
			v = x.X
		case *ssa.IndexAddr:
			v = x.X
		default:
			return false
		}
	}
}

func (p *Prog) buildFieldStores() {
	if p.fieldStoresBuilt {
		return
	}
	p.fieldStoresBuilt = true
	p.fieldStoreCache = map[*types.Var][]*FieldWrite{}
	for _, fn := range p.Mod {
		for _, b := range fn.Blocks {
			for _, in := range b.Instrs {
				switch x := in.(type) {
				case *ssa.Store:
					if fa, ok := x.Addr.(*ssa.FieldAddr); ok {
						fv := fieldVar(fa.X.Type(), fa.Field)
						if fv != nil {
							p.fieldStoreCache[fv] = append(p.fieldStoreCache[fv], &FieldWrite{Field: fv, Fn: fn, Instr: in, Val: x.Val, Fresh: isFreshBase(fa.X), Kind: "store"})
						}
					}
					// element store through a slice loaded from a field: f[i] = v
					if ia, ok := x.Addr.(*ssa.IndexAddr); ok {
						if fv, base := fieldOf(ia.X); fv != nil {
							p.fieldStoreCache[fv] = append(p.fieldStoreCache[fv], &FieldWrite{Field: fv, Fn: fn, Instr: in, Val: x.Val, Fresh: isFreshBase(base), Kind: "elemstore"})
						}
					}
				case *ssa.MapUpdate:
					if fv, base := fieldOf(x.Map); fv != nil {
						p.fieldStoreCache[fv] = append(p.fieldStoreCache[fv], &FieldWrite{Field: fv, Fn: fn, Instr: in, Val: x.Value, Fresh: isFreshBase(base), Kind: "mapupdate"})
					}
				case *ssa.Call:
					// delete(m.f, k)
					if bi, ok := x.Call.Value.(*ssa.Builtin); ok && bi.Name() == "delete" && len(x.Call.Args) > 0 {
						if fv, base := fieldOf(x.Call.Args[0]); fv != nil {
							p.fieldStoreCache[fv] = append(p.fieldStoreCache[fv], &FieldWrite{Field: fv, Fn: fn, Instr: in, Fresh: isFreshBase(base), Kind: "mapupdate"})
						}
					}
				}
			}
		}
	}
}

// writersOf lists every write to the field in module code.
func (p *Prog) writersOf(f *types.Var) []*FieldWrite {
	p.buildFieldStores()
	return p.fieldStoreCache[f]
}

// readsField reports whether fn (not its callees) reads the field.
func readsField(fn *ssa.Function, f *types.Var) (ssa.Instruction, bool) {
	for _, b := range fn.Blocks {
		for _, in := range b.Instrs {
			switch x := in.(type) {
			case *ssa.FieldAddr:
				if fieldVar(x.X.Type(), x.Field) == f {
					// a FieldAddr used only as a Store address is a write, not a read
					onlyStore := true
					if refs := x.Referrers(); refs != nil {
						for _, r := range *refs {
							if st, ok := r.(*ssa.Store); ok && st.Addr == x {
								continue
							}
							onlyStore = false
						}
					}
					if !onlyStore {
						return in, true
					}
				}
			case *ssa.Field:
				if fieldVar(x.X.Type(), x.Field) == f {
					return in, true
				}
			}
		}
	}
	return nil, false
}

// callsLib reports calls in fn to library functions whose package path is in pkgs
// (optionally restricted to names).
func libCalls(fn *ssa.Function, pkgs map[string]bool) []ssa.CallInstruction {
	var res []ssa.CallInstruction
	for _, b := range fn.Blocks {
		for _, in := range b.Instrs {
			if ci, ok := in.(ssa.CallInstruction); ok {
				if f := calleeFunc(ci.Common()); f != nil && f.Pkg() != nil && pkgs[f.Pkg().Path()] {
					res = append(res, ci)
				}
			}
		}
	}
	return res
}

func cgCallers(p *Prog, f *ssa.Function) []*callgraph.Edge {
	if n := p.CG.Nodes[f]; n != nil {
		return n.In
	}
	return nil
}

var _ = token.NoPos
