#!/bin/bash
# seedcheck.sh <seed dir> <prop...> : applies a seeded change to /repo (patch_current.diff if present — the
# same change rebased onto the fix commits — else patch.diff), runs the quick checks, undoes it straight afterwards.
d="$(cd "$1" && pwd)"; shift
cd /verif
patch="$d/patch.diff"; [ -f "$d/patch_current.diff" ] && patch="$d/patch_current.diff"
[ -n "$(git -C /repo status --porcelain --untracked-files=no)" ] && { echo "/repo not clean"; exit 4; }
git -C /repo apply --check "$patch" 2>/dev/null || { echo "PATCH-DOES-NOT-APPLY $patch (needs a rebased patch_current.diff)"; exit 3; }
git -C /repo apply "$patch"
for p in "$@"; do
  out=$(./bin/bblint -repo /repo -property "$p" -evidence /tmp/seedcheck_ev.json -known known_findings.json)
  echo "$p exit=$? $(echo "$out" | grep -c '^VIOLATION') violations"
  echo "$out" | grep '^VIOLATION' | sed -E 's/replay=[^ ]+ //' | cut -c1-260
done
git -C /repo checkout -- . ; git -C /repo status --short --untracked-files=no | head -3
