#!/bin/bash
# seeds_par.sh [-j N] : every kept seeded change (patch_current.diff if present, else patch.diff) applied to its OWN scratch
# copy of /repo's current tree (never to /repo itself), analysed with all properties; each must raise a VIOLATION.
# Not part of any registered command.
cd "$(dirname "$0")"
files=()
for d in seeded/*/; do
  p="$d/patch.diff"; [ -f "$d/patch_current.diff" ] && p="$d/patch_current.diff"
  [ "$(basename $d)" = C11b ] && continue   # applies to the pinned commit only (same defect as F-C16-1, since repaired)
  files+=("$p")
done
python3 patchtest.py -expect fire "$@" "${files[@]}" | awk '/^(fired|silent|noapply|nobuild)/{st=$1; f=$2; sub(/seeded\//,"",f); sub(/\/\/?patch.*/,"",f); printf "%s %s ", st, f; if (st!="fired") print ""; next} /^   VIOLATION/{ if (match($0,/rule=[A-Za-z0-9.]+/)) r=substr($0,RSTART,RLENGTH); rules[f]=rules[f]" "r; next } /^patchtest:/{print "\n" $0}' | tr -s '\n'
