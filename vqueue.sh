#!/bin/bash
# vqueue.sh <seed id>... : confirms seeds one after the other (verify_seed.sh) — helper, not a registered command
cd "$(dirname "$0")"
for s in "$@"; do SEED_BASE="${SEED_BASE:-7c5b5f0}" ./verify_seed.sh "$s"; done
