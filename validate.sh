#!/bin/bash
# validates MANIFEST.json and every evidence file against the schemas
cd "$(dirname "$0")"
python3-vt - <<'PY'
import json,jsonschema,glob,sys
jsonschema.validate(json.load(open('MANIFEST.json')),json.load(open('/root/.vp/MANIFEST.schema.json')))
print('MANIFEST ok')
es=json.load(open('/root/.vp/EVIDENCE.schema.json'))
for f in sorted(glob.glob('evidence/C??.json')):
    jsonschema.validate(json.load(open(f)),es); print(f,'ok')
PY
