#!/usr/bin/env python3
"""probe.py <file.py> [-j N] [-k substr] : ad-hoc coverage probe. <file.py> defines PROBES = [(id, note, [(file, old, new), ...]), ...]:
candidate BREAKING edits written by hand while reading the code. Each is applied to a scratch copy of /repo's current
tree (removed afterwards), built, and analysed with `bblint -property all`; prints which rules fire (or MISSED).
Not part of any registered command; a probe that is missed is a candidate for a new rule, one that is caught can
be promoted to mutants.py."""
import importlib.util, os, re, shutil, subprocess, sys, tempfile, concurrent.futures as cf
HERE = os.path.dirname(os.path.abspath(__file__))
REPO = os.environ.get("VERIF_REPO", "/repo")

def scratch():
    d = tempfile.mkdtemp(prefix="bbl_pr_")
    for n in ("go.mod", "go.sum"):
        shutil.copy(os.path.join(REPO, n), d)
    for n in ("src", "cmd"):
        shutil.copytree(os.path.join(REPO, n), os.path.join(d, n))
    return d

def run_one(p):
    pid, note, edits = p
    d = scratch()
    try:
        for (f, old, new) in edits:
            path = os.path.join(d, f)
            s = open(path).read()
            if old not in s:
                return (pid, "noapply", f + ": old text not found")
            open(path, "w").write(s.replace(old, new, 1))
        env = dict(os.environ, GOFLAGS="-mod=mod", GOPROXY="off", GOSUMDB="off", GOTOOLCHAIN="local", GOWORK="off")
        b = subprocess.run(["go", "build", "./src/...", "./cmd/..."], cwd=d, env=env, capture_output=True, text=True)
        if b.returncode != 0:
            return (pid, "nobuild", b.stderr[-300:])
        r = subprocess.run([os.environ.get("BBLINT", os.path.join(HERE, "bin/bblint")), "-repo", d, "-property", "all", "-evidence", os.path.join(d, "ev"),
                            "-known", os.path.join(HERE, "known_findings.json")], capture_output=True, text=True)
        v = [l for l in r.stdout.splitlines() if l.startswith("VIOLATION")]
        rules = sorted({re.search(r"rule=(\S+)", l).group(1) for l in v if "rule=" in l})
        if v:
            return (pid, "caught", " ".join(rules))
        return (pid, "MISSED", note)
    finally:
        shutil.rmtree(d, ignore_errors=True)

def main():
    args = sys.argv[1:]; j = 8; key = None; files = []
    i = 0
    while i < len(args):
        if args[i] == "-j": j = int(args[i+1]); i += 2
        elif args[i] == "-k": key = args[i+1]; i += 2
        else: files.append(args[i]); i += 1
    probes = []
    for f in files:
        spec = importlib.util.spec_from_file_location("probes", f)
        m = importlib.util.module_from_spec(spec); spec.loader.exec_module(m)
        probes += m.PROBES
    if key:
        probes = [p for p in probes if key in p[0]]
    with cf.ThreadPoolExecutor(max_workers=j) as ex:
        for pid, st, msg in ex.map(run_one, probes):
            print("%-8s %-40s %s" % (st, pid, msg[:300]))

if __name__ == "__main__":
    main()
