#!/bin/bash
# usage: ./run.sh <property id> [quick|thorough]
# Static analysis of /repo's current working tree; nothing is executed.
set -u
id="$1"; tier="${2:-quick}"
cd "$(dirname "$0")"
export GOFLAGS=-mod=mod GOPROXY=off GOSUMDB=off GOTOOLCHAIN=local GOWORK=off
REPO="${VERIF_REPO:-/repo}"
if [ ! -x bin/bblint ] || [ -n "$(find tool/cmd -newer bin/bblint -type f 2>/dev/null | head -1)" ]; then
  (cd tool && GOFLAGS=-mod=vendor go build -o ../bin/bblint.new ./cmd/bblint && mv ../bin/bblint.new ../bin/bblint) || { echo "VIOLATION property=$id replay=- rule=analyser-build-failure"; exit 1; }
fi
mkdir -p evidence
if [ "$tier" = thorough ] && [ -x ./selftest.sh ]; then
  export SELFTEST_OUT="/tmp/bblint_selftest_$id.$$.json"
  ./selftest.sh "$id" > "/tmp/bblint_selftest_$id.$$.log" 2>&1 || { cat "/tmp/bblint_selftest_$id.$$.log" | grep -v '^ok' | head -20; echo "VIOLATION property=$id replay=/verif/mutants rule=selftest detail=checker self-test failed (a stored mutant was not detected or a benign variant raised an alarm)"; exit 1; }
fi
bin/bblint -repo "$REPO" -property "$id" -tier "$tier" -evidence "evidence/$id.json" -known known_findings.json
rc=$?
rm -f "/tmp/bblint_selftest_$id.$$.json" "/tmp/bblint_selftest_$id.$$.log"
exit $rc
