#!/bin/bash
# usage: ./run.sh <property id> [quick|thorough]
# Static analysis of /repo's current working tree; nothing is executed.
set -u
id="$1"; tier="${2:-quick}"
cd "$(dirname "$0")"
export GOFLAGS=-mod=mod GOPROXY=off GOSUMDB=off GOTOOLCHAIN=local GOWORK=off
REPO="${VERIF_REPO:-/repo}"
if [ ! -x bin/bblint ] || [ -n "$(find tool/cmd -newer bin/bblint -name '*.go' 2>/dev/null | head -1)" ]; then
  (cd tool && GOFLAGS=-mod=vendor go build -o ../bin/bblint ./cmd/bblint) || { echo "VIOLATION property=$id replay=- rule=analyser-build-failure"; exit 1; }
fi
mkdir -p evidence
if [ "$tier" = thorough ] && [ -x ./selftest.sh ]; then
  ./selftest.sh "$id" || { echo "VIOLATION property=$id replay=/verif/mutants rule=selftest detail=checker self-test failed (a stored mutant was not detected or a benign variant raised an alarm)"; exit 1; }
fi
exec bin/bblint -repo "$REPO" -property "$id" -tier "$tier" -evidence "evidence/$id.json" -known known_findings.json
