BAB = "src/babble/babble.go"
PEERF = "src/peers/peer.go"
ITX = "src/hashgraph/internal_transaction.go"
NODEF = "src/node/node.go"
CORE = "src/node/core.go"

PROBES = [
 ("s-babble-backup-when-bootstrap", "C11: the database is moved away exactly when the node is asked to bootstrap from it",
  [(BAB, "\t\tif !b.Config.Bootstrap {\n\t\t\tb.logger.Debug(\"No Bootstrap\")", "\t\tif b.Config.Bootstrap {\n\t\t\tb.logger.Debug(\"No Bootstrap\")")]),
 ("s-babble-backup-always", "C11: database backed up (moved) on every start",
  [(BAB, "\t\tif !b.Config.Bootstrap {\n\t\t\tb.logger.Debug(\"No Bootstrap\")", "\t\tif !b.Config.Bootstrap || b.Config.MaintenanceMode {\n\t\t\tb.logger.Debug(\"No Bootstrap\")")]),
 ("s-babble-genesis-is-current", "C10/C11: genesis peer set replaced by the current peers file even when the genesis file is readable",
  [(BAB, "\t} else {\n\t\tb.GenesisPeers = genesisParticipants\n\t}", "\t} else {\n\t\tb.GenesisPeers = participants\n\t\t_ = genesisParticipants\n\t}")]),
 ("s-babble-store-order", "C11: store initialised before the config is validated (Bootstrap => Store derivation too late)",
  [(BAB, "\tb.logger.Debug(\"initStore\")\n\tif err := b.initStore(); err != nil {\n\t\tb.logger.WithError(err).Error(\"babble.go:Init() initStore\")\n\t\treturn err\n\t}\n\n", ""),
   (BAB, "\tb.logger.Debug(\"initTransport\")", "\tb.logger.Debug(\"initStore\")\n\tif err := b.initStore(); err != nil {\n\t\tb.logger.WithError(err).Error(\"babble.go:Init() initStore\")\n\t\treturn err\n\t}\n\n\tb.logger.Debug(\"initTransport\")")]),
 ("s-peer-id-not-from-key", "C10/C12: peer id memoised from moniker hash... (id from NetAddr)",
  [(PEERF, "\t\tpubKeyBytes := p.PubKeyBytes()\n\t\tp.id = keys.PublicKeyID(pubKeyBytes)", "\t\tpubKeyBytes := []byte(p.PubKeyHex)\n\t\tp.id = keys.PublicKeyID(pubKeyBytes)")]),
 ("s-peer-pubkeystring-raw", "C10: PubKeyString not canonical (no upper-casing)",
  [(PEERF, "\treturn strings.ToUpper(p.PubKeyHex)", "\treturn strings.TrimSpace(p.PubKeyHex)")]),
 ("s-itx-verify-key-from-signer-field", "C10.itx control: verify against the peer key — replaced by always true when signature empty",
  [(ITX, "\tr, s, err := keys.DecodeSignature(t.Signature)\n\tif err != nil {\n\t\treturn false, err\n\t}\n\n\treturn keys.Verify(pubKey, signBytes, r, s), nil", "\tif t.Signature == \"\" && t.Body.Type == PEER_REMOVE {\n\t\treturn true, nil\n\t}\n\tr, s, err := keys.DecodeSignature(t.Signature)\n\tif err != nil {\n\t\treturn false, err\n\t}\n\n\treturn keys.Verify(pubKey, signBytes, r, s), nil")]),
 ("s-itx-hashstring-includes-sig", "C10: promise key includes the signature (control/benign)",
  [(ITX, "\thash, _ := t.Body.Hash()\n\treturn string(hash)", "\thash, _ := t.Body.Hash()\n\treturn string(hash) + t.Signature")]),
 ("s-node-init-joining-when-member", "C17/C11: a member of the peer set starts in Joining",
  [(NODEF, "\t\t_, ok := n.core.peers.ByID[n.core.validator.ID()]\n\t\tif ok {", "\t\t_, ok := n.core.peers.ByID[n.core.validator.ID()]\n\t\tif ok && n.core.seq >= 0 {")]),
 ("s-node-run-maintenance-runs", "C17: maintenance mode still runs the state machine",
  [(NODEF, "func (n *Node) Run(gossip bool) {\n\tif n.conf.MaintenanceMode {\n\t\treturn\n\t}\n", "func (n *Node) Run(gossip bool) {\n")]),
 ("s-node-init-maintenance-babbling", "C17: maintenance mode enters Babbling",
  [(NODEF, "\t} else {\n\t\tn.transition(_state.Suspended)\n\t}", "\t} else {\n\t\tn.setBabblingOrCatchingUpState()\n\t}")]),
 ("s-core-leave-when-maintenance", "C17: leave request submitted in maintenance mode",
  [(CORE, "\tif c.maintenanceMode {\n\t\tc.logger.Debugf(\"Leave: maintenance mode, do nothing\")\n\t\treturn nil\n\t}\n", "")]),
 ("s-core-newcore-validators-from-peers", "C10: validators initialised from the current peers instead of genesis",
  [(CORE, "\t\tvalidators:              genesisPeers,", "\t\tvalidators:              peers,")]),
 ("s-core-newcore-init-with-peers", "C10/C11: hashgraph initialised with the current peers instead of the genesis set",
  [(CORE, "\tcore.hg.Init(genesisPeers)", "\tcore.hg.Init(peers)")]),
]
