# Seed-round prompt generator used in session 3: python3 notes/genprompts.py <round letter> writes /tmp/seedprompts/C??<letter>.md
# (property JSON + list of earlier seeds taken from the DESIGN.md tables + procedure). Sub-agents get ONLY that file and a scratch worktree.
import json,re,sys,os
props={}
for l in open('/verif/properties.jsonl'):
    p=json.loads(l); props[p['id']]=p
rows={}
for l in open('/verif/DESIGN.md'):
    m=re.match(r'\| (C\d\d)([a-i]) \| (.*?) \|',l)
    if m:
        rows.setdefault(m.group(1),[]).append(m.group(3))
rnd=sys.argv[1]
for pid,p in props.items():
    if pid=='C06': continue
    sid=pid+rnd
    earlier="\n".join("- "+r for r in rows.get(pid,[]))
    txt=f"""You are helping to evaluate how well a project's safeguards detect realistic regressions. You work ONLY inside your own scratch git worktree of the Go repository mosaicnetworks/babble: {'/tmp/seedwt/'+sid} (already created for you, at the repository's current head). Do not read or write anything under /verif or /repo, and do not look at any other directory under /tmp/seedwt, /tmp/seed_out or /tmp/seedprompts: your result must be independent.

IMPORTANT: never use `git stash` (the stash is shared by all worktrees of this repository and other people work in sibling worktrees): to toggle your change use `git diff > /tmp/seed_out/<id>/patch.diff` and `git apply -R` / `git apply`. The machine is shared: run the full ./src/node suite at most twice in total (it is timing sensitive and fails spuriously under load; a node test that fails in the full run but passes when re-run alone counts as passing), and prefer targeted `-run` invocations while you work.

Environment: no network. In every shell call first run: export GOFLAGS=-mod=mod GOPROXY=off GOSUMDB=off GOTOOLCHAIN=local   (the default `go` works offline with these). The shell prints a conda WARNING line on every call; ignore it. Tests of ./src/node take about 2.5 minutes; run them inside a private network namespace:  unshare -n -r sh -c "ip link set lo up; go test -vet=off -count=1 -timeout 25m ./src/node/"  (there TestWebRTCGossip fails for lack of a non-loopback interface, with or without any change: ignore it; TestJoinFull, TestJoinLateExtra, TestLeaveRequest are known to be flaky). ./src/net tests must be run OUTSIDE the namespace. All other packages: go test -vet=off -count=1 ./src/... minus those two.

The property (this is all you are given about what must hold):

{json.dumps(p,indent=1)}

Your task: produce ONE change to the repository's non-test Go source that BREAKS this property (some clause of it, for some input / schedule / crash point / history inside its quantifier) while
  (a) the repository still compiles (go build ./... and go vet-free compile of the tests: go test -count=1 -run '^$' ./...),
  (b) the existing test suite, unedited, still passes with the change (apart from the known flaky / environment failures named above), and
  (c) the breakage needs something SPECIFIC to manifest: a particular interleaving, a crash or fault at a particular point, a multi-step sequence of operations, an unusual input, or two cooperating sites that each look fine alone. NOT something ordinary use would expose at once.
The change should look like something a developer could plausibly commit (an optimisation, a refactoring with a subtle slip, a 'robustness fix', a simplification), small (typically 1-30 changed lines), and should not mention that it is a seeded defect (no tell-tale comments or names).

Changes that earlier rounds already produced for this property (go ELSEWHERE: different function, different mechanism, different clause of the property; do not produce a variation of any of these):
{earlier if earlier else '- (none)'}

Also produce a DEMONSTRATION: a new Go test file (or several) placed inside the repository tree (e.g. src/hashgraph/seed_{sid.lower()}_demo_test.go, test function names starting with TestSeed{sid}) that PASSES on the unchanged tree and FAILS with your change, deterministically and in reasonable time (ideally < 60 s). It should exercise the real code (not a copy of it), and may use fault-injecting wrappers of interfaces (Store, AppProxy, Transport), crafted inputs, or specific schedules. Verify both directions yourself.

Deliver, in the directory /tmp/seed_out/{sid}/ (create it):
  - patch.diff : `git diff` of the non-test source change only (must apply with `git apply` to the clean worktree head; do not include the demo test file in it);
  - demo/ : the demonstration test file(s) at their repository-relative paths, e.g. demo/src/hashgraph/seed_{sid.lower()}_demo_test.go;
  - NOTES.md : first line a one-line title `# {sid}: <what the change does>`; then one paragraph each: what the change is and why it looks plausible; which clause of the property it breaks and how; what it needs in order to manifest; what the demonstration does; the exact commands you ran and what they printed (demo without patch, demo with patch, build, suite with patch).
Leave your worktree with the patch applied and the demo test in place when you finish. Your final answer to me: the one-line title, the files changed, and whether every one of (a), (b), (c) and the two demo directions was confirmed by you (say so honestly if something was not run or failed).
"""
    open(f'/tmp/seedprompts/{sid}.md','w').write(txt)
    print(sid,len(rows.get(pid,[])))
