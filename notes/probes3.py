APPC = "src/proxy/socket/app/socket_app_proxy_client.go"
APPS = "src/proxy/socket/app/socket_app_proxy_server.go"
BABS = "src/proxy/socket/babble/socket_babble_proxy_server.go"
BABC = "src/proxy/socket/babble/socket_babble_proxy_client.go"
INP = "src/proxy/inmem/inmem_proxy.go"
NET = "src/net/net_transport.go"
HGF = "src/hashgraph/hashgraph.go"
CORE = "src/node/core.go"
NODEF = "src/node/node.go"

PROBES = [
 ("r-appc-commit-error-empty-success", "C20: CommitBlock returns the (empty) response and nil after logging the error",
  [(APPC, "\tif err := p.call(\"State.CommitBlock\", block, &commitResponse); err != nil {\n\t\treturn commitResponse, err\n\t}", "\tif err := p.call(\"State.CommitBlock\", block, &commitResponse); err != nil {\n\t\tp.logger.WithError(err).Error(\"CommitBlock\")\n\t\treturn commitResponse, nil\n\t}")]),
 ("r-appc-snapshot-error-empty", "C20: GetSnapshot swallows the error",
  [(APPC, "\tif err := p.call(\"State.GetSnapshot\", blockIndex, &snapshot); err != nil {\n\t\treturn []byte{}, err\n\t}", "\tif err := p.call(\"State.GetSnapshot\", blockIndex, &snapshot); err != nil {\n\t\treturn []byte{}, nil\n\t}")]),
 ("r-appc-restore-ignores", "C20/C12: Restore failure reported as success",
  [(APPC, "\tif err := p.call(\"State.Restore\", snapshot, &stateHash); err != nil {\n\t\treturn err\n\t}", "\tif err := p.call(\"State.Restore\", snapshot, &stateHash); err != nil {\n\t\tp.logger.Debug(err)\n\t}")]),
 ("r-appc-timeout-not-error", "C20: a timed-out attempt counts as success",
  [(APPC, "\t\t\terr = fmt.Errorf(\"rpc timeout\")\n\t\t\tbreak", "\t\t\tp.logger.Debug(\"rpc timeout\")\n\t\t\tbreak")]),
 ("r-appc-retries-zero", "C20: retries can be 0 (loop never runs, nil returned)",
  [(APPC, "\t\tretries:    3,\n", "\t\tretries:    int(timeout / time.Second),\n")]),
 ("r-apps-submit-async", "C20/C05: SubmitTx acknowledges before queueing (goroutine)",
  [(APPS, "\tp.submitCh <- tx\n\n\t*ack = true", "\tgo func() { p.submitCh <- tx }()\n\n\t*ack = true")]),
 ("r-apps-submit-select-drop", "C20/C05: SubmitTx drops when the node is not listening",
  [(APPS, "\tp.submitCh <- tx\n\n\t*ack = true", "\tselect {\n\tcase p.submitCh <- tx:\n\tdefault:\n\t}\n\n\t*ack = true")]),
 ("r-babs-commit-error-dropped", "C20: server returns nil error when the handler fails",
  [(BABS, "\t*response, err = p.handler.CommitHandler(block)\n", "\t*response, err = p.handler.CommitHandler(block)\n\tif err != nil {\n\t\tp.logger.Error(err)\n\t\terr = nil\n\t}\n")]),
 ("r-babs-snapshot-index", "C20: snapshot handler called with blockIndex+1... control",
  [(BABS, "\t*snapshot, err = p.handler.SnapshotHandler(blockIndex)", "\t*snapshot, err = p.handler.SnapshotHandler(blockIndex + 1)")]),
 ("r-babc-ack-ignored", "C20: SubmitTx returns ack pointer even on nack — control",
  [(BABC, "\tif err != nil {\n\t\treturn nil, err\n\t}\n\treturn &ack, nil", "\tif err != nil {\n\t\treturn &ack, nil\n\t}\n\treturn &ack, nil")]),
 ("r-inp-commit-copy-response", "C20: inmem proxy drops receipts when the handler errs... returns response without err",
  [(INP, "\treturn commitResponse, err\n}\n\n// GetSnapshot", "\tif err != nil {\n\t\tp.logger.Error(err)\n\t}\n\treturn commitResponse, nil\n}\n\n// GetSnapshot")]),
 ("r-inp-restore-nil", "C20: control",
  [(INP, "\tstateHash, err := p.handler.RestoreHandler(snapshot)\n", "\tstateHash, err := p.handler.RestoreHandler(append([]byte{}, snapshot...))\n")]),
 ("r-net-resp-error-dropped", "C20/C17: transport does not send the handler's error",
  [(NET, "\t\tif resp.Error != nil {\n\t\t\trespErr = resp.Error.Error()\n\t\t}", "\t\tif resp.Error != nil && resp.Response == nil {\n\t\t\trespErr = resp.Error.Error()\n\t\t}")]),
 ("r-net-decode-error-ignored", "C08: undecodable command dispatched with zero value",
  [(NET, "\tcase rpcJoin:\n\t\tvar req JoinRequest\n\t\tif err := dec.Decode(&req); err != nil {\n\t\t\treturn err\n\t\t}", "\tcase rpcJoin:\n\t\tvar req JoinRequest\n\t\tif err := dec.Decode(&req); err != nil {\n\t\t\tn.logger.Debug(err)\n\t\t}")]),
 ("r-net-client-error-nil", "C17: decodeResponse drops the remote error",
  [(NET, "\tif rpcError != \"\" {\n\t\treturn true, fmt.Errorf(rpcError)\n\t}", "\tif rpcError != \"\" {\n\t\treturn true, nil\n\t}")]),
 ("r-core-commit-error-nil", "C02/C20: commit swallows the proxy error (block treated as delivered)",
  [(CORE, "\treturn err\n}\n\n// signBlock", "\treturn nil\n}\n\n// signBlock")]),
 ("r-core-commit-sign-on-error", "C09: block signed although the application failed",
  [(CORE, "\tif err == nil {\n\t\tblock.Body.StateHash = commitResponse.StateHash", "\tif err == nil || len(commitResponse.StateHash) > 0 {\n\t\tblock.Body.StateHash = commitResponse.StateHash")]),
 ("r-node-ff-restore-error-ignored", "C12/C13: Restore failure ignored, node goes on babbling with an app that was not restored",
  [(NODEF, "\t\tn.logger.WithError(err).Error(\"Restoring App from Snapshot\")\n\t\treturn err\n", "\t\tn.logger.WithError(err).Error(\"Restoring App from Snapshot\")\n")]),
 ("r-node-ff-snapshot-of-wrong-block", "C13: responder takes the snapshot of the last block instead of the anchor",
  [("src/node/node_rpc.go", "snapshot, err := n.proxy.GetSnapshot(block.Index())", "snapshot, err := n.proxy.GetSnapshot(n.core.getLastBlockIndex())")]),
 ("r-hg-pdr-callback-error-returns", "C02: (C02a) control",
  [(HGF, "\t\t\t\t\th.logger.Warningf(\"Failed to commit block %d\", block.Index())\n", "\t\t\t\t\th.logger.Warningf(\"Failed to commit block %d\", block.Index())\n\t\t\t\t\treturn err\n")]),
]
