#!/usr/bin/env python3
"""mutscan.py [-j N] [-node] [-o out.tsv] [-only kind,..] <file[:from-to]>... : mechanical mutation scan (coverage measurement,
not a registered check). For every generated one-token mutant of the given source files of /repo's current tree:
  build  ->  fast package tests (everything except src/node, src/net)  ->  bblint -property all  ->  (with -node) src/node tests
and stop at the first stage that rejects the mutant. A mutant that survives the fast tests is what the brief calls a change
that "still compiles and passes the existing tests" (approximately: -node makes it exact for those the checker misses).
Output: one TSV line per mutant: status file:line kind rules original -> mutated. Status: nobuild | killed-fast | caught |
MISSED (survives fast tests, checker silent) | MISSED-killed-node | MISSED-SURVIVES (with -node).
Each worker keeps ONE scratch copy under a temp dir (removed at exit) and rewrites one file in it per mutant."""
import os, re, shutil, subprocess, sys, tempfile, threading, queue, time
HERE = os.path.dirname(os.path.abspath(__file__))
REPO = os.environ.get("VERIF_REPO", "/repo")
ENV = dict(os.environ, GOFLAGS="-mod=mod", GOPROXY="off", GOSUMDB="off", GOTOOLCHAIN="local", GOWORK="off")

REL = [("<=", "<"), ("<", "<="), (">=", ">"), (">", ">="), ("==", "!="), ("!=", "==")]

def mutants_of_line(line):
    """yield (kind, newline)"""
    s = line.rstrip("\n")
    code = s.split("//")[0]
    st = code.strip()
    if not st or st.startswith(("//", "import", "package", "\"", "`")):
        return
    if re.search(r"\b(logger|Debug|Debugf|Trace|Tracef|Info|Infof|Warn|Warnf|WithField|WithFields|WithError|Errorf|Error\(|Sprintf|Printf|panic\()", code) and not re.search(r"\bif\b|\bfor\b", code):
        return
    # strip string literals for matching positions
    masked = re.sub(r'"(\\.|[^"\\])*"', lambda m: '"' + "_" * (len(m.group(0)) - 2) + '"', code)
    # relational operators
    for m in re.finditer(r"(?<![<>=!:+\-*/&|^%])(<=|>=|==|!=|<|>)(?![<>=\-])", masked):
        op = m.group(1)
        if op in ("<", ">") and (masked[m.start()-1:m.start()] == "-" or masked[m.end():m.end()+1] == "-"):
            continue  # channel arrows
        if op == "<" and masked[m.end():m.end()+1] == "-":
            continue
        for a, b in REL:
            if a == op:
                yield ("rel:%s->%s" % (a, b), s[:m.start()] + b + s[m.end():])
        if op in ("==", "!="):
            pass
    for m in re.finditer(r"&&|\|\|", masked):
        b = "||" if m.group(0) == "&&" else "&&"
        yield ("logic:%s->%s" % (m.group(0), b), s[:m.start()] + b + s[m.end():])
    for m in re.finditer(r"(?<![+\-])([+\-])\s*1\b(?!\d|\.)", masked):
        yield ("arith:drop%s1" % m.group(1), s[:m.start()] + s[m.end():])
        other = "-" if m.group(1) == "+" else "+"
        yield ("arith:%s1->%s1" % (m.group(1), other), s[:m.start()] + other + " 1" + s[m.end():])
    for m in re.finditer(r"\btrue\b|\bfalse\b", masked):
        b = "false" if m.group(0) == "true" else "true"
        yield ("bool:%s->%s" % (m.group(0), b), s[:m.start()] + b + s[m.end():])
    if re.fullmatch(r"\s*break\s*", code):
        yield ("ctl:break->continue", s.replace("break", "continue"))
    if re.fullmatch(r"\s*continue\s*", code):
        yield ("ctl:continue->break", s.replace("continue", "break"))
    m = re.match(r"^(\s*)if (.+) \{\s*$", code)
    if m and "; " not in m.group(2) and ":=" not in m.group(2):
        yield ("neg:if", "%sif !(%s) {" % (m.group(1), m.group(2)))
    m = re.match(r"^(\s*)return (.*\b)err\s*$", code)
    if m:
        yield ("err:return-nil", "%sreturn %snil" % (m.group(1), m.group(2)))
    # deletion of a plain call statement or simple field assignment
    if re.match(r"^\s*[A-Za-z_][\w\.\[\]\(\)\*]*\(.*\)\s*$", code) and not re.match(r"^\s*(return|if|for|switch|go|defer|func|case|select)\b", code):
        yield ("del:call", re.match(r"^\s*", s).group(0) + "// (deleted)")
    if re.match(r"^\s*[A-Za-z_][\w\.\[\]]*\.[\w\.\[\]]+\s*=[^=].*$", code) and code.count("(") == code.count(")"):
        yield ("del:fieldstore", re.match(r"^\s*", s).group(0) + "// (deleted)")
    if re.match(r"^\s*defer\b.*\)\s*$", code):
        yield ("del:defer", re.match(r"^\s*", s).group(0) + "// (deleted)")

def gen(spec):
    if ":" in spec:
        f, rng = spec.split(":"); lo, hi = [int(x) for x in rng.split("-")]
    else:
        f, lo, hi = spec, 1, 10**9
    lines = open(os.path.join(REPO, f)).read().split("\n")
    incomment = False
    for i, l in enumerate(lines, 1):
        if "/*" in l: incomment = True
        if incomment:
            if "*/" in l: incomment = False
            continue
        if i < lo or i > hi: continue
        for kind, new in mutants_of_line(l):
            if new != l:
                yield (f, i, kind, l, new)

def sh(cmd, cwd, timeout=1500):
    try:
        r = subprocess.run(cmd, cwd=cwd, env=ENV, capture_output=True, text=True, timeout=timeout)
        return r.returncode, r.stdout + r.stderr
    except subprocess.TimeoutExpired:
        return 124, "timeout"

FAST = None
def worker(q, out, lock, node):
    d = tempfile.mkdtemp(prefix="bbl_ms_")
    try:
        for n in ("go.mod", "go.sum"):
            shutil.copy(os.path.join(REPO, n), d)
        for n in ("src", "cmd"):
            shutil.copytree(os.path.join(REPO, n), os.path.join(d, n))
        while True:
            try:
                mu = q.get_nowait()
            except queue.Empty:
                return
            f, ln, kind, old, new = mu
            path = os.path.join(d, f)
            orig = open(path).read()
            lines = orig.split("\n"); lines[ln-1] = new
            open(path, "w").write("\n".join(lines))
            status, rules = "?", ""
            try:
                rc, o = sh(["go", "build", "./src/...", "./cmd/..."], d)
                if rc != 0:
                    status = "nobuild"
                else:
                    rc, o = sh(["go", "vet", "./" + os.path.dirname(f)], d) if False else (0, "")
                    rc, o = sh(["go", "test", "-vet=off", "-count=1", "-timeout", "120s"] + FAST, d, 300)
                    if rc != 0:
                        status = "killed-fast"
                    else:
                        rc, o = sh([os.path.join(HERE, "bin/bblint"), "-repo", d, "-property", "all", "-evidence", os.path.join(d, "ev"), "-known", os.path.join(HERE, "known_findings.json")], d, 600)
                        v = [l for l in o.splitlines() if l.startswith("VIOLATION")]
                        if v or rc != 0:
                            status = "caught"; rules = " ".join(sorted({m.group(1) for l in v for m in [re.search(r"rule=(\S+)", l)] if m}))
                        else:
                            status = "MISSED"
                            if node:
                                rc, o = sh(["unshare", "-n", "-r", "sh", "-c", "ip link set lo up 2>/dev/null; go test -vet=off -count=1 -timeout 20m ./src/node/ ./src/babble/"], d, 1500)
                                fails = [l for l in o.splitlines() if l.startswith("--- FAIL") and not re.search(r"TestWebRTCGossip|TestJoinFull|TestJoinLateExtra|TestLeaveRequest", l)]
                                status = "MISSED-killed-node" if (fails or "panic:" in o or rc == 124) else "MISSED-SURVIVES"
                                rules = " ".join(x.split()[2] for x in fails[:3])
            finally:
                open(path, "w").write(orig)
            with lock:
                out.write("%s\t%s:%d\t%s\t%s\t%s  ->  %s\n" % (status, f, ln, kind, rules, old.strip(), new.strip())); out.flush()
    finally:
        shutil.rmtree(d, ignore_errors=True)

def main():
    global FAST
    args = sys.argv[1:]; j = 6; node = False; outp = None; only = None; specs = []; recheck = None
    i = 0
    while i < len(args):
        if args[i] == "-j": j = int(args[i+1]); i += 2
        elif args[i] == "-node": node = True; i += 1
        elif args[i] == "-o": outp = args[i+1]; i += 2
        elif args[i] == "-only": only = args[i+1].split(","); i += 2
        elif args[i] == "-recheck": recheck = args[i+1]; i += 2
        else: specs.append(args[i]); i += 1
    rc, o = sh(["go", "list", "./src/..."], REPO)
    FAST = [p for p in o.split() if p.startswith("github.com") and not p.endswith("/src/node") and not p.endswith("/src/net") and "/net/signal" not in p and not p.endswith("/src/babble") and "/mobile" not in p]
    FAST = ["./" + p.split("babble/", 1)[1] for p in FAST]
    q = queue.Queue(); n = 0
    if recheck:
        # re-run the MISSED mutants of an earlier scan (same tree) against the current checker
        want = set()
        for l in open(recheck):
            f = l.rstrip("\n").split("\t")
            if f[0].startswith("MISSED"):
                want.add((f[1], f[2], f[4].split("  ->  ")[1]))
                specs.append(f[1].rsplit(":", 1)[0])
        specs = sorted(set(specs))
    for s in specs:
        for mu in gen(s):
            if only and not any(mu[2].startswith(k) for k in only): continue
            if recheck and ("%s:%d" % (mu[0], mu[1]), mu[2], mu[4].strip()) not in want: continue
            q.put(mu); n += 1
    sys.stderr.write("mutscan: %d mutants\n" % n)
    out = open(outp, "a") if outp else sys.stdout
    lock = threading.Lock()
    ts = [threading.Thread(target=worker, args=(q, out, lock, node)) for _ in range(j)]
    for t in ts: t.start()
    for t in ts: t.join()

if __name__ == "__main__":
    main()
