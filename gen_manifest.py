#!/usr/bin/env python3
"""Regenerates /verif/MANIFEST.json from the table below and the list of
properties registered in bin/bblint (bblint -list)."""
import json, subprocess, os, sys

os.chdir(os.path.dirname(os.path.abspath(__file__)))
registered = subprocess.run(["bin/bblint", "-list"], capture_output=True, text=True).stdout.split()

# id -> (level category, level text, level note, technique, design_ref)
T = {
 "C01": ("other", "Structural necessary conditions of agreement decided on every path / call site: quorum comparisons use >= SuperMajority against the peer set of the right round, fame set once by supermajority in normal rounds only, round-received rule, consensus sort key free of local state. Agreement itself (a theorem about all DAGs and schedules) is NOT decided. Also: a round is queued once (never after it was decided), FamousWitnesses is exactly Witness && Famous==True, DivideRounds records exactly what round()/witness()/lamportTimestamp() computed.", "go/types+go/ssa+VTA faithful; rule tables transcribe docs/consensus.rst; anchors by qualified name", "must-pass-through path analysis + operator discipline + field read-sets over go/ssa", "DESIGN.md §4 C01"),
 "C02": ("other", "Decides on every path: single block producer, index = LastBlockIndex()+1 with SetBlock before the callback, ascending once-only processing of pending rounds with break at first undecided and deferred Clean, writers of BlockBody fields, and that the block is stored again after the application answered. Not decided: values across schedules. Also: no re-queue of processed rounds, no read-back of lossy round records, block fields tied to the frame (round, peers, hash, timestamp), ProcessSigPool never touches a block above LastBlockIndex (F-C11-2).", "as C01", "CFG dominance / post-dominance, call-graph who-may-reach, field-writer enumeration", "DESIGN.md §4 C02"),
 "C03": ("other", "Decides that the consensus functions (closure under module calls) read no process-local state (topological indexes, counters, clocks, randomness, view-dependent store getters), that no map-iteration / arrival order reaches an ordered output without a content-keyed sort, that memo caches are keyed by all parameters, and that frame/round encoders are canonical. Independence from batching / cache size is NOT decided.", "as C01; E3 closure bounded to module code", "read/write-set closure over the VTA call graph, order-taint dataflow", "DESIGN.md §4 C03"),
 "C04": ("other", "Decides: Lamport timestamp = max(parents)+1 on all success paths, frame sort compares Lamport timestamps first with <, block payload is an in-order concatenation over frame.Events, events enter ReceivedEvents once and leave the undetermined queue iff received.", "as C01", "symbolic max-plus evaluation of SSA + path analysis + provenance dataflow", "DESIGN.md §4 C04"),
 "C05": ("other", "Decides: pools trimmed by counts captured before insertion and only after successful insertion; only addTransactions/addInternalTransaction/addSelfEvent write the pools; InmemProxy copies before queueing; every pool/hashgraph mutator call site reachable from a concurrent root holds Node.coreLock. End-to-end exactly-once is NOT decided. Also: head/seq move only after a successful insertion (and always then), every transaction received on the submit channel reaches the pool.", "as C01; lock rule is intraprocedural lock-state + caller closure", "SSA value identity + dominance, field-writer enumeration, lock-context analysis", "DESIGN.md §4 C05"),
 "C07": ("other", "Decides on every CFG path of InsertEvent and its checks that SetEvent / the undetermined queue are reached only after signature, self-parent, other-parent and index checks; shapes of those checks; wire resolution with checked lookups; who may reach InsertEvent / InsertFrameEvent. Not decided: ECDSA soundness.", "go/types+go/ssa+VTA faithful; one/two-level helper inlining", "path-sensitive must-pass-through analysis over go/ssa with helper summaries; call-graph gates", "DESIGN.md §4 C07"),
 "C08": ("other", "Decides absence of a fixed catalogue of crash shapes on all functions reachable from the network entry points: unchecked fallible producers (SetString, elliptic.Unmarshal, hex decode), nil reaching ecdsa.Verify, wire integers used as slice bounds, constant slicing of decoder inputs, unvalidated nil-able positions of fast-forward responses, dispatch defaults. General panic-freedom is NOT decided.", "as C01; catalogue is finite and listed in evidence", "taint/dataflow over go/ssa restricted by VTA reachability; dominance of validation", "DESIGN.md §4 C08"),
 "C09": ("other", "Decides on every path: SetSignature in ProcessSigPool only after block fetched, peer set of the block's round fetched, signer membership and Block.Verify true; wire signatures attributed to the event creator only; anchor raised only under strict > TrustCount and monotone index; signBlock only after the app answered.", "as C01", "path-sensitive must-pass-through analysis; field-writer enumeration; type structure", "DESIGN.md §4 C09"),
 "C10": ("other", "Decides: who may reach Store.SetPeerSet; effective round = round-received + 6; only accepted receipts change the set, by the matching operation, exhaustively over TransactionType; PeerSetCache never overwrites and looks up greatest round <= r; membership tests in _witness / ProcessSigPool; core.validators always takes the latest recorded set. Also: every accepted receipt of a handled type IS applied (no node-local skip) and leads to SetPeerSet; round 0 is the genesis set; one canonical key spelling.", "as C01", "call-graph gates, symbolic affine evaluation, path analysis, exhaustiveness over go/types constants", "DESIGN.md §4 C10"),
 "C11": ("other", "Decides: event record + topological key + participant key set on one badger transaction with a single post-dominating Commit; SetEvent precedes use; Bootstrap replays through the normal insert path in maintenance mode in key order; every transition to Babbling is preceded by head restoration; mobile store is a sibling copy. Durability under power loss and arbitrary kill instants are NOT decided. Also: setHeadAndSeq restores exactly the last stored own event; the replay loop ends only on a short batch; batches never overlap; the database is kept when bootstrapping; signatures ahead of their block wait (F-C11-2).", "as C01; badger Txn atomic at Commit", "typestate on the txn value, dominance, AST sibling comparison", "DESIGN.md §4 C11"),
 "C12": ("other", "Decides on every path of core.fastForward / CheckBlock / Node.fastForward: Reset and validator update only after CheckBlock==nil and frame-hash equality; CheckBlock returns nil only with peer-set hash equality and count > TrustCount; the counter counts distinct canonical signers that are members and verify; the application is restored only after the core accepted.", "as C01", "path-sensitive must-pass-through analysis with helper summaries", "DESIGN.md §4 C12"),
 "C13": ("other", "Structural clauses only: frames are computed from consensus state (no local view, constant root depth, sorted outputs, canonical encoding), Reset seeds caches from every frame event before storing the block, validators after reset are the latest recorded set. That a reset node delivers the same later blocks is NOT decided. Also: a computed frame is stored before it is handed out, the anchor block is paired with the frame of its round and the snapshot of its index, babbling only after Restore succeeded, wire coordinates of new events come from the store.", "as C01", "read-set closure, order taint, path analysis", "DESIGN.md §4 C13"),
 "C14": ("other", "Decides the provenance of the peer set against which fast-forward signatures are counted: it must derive from state the node already trusted, not exclusively from the response. Reported as known finding F-C14-1 on the pinned tree (protocol-level).", "as C01", "interprocedural data-dependence (one level) over go/ssa", "DESIGN.md §4 C14"),
 "C15": ("other", "Decides agreement of writer/reader field tables: every exported EventBody field is rebuilt by ReadWireInfo from the wire field ToWire fills; MarshalDB/UnmarshalDB copy the same private fields; cache fields are unexported and written only by their lazy getters; no json tags hide fields of transported types; canonical frame encoding. Value-level round trips (nil vs empty) NOT decided. Also: nil-preserving wire conversions of block signatures; wire coordinates derived from the store (never from unexported fields JSON drops).", "as C01; encoding/json and ugorji summaries", "field-coverage analysis over go/types + go/ssa stores", "DESIGN.md §4 C15"),
 "C16": ("other", "Decides read-through (cache miss falls back to the db getter), write-through (db writer called and its error returned when not in maintenance mode), key-function pairing between dbSet*/dbGet*, zero-padded key formats, codec pairing, sibling equality of the mobile store. Durability / eviction behaviour as a value-level map NOT decided. Also: read-through getters pass their own arguments to cache and database, database listings start at skip+1 and return at most count, rolling-index positions proved equal to arg - lastIndex + len(items) as linear forms.", "as C01", "path analysis + data-dependence + format-string inspection + AST sibling comparison", "DESIGN.md §4 C16"),
 "C17": ("other", "Decides exhaustively (6 states x 4 commands + default) that handlers run only when Babbling, sync additionally when Suspended, refusals answer with an error; the sync handler's call-graph closure contains no hashgraph/core mutator; eventDiff is sorted and truncated to a prefix; submissions only touch the pool; suspension condition and its placement after every tick. Also: removedRound is the effective round, suspension baseline taken after bootstrap, eventDiff ends with the error of a failing store read, the transport always carries a refusal back, maintenance mode only suspends.", "as C01; VTA reach incl. library callbacks", "finite path enumeration over processRPC, call-graph reach vs mutator set, operator discipline", "DESIGN.md §4 C17"),
 "C18": ("other", "Decides: block timestamp <- frame timestamp <- Median of timestamps of the famous witnesses of the same round; Median sorts a copy ascending and returns the middle rank(s) for every length (index forms proved by parity analysis). The Byzantine-tolerance inequality itself needs facts about rounds and is NOT decided.", "as C01; no overflow", "provenance dataflow + quasi-affine abstract interpretation (period 2)", "DESIGN.md §4 C18"),
 "C19": ("proof", "Static proof for ALL n >= 1 by abstract interpretation of the SSA of SuperMajority/TrustCount in the domain of eventually periodic quasi-affine functions: SuperMajority(n) = floor(2n/3)+1, TrustCount(n) >= floor(n/3) with T(1)=0, T(n)>=1 for n>=2; derived quorum inequalities per residue class; every use site compares with the right strictness; memo fields written only by their getters.", "go/ssa faithful; no integer overflow; n < 2^53 on the float path; len(Peers)==Len() for duplicate-free sets", "abstract interpretation (quasi-affine, period 3) of go/ssa + operator discipline at all use sites", "DESIGN.md §4 C19"),
 "C20": ("other", "Decides: retry wrappers return nil only if the last attempt succeeded; proxy methods return call's error unchanged; arguments and replies are passed through without rebuilding; SubmitTx ack=false becomes an error; every field of every type crossing the JSON-RPC boundary is exported and untagged; InmemProxy copies on submit. Ordering per connection and behaviour under drops NOT decided. Also: every method of the application-side RPC server returns the handler error.", "as C01; net/rpc+jsonrpc summaries", "path analysis of the retry loops + data-dependence identity + field tables from go/types", "DESIGN.md §4 C20"),
}

# round g additions to the level texts (rules_g.go)
G = {
 "C01": " Round g: consensus functions propagate the errors of the store reads they test (no failed read memoised as an answer); no accumulating map range is cut short; one full consensus pass after every inserted event; InsertEvent always computes the event's coordinates; the search for round-received steps over undecided rounds at or below a reset point.",
 "C02": " Round g: Hashgraph.Reset stores the anchor block and resets the store unconditionally; core.commit / signBlock report the failures they test.",
 "C03": " Round g: C03.errs (tested store errors end in error returns, 12 documented 'absent is an answer' sites apart), C03.mapcut, C03.perevent.",
 "C04": " Round g: element-wise conversions are total: every received event becomes a frame event, every frame event's payload reaches the block (no filter, no early exit).",
 "C05": " Round g: core.sync / signAndInsertSelfEvent / insertEventAndRunConsensus / recordHeads / setHeadAndSeq report the failures they test.",
 "C07": " Round g: the digest a membership request is signed over covers the whole request body.",
 "C08": " Round g: no make() sized by a peer-supplied integer; each shape test's failing edge is an error exit and the validator reports every failed check; hashgraph reads for a peer happen under the core lock.",
 "C10": " Round g: a joiner holds back until its accepted round (gate, writers of acceptedRound, join response, promise round); core.validators follows every recorded set; first-round bookkeeping complete; lazy digests filled exactly when empty; membership-request digest covers the body.",
 "C11": " Round g: replayed events take the live path (no replay mode above the store, coordinates always recomputed); Bootstrap and the path it replays through report failures; the empty head is kept only when there is no last event.",
 "C12": " Round g: core.fastForward / checkFastForwardShape report every failed check (a refusal cannot look like success to Node.fastForward); PeerSet.Hash fills its memo exactly when empty; the seen-set of CheckBlock is really updated.",
 "C13": " Round g: Reset unconditional block store; every frame event / root event reaches the reset list; joiner hold-back; undecided rounds below the reset point are stepped over; no accumulating map range cut short in the frame builders.",
 "C14": " Round g: nothing of a response is adopted unless CheckBlock accepted its block (no shortcut), and refusals are reported (C14.accept, C14.errs).",
 "C15": " Round g: wire conversions are element-wise total (no dropped signature / transaction); lazy getters of the memoised digests.",
 "C17": " Round g: every request handler answers on every path; reads for a peer under the core lock; too-many-undetermined and eviction each suspend alone.",
 "C18": " Round g: one timestamp per famous witness (no filter), and the frame functions read no local clock.",
}
for k, v in G.items():
    c, text, note, tech, ref = T[k]
    T[k] = (c, text + v, note, tech, ref)

# round h additions
H = {
 "C02": " Round h: core.commit hands every block to the application before it returns.",
 "C03": " Round h: insertion-time code does not read the node's consensus progress (LastConsensusRound ...).",
 "C05": " Round h: addTransactions queues every transaction it is given (no content filter); core.commit never withholds a block.",
 "C07": " Round h: the store resolves a creator by its full public key (ByPubKey), not by the 32-bit id.",
 "C10": " Round h: every success return of core.commit has processed the block's receipts.",
 "C11": " Round h: every success return of core.commit has processed the block's receipts (a replayed database rebuilds the validator-set history only this way); every BadgerStore method reports the failures it tests.",
 "C15": " Round h: ReadWireInfo rebuilds the event from the wire form it was given.",
 "C16": " Round h: every BadgerStore method and closure returns an error on the failing edge of each error it tests (C16.dberrs); per-creator records keyed by the full public key.",
}
for k, v in H.items():
    c, text, note, tech, ref = T[k]
    T[k] = (c, text + v, note, tech, ref)

# round i additions
I = {
 "C02": " Round i: the block index is read from the store for every block (no counter carried across the rounds of a pass); the commit callback runs exactly once per block.",
 "C03": " Round i: every event of every processed round is recorded as a consensus event; block numbers read per block.",
 "C04": " Round i: core.commit invokes the commit callback exactly once per block.",
 "C11": " Round i: Bootstrap returns only errors of its callees (no acceptance decision of its own about the database).",
 "C12": " Round i: core.fastForward returns nil only after CheckBlock==nil, the frame-hash comparison and hg.Reset.",
 "C13": " Round i: every event of every processed round is recorded as a consensus event, payload or not.",
 "C14": " Round i: nil from core.fastForward means verified and adopted (C14.accept).",
}
for k, v in I.items():
    c, text, note, tech, ref = T[k]
    T[k] = (c, text + v, note, tech, ref)

# round j additions
Jx = {
 "C05": " Round j: signAndInsertSelfEvent / insertEventAndRunConsensus return an explicit nil only after the insertion returned nil.",
 "C10": " Round j: every source of the round passed to SetPeerSet is roundReceived+6; strongly-see quorums counted against the round's own set (C10.pair).",
 "C16": " Round j: the in-memory store refuses an event before caching it (C16.store).",
 "C19": " Round j: round-received needs a supermajority of famous witnesses that all see the event (C19.rr).",
 "C20": " Round j: the socket clients return the RPC reply unmodified (C20.replyintact).",
}
for k, v in Jx.items():
    c, text, note, tech, ref = T[k]
    T[k] = (c, text + v, note, tech, ref)

NA = {
 "C06": "Liveness under fair gossip quantifies over unbounded fair schedules and asserts a bound on exchanges until idle; no clause is visible in the shape of the code (termination of virtual voting is semantic/probabilistic). Static analysis in reach cannot bound it (DESIGN.md §5).",
}

checks = []
na = []
for i in range(1, 21):
    pid = "C%02d" % i
    if pid in registered and pid in T:
        cat, text, note, tech, ref = T[pid]
        checks.append({
            "property_id": pid,
            "quick_cmd": "./run.sh %s quick" % pid,
            "thorough_cmd": "./run.sh %s thorough" % pid,
            "evidence_file": "/verif/evidence/%s.json" % pid,
            "replay_cmd_template": "./run.sh %s quick  # re-evaluates every obligation incl. the one in {path}" % pid,
            "engine": "bblint",
            "level_claimed": {"category": cat, "text": text, "design_ref": ref},
            "level_note": note,
            "technique": "static analysis: " + tech,
        })
    elif pid in NA:
        na.append({"property_id": pid, "reason": NA[pid]})
    else:
        na.append({"property_id": pid, "reason": "static rules designed (DESIGN.md §4) but not yet implemented in bblint at this commit; not claimed until the check exists"})

m = {
 "version": 1,
 "setup_cmd": "cd /verif/tool && GOFLAGS=-mod=vendor GOPROXY=off GOSUMDB=off GOTOOLCHAIN=local go build -o ../bin/bblint ./cmd/bblint",
 "hooks": {
  "guard": "verif",
  "enable": "none needed: static analysis reads /repo's source; no hooks or instrumentation were added to the repository",
  "baseline_off_cmd": "cd /repo && GOFLAGS=-mod=mod go test -json -vet=off -count=1 -timeout 25m ./...",
  "source_commits": [],
  "add_only": True,
 },
 "engines": [{
  "name": "bblint", "path": "/verif/tool",
  "serves_properties": [c["property_id"] for c in checks],
  "kind_free_text": "repository-specific static analyser over go/packages + go/ssa + VTA call graph (x/tools v0.29.0, vendored): path-sensitive must-pass-through engine with helper summaries, who-may-reach gates, field read/write sets, order taint, quasi-affine abstract interpretation, field-coverage tables, sibling AST comparison",
 }],
 "checks": checks,
 "not_applicable": na,
 "notes": "All checks are static: they type-check /repo's working tree, build SSA and a call graph on every run and evaluate frozen rule tables; nothing from /repo is executed. Known findings: /verif/known_findings.json. Seeded defects used to test the checker: /verif/seeded/.",
}
json.dump(m, open("MANIFEST.json", "w"), indent=1)
print("claimed:", [c["property_id"] for c in checks], "n/a:", [x["property_id"] for x in na])
