#!/bin/bash
# checker self-test for one property (thorough tier): stored mutants must be detected, benign variants must stay silent
cd "$(dirname "$0")"
exec python3 selftest.py "$1" -j 8
