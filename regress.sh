#!/bin/bash
# regress.sh : full regression of the checker on scratch copies (never touches /repo): stored mutants and benign
# variants (selftest.py), every kept seed (must fire), the benign patch corpus (must stay silent).
cd "$(dirname "$0")"
J=${J:-8}
python3 selftest.py -j $J > /tmp/regress_selftest.log 2>&1; echo "selftest: $(tail -1 /tmp/regress_selftest.log)"; grep -E '^(FAIL|broken)' /tmp/regress_selftest.log | cut -c1-300
files=(); for d in seeded/*/; do p="$d/patch.diff"; [ -f "$d/patch_current.diff" ] && p="$d/patch_current.diff"; [ "$(basename $d)" = C11b ] && continue; files+=("$p"); done
python3 patchtest.py -expect fire -j $J "${files[@]}" > /tmp/regress_seeds.log 2>&1; echo "seeds: $(tail -1 /tmp/regress_seeds.log)"; grep -E '^(silent|noapply|nobuild)' /tmp/regress_seeds.log
python3 patchtest.py -j $J $(ls benign/*/*.diff | grep -v known_alarms) > /tmp/regress_benign.log 2>&1; echo "benign: $(tail -1 /tmp/regress_benign.log)"; grep -E -A3 '^(fired|noapply|nobuild)' /tmp/regress_benign.log | cut -c1-300
