#!/bin/bash
# mkscratch.sh <patch> <dir>: scratch copy of /repo's current tree (src, cmd, go.mod, go.sum) with one patch applied (for debugging a check)
set -e
rm -rf "$2"; mkdir -p "$2"; cp /repo/go.mod /repo/go.sum "$2"/; cp -r /repo/src /repo/cmd "$2"/
patch -p1 -s --no-backup-if-mismatch -d "$2" -i "$(readlink -f "$1")"
