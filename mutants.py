"""Stored mutants (each breaks ONE rule instance, compiles, is realistic) and
benign variants (behaviour-preserving rewrites on which every check must stay
silent). Each entry: id, prop, rule (mutants), edits=[(file, old, new)].
'old' must occur in the current tree; it is replaced once."""

HGF = "src/hashgraph/hashgraph.go"
CORE = "src/node/core.go"
NODEF = "src/node/node.go"
RPC = "src/node/node_rpc.go"
PSF = "src/peers/peer_set.go"
MEDF = "src/common/median.go"
BSF = "src/hashgraph/badger_store.go"
EVF = "src/hashgraph/event.go"
APPC = "src/proxy/socket/app/socket_app_proxy_client.go"

def M(id, prop, rule, *edits):
    return {"id": id, "prop": prop, "rule": rule, "edits": list(edits)}

def B(id, prop, *edits):
    return {"id": id, "prop": prop, "edits": list(edits)}

MUTANTS = [
 # ---- C07
 M("c07-drop-otherparent-check", "C07", "C07.guard", (HGF, "if err := h.checkOtherParent(event); err != nil {", "if err := h.checkOtherParent(event); err != nil && false {")),
 M("c07-ignore-verify", "C07", "C07.guard", (HGF, "if ok, err := event.Verify(); !ok {", "if ok, err := event.Verify(); !ok && err != nil {")),
 M("c07-selfparent-any", "C07", "C07.guard", (HGF, "selfParentLegit := selfParent == creatorLastKnown", "selfParentLegit := selfParent == creatorLastKnown || selfParent != \"\"")),
 M("c07-otherparent-unknown-ok", "C07", "C07.guard", (HGF, "\t\tif err != nil {\n\t\t\treturn fmt.Errorf(\"Other-parent not known\")\n\t\t}", "\t\tif err != nil && !common.IsStore(err, common.KeyNotFound) {\n\t\t\treturn fmt.Errorf(\"Other-parent not known\")\n\t\t}")),
 M("c07-drop-index-check", "C07", "C07.index", (HGF, "if event.Index() != selfParentEvent.Index()+1 {", "if event.Index() > selfParentEvent.Index()+1 {")),
 M("c07-drop-first-index-check", "C07", "C07.index", (HGF, "\t\t\tif event.Index() != 0 {\n\t\t\t\treturn NewSelfParentError(\"First Event index is not 0\", false)\n\t\t\t}\n", "")),
 M("c07-undetermined-before-setevent", "C07", "C07.after", (HGF, "\tif err := h.Store.SetEvent(event); err != nil {\n\t\treturn fmt.Errorf(\"SetEvent: %s\", err)\n\t}\n\n\tif err := h.updateAncestorFirstDescendant(event); err != nil {\n\t\treturn fmt.Errorf(\"UpdateAncestorFirstDescendant: %s\", err)\n\t}\n\n\th.UndeterminedEvents = append(h.UndeterminedEvents, event.Hex())",
   "\th.UndeterminedEvents = append(h.UndeterminedEvents, event.Hex())\n\n\tif err := h.Store.SetEvent(event); err != nil {\n\t\treturn fmt.Errorf(\"SetEvent: %s\", err)\n\t}\n\n\tif err := h.updateAncestorFirstDescendant(event); err != nil {\n\t\treturn fmt.Errorf(\"UpdateAncestorFirstDescendant: %s\", err)\n\t}\n")),
 M("c07-wire-unchecked-otherparent", "C07", "C07.wire", (HGF, "\t\tif err != nil {\n\t\t\treturn nil, fmt.Errorf(\"OtherParent (creator: %d, index: %d) not found\", wevent.Body.OtherParentCreatorID, wevent.Body.OtherParentIndex)\n\t\t}", "\t\tif err != nil {\n\t\t\totherParent = \"\"\n\t\t}")),
 M("c07-rpc-inserts-directly", "C07", "C07.roots", (RPC, "\tsuccess := true\n", "\tsuccess := true\n\tfor _, we := range cmd.Events {\n\t\tif ev, err := n.core.hg.ReadWireInfo(we); err == nil {\n\t\t\tn.core.insertEventAndRunConsensus(ev, false)\n\t\t}\n\t}\n")),
 M("c07-itx-verify-first-only", "C07", "C07.verify", ("src/hashgraph/event.go", "\t\t} else if !ok {\n\t\t\treturn false, fmt.Errorf(\"invalid signature on internal transaction\")\n\t\t}\n", "\t\t} else if !ok {\n\t\t\treturn false, fmt.Errorf(\"invalid signature on internal transaction\")\n\t\t}\n\t\tbreak\n")),
 M("c07-itx-verify-ignored", "C07", "C07.verify", ("src/hashgraph/event.go", "\t\t} else if !ok {\n\t\t\treturn false, fmt.Errorf(\"invalid signature on internal transaction\")\n\t\t}\n", "\t\t} else if !ok {\n\t\t\t_ = fmt.Sprint(\"invalid signature on internal transaction\")\n\t\t}\n")),
 # ---- C12 / C14
 M("c12-drop-framehash", "C12", "C12.accept", (CORE, "if !reflect.DeepEqual(block.FrameHash(), frameHash) {", "if !reflect.DeepEqual(len(block.FrameHash()), len(frameHash)) {")),
 M("c12-reset-before-check", "C12", "C12.accept", (CORE, "\t// Check Block Signatures\n\terr := c.hg.CheckBlock(block, peerSet)\n\tif err != nil {\n\t\treturn err\n\t}\n", "\t// Check Block Signatures\n\terr := c.hg.CheckBlock(block, peerSet)\n\tif err != nil && len(block.Signatures) == 0 {\n\t\treturn err\n\t}\n")),
 M("c12-trust-nonstrict", "C12", "C12.check", (HGF, "if validSignatures <= peerSet.TrustCount() {", "if validSignatures < peerSet.TrustCount() {")),
 M("c12-count-without-verify", "C12", "C12.check", (HGF, "\t\tok, _ := block.Verify(s)\n\t\tif ok {\n", "\t\tok, err := block.Verify(s)\n\t\tif ok || err != nil {\n")),
 M("c12-drop-peershash", "C12", "C12.check", (HGF, "\tif !reflect.DeepEqual(psh, block.PeersHash()) {\n\t\treturn fmt.Errorf(\"Wrong PeerSet\")\n\t}\n", "\tif !reflect.DeepEqual(len(psh), len(block.PeersHash())) {\n\t\treturn fmt.Errorf(\"Wrong PeerSet\")\n\t}\n")),
 M("c12-drop-seen-set", "C12", "C12.distinct", (HGF, "\t\tif counted[validatorHex] {\n\t\t\tcontinue\n\t\t}\n", "")),
 M("c12-seen-set-raw-key", "C12", "C12.distinct", (HGF, "\t\tif counted[validatorHex] {", "\t\tif counted[s.Signature] {"), (HGF, "counted[validatorHex] = true", "counted[s.Signature] = true")),
 M("c12-restore-first", "C12", "C12.app", (NODEF, "\t//prepare core. ie: fresh hashgraph\n", "\tif err := n.proxy.Restore(resp.Snapshot); err != nil {\n\t\treturn err\n\t}\n\t//prepare core. ie: fresh hashgraph\n")),
 # ---- C09
 M("c09-drop-membership", "C09", "C09.record", (HGF, "\t\tif _, ok := peerSet.ByPubKey[bs.ValidatorHex()]; !ok {\n\t\t\th.logger.WithFields(logrus.Fields{\n\t\t\t\t\"index\":     bs.Index,", "\t\tif _, ok := peerSet.ByPubKey[bs.ValidatorHex()]; !ok && len(peerSet.Peers) == 0 {\n\t\t\th.logger.WithFields(logrus.Fields{\n\t\t\t\t\"index\":     bs.Index,")),
 M("c09-record-invalid", "C09", "C09.record", (HGF, "\t\tif !valid {\n\t\t\tbytesBlock, _ := block.Marshal()", "\t\tif !valid && h.logger.Logger.Level >= logrus.DebugLevel {\n\t\t\tbytesBlock, _ := block.Marshal()")),
 M("c09-peerset-of-last-round", "C09", "C09.record", (HGF, "\t\tpeerSet, err := h.Store.GetPeerSet(block.RoundReceived())\n\t\tif err != nil {\n\t\t\th.logger.WithFields(logrus.Fields{\n\t\t\t\t\"index\": bs.Index,\n\t\t\t\t\"round\": block.RoundReceived(),", "\t\tpeerSet, err := h.Store.GetPeerSet(h.Store.LastRound())\n\t\tif err != nil {\n\t\t\th.logger.WithFields(logrus.Fields{\n\t\t\t\t\"index\": bs.Index,\n\t\t\t\t\"round\": block.RoundReceived(),")),
 M("c09-anchor-nonstrict", "C09", "C09.anchor", (HGF, "if len(block.Signatures) > peerSet.TrustCount() &&", "if len(block.Signatures) >= peerSet.TrustCount() &&")),
 M("c09-anchor-not-monotone", "C09", "C09.anchor", (HGF, "\t\t(h.AnchorBlock == nil ||\n\t\t\tblock.Index() > *h.AnchorBlock) {", "\t\t(h.AnchorBlock == nil ||\n\t\t\tblock.Index() != *h.AnchorBlock) {")),
 M("c09-sign-before-statehash", "C09", "C09.sign", (CORE, "\tif err == nil {\n\t\tblock.Body.StateHash = commitResponse.StateHash\n\t\tblock.Body.InternalTransactionReceipts = commitResponse.InternalTransactionReceipts\n", "\tif err == nil {\n"), (CORE, "\t\t\tc.selfBlockSignatures.Add(sig)\n\t\t}\n", "\t\t\tc.selfBlockSignatures.Add(sig)\n\t\t}\n\t\tblock.Body.StateHash = commitResponse.StateHash\n\t\tblock.Body.InternalTransactionReceipts = commitResponse.InternalTransactionReceipts\n")),
 M("c09-sign-nonmember", "C09", "C09.sign", (CORE, "if _, ok := blockPeerSet.ByID[c.validator.ID()]; ok {", "if _, ok := blockPeerSet.ByID[c.validator.ID()]; ok || len(blockPeerSet.Peers) > 0 {")),
 M("c09-wire-validator-from-sig", "C09", "C09.attrib", ("src/hashgraph/event.go", "\t\t\t\tValidator: validator,\n", "\t\t\t\tValidator: []byte(bs.Signature),\n")),
 # ---- C10 / C13.latest
 M("c10-plus5", "C10", "C10.plus6", (CORE, "effectiveRound := roundReceived + 6", "effectiveRound := roundReceived + 5")),
 M("c10-apply-refused", "C10", "C10.accepted", (CORE, "\t\tif r.Accepted {\n\t\t\tc.logger.WithFields(logrus.Fields{\n\t\t\t\t\"peer\":           txBody.Peer,", "\t\tif r.Accepted || len(receipts) == 1 {\n\t\t\tc.logger.WithFields(logrus.Fields{\n\t\t\t\t\"peer\":           txBody.Peer,")),
 M("c10-remove-adds", "C10", "C10.accepted", (CORE, "\t\t\tcase hg.PEER_REMOVE:\n\t\t\t\tvalidators = validators.WithRemovedPeer(&txBody.Peer)", "\t\t\tcase hg.PEER_REMOVE:\n\t\t\t\tvalidators = validators.WithNewPeer(&txBody.Peer)")),
 M("c10-overwrite-peerset", "C10", "C10.writers", ("src/hashgraph/caches.go", "\tif _, ok := c.peerSets[round]; ok {\n\t\treturn cm.NewStoreErr(\"PeerSetCache\", cm.KeyAlreadyExists, strconv.Itoa(round))\n\t}\n", "\tif _, ok := c.peerSets[round]; ok && round == 0 {\n\t\treturn cm.NewStoreErr(\"PeerSetCache\", cm.KeyAlreadyExists, strconv.Itoa(round))\n\t}\n")),
 M("c10-rpc-sets-peerset", "C10", "C10.writers", (RPC, "\tsuccess := true\n", "\tsuccess := true\n\tn.core.hg.Store.SetPeerSet(n.core.hg.Store.LastRound()+1, n.core.validators)\n")),
 M("c10-lookup-strict", "C10", "C10.lookup", ("src/hashgraph/caches.go", "if round >= c.rounds[i] && round < c.rounds[i+1] {", "if round > c.rounds[i] && round < c.rounds[i+1] {")),
 M("c10-lookup-next-entry", "C10", "C10.lookup", ("src/hashgraph/caches.go", "if round >= c.rounds[i] && round < c.rounds[i+1] {\n\t\t\treturn c.peerSets[c.rounds[i]], nil", "if round >= c.rounds[i] && round < c.rounds[i+1] {\n\t\t\treturn c.peerSets[c.rounds[i+1]], nil")),
 M("c10-unsorted-rounds", "C10", "C10.lookup", ("src/hashgraph/caches.go", "\tc.rounds = append(c.rounds, round)\n\tc.rounds.Sort()\n", "\tc.rounds = append(c.rounds, round)\n")),
 M("c10-witness-nonmember", "C10", "C10.member", (HGF, "\tif _, ok := peerSet.ByPubKey[ex.Creator()]; !ok {\n\t\treturn false, nil\n\t}\n", "\tif _, ok := peerSet.ByPubKey[ex.Creator()]; !ok && xRound == 0 {\n\t\treturn false, nil\n\t}\n")),
 M("c10-frame-peers-prev-round", "C10", "C10.hash", (HGF, "\tpeerSet, err := h.Store.GetPeerSet(roundReceived)\n\tif err != nil {\n\t\treturn nil, err\n\t}\n\n\tevents := []*FrameEvent{}", "\tpeerSet, err := h.Store.GetPeerSet(roundReceived - 1)\n\tif err != nil {\n\t\treturn nil, err\n\t}\n\n\tevents := []*FrameEvent{}")),
 M("c10-hash-over-map", "C10", "C10.hash", ("src/peers/peer_set.go", "\t\tfor _, p := range peerSet.Peers {\n\t\t\tpk := p.PubKeyBytes()", "\t\tfor _, p := range peerSet.ByPubKey {\n\t\t\tpk := p.PubKeyBytes()")),
 M("c10-join-unverified", "C10", "C10.itx", (RPC, "if ok, _ := cmd.InternalTransaction.Verify(); !ok {", "if ok, err := cmd.InternalTransaction.Verify(); !ok && err != nil {")),
 M("c10-validators-stale", "C10", "C10.latest", (CORE, "\tc.validators = peers.NewPeerSet(lastPeers)\n", "\tc.validators = peers.NewPeerSet(frame.Peers)\n\t_ = lastPeers\n")),
 M("c10-loopvar-alias", "C10", "C10.alias", (CORE, "txBody := r.InternalTransaction.Body", "txBody := &r.InternalTransaction.Body")),
 # ---- C11
 M("c11-event-own-txn", "C11", "C11.atomic", ("src/hashgraph/badger_store.go", "\t\tif new {\n\t\t\t//insert [topo_index] => [event hash]\n", "\t\tif new {\n\t\t\tif err := tx.Commit(); err != nil {\n\t\t\t\treturn err\n\t\t\t}\n\t\t\ttx = s.db.NewTransaction(true)\n\t\t\tdefer tx.Discard()\n\t\t\t//insert [topo_index] => [event hash]\n")),
 M("c11-drop-participant-key", "C11", "C11.atomic", ("src/hashgraph/badger_store.go", "\t\t\tpeKey := participantEventKey(event.Creator(), event.Index())\n\t\t\tif err := tx.Set(peKey, []byte(eventHex)); err != nil {\n\t\t\t\treturn err\n\t\t\t}\n", "")),
 M("c11-db-before-cache", "C11", "C11.first", ("src/hashgraph/badger_store.go", "\t// try to add it to the cache\n\tif err := s.inmemStore.SetEvent(event); err != nil {\n\t\treturn err\n\t}\n\n\t// try to add it to the db\n\tif s.maintenanceMode {\n\t\treturn nil\n\t}\n\treturn s.dbSetEvents([]*Event{event})", "\tif !s.maintenanceMode {\n\t\tif err := s.dbSetEvents([]*Event{event}); err != nil {\n\t\t\treturn err\n\t\t}\n\t}\n\treturn s.inmemStore.SetEvent(event)")),
 M("c11-no-maintenance", "C11", "C11.replay", (HGF, "\t\tbadgerStore.SetMaintenanceMode(true)\n", "")),
 M("c11-batch-overlap", "C11", "C11.replay", (HGF, "badgerStore.dbTopologicalEvents(index*batchSize, batchSize)", "badgerStore.dbTopologicalEvents(index*(batchSize-1), batchSize)")),
 M("c11-babbling-without-head", "C11", "C11.head", (NODEF, "\t\tn.coreLock.Lock()\n\t\terr = n.core.setHeadAndSeq()\n\t\tn.coreLock.Unlock()\n\t\tif err != nil {\n\t\t\treturn err\n\t\t}\n\t\tn.transition(_state.Babbling)", "\t\tn.transition(_state.Babbling)")),
 M("c11-head-only-on-error", "C11", "C11.head", (NODEF, "\t\tif err := n.core.setHeadAndSeq(); err != nil {\n\t\t\tn.core.setHeadAndSeq()\n\t\t}\n\t\tn.transition(_state.Babbling)", "\t\tif n.conf.Bootstrap {\n\t\t\tn.core.setHeadAndSeq()\n\t\t}\n\t\tn.transition(_state.Babbling)")),
 # ---- C02
 M("c02-index-not-plus1", "C02", "C02.index", (HGF, "block, err := NewBlockFromFrame(lastBlockIndex+1, frame)", "block, err := NewBlockFromFrame(lastBlockIndex+len(frame.Events), frame)")),
 M("c02-callback-before-setblock", "C02", "C02.index", (HGF, "\t\t\t\tif err := h.Store.SetBlock(block); err != nil {\n\t\t\t\t\treturn err\n\t\t\t\t}\n\n\t\t\t\terr := h.commitCallback(block)\n\t\t\t\tif err != nil {\n\t\t\t\t\th.logger.Warningf(\"Failed to commit block %d\", block.Index())\n\t\t\t\t}", "\t\t\t\terr := h.commitCallback(block)\n\t\t\t\tif err != nil {\n\t\t\t\t\th.logger.Warningf(\"Failed to commit block %d\", block.Index())\n\t\t\t\t}\n\n\t\t\t\tif err := h.Store.SetBlock(block); err != nil {\n\t\t\t\t\treturn err\n\t\t\t\t}")),
 M("c02-continue-on-undecided", "C02", "C02.order", (HGF, "\t\tif !r.Decided {\n\t\t\tbreak\n\t\t}", "\t\tif !r.Decided {\n\t\t\tcontinue\n\t\t}")),
 M("c02-unsorted-set", "C02", "C02.order", ("src/hashgraph/caches.go", "\tc.sortedItems = append(c.sortedItems, pendingRound)\n\tsort.Sort(c.sortedItems)\n", "\tc.sortedItems = append(c.sortedItems, pendingRound)\n")),
 M("c02-less-descending", "C02", "C02.order", ("src/hashgraph/caches.go", "\treturn a[i].Index < a[j].Index", "\treturn a[i].Index > a[j].Index")),
 M("c02-return-on-commit-error", "C02", "C02.once", (HGF, "\t\t\t\t\th.logger.Warningf(\"Failed to commit block %d\", block.Index())\n", "\t\t\t\t\th.logger.Warningf(\"Failed to commit block %d\", block.Index())\n\t\t\t\t\treturn err\n")),
 M("c02-clean-not-deferred", "C02", "C02.once", (HGF, "\tprocessedRounds := []int{}\n\tdefer func() {\n\t\th.PendingRounds.Clean(processedRounds)\n\t}()\n", "\tprocessedRounds := []int{}\n"), (HGF, "\t\tif h.LastConsensusRound == nil || r.Index > *h.LastConsensusRound {\n\t\t\th.setLastConsensusRound(r.Index)\n\t\t}\n\t}\n\n\treturn nil\n}\n\n// GetFrame computes", "\t\tif h.LastConsensusRound == nil || r.Index > *h.LastConsensusRound {\n\t\t\th.setLastConsensusRound(r.Index)\n\t\t}\n\t}\n\n\th.PendingRounds.Clean(processedRounds)\n\treturn nil\n}\n\n// GetFrame computes")),
 M("c02-sigpool-rewrites-body", "C02", "C02.frozen", (HGF, "\t\tblock.SetSignature(bs)\n", "\t\tblock.SetSignature(bs)\n\t\tblock.Body.Timestamp = int64(len(block.Signatures))\n")),
 M("c02-no-restore-after-app", "C02", "C02.persist", (CORE, "\t\tif err := c.hg.Store.SetBlock(block); err != nil {\n\t\t\treturn err\n\t\t}\n\n\t\t// Sign the block", "\t\t// Sign the block")),
 # ---- C05
 M("c05-len-after-insert", "C05", "C05.trim", (CORE, "\ttxs := len(c.transactionPool)\n", ""), (CORE, "\t// do not remove pool elements that were added by CommitCallback\n", "\t// do not remove pool elements that were added by CommitCallback\n\ttxs := len(newHead.Transactions())\n\tif txs > len(c.transactionPool) {\n\t\ttxs = len(c.transactionPool)\n\t}\n")),
 M("c05-trim-all", "C05", "C05.trim", (CORE, "c.transactionPool = c.transactionPool[txs:]", "c.transactionPool = [][]byte{}\n\t_ = txs")),
 M("c05-trim-on-failure", "C05", "C05.trim", (CORE, "\tif err := c.signAndInsertSelfEvent(newHead); err != nil {\n\t\tc.logger.WithError(err).Errorf(\"Error inserting new head\")\n\t\treturn err\n\t}\n", "\tif err := c.signAndInsertSelfEvent(newHead); err != nil {\n\t\tc.logger.WithError(err).Errorf(\"Error inserting new head\")\n\t\tif !hg.IsNormalSelfParentError(err) {\n\t\t\treturn err\n\t\t}\n\t}\n")),
 M("c05-sigs-remove-all", "C05", "C05.trim", (CORE, "c.selfBlockSignatures.RemoveSlice(sigs)", "c.selfBlockSignatures.RemoveSlice(c.selfBlockSignatures.Slice())")),
 M("c05-copy-direct", "C05", "C05.copy", ("src/proxy/inmem/inmem_proxy.go", "\tp.submitCh <- t\n", "\tp.submitCh <- tx\n\t_ = t\n")),
 M("c05-addtx-unlocked", "C05", "C05.lock", (NODEF, "\t\t\tn.logger.Debug(\"Adding Transaction\")\n\t\t\tn.addTransaction(t)", "\t\t\tn.logger.Debug(\"Adding Transaction\")\n\t\t\tn.core.addTransactions([][]byte{t})")),
 M("c05-leave-unlocked", "C05", "C05.lock", (CORE, "\tlock.Lock()\n\tpromise := c.addInternalTransaction(itx)\n\tlock.Unlock()\n", "\tpromise := c.addInternalTransaction(itx)\n\t_ = lock\n")),
 M("c05-eager-sync-unlocked", "C05", "C05.lock", (RPC, "\tn.coreLock.Lock()\n\terr := n.sync(cmd.FromID, cmd.Events)\n\tn.coreLock.Unlock()\n", "\terr := n.sync(cmd.FromID, cmd.Events)\n")),
 M("c05-new-pool-writer", "C05", "C05.writers", (CORE, "func (c *core) busy() bool {\n", "func (c *core) busy() bool {\n\tif len(c.transactionPool) > 10000 {\n\t\tc.transactionPool = c.transactionPool[:10000]\n\t}\n")),
 M("c05-return-on-commit-error", "C05", "C05.once", (HGF, "\t\t\t\t\th.logger.Warningf(\"Failed to commit block %d\", block.Index())\n", "\t\t\t\t\th.logger.Warningf(\"Failed to commit block %d\", block.Index())\n\t\t\t\t\treturn err\n")),
 # ---- C19
 M("c19-sm-no-plus1", "C19", "C19.sm", (PSF, "val := 2*peerSet.Len()/3 + 1", "val := 2 * peerSet.Len() / 3")),
 M("c19-sm-rounding", "C19", "C19.sm", (PSF, "val := 2*peerSet.Len()/3 + 1", "val := (2*peerSet.Len() + 1) / 3")),
 M("c19-sm-ceil", "C19", "C19.sm", (PSF, "val := 2*peerSet.Len()/3 + 1", "val := int(math.Ceil(float64(2*peerSet.Len()) / float64(3)))")),
 M("c19-sm-two-thirds-of-n-plus-1", "C19", "C19.sm", (PSF, "val := 2*peerSet.Len()/3 + 1", "val := 2 * (peerSet.Len() + 1) / 3")),
 M("c19-trust-floor", "C19", "C19.trust", (PSF, "val = int(math.Ceil(float64(peerSet.Len()) / float64(3)))", "val = int(math.Floor(float64(peerSet.Len()) / float64(3)))")),
 M("c19-trust-quarter", "C19", "C19.trust", (PSF, "val = int(math.Ceil(float64(peerSet.Len()) / float64(3)))", "val = int(math.Ceil(float64(peerSet.Len()) / float64(4)))")),
 M("c19-trust-n2-zero", "C19", "C19.trust", (PSF, "if len(peerSet.Peers) > 1 {", "if len(peerSet.Peers) > 2 {")),
 M("c19-use-anchor-ge", "C19", "C19.use", (HGF, "if len(block.Signatures) > peerSet.TrustCount() &&", "if len(block.Signatures) >= peerSet.TrustCount() &&")),
 M("c19-use-round-gt", "C19", "C19.use", (HGF, "\tif c >= parentRoundPeerSet.SuperMajority() {", "\tif c > parentRoundPeerSet.SuperMajority() {")),
 M("c19-use-sm-minus-one", "C19", "C19.use", (HGF, "\treturn c >= peers.SuperMajority(), nil", "\treturn c >= peers.SuperMajority()-1, nil")),
 M("c19-mutable-peerset", "C19", "C19.use", (PSF, "func (peerSet *PeerSet) clearCache() {", "// Add appends a peer in place.\nfunc (peerSet *PeerSet) Add(p *Peer) {\n\tpeerSet.Peers = append(peerSet.Peers, p)\n\tpeerSet.ByPubKey[p.PubKeyString()] = p\n}\n\nfunc (peerSet *PeerSet) clearCache() {")),
 M("c19-with-new-peer-dup", "C19", "C19.use", (PSF, "\tif _, ok := peerSet.ByID[peer.ID()]; !ok {\n\t\tpeers = append(peers, peer)\n\t}", "\tpeers = append(peers, peer)")),
 # ---- C18
 M("c18-all-witnesses", "C18", "C18.prov", (HGF, "\tfor _, fw := range round.FamousWitnesses() {\n\t\tev, err := h.Store.GetEvent(fw)", "\tfor _, fw := range round.Witnesses() {\n\t\tev, err := h.Store.GetEvent(fw)")),
 M("c18-first-not-median", "C18", "C18.rank", (MEDF, "\t\tmedian = s[l/2]\n", "\t\tmedian = s[0]\n")),
 M("c18-no-sort", "C18", "C18.rank", (MEDF, "\tsort.Slice(s, func(i, j int) bool { return s[i] < s[j] })\n", "\t_ = sort.Slice\n")),
 M("c18-descending-upper", "C18", "C18.rank", (MEDF, "\t\tmid := l/2 - 1\n", "\t\tmid := l / 2\n"), (MEDF, "median = (s[mid] + s[mid+1]) / 2", "median = (s[mid] + s[mid-1]) / 2 + s[l-1] - s[l-1]")),
 M("c18-even-off-by-one", "C18", "C18.rank", (MEDF, "\t\tmid := l/2 - 1\n", "\t\tmid := (l+1)/2 - 1\n"), (MEDF, "\t\tmedian = s[l/2]\n", "\t\tmedian = s[(l+1)/2]\n")),
 M("c18-sorts-input", "C18", "C18.rank", (MEDF, "\tsort.Slice(s, func(i, j int) bool { return s[i] < s[j] })\n", "\tsort.Slice(input, func(i, j int) bool { return input[i] < input[j] })\n\tcopy(s, input)\n")),
 M("c18-block-ts-now", "C18", "C18.prov", ("src/hashgraph/block.go", "\t\tframe.Timestamp)\n", "\t\tframe.Timestamp+int64(len(frame.Events)))\n")),
 # ---- C17
 M("c17-eager-when-suspended", "C17", "C17.gate", (RPC, "\t_, isSyncRequest := rpc.Command.(*net.SyncRequest)\n", "\t_, isSyncRequest := rpc.Command.(*net.SyncRequest)\n\tif _, isEager := rpc.Command.(*net.EagerSyncRequest); isEager {\n\t\tisSyncRequest = true\n\t}\n")),
 M("c17-gate-joining-admitted", "C17", "C17.gate", (RPC, "if state := n.GetState(); !(state == _state.Babbling ||", "if state := n.GetState(); !(state == _state.Babbling || state == _state.Joining ||")),
 M("c17-refuse-without-return", "C17", "C17.gate", (RPC, "\t\trpc.Respond(nil, fmt.Errorf(\"Not in Babbling state\"))\n\t\treturn\n", "\t\trpc.Respond(nil, fmt.Errorf(\"Not in Babbling state\"))\n")),
 M("c17-refuse-with-nil-error", "C17", "C17.gate", (RPC, "\t\trpc.Respond(nil, fmt.Errorf(\"Not in Babbling state\"))\n", "\t\tvar gateErr error\n\t\tif state != _state.Suspended {\n\t\t\tgateErr = fmt.Errorf(\"Not in Babbling state\")\n\t\t}\n\t\trpc.Respond(nil, gateErr)\n")),
 M("c17-sync-handler-processes-sigpool", "C17", "C17.readonly", (RPC, "\t//Get Self Known\n\tn.coreLock.Lock()\n\tknownEvents := n.core.knownEvents()\n", "\t//Get Self Known\n\tn.coreLock.Lock()\n\tn.core.processSigPool()\n\tknownEvents := n.core.knownEvents()\n")),
 M("c17-sync-handler-writes-heads", "C17", "C17.readonly", (RPC, "\t//Get Self Known\n\tn.coreLock.Lock()\n\tknownEvents := n.core.knownEvents()\n", "\t//Get Self Known\n\tn.coreLock.Lock()\n\tdelete(n.core.heads, cmd.FromID)\n\tknownEvents := n.core.knownEvents()\n")),
 M("c17-diff-unsorted", "C17", "C17.diff", (CORE, "\tsort.Sort(hg.ByTopologicalOrder(unknown))\n\n\treturn unknown, nil", "\tif len(unknown) > 1000 {\n\t\tsort.Sort(hg.ByTopologicalOrder(unknown))\n\t}\n\n\treturn unknown, nil")),
 M("c17-diff-suffix", "C17", "C17.diff", (RPC, "\t\t\teventDiff = eventDiff[:limit]\n", "\t\t\teventDiff = eventDiff[len(eventDiff)-limit:]\n")),
 M("c17-diff-skip-zero", "C17", "C17.diff", (CORE, "\t\tif !ok {\n\t\t\tct = -1\n\t\t}", "\t\tif !ok {\n\t\t\tct = 0\n\t\t}")),
 M("c17-submit-creates-event", "C17", "C17.submit", (NODEF, "\tn.core.addTransactions([][]byte{tx})\n}", "\tn.core.addTransactions([][]byte{tx})\n\tif len(n.core.transactionPool) > 100 {\n\t\tn.core.addSelfEvent(\"\")\n\t}\n}")),
 M("c17-suspend-no-validator-factor", "C17", "C17.suspend", (NODEF, "tooManyUndeterminedEvents := newUndeterminedEvents > n.conf.SuspendLimit*n.core.validators.Len()", "tooManyUndeterminedEvents := newUndeterminedEvents > n.conf.SuspendLimit*10")),
 M("c17-check-suspend-only-when-gossip", "C17", "C17.suspend", (NODEF, "\t\t\tn.resetTimer()\n\t\t\tn.checkSuspend()\n", "\t\t\tn.resetTimer()\n\t\t\tif gossip {\n\t\t\t\tn.checkSuspend()\n\t\t\t}\n")),
 M("c17-suspend-wait-first", "C17", "C17.suspend", (NODEF, "\t\tn.transition(_state.Suspended)\n\n\t\t// Stop and wait for concurrent operations\n\t\tclose(n.suspendCh)\n\t\tn.WaitRoutines()\n", "\t\t// Stop and wait for concurrent operations\n\t\tclose(n.suspendCh)\n\t\tn.WaitRoutines()\n\n\t\tn.transition(_state.Suspended)\n")),
 # ---- C08 (after the fixes: each guard removed in turn)
 M("c08-hex-no-length-test", "C08", "C08.const", ("src/common/hex.go", "\tif len(hexString) < 2 {\n\t\treturn nil, fmt.Errorf(\"hex string too short\")\n\t}\n", "\tif len(hexString) < 1 {\n\t\treturn nil, fmt.Errorf(\"hex string too short\")\n\t}\n")),
 M("c08-setstring-ok-dropped", "C08", "C08.parse", ("src/crypto/keys/signature.go", "\ts, ok = new(big.Int).SetString(values[1], 36)\n\tif !ok {\n\t\treturn nil, nil, fmt.Errorf(\"invalid S value in signature\")\n\t}\n", "\ts, _ = new(big.Int).SetString(values[1], 36)\n")),
 M("c08-verify-no-r-guard", "C08", "C08.sink", ("src/crypto/keys/signature.go", "if pub == nil || pub.X == nil || pub.Y == nil || r == nil || s == nil {", "if pub == nil || pub.X == nil || pub.Y == nil || s == nil {")),
 M("c08-verify-no-x-guard", "C08", "C08.sink", ("src/crypto/keys/signature.go", "if pub == nil || pub.X == nil || pub.Y == nil || r == nil || s == nil {", "if pub == nil || r == nil || s == nil {")),
 M("c08-limit-not-clamped", "C08", "C08.bounds", (RPC, "\t\tif limit < 0 {\n\t\t\tlimit = 0\n\t\t}\n", "")),
 M("c08-limit-upper-guard-dropped", "C08", "C08.bounds", (RPC, "\t\tif limit < len(eventDiff) {\n\t\t\teventDiff = eventDiff[:limit]\n\t\t}", "\t\tif limit < len(eventDiff) || cmd.SyncLimit > 0 {\n\t\t\teventDiff = eventDiff[:limit]\n\t\t}")),
 M("c08-shape-check-after-use", "C08", "C08.shape", (CORE, "\tif err := checkFastForwardShape(block, frame); err != nil {\n\t\treturn err\n\t}\n\n\tpeerSet := peers.NewPeerSet(frame.Peers)\n", "\tpeerSet := peers.NewPeerSet(frame.Peers)\n\n\tif err := checkFastForwardShape(block, frame); err != nil {\n\t\treturn err\n\t}\n")),
 M("c08-shape-no-core-check", "C08", "C08.shape", (CORE, "if fe == nil || fe.Core == nil || len(fe.Core.Body.Parents) != 2 {", "if fe == nil || len(fe.Core.Body.Parents) != 2 {")),
 M("c08-shape-no-parents-check", "C08", "C08.shape", (CORE, "if fe == nil || fe.Core == nil || len(fe.Core.Body.Parents) != 2 {", "if fe == nil || fe.Core == nil {")),
 M("c08-shape-peersets-unchecked", "C08", "C08.shape", (CORE, "\tfor _, ps := range frame.PeerSets {\n\t\tif err := checkPeers(ps); err != nil {\n\t\t\treturn err\n\t\t}\n\t}\n", "")),
 M("c08-less-ignores-error", "C08", "C08.parse", ("src/hashgraph/event.go", "\tif erri != nil || errj != nil {", "\tif erri != nil && errj != nil {")),
 M("c08-dispatch-undecoded", "C08", "C08.dispatch", ("src/net/net_transport.go", "\tdefault:\n\t\treturn fmt.Errorf(\"unknown rpc type %d\", rpcType)\n\t}\n\n\t// Dispatch the RPC", "\tdefault:\n\t\tn.logger.Debugf(\"unknown rpc type %d\", rpcType)\n\t}\n\n\t// Dispatch the RPC")),
 M("c08-promise-deferred-delete", "C08", "C08.respond", (CORE, "\t\t\tdelete(c.promises, r.InternalTransaction.HashString())\n", "\t\t\tdefer delete(c.promises, r.InternalTransaction.HashString())\n")),
 M("c08-parents-one-element", "C08", "C08.const", (HGF, "\t\tParents:              []string{selfParent, otherParent},", "\t\tParents:              append([]string{selfParent}, otherParent)[:1+len(otherParent)/64],")),
 # ---- C16
 M("c16-getblock-no-fallback", "C16", "C16.readthrough", (BSF, "\tres, err := s.inmemStore.GetBlock(rr)\n\tif err != nil {\n\t\tres, err = s.dbGetBlock(rr)\n\t}", "\tres, err := s.inmemStore.GetBlock(rr)\n\tif err != nil && s.maintenanceMode {\n\t\tres, err = s.dbGetBlock(rr)\n\t}")),
 M("c16-participant-events-cache-only", "C16", "C16.readthrough", (BSF, "\tres, err := s.inmemStore.ParticipantEvents(participant, skip)\n\tif err != nil {\n\t\tres, err = s.dbParticipantEvents(participant, skip)\n\t}\n\treturn res, err", "\tres, err := s.inmemStore.ParticipantEvents(participant, skip)\n\tif err != nil {\n\t\t_, err = s.dbParticipantEvents(participant, skip)\n\t}\n\treturn res, err")),
 M("c16-setblock-skip-unchanged", "C16", "C16.writethrough", (BSF, "\tif err := s.inmemStore.SetBlock(block); err != nil {\n\t\treturn err\n\t}\n", "\tprev, _ := s.inmemStore.GetBlock(block.Index())\n\tif err := s.inmemStore.SetBlock(block); err != nil {\n\t\treturn err\n\t}\n\tif prev != nil && prev.Hex() == block.Hex() {\n\t\treturn nil\n\t}\n")),
 M("c16-setround-error-dropped", "C16", "C16.writethrough", (BSF, "\treturn s.dbSetRound(r, round)", "\ts.dbSetRound(r, round)\n\treturn nil")),
 M("c16-getblock-framekey", "C16", "C16.keys", (BSF, "\tvar blockBytes []byte\n\tkey := blockKey(index)", "\tvar blockBytes []byte\n\tkey := frameKey(index)")),
 M("c16-key-unpadded", "C16", "C16.keys", (BSF, "return []byte(fmt.Sprintf(\"%s_%09d\", topoPrefix, index))", "return []byte(fmt.Sprintf(\"%s_%d\", topoPrefix, index))")),
 M("c16-key-narrow-pad", "C16", "C16.keys", (BSF, "return []byte(fmt.Sprintf(\"%s__event_%09d\", participant, index))", "return []byte(fmt.Sprintf(\"%s__event_%04d\", participant, index))")),
 M("c16-event-plain-unmarshal", "C16", "C16.codec", (BSF, "\tevent := new(Event)\n\tif err := event.UnmarshalDB(eventBytes); err != nil {\n\t\treturn nil, err\n\t}\n\n\treturn event, nil", "\tevent := new(Event)\n\tif err := json.Unmarshal(eventBytes, event); err != nil {\n\t\treturn nil, err\n\t}\n\n\treturn event, nil"), (BSF, "import (\n\t\"fmt\"\n", "import (\n\t\"encoding/json\"\n\t\"fmt\"\n")),
 # ---- C15
 M("c15-new-exported-field", "C15", "C15.wire", (EVF, "\tTimestamp            int64                 // Unix timestamp when Event was created (seconds since January 1st, 1970)\n", "\tTimestamp            int64                 // Unix timestamp when Event was created (seconds since January 1st, 1970)\n\tNonce                uint32                // random nonce\n")),
 M("c15-wire-drops-timestamp", "C15", "C15.wire", (HGF, "\t\tTimestamp:            wevent.Body.Timestamp,\n", "")),
 M("c15-towire-wrong-index", "C15", "C15.wire", (EVF, "\t\t\tIndex:                e.Body.Index,\n", "\t\t\tIndex:                e.Body.selfParentIndex + 1,\n")),
 M("c15-creator-from-other-parent", "C15", "C15.wire", (HGF, "\tcreator, ok := h.Store.RepertoireByID()[wevent.Body.CreatorID]", "\tcreator, ok := h.Store.RepertoireByID()[wevent.Body.OtherParentCreatorID]")),
 M("c15-db-drops-topological", "C15", "C15.db", (EVF, "\te.topologicalIndex = wrapper.TopologicalIndex\n", "")),
 M("c15-db-swapped-coordinates", "C15", "C15.db", (EVF, "\te.lastAncestors = wrapper.LastAncestors\n\te.firstDescendants = wrapper.FirstDescendants\n", "\te.lastAncestors = wrapper.FirstDescendants\n\te.firstDescendants = wrapper.LastAncestors\n")),
 M("c15-exported-hash-cache", "C15", "C15.caches", (EVF, "\tcreator string\n\thash    []byte\n\thex     string\n}", "\tcreator string\n\thash    []byte\n\tHexCache string\n}"), (EVF, "\tif e.hex == \"\" {\n\t\thash, _ := e.Hash()\n\t\te.hex = common.EncodeToString(hash)\n\t}\n\n\treturn e.hex", "\tif e.HexCache == \"\" {\n\t\thash, _ := e.Hash()\n\t\te.HexCache = common.EncodeToString(hash)\n\t}\n\n\treturn e.HexCache")),
 M("c15-hash-cache-written-elsewhere", "C15", "C15.caches", (EVF, "\te.Signature = wrapper.Signature\n", "\te.Signature = wrapper.Signature\n\te.hex = wrapper.Signature\n")),
 M("c15-json-tag-hides-field", "C15", "C15.frame", ("src/hashgraph/frame.go", "\tTimestamp int64                 // unix timestamp (median of round-received famous witnesses)", "\tTimestamp int64 `json:\"-\"`        // unix timestamp (median of round-received famous witnesses)")),
 M("c15-frame-not-canonical", "C15", "C15.frame", ("src/hashgraph/frame.go", "// Marshal returns the JSON encoding of Frame.\nfunc (f *Frame) Marshal() ([]byte, error) {\n\tb := new(bytes.Buffer)\n\tjh := new(codec.JsonHandle)\n\tjh.Canonical = true\n", "// Marshal returns the JSON encoding of Frame.\nfunc (f *Frame) Marshal() ([]byte, error) {\n\tb := new(bytes.Buffer)\n\tjh := new(codec.JsonHandle)\n")),
 # ---- C20
 M("c20-return-nil-after-retries", "C20", "C20.err", (APPC, "\t\tbreak\n\t}\n\treturn err\n}", "\t\tbreak\n\t}\n\tif err != nil && err.Error() == \"rpc timeout\" {\n\t\treturn nil\n\t}\n\treturn err\n}")),
 M("c20-break-on-timeout", "C20", "C20.err", (APPC, "\t\tcase <-time.After(p.timeout):\n\t\t\terr = fmt.Errorf(\"rpc timeout\")\n\t\t\tbreak", "\t\tcase <-time.After(p.timeout):\n\t\t\tp.logger.Debug(fmt.Sprint(\"rpc timeout\"))\n\t\t\tbreak")),
 M("c20-babble-client-ignores-error", "C20", "C20.err", ("src/proxy/socket/babble/socket_babble_proxy_client.go", "\t\t\tp.rpc = nil\n\t\t\tcontinue\n", "\t\t\tp.rpc = nil\n\t\t\terr = nil\n\t\t\tcontinue\n")),
 M("c20-retries-zero", "C20", "C20.err", (APPC, "\t\tretries:    3,\n", "\t\tretries:    0,\n")),
 M("c20-commit-empty-on-error", "C20", "C20.err", (APPC, "\tif err := p.call(\"State.CommitBlock\", block, &commitResponse); err != nil {\n\t\treturn commitResponse, err\n\t}", "\tif err := p.call(\"State.CommitBlock\", block, &commitResponse); err != nil {\n\t\tp.logger.WithError(err).Error(\"CommitBlock\")\n\t\treturn commitResponse, nil\n\t}")),
 M("c20-ack-ignored", "C20", "C20.err", ("src/proxy/socket/babble/socket_babble_proxy.go", "\tif !*ack {\n\t\treturn fmt.Errorf(\"Failed to deliver transaction to Babble\")\n\t}\n", "\t_ = ack\n\t_ = fmt.Sprint\n")),
 M("c20-server-swallows-handler-error", "C20", "C20.pass", ("src/proxy/socket/babble/socket_babble_proxy_server.go", "\t}).Debug(\"BabbleProxyServer.CommitBlock\")\n\n\treturn\n", "\t}).Debug(\"BabbleProxyServer.CommitBlock\")\n\n\treturn nil\n")),
 M("c20-client-sends-copy-without-receipts", "C20", "C20.pass", (APPC, "\tif err := p.call(\"State.CommitBlock\", block, &commitResponse); err != nil {", "\tblock.Body.InternalTransactionReceipts = nil\n\tif err := p.call(\"State.CommitBlock\", block, &commitResponse); err != nil {")),
 M("c20-submit-ack-before-queue", "C20", "C20.pass", ("src/proxy/socket/app/socket_app_proxy_server.go", "\tp.submitCh <- tx\n\n\t*ack = true\n", "\t*ack = true\n\n\tgo func() { p.submitCh <- tx }()\n")),
 M("c20-commitresponse-tagged", "C20", "C20.shape", ("src/proxy/types.go", "\tStateHash                   []byte\n", "\tStateHash                   []byte `json:\"state_hash,omitempty\"`\n")),
 M("c20-transactions-strings", "C20", "C20.shape", ("src/hashgraph/block.go", "\tStateHash                   []byte                       // root hash of the application after applying block payload; to be populated by application Commit\n", "\tStateHash                   []byte                       // root hash of the application after applying block payload; to be populated by application Commit\n\tNote                        string `json:\"-\"`\n")),
 # ---- C01
 M("c01-round-gt", "C01", "C01.thr", (HGF, "\tif c >= parentRoundPeerSet.SuperMajority() {", "\tif c > parentRoundPeerSet.SuperMajority() {")),
 M("c01-fame-gt", "C01", "C01.thr", (HGF, "\t\t\t\t\t\tif math.Mod(float64(diff), COIN_ROUND_FREQ) > 0 {\n\t\t\t\t\t\t\tif t >= jPeerSet.SuperMajority() {", "\t\t\t\t\t\tif math.Mod(float64(diff), COIN_ROUND_FREQ) > 0 {\n\t\t\t\t\t\t\tif t > jPeerSet.SuperMajority() {")),
 M("c01-fame-wrong-peerset", "C01", "C01.pair", (HGF, "\t\t\t\t\t\tif math.Mod(float64(diff), COIN_ROUND_FREQ) > 0 {\n\t\t\t\t\t\t\tif t >= jPeerSet.SuperMajority() {", "\t\t\t\t\t\tif math.Mod(float64(diff), COIN_ROUND_FREQ) > 0 {\n\t\t\t\t\t\t\tif t >= rPeerSet.SuperMajority() {")),
 M("c01-ss-wrong-peerset", "C01", "C01.pair", (HGF, "ss, err := h.stronglySee(y, w, jPrevPeerSet)", "_ = jPrevPeerSet\n\t\t\t\t\t\t\tss, err := h.stronglySee(y, w, jPeerSet)")),
 M("c01-round-set-of-prev-round", "C01", "C01.pair", (HGF, "\tparentRoundPeerSet, err := h.Store.GetPeerSet(parentRound)", "\tparentRoundPeerSet, err := h.Store.GetPeerSet(parentRound + 1)")),
 M("c01-rr-set-of-event-round", "C01", "C01.pair", (HGF, "\t\t\ttPeers, err := h.Store.GetPeerSet(i)", "\t\t\ttPeers, err := h.Store.GetPeerSet(r)")),
 M("c01-strongly-see-strict", "C01", "C01.see", (HGF, "if xlaok && yfdok && xla.Index >= yfd.Index {", "if xlaok && yfdok && xla.Index > yfd.Index {")),
 M("c01-ancestor-strict", "C01", "C01.see", (HGF, "\tres := ok && entry.Index >= ey.Index()", "\tres := ok && entry.Index > ey.Index()")),
 M("c01-merge-keeps-smaller", "C01", "C01.see", (HGF, "if !ok || sla.Index < ola.Index {", "if !ok || sla.Index > ola.Index {")),
 M("c01-decided-reopens", "C01", "C01.fame", ("src/hashgraph/roundInfo.go", "\tif r.decided {\n\t\treturn true\n\t}\n", "")),
 M("c01-fame-redecided", "C01", "C01.fame", (HGF, "\t\t\tif rRoundInfo.IsDecided(x) {\n\t\t\t\tcontinue\n\t\t\t}\n", "")),
 M("c01-coin-round-decides", "C01", "C01.fame", (HGF, "if math.Mod(float64(diff), COIN_ROUND_FREQ) > 0 {", "if math.Mod(float64(diff), COIN_ROUND_FREQ) >= 0 {")),
 M("c01-rr-not-all-famous", "C01", "C01.rr", (HGF, "if len(s) == len(fws) && len(s) >= tPeers.SuperMajority() {", "if len(s) >= tPeers.SuperMajority() {")),
 M("c01-rr-skip-undecided", "C01", "C01.rr", (HGF, "\t\t\t\tif h.roundLowerBound == nil || *h.roundLowerBound < i {\n\t\t\t\t\tbreak\n\t\t\t\t} else {\n\t\t\t\t\tcontinue\n\t\t\t\t}", "\t\t\t\tcontinue")),
 M("c01-rr-from-own-round", "C01", "C01.rr", (HGF, "\t\tfor i := r + 1; i <= h.Store.LastRound(); i++ {\n\t\t\ttr, err := h.Store.GetRound(i)", "\t\tfor i := r; i <= h.Store.LastRound(); i++ {\n\t\t\ttr, err := h.Store.GetRound(i)")),
 M("c01-rr-no-break", "C01", "C01.rr", (HGF, "\t\t\t\t// break out of i loop\n\t\t\t\tbreak\n", "\t\t\t\t// keep looking\n\t\t\t\tcontinue\n")),
 M("c01-rr-see-ignored", "C01", "C01.rr", (HGF, "\t\t\t\tif see {\n\t\t\t\t\ts = append(s, w)\n\t\t\t\t}", "\t\t\t\tif see || len(fws) == 1 {\n\t\t\t\t\ts = append(s, w)\n\t\t\t\t}")),
 M("c01-tiebreak-topological", "C01", "C01.order", (EVF, "\treturn wsi.Cmp(wsj) < 0\n}", "\tif c := wsi.Cmp(wsj); c != 0 {\n\t\treturn c < 0\n\t}\n\treturn a[i].Core.topologicalIndex < a[j].Core.topologicalIndex\n}")),
 M("c01-frame-unsorted", "C01", "C01.order", (HGF, "\tsort.Sort(SortedFrameEvents(events))\n\n\t// Get/Create Roots.", "\tif len(events) > 64 {\n\t\tsort.Sort(SortedFrameEvents(events))\n\t}\n\n\t// Get/Create Roots.")),
 M("c01-continue-on-undecided", "C01", "C01.inorder", (HGF, "\t\tif !r.Decided {\n\t\t\tbreak\n\t\t}", "\t\tif !r.Decided {\n\t\t\tcontinue\n\t\t}")),
 # ---- C04
 M("c04-lamport-no-increment", "C04", "C04.lamport", (HGF, "\treturn plt + 1, nil\n}", "\treturn plt, nil\n}")),
 M("c04-lamport-ignores-other-parent", "C04", "C04.lamport", (HGF, "\t\tif opLT > plt {\n\t\t\tplt = opLT\n\t\t}\n", "\t\t_ = opLT\n")),
 M("c04-lamport-min", "C04", "C04.lamport", (HGF, "\t\tif opLT > plt {\n\t\t\tplt = opLT\n\t\t}\n", "\t\tif opLT < plt && opLT >= 0 {\n\t\t\tplt = opLT\n\t\t}\n")),
 M("c04-sort-descending", "C04", "C04.sort", (EVF, "\t\treturn a[i].LamportTimestamp < a[j].LamportTimestamp", "\t\treturn a[i].LamportTimestamp > a[j].LamportTimestamp")),
 M("c04-sort-tiebreak-first", "C04", "C04.sort", (EVF, "\tif a[i].LamportTimestamp != a[j].LamportTimestamp {", "\tif a[i].LamportTimestamp != a[j].LamportTimestamp && a[i].Core.Signature == a[j].Core.Signature {")),
 M("c04-batch-reverse", "C04", "C04.batch", ("src/hashgraph/block.go", "\tfor _, e := range frame.Events {\n\t\ttransactions = append(transactions, e.Core.Transactions()...)", "\tfor i := len(frame.Events) - 1; i >= 0; i-- {\n\t\te := frame.Events[i]\n\t\ttransactions = append(transactions, e.Core.Transactions()...)")),
 M("c04-batch-skip-witnesses", "C04", "C04.batch", ("src/hashgraph/block.go", "\t\ttransactions = append(transactions, e.Core.Transactions()...)\n", "\t\tif !e.Witness {\n\t\t\ttransactions = append(transactions, e.Core.Transactions()...)\n\t\t}\n")),
 M("c04-frame-events-of-created", "C04", "C04.batch", (HGF, "\tfor _, eh := range round.ReceivedEvents {\n\t\tre, err := h.createFrameEvent(eh)", "\tfor eh := range round.CreatedEvents {\n\t\tre, err := h.createFrameEvent(eh)")),
 M("c04-keep-received", "C04", "C04.once", (HGF, "\t\tif !received {\n\t\t\tnewUndeterminedEvents = append(newUndeterminedEvents, x)\n\t\t}", "\t\tif !received || h.PendingLoadedEvents > 0 {\n\t\t\tnewUndeterminedEvents = append(newUndeterminedEvents, x)\n\t\t}")),
 M("c04-divide-rounds-requeues", "C04", "C04.once", (HGF, "\t\tif updateEvent {\n\t\t\th.Store.SetEvent(ev)\n\t\t}", "\t\tif updateEvent {\n\t\t\th.Store.SetEvent(ev)\n\t\t} else if ev.roundReceived != nil {\n\t\t\th.UndeterminedEvents = append(h.UndeterminedEvents, hash)\n\t\t}")),
 M("c04-return-on-commit-error", "C04", "C04.roundonce", (HGF, "\t\t\t\t\th.logger.Warningf(\"Failed to commit block %d\", block.Index())\n", "\t\t\t\t\th.logger.Warningf(\"Failed to commit block %d\", block.Index())\n\t\t\t\t\treturn err\n")),
]

BENIGN = [
 B("c07-benign-reorder-checks", "C07", (HGF, "\terr := h.checkSelfParent(event)\n", "\tif err := h.checkOtherParent(event); err != nil {\n\t\treturn err\n\t}\n\terr := h.checkSelfParent(event)\n")),
 B("c07-benign-helper", "C07", (HGF, "\terr := h.checkSelfParent(event)\n", "\terr := h.checkParents(event)\n"),
   (HGF, "//Check if we know the OtherParent\n", "func (h *Hashgraph) checkParents(event *Event) error {\n\tif err := h.checkSelfParent(event); err != nil {\n\t\treturn err\n\t}\n\treturn h.checkOtherParent(event)\n}\n\n//Check if we know the OtherParent\n"),
   (HGF, "\tif err := h.checkOtherParent(event); err != nil {\n\t\th.logger.WithFields(logrus.Fields{\n\t\t\t\"event\":        event.Hex(),\n\t\t\t\"creator\":      event.Creator(),\n\t\t\t\"other_parent\": event.OtherParent(),\n\t\t}).WithError(err).Errorf(\"CheckOtherParent\")\n\t\treturn err\n\t}\n", "")),
 B("c07-benign-swap-operands", "C07", (HGF, "selfParentLegit := selfParent == creatorLastKnown", "selfParentLegit := creatorLastKnown == selfParent"), (HGF, "if event.Index() != selfParentEvent.Index()+1 {", "if selfParentEvent.Index()+1 != event.Index() {")),
 B("c12-benign-bytes-equal", "C12", (CORE, "if !reflect.DeepEqual(block.FrameHash(), frameHash) {", "if !bytes.Equal(block.FrameHash(), frameHash) {"), (CORE, "import (\n\t\"fmt\"\n\t\"reflect\"\n", "import (\n\t\"bytes\"\n\t\"fmt\"\n")),
 B("c12-benign-gt-form", "C12", (HGF, "\tif validSignatures <= peerSet.TrustCount() {\n\t\treturn fmt.Errorf(\"Not enough valid signatures: got %d, need %d\", validSignatures, peerSet.TrustCount())\n\t}\n\n\th.logger.WithField(\"valid_signatures\", validSignatures).Debug(\"CheckBlock\")\n\treturn nil", "\tif validSignatures > peerSet.TrustCount() {\n\t\th.logger.WithField(\"valid_signatures\", validSignatures).Debug(\"CheckBlock\")\n\t\treturn nil\n\t}\n\treturn fmt.Errorf(\"Not enough valid signatures: got %d, need %d\", validSignatures, peerSet.TrustCount())")),
 B("c09-benign-negated-compare", "C09", (HGF, "if len(block.Signatures) > peerSet.TrustCount() &&", "if !(len(block.Signatures) <= peerSet.TrustCount()) &&")),

 B("c10-benign-six-first", "C10", (CORE, "effectiveRound := roundReceived + 6", "effectiveRound := 6 + roundReceived")),
 B("c10-benign-if-chain", "C10", (CORE, "\t\t\tswitch txBody.Type {\n\t\t\tcase hg.PEER_ADD:", "\t\t\tswitch {\n\t\t\tcase txBody.Type == hg.PEER_ADD:"), (CORE, "\t\t\tcase hg.PEER_REMOVE:", "\t\t\tcase txBody.Type == hg.PEER_REMOVE:")),
 B("c02-benign-index-var", "C02", (HGF, "block, err := NewBlockFromFrame(lastBlockIndex+1, frame)", "nextIndex := 1 + lastBlockIndex\n\t\t\tblock, err := NewBlockFromFrame(nextIndex, frame)")),
 B("c02-benign-less-swapped", "C02", ("src/hashgraph/caches.go", "\treturn a[i].Index < a[j].Index", "\treturn a[j].Index > a[i].Index")),
 B("c11-benign-batchsize", "C11", (HGF, "batchSize := 100", "batchSize := 250")),

 B("c05-benign-defer-unlock", "C05", (RPC, "\tn.coreLock.Lock()\n\terr := n.sync(cmd.FromID, cmd.Events)\n\tn.coreLock.Unlock()\n", "\terr := func() error {\n\t\tn.coreLock.Lock()\n\t\tdefer n.coreLock.Unlock()\n\t\treturn n.sync(cmd.FromID, cmd.Events)\n\t}()\n")),
 B("c05-benign-locals-renamed", "C05", (CORE, "\ttxs := len(c.transactionPool)\n", "\tnTx := len(c.transactionPool)\n"), (CORE, "c.transactionPool = c.transactionPool[txs:]", "c.transactionPool = c.transactionPool[nTx:]")),

 B("c19-benign-sm-n-minus", "C19", (PSF, "val := 2*peerSet.Len()/3 + 1", "val := peerSet.Len() - (peerSet.Len()-1)/3")),
 B("c19-benign-sm-local", "C19", (PSF, "val := 2*peerSet.Len()/3 + 1", "n := peerSet.Len()\n\t\tval := n*2/3 + 1")),
 B("c19-benign-trust-int", "C19", (PSF, "val = int(math.Ceil(float64(peerSet.Len()) / float64(3)))", "val = (peerSet.Len() + 2) / 3\n\t\t\t_ = math.Pi")),
 B("c19-benign-no-memo", "C19", (PSF, "\tif peerSet.superMajority == nil {\n\t\tval := 2*peerSet.Len()/3 + 1\n\t\tpeerSet.superMajority = &val\n\t}\n\treturn *peerSet.superMajority", "\treturn 2*peerSet.Len()/3 + 1")),
 B("c19-benign-swapped-cmp", "C19", (HGF, "\tif c >= parentRoundPeerSet.SuperMajority() {", "\tif parentRoundPeerSet.SuperMajority() <= c {")),

 B("c18-benign-sort-ints", "C18", (MEDF, "\tsort.Slice(s, func(i, j int) bool { return s[i] < s[j] })\n", "\tsort.Slice(s, func(a, b int) bool { return s[b] > s[a] })\n")),
 B("c18-benign-half-var", "C18", (MEDF, "\t\tmedian = s[l/2]\n", "\t\th := (l - 1) / 2\n\t\tmedian = s[h]\n")),

 B("c17-benign-switch-gate", "C17", (RPC, "\tif state := n.GetState(); !(state == _state.Babbling ||\n\t\t(state == _state.Suspended && isSyncRequest)) {\n", "\tstate := n.GetState()\n\tadmitted := false\n\tswitch {\n\tcase state == _state.Babbling:\n\t\tadmitted = true\n\tcase state == _state.Suspended && isSyncRequest:\n\t\tadmitted = true\n\t}\n\tif !admitted {\n")),
 B("c17-benign-gt-swapped", "C17", (NODEF, "tooManyUndeterminedEvents := newUndeterminedEvents > n.conf.SuspendLimit*n.core.validators.Len()", "tooManyUndeterminedEvents := n.core.validators.Len()*n.conf.SuspendLimit < newUndeterminedEvents")),

 B("c08-benign-guards-split", "C08", ("src/crypto/keys/signature.go", "\tif pub == nil || pub.X == nil || pub.Y == nil || r == nil || s == nil {\n\t\treturn false\n\t}\n", "\tif pub == nil || r == nil || s == nil {\n\t\treturn false\n\t}\n\tif pub.X == nil || pub.Y == nil {\n\t\treturn false\n\t}\n")),
 B("c08-benign-limit-reject", "C08", (RPC, "\t\tif limit < 0 {\n\t\t\tlimit = 0\n\t\t}\n", "\t\tif !(limit >= 0) {\n\t\t\tlimit = 0\n\t\t}\n")),
 B("c08-benign-hex-prefix-check", "C08", ("src/common/hex.go", "\tif len(hexString) < 2 {", "\tif !(len(hexString) >= 2) {")),

 B("c16-benign-wider-pad", "C16", (BSF, "return []byte(fmt.Sprintf(\"%s_%09d\", roundPrefix, index))", "return []byte(fmt.Sprintf(\"%s_%012d\", roundPrefix, index))")),
 B("c16-benign-early-maintenance", "C16", (BSF, "\tif err := s.inmemStore.SetFrame(frame); err != nil {\n\t\treturn err\n\t}\n\n\tif s.maintenanceMode {\n\t\treturn nil\n\t}\n\treturn s.dbSetFrame(frame)", "\tif err := s.inmemStore.SetFrame(frame); err != nil {\n\t\treturn err\n\t}\n\n\tif !s.maintenanceMode {\n\t\tif err := s.dbSetFrame(frame); err != nil {\n\t\t\treturn err\n\t\t}\n\t}\n\treturn nil")),

 B("c15-benign-new-unexported-cache", "C15", (EVF, "\tcreator string\n\thash    []byte\n\thex     string\n}", "\tcreator string\n\thash    []byte\n\thex     string\n\n\tseenAt int64\n}")),
 B("c15-benign-literal-order", "C15", (HGF, "\t\tIndex:                wevent.Body.Index,\n\t\tTimestamp:            wevent.Body.Timestamp,\n", "\t\tTimestamp:            wevent.Body.Timestamp,\n\t\tIndex:                wevent.Body.Index,\n")),

 B("c20-benign-loop-form", "C20", (APPC, "\tfor try := 0; try < p.retries; try++ {", "\tfor try := 1; try <= p.retries; try++ {"), (APPC, "try+1, p.retries, err)\n\t\t\tcontinue\n\t\t}\n\n\t\tcall :=", "try, p.retries, err)\n\t\t\tcontinue\n\t\t}\n\n\t\tcall :=")),

 B("c01-benign-swapped-quorum", "C01", (HGF, "\tif c >= parentRoundPeerSet.SuperMajority() {", "\tif !(c < parentRoundPeerSet.SuperMajority()) {")),
 B("c01-benign-rr-conjuncts-swapped", "C01", (HGF, "if len(s) == len(fws) && len(s) >= tPeers.SuperMajority() {", "if len(s) >= tPeers.SuperMajority() && len(fws) == len(s) {")),
 B("c04-benign-skip-empty", "C04", ("src/hashgraph/block.go", "\t\ttransactions = append(transactions, e.Core.Transactions()...)\n", "\t\tif len(e.Core.Transactions()) > 0 {\n\t\t\ttransactions = append(transactions, e.Core.Transactions()...)\n\t\t}\n")),
 B("c04-benign-lamport-swapped", "C04", (HGF, "\t\tif opLT > plt {\n\t\t\tplt = opLT\n\t\t}\n", "\t\tif plt < opLT {\n\t\t\tplt = opLT\n\t\t}\n")),
]
