#!/bin/bash
# seeds_all.sh : applies every kept seeded change to /repo in turn (undone straight afterwards) and runs the
# quick check(s) of the property it breaks; prints caught / MISSED per seed. Not part of any registered command.
cd "$(dirname "$0")"
for d in seeded/*/; do
  id=$(basename "$d")
  props=$(python3 -c "
import json,re,sys
m=json.load(open('$d/meta.json'))
ps=[m['property']]+re.findall(r'C\d\d', m.get('detected_by',''))
print(' '.join(dict.fromkeys(ps)))")
  out=$(./seedcheck.sh "$d" $props 2>&1)
  if echo "$out" | grep -q '^VIOLATION'; then
    rules=$(echo "$out" | grep -o 'rule=[A-Za-z0-9.]*' | sort -u | tr '\n' ' ')
    echo "caught  $id  by $rules"
  else
    echo "MISSED  $id  ($props): $(echo "$out" | head -2 | tr '\n' ' ')"
  fi
done
